#!/usr/bin/env python3
"""mkmanifest — writes MANIFEST.json from the table below (kept in one place so it stays valid)."""
import json, os, subprocess
V = os.path.dirname(os.path.dirname(os.path.abspath(__file__)))

CLAIMED = {
 'C20': dict(
    text='Machine-checked theorems (Coq 8.16) over a model of gr_str_to_tag / gr_tag_to_str / zeropad for ALL C strings and ALL '
         '32-bit tags: value = big-endian of the first min(4,len) bytes, no read beyond the NUL (checked reads on the exact region), '
         'exactly four stores, inverse both ways, padding equivalence.  The model is tied to the source on every run: zeropad and '
         'the script strip are re-translated from the C++ (clang AST -> Gallina) and proved equal to the model, and the extracted '
         'model is run against the ASan/UBSan build of the working tree on exact-size / guard-page buffers.',
    note='Trusted: Coq kernel; tools/cxx2v.py+gen_src.py translator; extraction (ExtrOcamlBasic only) + OCaml driver; harness '
         'impl_tag.cpp; g++/ASan.  Print Assumptions: closed under the global context for every theorem.  The script tag is not '
         'observable through the API (Face::chooseSilf ignores it): tie A only.',
    technique='Coq proof over hand model + translator-regenerated definitions (tie A) + differential correspondence (tie B)',
    design='6/C20'),
}
ALL = ['C%02d' % i for i in range(1, 21)]
NOT_YET = 'not claimed yet: model and proofs under construction (see DESIGN.md section 5 staging); no check is registered so nothing is asserted'

def main():
    hooks_commits = []
    hp = os.path.join(V, 'hooks_commits.txt')
    if os.path.exists(hp):
        hooks_commits = [l.split()[0] for l in open(hp) if l.strip() and not l.startswith('#')]
    checks = []
    for pid in ALL:
        if pid not in CLAIMED:
            continue
        c = CLAIMED[pid]
        checks.append(dict(property_id=pid,
                           quick_cmd='python3 tools/vcheck.py %s --tier quick' % pid,
                           thorough_cmd='python3 tools/vcheck.py %s --tier thorough' % pid,
                           evidence_file='evidence/%s.json' % pid,
                           replay_cmd_template='python3 tools/vcheck.py %s --replay {path}' % pid,
                           engine='vcheck',
                           level_claimed=dict(category='proof', text=c['text'], design_ref='DESIGN.md section ' + c['design']),
                           level_note=c['note'], technique=c['technique']))
    m = dict(version=1,
             setup_cmd='python3 tools/setup.py',
             hooks=dict(guard='GRAPHITE2_VERIF',
                        enable='checks compile /repo/src/*.cpp themselves with -DGRAPHITE2_VERIF (tools/vlib.py build_impl); the cmake build in /repo/_build leaves it off',
                        baseline_off_cmd='cmake --build /repo/_build && ctest --test-dir /repo/_build -j8 --timeout 900',
                        source_commits=hooks_commits, add_only=True),
             engines=[dict(name='vcheck', path='tools/vcheck.py', serves_properties=[c['property_id'] for c in checks],
                           kind_free_text='Coq 8.16 proofs over Gallina models; tie A: definitions regenerated from /repo by tools/gen_src.py; '
                                          'tie B: OCaml-extracted model vs ASan/UBSan build of the working tree on generated cases')],
             checks=checks,
             notes='See DESIGN.md. known_findings.txt lists recorded and fixed defects.',
             not_applicable=[dict(property_id=p, reason=NOT_YET) for p in ALL if p not in CLAIMED])
    with open(os.path.join(V, 'MANIFEST.json'), 'w') as f:
        json.dump(m, f, indent=1)
    try:
        import jsonschema
        jsonschema.validate(m, json.load(open('/root/.vp/MANIFEST.schema.json')))
        print('MANIFEST valid;', len(checks), 'checks')
    except ImportError:
        print('jsonschema not available; written')

if __name__ == '__main__':
    main()
