#!/usr/bin/env python3
"""mkmanifest — writes MANIFEST.json from the table below (kept in one place so it stays valid)."""
import json, os, subprocess
V = os.path.dirname(os.path.dirname(os.path.abspath(__file__)))

CLAIMED = {
 'C01': dict(
    text='Theorems for ARBITRARY bytes: (1) the file face (FileFace ctor, get_table_fn, TtfUtil::GetTableInfo) hands out only slices of the file - offset + length inside the file - and reads only the 12-byte '
         'header and num_tables 16-byte entries; (2) cmap format 4 / 12 lookups never read outside the table once the subtable checks accepted; (3) the LZ4 decoder of compressed tables stays inside both '
         'buffers and terminates; (4) bytecode the loader accepts never underflows the stack or runs off its end; (5) the Gloc / Glat reader, the class map reader, the pass header arithmetic and the Silf table '
         'directory and subtable headers (Face::readGraphite / Silf::readGraphite, including the directory loop that reads entry i without testing the table length) never read outside the table, and every accepted Silf header has its '
         'attribute numbers below numAttrs, ordered pass numbers and pass slices inside the subtable.  Tie B (two-sided, the loader\'s own error codes included, for the Silf headers; per-glyph attribute values for Glat): compiled and hand-laid-out tables, valid and damaged field by field, through the real readers.  Also: synthetic sfnt files (table counts 0..41, offsets and lengths at / past the end, '
         '32-bit extremes, truncation anywhere) through the real FileFace and the extracted container model, table by table; the cmap / lz4 / VM models are tied by the C13 / C14 / C07 checks.  Oracle: the '
         'historical single-byte crashers of tests/fuzz-tests plus byte-mutated, directory-mutated and truncated copies of the shipped fonts x option bits 0..7 x {file, callbacks}: make, every gr_face_* / '
         'gr_fref_* / gr_featureval_* query, destroy, under ASan+UBSan, LeakSanitizer after every case, watchdog.  On every pass whose header arithmetic is accepted, the reads that build the state machine\'s tables lie inside the pass (C01_pass_tables_read_in_bounds: the two pass models meet).',
    note='partial: the rest of the pass parser (code loading beyond the bytecode model), the name parser and the octabox reader are not modelled; their memory safety, termination and leak freedom are decided by sanitizers on explored inputs.',
    technique='Coq proof (slice containment for the container; bounds safety of cmap, lz4, bytecode loader on arbitrary bytes) over hand models + differential correspondence on FileFace + sanitizer oracle over mutated fonts',
    design='6/C01'),
 'C02': dict(
    text='Theorems over the control skeleton of the rule loop of Pass::runGraphite and the insert budget of Silf::runGraphite: (1) every run of the loop in which the measure '
         '"slots from the high-water mark to the end + remaining insert budget" never increases and decreases at each reset makes at most maxloop*(mu0+1) iterations (potential '
         'maxloop*mu+lc, induction over the observation sequence); (2) whatever is inserted and deleted, the stream never exceeds 65 slots per initial slot and a run whose end-of-pass '
         'test succeeds leaves at most 64 (invariant n + budget <= 65*n0); (3) inserts + remaining budget = initial budget; (4) graphite2::sparse (the glyph-attribute store): whatever pairs it was built from, operator[] reads inside its array for every 16-bit key; (5) the reference rule loop (cursor adjustment, high-water mark, counter, INSERT paid from budget and slot pool, DELETE, machine death) produces only accepted observation sequences, hence terminates within maxloop*(|l|+budget+1) iterations and respects the growth cap; (6) the finite state machine of a pass: the tables the loader builds from ARBITRARY pass bytes are well formed when accepted, and over well-formed tables Pass::runFSM from any slot of any glyph string indexes no table out of bounds, pushes at most MAX_SLOTS slots and accumulates at most MAX_RULES rules; (7) the recursion of Slot::finalise / floodShift is cut off 101 links deep.  Tie A: sparse SIZEOF_CHUNK, MAX_SEG_GROWTH_FACTOR, maxSize initialisation, '
         'end-of-pass test, INSERT budget test, decMax, maxRuleLoop clamp, reset condition, depth cut-offs regenerated from the source.  Tie B: hooks report every loop iteration '
         '(measure, counter, reset, cursor) and every insert/delete/pass-end; the extracted acceptors must admit each trace (this monitors the hypothesis of (1) on the real engine) and the '
         'iteration count must respect the bound; the real sparse class against the extracted model on random pair lists and keys.  Oracle: make / query-everything / destroy under ASan+UBSan+LSan with a watchdog, n_slots <= 64*n_chars, over shipped fonts x texts x '
         'encodings x dir 0..7 x features x ppm, byte-mutated fonts accepted by the real loader, and adversarial rule bytecode accepted by the real loader.',
    note='partial: memory safety / UB / leaks are decided by sanitizers on explored inputs, not proved; the loop theorem abstracts rule effects to the monitored measure instead of deriving '
         'it from the opcode semantics for arbitrary fonts (the reference loop covers the GDL-lite subset); class lookup and collision code are covered by the oracle only.',
    technique='Coq proof (potential-function bound on the rule loop, budget invariant) + constants regenerated from source + per-iteration trace acceptance via hooks + sanitizer oracle over mutated fonts',
    design='6/C02'),
 'C03': dict(
    text='Theorems over a list-level model of EVERY primitive that edits a segment (append, INSERT, DELETE, PUT_COPY, TEMP_COPY, free, attach/detach, '
         'ASSOC, reverseSlots, associateChars, linkClusters): for arbitrary operation sequences - whatever rules, bytecode and text produce them - the '
         'stream never contains a slot twice, and reversal keeps exactly the same slots.  The tie is trace refinement: GRAPHITE2_VERIF hooks make the '
         'real library emit its operation trace; the extracted model replays it and must agree with a snapshot of the real pointer structure (walked '
         'and consistency-checked by the harness) after every pass and at the end - on texts over all 16 shipped fonts and on thousands of adversarial '
         'accepted action programs run by the real loader and interpreter.  The property\'s clauses are also evaluated directly on the API output.',
    note='PARTIAL: index permutation, finiteness and the gid clause are not proved (model-computed indices are compared; oracle checks the rest). The '
         'model is list-level: that pointer manipulations implement the list operations is checked on snapshots, not proved. Trusted: Coq kernel; hooks '
         '(add-only) + harness abstraction function; extraction + driver; ASan/UBSan.',
    technique='Coq proof (invariant preserved by every primitive, lifted over arbitrary op sequences) + trace-refinement correspondence via source hooks + structural oracle',
    design='6/C03'),
 'C04': dict(
    text='Same model and trace-refinement tie as C03, extended with parents and child chains: do_attach mirrors the count<100 / foundOther decision and the '
         'decision itself is compared with the implementation\'s; PUT_COPY / TEMP_COPY / freeSlot / detach mirror Slot::child, sibling, removeChild.  '
         'Proved: the parent relation never closes a cycle under ANY sequence of appends, insertions, deletions, associations, reversals, associateChars, '
         'attachments (accepted, refused, re-attachments, ancestor-to-descendant attempts) and detachments - setAttr(gr_slatAttTo) refuses exactly the cycle-closing attachments; attachment operations '
         'never disturb the stream invariant.  The remaining forest clauses (child chains consistent, single base chain) are evaluated on the API output of every case and through snapshot '
         'agreement, including adversarial mutually-attaching programs and compiled positioning passes.',
    note='PARTIAL: the copying operations (PUT_COPY, TEMP_COPY, freeSlot) are outside the acyclicity theorem (they need child-chain consistency, not proved).  One genuine defect is '
         'recorded as a known finding (ghost slot after DELETE of a temp-copied attached slot).',
    technique='Coq proof (acyclicity invariant over arbitrary non-copying op sequences; cycle refusal of attach) over list-level model + trace-refinement correspondence via source hooks + forest oracle on API output',
    design='6/C04'),
 'C05': dict(
    text='Theorem: for a segment of n > 0 characters, after ANY sequence of primitive operations every slot\'s before / after / original lie in [0, n) '
         '(ASSOC with arbitrary references, insertion at either end, copies, associateChars extension included); char-infos of canonical text are the '
         'characters with their code-unit offsets (from the text-reading model).  After associateChars a char-info never has just one side set (a character whose slot was deleted without ASSOC takes both '
         'from the neighbouring slot): the former refutation witness was replayed on the real engine with a compiled GDL-lite font and repaired by a fix: commit.  Tie and oracle as C03, plus compiled '
         'rule programs (FontKit) that insert, delete without re-association and substitute; the model computes '
         'associateChars (char-info before/after and slot range extension) and the results are compared with the implementation on every case.  The narrowest width of the association fields of Slot and CharInfo is regenerated from the headers (C05_association_fields_hold_every_index); single segments of more than 65536 characters are shaped.',
    note='PARTIAL: coverage of every character by some slot range and before/after < n_slots are not proved (compared + oracle).',
    technique='Coq proof (range invariant over all op sequences; char-info sides lemma) + trace-refinement correspondence + oracle over shipped and compiled fonts',
    design='6/C05'),
 'C06': dict(
    text='Theorems over an executable reference semantics of a pass (GDL-lite: rules = pattern of glyph sets with uniform pre-context, per-item actions put_glyph / put_subs / delete / insert / advance / '
         'shift, cursor after the window): the rule that fires is a rule of the pass, matches, and no matching rule has higher precedence (longer sort key, then earlier rule); no rule fires iff none '
         'matches; where none matches the stream passes through unchanged; a pass terminates within length+1 steps; passes compose in font order.  Tie B: random rule programs are compiled by a GDL-lite '
         'compiler written for this check (FSM by subset construction over overlapping glyph sets, action bytecode, Silf v2 layout, grafted on a shipped font) and the REAL engine shapes random glyph '
         'strings with them; glyph ids, advances and design-unit origins must equal the extracted reference exactly (12,000 program x string pairs per thorough run).',
    note='partial: GDL-lite v1 has no rule constraints, no cursor adjustment (ret = 0), no attachments and only substitution passes; pass constraints, cntxt_item, feature / attribute tests, positioning and '
         'bidi / mirroring are outside.  The compiler is trusted only in the sense that a wrong compilation shows as a disagreement.',
    technique='Coq proof (selection = maximum of the precedence order over matching rules, pass-through, termination, composition) over hand-written reference semantics + differential correspondence through compiled fonts on the real engine',
    design='6/C06'),
 'C07': dict(
    text='Theorems over a model of the bytecode loader (decoder with its stack-depth analysis) and the interpreter loop for opcodes 0x00-0x18, '
         '0x30-0x32, 0x3E-0x41: (1) for EVERY expression tree with 32-bit constants that fits the stack, the loader accepts its postfix bytecode '
         'and running it returns exactly the value of the tree under the opcode specification on int32 (signed compares, 0/1 logic, signed '
         'min/max, truncating division dying cleanly on 0 and INT_MIN/-1); (2) whatever the loader accepts never underflows the stack and '
         'reaches a return.  Tie A: enum opcode, opcode_table.h (parameter sizes, action/constraint availability), the names in doc/OpCodes.adoc, '
         'STACK_MAX and MAX_OPCODE are regenerated from the source and checked against the model by kernel evaluation.  Tie B: the extracted model '
         'vs Machine::Code + Machine::run in BOTH interpreter builds (direct- and call-threaded) under ASan/UBSan over a boundary lattice for every '
         'opcode, random trees, stack-limit programs and random byte strings; Python reference of the spec as oracle; the two builds compared case by case.',
    note='Trusted: Coq kernel (vm_compute for the finite table check); gen_src; extraction + driver; harness impl_vm.cpp; Python reference; g++/ASan/UBSan. '
         'Opcodes outside the subset are declined by the model.  The two builds share opcodes.h: their agreement is differential, not proved.  Two '
         'findings repaired by fix: commits (UB in NEG; opcode document numbering of BitOr/BitAnd).',
    technique='Coq proof (compiler-correctness style induction over expression trees; loader invariant) + regenerated opcode tables (tie A) + differential correspondence in two builds (tie B)',
    design='6/C07'),
 'C08': dict(
    text='Theorems over a model of the only state a face keeps between calls, the lazily filled glyph cache (GlyphCache::glyph and both constructors; the table reader is an oracle, i.e. any pure function of the '
         'immutable tables): after ANY history of lookups a lookup returns what it returns on the freshly made face; every lookup of every history is the cache-free function spec; both constructors establish '
         'the invariant.  Tie B: the model, instantiated with the glyph table read from a preloaded face, predicts every GlyphCache::glyph answer of random lookup histories (before and after shaping) on lazy '
         'and preloaded faces.  Oracle on the API: a probe gr_make_seg + face report after a random history of other calls (segments, destroys, fonts, feature values, labels, linebreaks, justifications, the '
         'same call earlier) equals the probe on a fresh face; the face report is unchanged by use.',
    note='partial: that per-call state (Segment, SlotMap, Machine, FSM) is created afresh inside gr_make_seg is checked by the API leg, not proved; the lazily created name table is the one-cell instance of the '
         'same scheme and is covered by the API leg (labels) only.',
    technique='Coq proof (memoisation invariant: cache is a subset of the graph of the loader; lifted over arbitrary histories) + cache correspondence + history-independence differential on the API',
    design='6/C08'),
 'C09': dict(
    text='Theorems over the glyph-cache model: a cache built by gr_face_preloadGlyphs has dropped its loader and is never written - under ANY schedule of lookups by any number of threads every lookup returns '
         'the single-threaded answer and the cache is left exactly as it was (reads commute).  Tie B: glyph-cache correspondence.  Oracle on the real library built with ThreadSanitizer: 2-8 threads shape, '
         'query and destroy on one shared cold preloadAll face and shared unhinted fonts; no race report, no table callback after gr_make_face, every result equal to the single-threaded one from a '
         'separate face.  Liveness of the oracle is recorded by running the same workload on lazy faces (races expected, not judged).',
    note='partial: the model cannot exhibit the memory model; data-race freedom is decided dynamically by TSan on the schedules the OS produced.  Cmap cache, Silf tables, feature map and name table are '
         'immutable after construction by inspection and by the TSan runs, not by proof.',
    technique='Coq proof (read-only state => schedule independence) over hand model + ThreadSanitizer runs of concurrent shapers with result comparison',
    design='6/C09'),
 'C10': dict(
    text='Theorems over the glyph-cache model: a preloaded and a lazily filled cache answer every history of lookups alike, both with the cache-free function; preloading fails exactly when a glyph is '
         'unreadable (the "well-formed font" proviso).  Cached vs direct character maps: C13.  Tie B: glyph-cache correspondence on lazy and preloaded faces.  Oracle on the API: the same call sequence '
         '(face report, segments, labels, value labels, justification) on faces made with every option bit combination 0..7 from the file and from table callbacks: every result compared.',
    note='partial: file vs callback faces and the dumbRendering bit are covered by the differential only.',
    technique='Coq proof (preloaded = lazy = spec for all histories) over hand model + cache correspondence + 16-variant differential on the API',
    design='6/C10'),
 'C11': dict(
    text='Theorems (Coq 8.16) over a model of the three UTF codecs and count_unicode_chars, for ALL buffers: the bounded form never reads '
         'outside [begin,end) and the NUL-terminated form nothing beyond the first NUL (checked reads; validate() is shown to dominate '
         'every continuation read); every scalar < 0x110000 round-trips (exhaustive kernel evaluation over the finite code space); exact '
         'count with no error on canonical text; error at the first ill-formed sequence with count = well-formed prefix; error pointer '
         'inside the buffer; resynchronisation skips continuation bytes only; the three encodings decode to the same characters.  Tied '
         'to the source by regenerated tables (tie A) and by running the extracted model against the ASan build on ~100k buffers incl. '
         'all UTF-8 strings of <= 2 bytes (tie B), with an independent reference decoder as oracle.',
    note='Trusted: Coq kernel incl. vm_compute (two exhaustive sweeps of 0x110000 code points); extraction + OCaml driver; harness '
         'impl_utf.cpp; ASan.  Well-formedness is structural (surrogate code points in UTF-8/32 are accepted by the library; DESIGN 7/F9). '
         'get/validate themselves are hand-modelled (reference out-parameters are outside the translator subset): tie B only.',
    technique='Coq proof (induction + finite sweep by vm_compute) over hand model; regenerated tables (tie A); differential correspondence (tie B)',
    design='6/C11'),
 'C12': dict(
    text='Theorems over the model of process_utf_data: on memory holding exactly the text and its terminating NUL unit, for every nChars '
         'the reader never traps (no unit beyond the NUL is read) and yields exactly the first nChars characters of the full decode - one '
         'char-info per character consumed; on canonical text the characters and code-unit offsets are the text\'s.  All three encodings, '
         'all texts, all nChars.  Tie B: gr_make_seg on buffers allocated exactly to the terminator under ASan vs the extracted model.',
    note='Trusted: as C11.  The defect found by this check (F3: no NUL test in process_utf_data) was repaired by a fix: commit; the model '
         'follows the repaired code.',
    technique='Coq proof (induction over text, generic in the codec) over hand model; differential correspondence (tie B) under ASan',
    design='6/C12'),
 'C13': dict(
    text='Theorems over a byte-level model of FindCmapSubtable / CheckCmapSubtable4,12 / CmapSubtable4,12Lookup,NextCodepoint and the cache fill '
         'loop: (1) the fill loop terminates for ANY iteration/lookup functions, hence any table bytes; (2) for arbitrary bytes accepted by the '
         'Check functions the format-4 binary search and format-12 scan never read outside the table, for every code point and key; (3) cached = '
         'direct on every code point up to the limit given the NextCodepoint/Lookup interface (keys valid, only unmapped code points skipped) - '
         'PARTIAL: the interface facts for the concrete format-4/12 functions are not proved, they are exercised differentially.  Tie B: the '
         'extracted model (array-backed reads) vs DirectCmap/CachedCmap on a bare Face under ASan for hundreds of synthesised well-formed and '
         'malformed cmaps at every boundary code point, with an independent OpenType reference as oracle; API level: all 0x110000 code points of '
         'shipped fonts, direct vs cached vs an independent parser.  The pseudo-glyph fallback (Silf::findPseudo and its callers in the text reader and gr_face_is_char_supported) is modelled: the cmap\'s answer stands when non-zero, otherwise the glyph listed for that code point of any plane, 0 when none (C13_pseudo_*, C13_supported_iff); the shape of those functions is regenerated (Gen/GenPseudo.v) and the supported-though-unmapped code points of fonts with pseudo maps (shipped, and with entries moved beyond the BMP) go through the extracted model.',
    note='Trusted: Coq kernel; extraction + driver (array accessor); harness impl_cmap.cpp; Python cmap generator / reference; ASan.  Not proved: '
         'lookup4 = OpenType spec (binary search correctness) and iteration completeness - covered by tie B and the exhaustive per-font sweeps only. '
         'Two defects found were repaired (fix: commits): last code point of a range / code point 1 never cached; BMP taken from format 12.',
    technique='Coq proof (loop invariant, termination measure, bounds) over hand model + differential correspondence and exhaustive per-font sweep with reference oracle',
    design='6/C13'),
 'C14': dict(
    text='Theorem over a faithful array model of lz4::decompress (suffix cursor for the input, checked block reads/writes on an output array, '
         'overrun_copy storing whole machine words): for ARBITRARY input bytes, output size and initial output content the decoder never reads '
         'outside the input nor reads/writes outside the announced output size, and terminates; whatever it accepts is the byte-wise reference '
         'decoding of the block (soundness), and every reference encoding within the block format\'s end-of-block margins is accepted and decoded to '
         'its data (completeness); Face::Table::decompress (announced size, scheme, version word) is modelled on top of it: writes inside the '
         'announced size, sizes below 4 refused before any write, accepted tables are the reference decoding.  Constants, align() and sizeof(unsigned long) '
         'are regenerated from the header (tie A); the extracted model is run against the ASan build on valid encodings (greedy/random/overlapping/'
         '255-chains), output/input size +-1, guard-targeted mutants, boundary blocks and garbage tails, with an independent strict reference '
         'decoder as oracle for exactness and completeness (tie B).',
    note='Trusted: Coq kernel; cxx2v/gen_src; extraction + driver; harness impl_lz4.cpp; Python encoder/reference decoder used as oracle; ASan. '
         'Two defects found by this check were repaired by fix: commits (match-length wrap, lenient tail). Exactness w.r.t. the reference is '
         'proved for accepted blocks (C14_decoder_sound) and for encodings within the margins (C14_decoder_complete); blocks outside the margins are the recorded finding; '
         'Face::Table is tied two-sidedly over generated tables; font-level transparency by compressed twins of the Awami test font.',
    technique='Coq proof (safety invariant, soundness and completeness of the decoder loop against a reference decoder; table-level caller) over hand models; translator-regenerated constants/align (tie A); differential correspondence + reference-decoder oracle (tie B)',
    design='6/C14'),
 'C16': dict(
    text='Theorems: (1) soundness of the ledger acceptor - a trace of get_table / release_table / milestone events that it accepts satisfies the discipline in declarative form: every buffer handed out '
         'is released exactly once, never before its get, identifiers are never reused, the trace ends with gr_face_destroy or a failed gr_make_face with nothing outstanding and nothing after it, and '
         'with gr_face_preloadAll get_table is not called at all (not even for absent tables) once gr_make_face has returned; (2) local contracts of Face::Table, the only place where the library touches '
         'the callbacks: the constructor owns the buffer or has handed it back on every path (absent, failing CheckTable, plain, lz4 ok, lz4 failing), release gives back exactly the owned buffer once, '
         'moved-from objects are inert.  Tie B: programs over real Face::Table objects against the extracted life-cycle model (state after every operation); callback logs of random API call sequences '
         '(all option sets, well-formed and corrupted fonts, every query, any owner-respecting destruction order) through the extracted ledger.  Oracle: buffers are fresh copies freed at release '
         '(use after release = ASan error); LeakSanitizer is queried after every case.',
    note='partial: "never dereferenced afterwards" and "holds no allocation" are decided by ASan/LSan on explored sequences; the whole-library claim (every Table user) rests on the ledger check of real logs, '
         'not on a proof over Face / GlyphCache / Cmap code.',
    technique='Coq proof (ledger acceptor soundness by multiset accounting over arbitrary traces; Face::Table contracts) + differential correspondence on real Face::Table + ledger acceptance of real callback logs under ASan/LSan',
    design='6/C16'),
 'C17': dict(
    text='Theorems over an exact-integer model of graphite2::Zones (src/Intervals.cpp: insert with its four overlap cases, remove, exclude, exclude_with_margins, weighted, '
         'test_position): for initialise followed by ANY operation sequence the interval list stays sorted, disjoint, well-formed and inside [_pos,_posm] (and free of empty intervals '
         'on zones of non-zero width); a weighted insert keeps exactly the same positions on offer; no operation ever adds a position; a position strictly inside an excluded range is '
         'never offered again (zones of non-zero width); closest() answers inside an interval however the float division rounds; the unrestricted exclusion statement is REFUTED '
         '(zero-width zone).  Limit clause: the range bounds of the four axes and the shift arithmetic of ShiftCollider::initSlot / resolve are REGENERATED from src/Collider.cpp by an expression '
         'translator (tie A) and the theorem is proved over them: with a well-formed limit and the glyph inside it, every position of every axis range maps to offset + shift inside the limit rectangle, '
         'and the four ranges are well-formed zones.  Tie B: the same operation sequences on the real Zones class (component harness) and the extracted model, full list (bounds, weights, open flag) compared '
         'after every operation; the real ShiftCollider driven (initSlot, everything but a sliver at one end of one axis excluded, resolve) and its answer checked against the limit rectangle.  Oracle on the '
         'implementation: sortedness, bounds, excluded ranges, closest answers; collision fonts end to end under ASan/UBSan.  The clamp of the kerning path (KernCollider::resolve, regenerated with the two stores of KernCollider::initSlot) keeps offset + kern inside the limit rectangle\'s x range for any needed kern (C17_kern_limit_respected); the real KernCollider is driven as Pass::resolveKern drives it.',
    note='partial: the interval-set and limit clauses are proved (over integer coordinates; the arithmetic is affine/min so the reals behave alike, float rounding is outside).  The resolved-verdict clause '
         '(no octabox overlap) is decided by a geometric oracle on the real ShiftCollider (initSlot / mergeSlot / resolve over random glyph pairs and arrangements), not proved; KernCollider and the '
         'sequence-order regions are exercised end to end on the Awami fonts under sanitizers only.  Two known findings (zero-width zones; reach test ignoring the target extent).',
    technique='Coq proof (sortedness/disjointness invariant over arbitrary op sequences, coverage monotonicity, exclusion permanence, refutation witness) over hand model + differential correspondence on the real class + oracle',
    design='6/C17'),
 'C18': dict(
    text='Theorems over the model of the FeatureRef constructor and applyValToFeature/getFeatureVal: set succeeds iff v <= largest setting; every '
         'accepted Feat table (any number of features, any maxima < 2^32) gets well-formed, pairwise DISJOINT bit fields; after a successful set the '
         'feature reads back v and every other feature is unchanged for any vector contents (hence any operation history); failure produces nothing; '
         'language 0 / unknown -> defaults, known -> its Sill vector, space- and zero-padded tags alike.  Tie A: storage limit, chunk width and the '
         'width of m_index regenerated from the source.  Tie B: extracted model vs the real loaders (Face::readFeatures on a bare Face) and the gr_* API '
         'on synthesised Feat/Sill/name tables with read-back of ALL features after every step, plus malformed tables; reference oracle in Python.  The map laws are also proved with the identity of the feature map a Features object belongs to (several faces, unbound maps from gr_featureval_clone(NULL)): a write succeeds iff in range and the map is unbound or the writer\'s, only a successful write binds, a refusal changes nothing; the harness runs a second face over the same tables.',
    note='Trusted: Coq kernel; gen_src; extraction + driver; harness impl_feat.cpp; Python generators/reference; ASan.  Labels (name table) are checked '
         'by the oracle only.  One face only (map compatibility test not modelled); duplicate feature ids not generated (qsort order unspecified). '
         'Two defects repaired by fix: commits (byte index aliasing; first name record).',
    technique='Coq proof (bit-level field lemmas, allocation invariant by induction) over hand model; regenerated constants (tie A); differential correspondence with reference oracle (tie B)',
    design='6/C18'),
 'C15': dict(
    text='Theorems over an exact-arithmetic model of Slot::finalise (attachment tree walk, depth cut-off, cluster minimum, flood shift) and the base loop of '
         'Segment::positionSlots: for every attachment forest and every positive integer scale k, every slot origin, the cluster results and the segment advance '
         'computed at scale k are exactly k times the design-unit ones (homogeneity by induction over depth), the set and order of positioned slots is scale-free, '
         'and any two sizes are proportional.  Tie: the harness reads the design-unit inputs of finalise out of the real slots and the extracted model must reproduce '
         'the real origins and advance digit for digit at font = NULL, 2*upem and 3*upem (where float arithmetic is exact).  Oracle on the API: font = NULL vs unhinted '
         'fonts of arbitrary ppm in (0,4096] - identical glyph ids, attachments, associations; origins, advances, segment advance proportional within 2e-5 of the largest '
         'coordinate; also after gr_seg_justify with proportional widths.  The bodies of gr_slot_advance_X / _Y are regenerated (tie A): with an unhinted font the reported advance is the font = NULL value times the scale, with or without a face (C15_slot_advance_scales).',
    note='partial: theorems cover integer scales (exact in floats); single-precision rounding at other sizes is only bounded differentially.  Segments whose stream was '
         'reversed again after positioning (requested direction differs from the font\'s) and segments with fractional collision offsets are checked by the oracle only.',
    technique='Coq proof (homogeneity of final positioning by induction over the attachment tree) over hand model + exact-scale correspondence + proportionality oracle on the API',
    design='6/C15'),
 'C19': dict(
    text='Theorems over a list-level model of gr_slot_linebreak_before, the segment-global reverseSlots and the first/last bracket of Segment::justify: '
         '(1) any sequence of cuts and justify calls that triggers no reversal leaves every slot in place (lines are only ever split where cut); '
         '(2) a reversal is sound exactly under its precondition (m_last is the end of the chain headed by m_first): it permutes that line only; '
         '(3) the unconditional statement is REFUTED (vm_compute witness: cut, then reversal runs with a stale m_last).  Tie: hooks record linebreak / '
         'reverse / set-ends events; the extracted model replays them against per-line snapshots and must agree whenever no reversal is expected.  Oracle: '
         'after every call each line is the same well-formed chain (same slots, order, prev inverse), origins and width finite, destroy succeeds (ASan).',
    note='Two genuine defects are recorded as known findings, classified by trigger (direction differs from the font\'s; direction flags 2/4/6 used as bool); '
         'violations outside those trigger classes are reported.  Sentinel line ends (silf flags & 1) and the numeric justification itself are not modelled.',
    technique='Coq proof (preservation without reversal, soundness under precondition, refutation witness) + trace-refinement correspondence via hooks + per-line oracle',
    design='6/C19'),
 'C20': dict(
    text='Machine-checked theorems (Coq 8.16) over a model of gr_str_to_tag / gr_tag_to_str / zeropad for ALL C strings and ALL '
         '32-bit tags: value = big-endian of the first min(4,len) bytes, no read beyond the NUL (checked reads on the exact region), '
         'exactly four stores, inverse both ways, padding equivalence.  The model is tied to the source on every run: zeropad and '
         'the script strip are re-translated from the C++ (clang AST -> Gallina) and proved equal to the model, and the extracted '
         'model is run against the ASan/UBSan build of the working tree on exact-size / guard-page buffers.  The keys gr_face_find_fref and gr_face_featureval_for_lang look up are regenerated from their bodies (zero-pad, one lookup): the space- and the zero-padded spelling of a tag select the same feature / language in every Feat / Sill table (C20_feature_padding, C20_language_padding); gr_face_find_fref is asked every feature id of five fonts and of a crafted Feat table in all spellings.',
    note='Trusted: Coq kernel; tools/cxx2v.py+gen_src.py translator; extraction (ExtrOcamlBasic only) + OCaml driver; harness '
         'impl_tag.cpp; g++/ASan.  Print Assumptions: closed under the global context for every theorem.  The script tag is not '
         'observable through the API (Face::chooseSilf ignores it): tie A only.',
    technique='Coq proof over hand model + translator-regenerated definitions (tie A) + differential correspondence (tie B)',
    design='6/C20'),
}
ALL = ['C%02d' % i for i in range(1, 21)]
NOT_YET = 'not claimed yet: model and proofs under construction (see DESIGN.md section 5 staging); no check is registered so nothing is asserted'

def main():
    hooks_commits = []
    hp = os.path.join(V, 'hooks_commits.txt')
    if os.path.exists(hp):
        hooks_commits = [l.split()[0] for l in open(hp) if l.strip() and not l.startswith('#')]
    checks = []
    for pid in ALL:
        if pid not in CLAIMED:
            continue
        c = CLAIMED[pid]
        checks.append(dict(property_id=pid,
                           quick_cmd='python3 tools/vcheck.py %s --tier quick' % pid,
                           thorough_cmd='python3 tools/vcheck.py %s --tier thorough' % pid,
                           evidence_file='evidence/%s.json' % pid,
                           replay_cmd_template='python3 tools/vcheck.py %s --replay {path}' % pid,
                           engine='vcheck',
                           level_claimed=dict(category='proof', text=c['text'], design_ref='DESIGN.md section ' + c['design']),
                           level_note=c['note'], technique=c['technique']))
    m = dict(version=1,
             setup_cmd='python3 tools/setup.py',
             hooks=dict(guard='GRAPHITE2_VERIF',
                        enable='checks compile /repo/src/*.cpp themselves with -DGRAPHITE2_VERIF (tools/vlib.py build_impl); the cmake build in /repo/_build leaves it off',
                        baseline_off_cmd='cmake --build /repo/_build && ctest --test-dir /repo/_build -j8 --timeout 900',
                        source_commits=hooks_commits, add_only=True),
             engines=[dict(name='vcheck', path='tools/vcheck.py', serves_properties=[c['property_id'] for c in checks],
                           kind_free_text='Coq 8.16 proofs over Gallina models; tie A: definitions regenerated from /repo by tools/gen_src.py; '
                                          'tie B: OCaml-extracted model vs ASan/UBSan build of the working tree on generated cases')],
             checks=checks,
             notes='See DESIGN.md. known_findings.txt lists recorded and fixed defects.',
             not_applicable=[dict(property_id=p, reason=NOT_YET) for p in ALL if p not in CLAIMED])
    with open(os.path.join(V, 'MANIFEST.json'), 'w') as f:
        json.dump(m, f, indent=1)
    try:
        import jsonschema
        jsonschema.validate(m, json.load(open('/root/.vp/MANIFEST.schema.json')))
        print('MANIFEST valid;', len(checks), 'checks')
    except ImportError:
        print('jsonschema not available; written')

if __name__ == '__main__':
    main()
