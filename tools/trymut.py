#!/usr/bin/env python3
"""trymut — development helper: apply a patch (or a python-style replace) to /repo, run checks, undo.
   usage: trymut.py <patch.diff | file::old::new> <Cxx> [<Cxx> ...]"""
import subprocess, sys, os, glob
spec, pids = sys.argv[1], sys.argv[2:]
V = os.path.dirname(os.path.dirname(os.path.abspath(__file__)))
if '::' in spec:
    f, old, new = spec.split('::')
    p = os.path.join('/repo', f)
    s = open(p).read()
    assert s.count(old) >= 1, 'pattern not found'
    open(p, 'w').write(s.replace(old, new, 1))
else:
    subprocess.check_call(['git', '-C', '/repo', 'apply', spec])
try:
    print(subprocess.run(['git', '-C', '/repo', 'diff', '--stat'], capture_output=True, text=True).stdout)
    for pid in pids:
        r = subprocess.run(['python3', os.path.join(V, 'tools/vcheck.py'), pid], capture_output=True, text=True, cwd=V)
        print(pid, 'exit', r.returncode)
        print('\n'.join(l for l in r.stdout.splitlines() if 'VIOLATION' in l or 'KNOWN' in l or 'proofs' in l))
        for l in r.stdout.splitlines():
            if l.startswith('VIOLATION'):
                rp = l.split('replay=')[1].split()[0]
                print(open(rp).read()[:1200])
                break
finally:
    subprocess.check_call(['git', '-C', '/repo', 'checkout', '--', '.'])
    for f in glob.glob(os.path.join(V, 'replays', '*')):
        os.remove(f)
