#!/usr/bin/env python3
"""vcheck — single entry point of the /verif checks.
   python3 tools/vcheck.py <Cxx> [--tier quick|thorough] [--replay <path>]
   exit 0: property held on everything explored; exit 1 + 'VIOLATION property=<id> replay=<path>' otherwise."""
import sys, os, argparse, importlib, traceback, json
sys.path.insert(0, os.path.dirname(os.path.abspath(__file__)))
import vlib


def main():
    ap = argparse.ArgumentParser()
    ap.add_argument('pid')
    ap.add_argument('--tier', default=os.environ.get('VERIF_TIER', 'quick'))
    ap.add_argument('--replay', default=None)
    a = ap.parse_args()
    tier = a.tier if a.tier in ('quick', 'thorough') else 'quick'
    try:
        seed = int(os.environ.get('VERIF_SEED', '20260925'))
    except ValueError:
        seed = 20260925
    mod = importlib.import_module('props.' + a.pid.lower())
    chk = vlib.Check(a.pid, tier, seed, keep_replays=bool(a.replay))
    try:
        if a.replay:
            rc = mod.replay(chk, json.load(open(a.replay)))
            sys.exit(rc)
        mod.run(chk)
    except vlib.BuildError as e:
        # the tree (or the machinery against it) no longer builds: nothing is shown
        chk.tie_break('build', str(e)[:3000])
    except Exception:
        chk.tie_break('machinery', traceback.format_exc()[-3000:])
    sys.exit(chk.finish())


if __name__ == '__main__':
    main()
