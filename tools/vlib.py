#!/usr/bin/env python3
"""Shared machinery for the /verif checks (see DESIGN.md sections 2, 4.5, 10).

  * builds the implementation from /repo's *working tree* (sanitized static archives)
  * regenerates coq/Gen/*.v from the source (tie A) via gen_src.py
  * re-checks the Coq proofs for one property and parses Print Assumptions
  * builds the OCaml-extracted model driver and the C++ harness of a component
  * verdict logic, evidence writer, known-findings file, replay files
"""
import fcntl, hashlib, json, os, re, shutil, subprocess, sys, time, random
from concurrent.futures import ThreadPoolExecutor

VERIF = os.path.dirname(os.path.dirname(os.path.abspath(__file__)))
REPO = os.environ.get('VERIF_REPO', '/repo')
BUILD = os.path.join(VERIF, 'build')
COQ = os.path.join(VERIF, 'coq')
GUARD = 'GRAPHITE2_VERIF'
NCPU = os.cpu_count() or 4

SAN_FLAGS = {
    'asan': ['-O0', '-g', '-fsanitize=address,undefined', '-fno-sanitize-recover=all', '-fno-omit-frame-pointer'],
    'asan1': ['-O1', '-g', '-fsanitize=address,undefined', '-fno-sanitize-recover=all', '-fno-omit-frame-pointer'],
    'tsan': ['-O1', '-g', '-fsanitize=thread', '-fno-omit-frame-pointer'],
    'plain': ['-O1', '-g'],
}
BASE_FLAGS = ['-std=c++11', '-DGRAPHITE2_NTRACING', '-DGRAPHITE2_STATIC', '-D' + GUARD,
              '-fno-rtti', '-fno-exceptions', '-w',
              '-I' + os.path.join(REPO, 'include'), '-I' + os.path.join(REPO, 'src')]

ALLOWED_AXIOMS = {
    # standard-library axioms that may appear (named in DESIGN.md section 8); none is expected.
    'functional_extensionality_dep', 'proof_irrelevance', 'JMeq_eq', 'classic', 'eq_rect_eq',
    'FunctionalExtensionality.functional_extensionality_dep', 'Eqdep.Eq_rect_eq.eq_rect_eq',
    'ClassicalFacts.proof_irrelevance', 'Classical_Prop.classic', 'JMeq.JMeq_eq',
}
FORBIDDEN = re.compile(r'\b(Admitted|admit|Axiom|Axioms|Parameter|Parameters|Conjecture|Admit Obligations|bypass_check)\b'
                       r'|Unset\s+Guard|Unset\s+Positivity|Unset\s+Universe|type-in-type|impredicative-set')


def log(*a):
    print(*a, flush=True)


class Lock:
    def __init__(self, name='global'):
        os.makedirs(BUILD, exist_ok=True)
        self.path = os.path.join(BUILD, '.lock-' + name)

    def __enter__(self):
        self.f = open(self.path, 'w')
        fcntl.flock(self.f, fcntl.LOCK_EX)
        return self

    def __exit__(self, *a):
        fcntl.flock(self.f, fcntl.LOCK_UN)
        self.f.close()


def run(cmd, timeout=None, cwd=None, inp=None, env=None):
    t0 = time.time()
    try:
        p = subprocess.run(cmd, cwd=cwd, input=inp, stdout=subprocess.PIPE, stderr=subprocess.PIPE,
                           timeout=timeout, env=env)
        return p.returncode, p.stdout, p.stderr, time.time() - t0
    except subprocess.TimeoutExpired as e:
        return -9, e.stdout or b'', (e.stderr or b'') + b'\nTIMEOUT', time.time() - t0


# ---------------------------------------------------------------- source tree

def repo_files():
    out = []
    for d in ('src', 'src/inc', 'include/graphite2'):
        p = os.path.join(REPO, d)
        for f in sorted(os.listdir(p)):
            fp = os.path.join(p, f)
            if os.path.isfile(fp) and f.endswith(('.cpp', '.h')):
                out.append(fp)
    return out


def src_hash():
    h = hashlib.sha256()
    for fp in repo_files():
        h.update(fp.encode())
        with open(fp, 'rb') as f:
            h.update(f.read())
    return h.hexdigest()[:16]


def prune_builds(keep):
    """keep disk usage bounded: only the impl builds of the current tree stay"""
    if not os.path.isdir(BUILD):
        return
    for d in os.listdir(BUILD):
        if d.startswith('impl-') and not d.startswith('impl-' + keep):
            shutil.rmtree(os.path.join(BUILD, d), ignore_errors=True)


def build_impl(machine='direct', san='asan', extra=()):
    """Compile /repo/src/*.cpp (working tree) into a static archive.  Returns dir or raises."""
    h = src_hash()
    tag = 'impl-%s-%s-%s' % (h, machine, san) + (('-' + hashlib.md5(' '.join(extra).encode()).hexdigest()[:6]) if extra else '')
    d = os.path.join(BUILD, tag)
    lib = os.path.join(d, 'libgr.a')
    with Lock('impl'):
        if os.path.exists(lib):
            return d
        prune_builds(h)
        os.makedirs(d, exist_ok=True)
        srcs = [f for f in sorted(os.listdir(os.path.join(REPO, 'src'))) if f.endswith('.cpp')]
        other = 'call_machine.cpp' if machine == 'direct' else 'direct_machine.cpp'
        srcs = [s for s in srcs if s not in (other, 'json.cpp')]
        flags = BASE_FLAGS + SAN_FLAGS[san] + list(extra)

        def cc(s):
            o = os.path.join(d, s[:-4] + '.o')
            rc, so, se, _ = run(['g++'] + flags + ['-c', os.path.join(REPO, 'src', s), '-o', o], timeout=600)
            return s, rc, se.decode(errors='replace')
        with ThreadPoolExecutor(NCPU) as ex:
            res = list(ex.map(cc, srcs))
        bad = [(s, e) for s, rc, e in res if rc != 0]
        if bad:
            shutil.rmtree(d, ignore_errors=True)
            raise BuildError('implementation does not compile: %s\n%s' % (bad[0][0], bad[0][1][:2000]))
        objs = [os.path.join(d, s[:-4] + '.o') for s in srcs]
        rc, so, se, _ = run(['ar', 'rcs', lib + '.tmp'] + objs)
        if rc != 0:
            raise BuildError('ar failed: ' + se.decode())
        os.rename(lib + '.tmp', lib)
    return d


class BuildError(Exception):
    pass


def build_harness(name, impl_dir, san='asan', extra=(), srcs=None):
    """Compile harness/<name>.cpp against the archive in impl_dir."""
    src = os.path.join(VERIF, 'harness', name + '.cpp')
    allsrc = [src] + [os.path.join(VERIF, 'harness', s) for s in (srcs or [])]
    hh = hashlib.sha256()
    for s in allsrc + [os.path.join(VERIF, 'harness', f) for f in sorted(os.listdir(os.path.join(VERIF, 'harness'))) if f.endswith('.h')]:
        hh.update(open(s, 'rb').read())
    hh.update(' '.join(extra).encode())
    exe = os.path.join(impl_dir, 'h_%s_%s' % (name, hh.hexdigest()[:10]))
    with Lock('harness-' + name):
        if os.path.exists(exe):
            return exe
        flags = BASE_FLAGS + SAN_FLAGS[san] + list(extra) + ['-I' + os.path.join(VERIF, 'harness')]
        rc, so, se, _ = run(['g++'] + flags + allsrc + [os.path.join(impl_dir, 'libgr.a'), '-lpthread', '-o', exe + '.tmp'], timeout=600)
        if rc != 0:
            raise BuildError('harness %s does not compile against the current tree:\n%s' % (name, se.decode(errors='replace')[:3000]))
        os.rename(exe + '.tmp', exe)
    return exe


SAN_ENV = dict(os.environ, ASAN_OPTIONS='detect_leaks=1:abort_on_error=0:exitcode=99:allocator_may_return_null=1',
               UBSAN_OPTIONS='halt_on_error=1:exitcode=99:print_stacktrace=1', LSAN_OPTIONS='exitcode=99')


# ---------------------------------------------------------------- Coq side

def ensure_makefile():
    mk = os.path.join(COQ, 'Makefile')
    cp = os.path.join(COQ, '_CoqProject')
    if not os.path.exists(mk) or os.path.getmtime(mk) < os.path.getmtime(cp):
        rc, so, se, _ = run(['coq_makefile', '-f', '_CoqProject', '-o', 'Makefile'], cwd=COQ)
        if rc != 0:
            raise BuildError('coq_makefile failed: ' + se.decode())


def regen_gen():
    """tie A: regenerate coq/Gen/*.v from /repo's working tree (rewritten only on change)."""
    import gen_src
    return gen_src.generate(REPO, os.path.join(COQ, 'Gen'))


def coq_make(targets, timeout=1500):
    """Full .vo build of the given targets (never -vos).  Returns (ok, log)."""
    with Lock('coq'):
        ensure_makefile()
        rc, so, se, dt = run(['make', '-k', '-j%d' % NCPU] + list(targets), cwd=COQ, timeout=timeout)
    return rc == 0, (so + se).decode(errors='replace')


def coq_failed_files(mklog):
    return sorted(set(re.findall(r'File "\./([^"]+)", line \d+, characters [^\n]*\nError', mklog)) |
                  set(re.findall(r'\*\*\* \[[^\]]*?:\s*\d+:\s*([^\]]+?)\.vo\]', mklog)))


def check_property_file(pid, deps_ok=True, timeout=900):
    """Re-compile Properties/Properties_<pid>.v directly to capture Print Assumptions output.
    Returns dict(obligations, discharged, assumptions, theorems, ok, log)."""
    pf = 'Properties/Properties_%s.v' % pid
    src = open(os.path.join(COQ, pf)).read()
    names = re.findall(r'^\s*Print Assumptions\s+([A-Za-z0-9_\.\']+)\s*\.', src, re.M)
    theorems = re.findall(r'^\s*(?:Theorem|Corollary)\s+([A-Za-z0-9_\']+)', src, re.M)
    res = dict(file=pf, theorems=theorems, obligations=len(names), discharged=0, assumptions={}, ok=False, log='')
    missing = [t for t in theorems if t not in names]
    if missing:
        res['log'] = 'theorems without Print Assumptions: %s' % missing
        return res
    with Lock('coq'):
        rc, so, se, dt = run(['coqc', '-Q', '.', 'GR', pf], cwd=COQ, timeout=timeout)
    out = so.decode(errors='replace')
    res['log'] = (out + se.decode(errors='replace'))[-6000:]
    if rc != 0:
        return res
    # split output per Print Assumptions in order
    blocks = re.split(r'(?=Closed under the global context|Axioms:)', out)
    blocks = [b for b in blocks if b.startswith('Closed under') or b.startswith('Axioms:')]
    if len(blocks) != len(names):
        res['log'] += '\nPrint Assumptions blocks %d != %d' % (len(blocks), len(names))
        return res
    ok = True
    for n, b in zip(names, blocks):
        if b.startswith('Closed'):
            res['assumptions'][n] = []
            res['discharged'] += 1
        else:
            ax = re.findall(r'^([A-Za-z0-9_\.\']+)\s*:', b[len('Axioms:'):], re.M)
            res['assumptions'][n] = ax
            if all(a in ALLOWED_AXIOMS or a.split('.')[-1] in ALLOWED_AXIOMS for a in ax):
                res['discharged'] += 1
            else:
                ok = False
    res['ok'] = ok and res['discharged'] == res['obligations'] and res['obligations'] > 0
    return res


def grep_forbidden():
    bad = []
    for root, _, files in os.walk(COQ):
        for f in files:
            if f.endswith('.v'):
                p = os.path.join(root, f)
                txt = open(p).read()
                txt2 = re.sub(r'\(\*.*?\*\)', '', txt, flags=re.S)
                for m in FORBIDDEN.finditer(txt2):
                    bad.append('%s: %s' % (os.path.relpath(p, COQ), m.group(0)))
    for f in ('_CoqProject',):
        txt = open(os.path.join(COQ, f)).read()
        if re.search(r'type-in-type|impredicative-set|-vos|-noinit', txt):
            bad.append('_CoqProject: forbidden flag')
    return bad


def build_model_driver(comp):
    """Extract (ExtrOcamlBasic only) and compile ocaml/driver_<comp>.ml.  Returns exe path."""
    ext = os.path.join(COQ, 'Extract', 'Extract%s.v' % comp)
    drv = os.path.join(VERIF, 'ocaml', 'driver_%s.ml' % comp.lower())
    d = os.path.join(BUILD, 'ocaml', comp.lower())
    os.makedirs(d, exist_ok=True)
    ok, mlog = coq_make(['Extract/Extract%s.vo' % comp])
    if not ok:
        raise BuildError('extraction of %s failed:\n%s' % (comp, mlog[-3000:]))
    with Lock('ocaml-' + comp):
        # the Extraction command writes relative to coqc's cwd (= coq/); files named <comp>_model.ml
        ml = os.path.join(COQ, '%s_model.ml' % comp.lower())
        mli = ml + 'i'
        if not os.path.exists(ml):
            # force re-extraction
            vo = os.path.join(COQ, 'Extract', 'Extract%s.vo' % comp)
            if os.path.exists(vo):
                os.remove(vo)
            ok, mlog = coq_make(['Extract/Extract%s.vo' % comp])
            if not ok or not os.path.exists(ml):
                raise BuildError('extraction of %s produced no file:\n%s' % (comp, mlog[-2000:]))
        hh = hashlib.sha256(open(ml, 'rb').read() + open(drv, 'rb').read()).hexdigest()[:12]
        exe = os.path.join(d, 'model_%s' % hh)
        if os.path.exists(exe):
            return exe
        for f in os.listdir(d):
            if f.startswith('model_'):
                os.remove(os.path.join(d, f))
        shutil.copy(ml, d)
        shutil.copy(mli, d)
        shutil.copy(drv, os.path.join(d, 'driver.ml'))
        rc, so, se, _ = run(['ocamlfind', 'ocamlopt', '-O3', '-w', '-a', '-package', 'str', '-linkpkg',
                             os.path.basename(mli), os.path.basename(ml), 'driver.ml', '-o', exe + '.tmp'], cwd=d, timeout=600)
        if rc != 0:
            rc, so, se, _ = run(['ocamlfind', 'ocamlopt', '-w', '-a', '-package', 'str', '-linkpkg',
                                 os.path.basename(mli), os.path.basename(ml), 'driver.ml', '-o', exe + '.tmp'], cwd=d, timeout=600)
        if rc != 0:
            raise BuildError('ocaml driver for %s failed: %s' % (comp, se.decode()[:3000]))
        os.rename(exe + '.tmp', exe)
    return exe


# ---------------------------------------------------------------- findings / evidence / verdict

def load_known():
    known, fixed = [], []
    p = os.path.join(VERIF, 'known_findings.txt')
    if os.path.exists(p):
        for line in open(p):
            line = line.strip()
            if not line or line.startswith('#'):
                continue
            m = re.match(r'known:\s+property=(\S+)\s+key=(\S+)\s+(.*)', line)
            if m:
                known.append(dict(property=m.group(1), key=m.group(2), text=m.group(3)))
            m = re.match(r'fixed:\s+property=(\S+)\s+(\S+)\s+(.*)', line)
            if m:
                fixed.append(dict(property=m.group(1), commit=m.group(2), text=m.group(3)))
    return known, fixed


class Check:
    """One run of one property's check."""

    def __init__(self, pid, tier, seed, keep_replays=False):
        self.pid, self.tier, self.seed = pid, tier, seed
        self.t0 = time.time()
        self.rng = random.Random(seed)
        self.violations = []      # dict(key, text, replay(dict))
        self.tie_breaks = []      # dict(what, detail, case)
        self.proof = None
        self.cov = dict(evaluations=0, distinct_nontrivial=0, rule='', samples=[], distribution={})
        self.partial = []
        self.assumptions = []
        self.trusted = []
        self.notes = []
        os.makedirs(os.path.join(VERIF, 'replays'), exist_ok=True)
        os.makedirs(os.path.join(VERIF, 'evidence'), exist_ok=True)
        for f in os.listdir(os.path.join(VERIF, 'replays')):       # replays of earlier runs of this property
            if f.startswith(pid + '-') and not keep_replays:
                try:
                    os.remove(os.path.join(VERIF, 'replays', f))
                except OSError:
                    pass

    # --- proofs
    def check_proofs(self, extra_targets=()):
        t = time.time()
        gen = regen_gen()
        self.gen_info = gen
        bad = grep_forbidden()
        ok, mlog = coq_make(['Properties/Properties_%s.vo' % self.pid] + list(extra_targets))
        pr = dict(ok=False, obligations=0, discharged=0, assumptions={}, theorems=[], failed_files=[], forbidden=bad)
        if ok:
            r = check_property_file(self.pid)
            pr.update(r)
        else:
            pr['failed_files'] = coq_failed_files(mlog)
            pr['log'] = mlog[-5000:]
            # count what the property file asks for, none discharged
            src = open(os.path.join(COQ, 'Properties/Properties_%s.v' % self.pid)).read()
            pr['obligations'] = len(re.findall(r'^\s*Print Assumptions', src, re.M))
        if bad:
            pr['ok'] = False
        pr['wall_s'] = round(time.time() - t, 1)
        self.proof = pr
        log('[%s] proofs: ok=%s obligations=%d discharged=%d (%.1fs)%s' % (
            self.pid, pr['ok'], pr['obligations'], pr['discharged'], pr['wall_s'],
            '' if pr['ok'] else ' FAILED: %s %s' % (pr.get('failed_files'), bad)))
        if not pr['ok']:
            self.tie_breaks.append(dict(what='proof', detail='Coq obligations for %s no longer check: files %s forbidden %s'
                                        % (self.pid, pr.get('failed_files'), bad), log=pr.get('log', '')[-3000:]))
        return pr['ok']

    # --- results
    def violation(self, key, text, replay):
        self.violations.append(dict(key=key, text=text, replay=replay))

    def tie_break(self, what, detail, case=None):
        self.tie_breaks.append(dict(what=what, detail=detail, case=case))

    def write_replay(self, obj, suffix):
        h = hashlib.sha256(json.dumps(obj, sort_keys=True, default=str).encode()).hexdigest()[:10]
        p = os.path.join(VERIF, 'replays', '%s-%s-%s.json' % (self.pid, suffix, h))
        with open(p, 'w') as f:
            json.dump(obj, f, indent=1, default=str)
        return p

    def finish(self):
        known, fixed = load_known()
        known = [k for k in known if k['property'] == self.pid]
        exitcode = 0
        seen_known = {}
        new = []
        for v in self.violations:
            k = next((k for k in known if k['key'] == v['key']), None)
            if k:
                seen_known.setdefault(k['key'], k)
            else:
                new.append(v)
        lines = []
        if new:
            # one VIOLATION line per distinct key (max 5)
            done = set()
            for v in new:
                if v['key'] in done:
                    continue
                done.add(v['key'])
                if len(done) > 5:
                    break
                p = self.write_replay(dict(property=self.pid, kind='failing-input', key=v['key'], what=v['text'], replay=v['replay'],
                                           tie_breaks=[t['what'] + ': ' + t['detail'] for t in self.tie_breaks][:5]), 'viol')
                lines.append('VIOLATION property=%s replay=%s' % (self.pid, p))
            exitcode = 1
        elif self.tie_breaks:
            tb = self.tie_breaks[0]
            p = self.write_replay(dict(property=self.pid, kind='no-failing-input-found',
                                       broken=[dict(what=t['what'], detail=t['detail'], case=t.get('case')) for t in self.tie_breaks[:20]],
                                       log=self.tie_breaks[0].get('log', ''),
                                       note='The theorem / correspondence named here no longer checks against the current tree; the search '
                                            'on the implementation found no input on which the property itself fails.'), 'tie')
            lines.append('VIOLATION property=%s replay=%s no-failing-input-found' % (self.pid, p))
            exitcode = 1
        for k in seen_known.values():
            log('KNOWN-FINDING: property=%s %s' % (self.pid, k['text']))
        for l in lines:
            log(l)
        self.write_evidence(len(new), bool(self.tie_breaks))
        return exitcode

    def write_evidence(self, nviol, tie_broken):
        pr = self.proof or dict(obligations=0, discharged=0, assumptions={}, theorems=[])
        cov = dict(self.cov)
        cov['samples'] = cov.get('samples', [])[:8] or ['(no case generated)']
        cov.update(obligations=pr.get('obligations', 0), discharged=pr.get('discharged', 0),
                   checker_cmd='make -C coq Properties/Properties_%s.vo (coqc 8.16.1, full .vo build) + coqc Properties_%s.v for Print Assumptions'
                               % (self.pid, self.pid),
                   trusted_base=self.trusted + ['Coq 8.16.1 kernel (vm_compute used; no native_compute)',
                                                'Print Assumptions per theorem: ' + json.dumps(pr.get('assumptions', {}), sort_keys=True),
                                                'extraction: ExtrOcamlBasic directives only; OCaml 4.13.1; hand-written driver',
                                                'tools/gen_src.py translator (tie A) and C++ harness + generators (tie B)'],
                   theorems=pr.get('theorems', []), partial=self.partial, notes=self.notes,
                   gen_tied=getattr(self, 'gen_info', {}), tie_broken=tie_broken)
        if cov['discharged'] < 1 or cov['obligations'] < 1:
            # keep the file schema-valid when nothing was discharged: fall back to the exploration-style keys
            cov['obligations_total'] = cov.pop('obligations')
            cov['obligations_discharged'] = cov.pop('discharged')
            cov['evaluations'] = max(1, cov.get('evaluations', 0))
            cov['distinct_nontrivial'] = max(2, cov.get('distinct_nontrivial', 0))
        ev = dict(property_id=self.pid, tier=self.tier, seed=self.seed, level='proof', coverage=cov,
                  assumptions=self.assumptions, wall_s=round(time.time() - self.t0, 2), violations=nviol)
        with open(os.path.join(VERIF, 'evidence', self.pid + '.json'), 'w') as f:
            json.dump(ev, f, indent=1, default=str)


def run_pair(model_exe, impl_exe, cases, timeout=1200, shards=None, impl_env=None):
    """Feed the same case lines to the extracted model and to the implementation harness.
    Returns (model_lines, impl_lines, impl_stderr).  Sharded across cores; a harness that aborts
    (sanitizer) loses the rest of its shard, so shards are re-run line by line around the abort."""
    shards = shards or NCPU
    n = len(cases)
    chunks = [cases[i::shards] for i in range(shards)]
    idx = [list(range(n))[i::shards] for i in range(shards)]

    def one(exe, chunk, env):
        if not chunk:
            return [], b'', 0
        rc, so, se, _ = run([exe], inp=('\n'.join(chunk) + '\n').encode(), timeout=timeout, env=env)
        return so.decode(errors='replace').splitlines(), se, rc

    def impl_one(chunk):
        out = []
        errs = b''
        pos = 0
        guard = 0
        while pos < len(chunk) and guard < 50:
            lines, se, rc = one(impl_exe, chunk[pos:], impl_env or SAN_ENV)
            out.extend(lines)
            if rc == 0 and len(lines) >= len(chunk) - pos:
                pos = len(chunk)
                break
            if lines and 'ABORT timeout watchdog' in lines[-1]:
                # the per-case watchdog reported the culprit itself and exited: carry on after it
                pos += len(lines)
                guard += 1
                continue
            # abnormal end: the case after the last printed line is the culprit
            bad = pos + len(lines)
            if bad >= len(chunk):
                break
            cid = chunk[bad].split()[0] if chunk[bad].split() else '?'
            kind = 'san' if rc == 99 else 'timeout' if rc == -9 else 'signal%d' % rc
            first = ''
            m = re.search(rb'SUMMARY: (\S+): (\S+) ([^\n]*)', se)
            if m:
                kind = {b'AddressSanitizer': 'asan', b'LeakSanitizer': 'lsan', b'UndefinedBehaviorSanitizer': 'ubsan',
                        b'ThreadSanitizer': 'tsan'}.get(m.group(1), kind)
                first = (m.group(2) + b' ' + m.group(3)).decode(errors='replace')[:160]
            m2 = re.search(rb'runtime error: ([^\n]*)', se)
            if m2 and not m:
                kind = 'ubsan'
                first = m2.group(1).decode(errors='replace')[:160]
            out.append('%s ABORT %s %s' % (cid, kind, first))
            errs += se[-4000:]
            pos = bad + 1
            guard += 1
        return out, errs

    with ThreadPoolExecutor(shards * 2) as ex:
        mf = [ex.submit(one, model_exe, c, None) for c in chunks] if model_exe else []
        imf = [ex.submit(impl_one, c) for c in chunks] if impl_exe else []
        mres = [f.result() for f in mf]
        ires = [f.result() for f in imf]
    model_lines = [None] * n
    impl_lines = [None] * n
    for s in range(shards):
        if model_exe:
            for j, l in enumerate(mres[s][0][:len(idx[s])]):
                model_lines[idx[s][j]] = l
        if impl_exe:
            for j, l in enumerate(ires[s][0][:len(idx[s])]):
                impl_lines[idx[s][j]] = l
    ierr = b''.join(r[1] for r in ires) if impl_exe else b''
    return model_lines, impl_lines, ierr.decode(errors='replace')
