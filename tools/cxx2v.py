#!/usr/bin/env python3
"""cxx2v — translator for a deliberately tiny C++ subset (clang JSON AST) to Gallina (tie A, DESIGN.md 4.1).

Supported: integer / bool parameters and locals, if/else, return, ?:, assignment and compound assignment
to locals, the operators + - * / % & | ^ ~ << >> == != < <= > >= && || !, integer casts (explicit wraps),
reads p[k] of a pointer parameter (translated to a checked read [rd8/rd16/rd32-like] via a user map).
No loops, no pointer arithmetic, no calls except to functions listed in `known_calls`.

Two numeric modes:
  mode 'N' : every value is a non-negative N; unsigned types wrap with `mod 2^w`; signed intermediate
             types (integer promotion to int) are computed without wrap and the translator refuses
             subtraction / negation / signed casts that could go negative.
  mode 'Z' : every value is a Z; unsigned wraps `mod 2^w`, signed wraps two's complement.
Anything outside the subset raises Unsupported: the caller then emits no definition and the agreement
theorem that imports it fails (a broken tie, never a silent omission).
"""
import json, re, subprocess, os


class Unsupported(Exception):
    pass


INT_TYPES = {
    'bool': ('b', 1),
    'char': ('s', 8), 'signed char': ('s', 8), 'unsigned char': ('u', 8),
    'short': ('s', 16), 'unsigned short': ('u', 16),
    'int': ('s', 32), 'unsigned int': ('u', 32),
    'long': ('s', 64), 'unsigned long': ('u', 64),
    'long long': ('s', 64), 'unsigned long long': ('u', 64),
}


def ctype(node):
    t = node.get('type', {})
    q = t.get('desugaredQualType') or t.get('qualType') or ''
    q = re.sub(r'\b(const|volatile)\b', '', q).strip()
    q = re.sub(r'\s+', ' ', q)
    if q in INT_TYPES:
        return INT_TYPES[q]
    if q.endswith('*'):
        return ('p', q)
    # enum types behave as unsigned int / int in this subset
    if q.startswith('enum '):
        return ('u', 32)
    raise Unsupported('type %r' % q)


def ast_dump(src_file, filt, repo, extra_flags=()):
    cmd = ['clang++', '-std=c++11', '-fsyntax-only', '-w', '-I%s/include' % repo, '-I%s/src' % repo,
           '-DGRAPHITE2_NTRACING', '-DGRAPHITE2_STATIC'] + list(extra_flags) + \
          ['-Xclang', '-ast-dump=json', '-Xclang', '-ast-dump-filter=' + filt, src_file]
    p = subprocess.run(cmd, stdout=subprocess.PIPE, stderr=subprocess.PIPE, timeout=300)
    s = p.stdout.decode(errors='replace')
    dec = json.JSONDecoder()
    i, docs = 0, []
    while i < len(s):
        while i < len(s) and s[i].isspace():
            i += 1
        if i >= len(s):
            break
        try:
            o, j = dec.raw_decode(s, i)
        except ValueError:
            break
        docs.append(o)
        i = j
    return docs


def find_function(docs, name, want_body=True):
    found = []

    def walk(n):
        if isinstance(n, dict):
            if n.get('kind') in ('FunctionDecl', 'CXXMethodDecl') and n.get('name') == name:
                if not want_body or any(c.get('kind') == 'CompoundStmt' for c in n.get('inner', [])):
                    found.append(n)
            for c in n.get('inner', []):
                walk(c)
    for d in docs:
        walk(d)
    return found


class Translator:
    def __init__(self, mode='N', known_calls=None, reads=None, rename=None):
        self.mode = mode
        self.known_calls = known_calls or {}
        self.reads = reads or {}       # pointer param name -> (coq read function, element width)
        self.rename = rename or {}
        self.assumptions = []

    # ---------- helpers
    def lit(self, v):
        v = int(v)
        if self.mode == 'N':
            if v < 0:
                raise Unsupported('negative literal in N mode')
            return str(v)
        return str(v) if v >= 0 else '(%d)' % v

    def wrap(self, e, ty):
        k, w = ty
        if k == 'b':
            return e
        if k == 'u':
            return '(%s mod %d)' % (e, 2 ** w) if True else e
        if self.mode == 'N':
            return e                   # signed intermediate, assumed not to overflow (UB otherwise)
        return '(swrap %d %s)' % (w, e)

    def var(self, name):
        return self.rename.get(name, name)

    # ---------- expressions; returns (coq_term, kind) with kind 'i' (integer) or 'b' (bool)
    def expr(self, n):
        k = n['kind']
        inner = n.get('inner', [])
        if k in ('ParenExpr', 'ConstantExpr', 'ExprWithCleanups', 'MaterializeTemporaryExpr', 'CXXBindTemporaryExpr'):
            return self.expr(inner[0])
        if k == 'IntegerLiteral':
            return self.lit(n['value']), 'i'
        if k == 'UnaryExprOrTypeTraitExpr':
            if n.get('name') != 'sizeof':
                raise Unsupported('type trait %s' % n.get('name'))
            at = n.get('argType') or (n['inner'][0].get('type') if n.get('inner') else None)
            if not at:
                raise Unsupported('sizeof without type')
            q = at.get('desugaredQualType') or at.get('qualType')
            q = re.sub(r'\b(const|volatile)\b', '', q).strip()
            if q not in INT_TYPES:
                raise Unsupported('sizeof(%s)' % q)
            return self.lit(INT_TYPES[q][1] // 8), 'i'
        if k == 'CharacterLiteral':
            return self.lit(n['value']), 'i'
        if k == 'CXXBoolLiteralExpr':
            return ('true' if n['value'] else 'false'), 'b'
        if k == 'DeclRefExpr':
            ref = n['referencedDecl']
            if ref.get('kind') == 'EnumConstantDecl':
                raise Unsupported('enum constant %s (give it through known constants)' % ref.get('name'))
            ty = ctype(n)
            return self.var(ref['name']), ('b' if ty[0] == 'b' else 'i')
        if k in ('ImplicitCastExpr', 'CStyleCastExpr', 'CXXStaticCastExpr', 'CXXFunctionalCastExpr'):
            ck = n.get('castKind')
            if ck in ('LValueToRValue', 'NoOp', 'FunctionToPointerDecay'):
                return self.expr(inner[-1])
            if ck == 'IntegralCast':
                e, ek = self.expr(inner[-1])
                src = ctype(inner[-1])
                dst = ctype(n)
                if ek == 'b':
                    e = '(if %s then 1 else 0)' % e
                    return e, 'i'
                return self.cast(e, src, dst, inner[-1]), 'i'
            if ck == 'IntegralToBoolean':
                e, ek = self.expr(inner[-1])
                if ek == 'b':
                    return e, 'b'
                return '(negb (%s =? 0))' % e, 'b'
            raise Unsupported('cast kind %s' % ck)
        if k == 'UnaryOperator':
            op = n['opcode']
            e, ek = self.expr(inner[0])
            ty = ctype(n)
            if op == '!':
                if ek != 'b':
                    e = '(negb (%s =? 0))' % e
                return '(negb %s)' % e, 'b'
            if op == '~':
                if ty[0] != 'u':
                    raise Unsupported('~ on signed')
                return '(%d - %s)' % (2 ** ty[1] - 1, e), 'i'
            if op == '-':
                if self.mode == 'N':
                    if ty[0] == 'u':
                        return '((%d - %s) mod %d)' % (2 ** ty[1], e, 2 ** ty[1]), 'i'
                    raise Unsupported('negation in N mode')
                return self.wrap('(- %s)' % e, ty), 'i'
            if op == '+':
                return e, ek
            raise Unsupported('unary %s' % op)
        if k == 'BinaryOperator':
            op = n['opcode']
            if op in ('=', '+=', '-=', '|=', '&=', '^=', '<<=', '>>=', '*=', ','):
                raise Unsupported('assignment inside expression')
            a, ak = self.expr(inner[0])
            b, bk = self.expr(inner[1])
            ty = ctype(n)
            if op in ('&&', '||'):
                if ak != 'b':
                    a = '(negb (%s =? 0))' % a
                if bk != 'b':
                    b = '(negb (%s =? 0))' % b
                return '(%s %s %s)' % (a, op, b), 'b'
            if ak == 'b':
                a = '(if %s then 1 else 0)' % a
            if bk == 'b':
                b = '(if %s then 1 else 0)' % b
            cmpops = {'==': '=?', '<': '<?', '<=': '<=?'}
            if op in cmpops:
                return '(%s %s %s)' % (a, cmpops[op], b), 'b'
            if op == '!=':
                return '(negb (%s =? %s))' % (a, b), 'b'
            if op == '>':
                return '(%s <? %s)' % (b, a), 'b'
            if op == '>=':
                return '(%s <=? %s)' % (b, a), 'b'
            P = 'N' if self.mode == 'N' else 'Z'
            if op == '&':
                return '(%s.land %s %s)' % (P, a, b), 'i'
            if op == '|':
                return '(%s.lor %s %s)' % (P, a, b), 'i'
            if op == '^':
                return '(%s.lxor %s %s)' % (P, a, b), 'i'
            if op == '+':
                return self.wrap('(%s + %s)' % (a, b), ty), 'i'
            if op == '*':
                return self.wrap('(%s * %s)' % (a, b), ty), 'i'
            if op == '-':
                if self.mode == 'N':
                    if ty[0] != 'u':
                        raise Unsupported('signed subtraction in N mode')
                    return '((%s + %d - %s) mod %d)' % (a, 2 ** ty[1], b, 2 ** ty[1]), 'i'
                return self.wrap('(%s - %s)' % (a, b), ty), 'i'
            if op == '<<':
                return self.wrap('(%s.shiftl %s %s)' % (P, a, b), ty), 'i'
            if op == '>>':
                if self.mode == 'Z' and ty[0] == 's':
                    self.assumptions.append('arithmetic >> on signed (implementation-defined, gcc: arithmetic)')
                return '(%s.shiftr %s %s)' % (P, a, b), 'i'
            if op == '/':
                if self.mode == 'N' or ty[0] == 'u':
                    return '(%s / %s)' % (a, b), 'i'
                return '(Z.quot %s %s)' % (a, b), 'i'
            if op == '%':
                if self.mode == 'N' or ty[0] == 'u':
                    return '(%s mod %s)' % (a, b), 'i'
                return '(Z.rem %s %s)' % (a, b), 'i'
            raise Unsupported('binary %s' % op)
        if k == 'ConditionalOperator':
            c, ck = self.expr(inner[0])
            if ck != 'b':
                c = '(negb (%s =? 0))' % c
            a, ak = self.expr(inner[1])
            b, bk = self.expr(inner[2])
            if ak != bk:
                if ak == 'b':
                    a = '(if %s then 1 else 0)' % a
                if bk == 'b':
                    b = '(if %s then 1 else 0)' % b
                ak = 'i'
            return '(if %s then %s else %s)' % (c, a, b), ak
        if k == 'ArraySubscriptExpr':
            base, idx = inner[0], inner[1]
            while base['kind'] in ('ImplicitCastExpr', 'ParenExpr'):
                base = base['inner'][0]
            if base['kind'] != 'DeclRefExpr':
                raise Unsupported('subscript of non-parameter')
            nm = base['referencedDecl']['name']
            if nm not in self.reads:
                raise Unsupported('read through %s not declared' % nm)
            i, _ = self.expr(idx)
            return '(%s %s %s)' % (self.reads[nm], self.var(nm), i), 'i'
        if k == 'CallExpr':
            callee = inner[0]
            while callee['kind'] in ('ImplicitCastExpr', 'ParenExpr'):
                callee = callee['inner'][0]
            nm = callee.get('referencedDecl', {}).get('name')
            if nm in self.known_calls:
                args = [self.expr(a)[0] for a in inner[1:]]
                return '(%s %s)' % (self.known_calls[nm], ' '.join(args)), 'i'
            raise Unsupported('call to %s' % nm)
        raise Unsupported('expression kind %s' % k)

    def cast(self, e, src, dst, srcnode):
        if dst[0] == 'b':
            return e
        if dst[0] == 'u':
            if src[0] == 'u' and src[1] <= dst[1]:
                return e
            if src[0] == 's' and self.mode == 'N':
                # value known non-negative in N mode; literal or promoted unsigned
                if srcnode['kind'] == 'IntegerLiteral' and int(srcnode['value']) < 2 ** dst[1]:
                    return e
                return '(%s mod %d)' % (e, 2 ** dst[1])
            return '(%s mod %d)' % (e, 2 ** dst[1])
        # signed destination
        if self.mode == 'N':
            if src[0] == 'u' and src[1] < dst[1]:
                return e               # integer promotion, value preserving
            if src[0] == 's' and src[1] <= dst[1]:
                return e
            if srcnode['kind'] == 'IntegerLiteral':
                return e
            raise Unsupported('narrowing / sign-changing cast to signed in N mode')
        if src[1] < dst[1] or (src[0] == 's' and src[1] <= dst[1]):
            return e
        return '(swrap %d %s)' % (dst[1], e)

    # ---------- statements
    def always_returns(self, n):
        k = n['kind']
        if k == 'ReturnStmt':
            return True
        if k == 'CompoundStmt':
            return any(self.always_returns(c) for c in n.get('inner', []))
        if k == 'IfStmt':
            inner = n['inner']
            return len(inner) == 3 and self.always_returns(inner[1]) and self.always_returns(inner[2])
        return False

    def has_return(self, n):
        if n['kind'] == 'ReturnStmt':
            return True
        return any(self.has_return(c) for c in n.get('inner', []) if isinstance(c, dict) and 'kind' in c)

    def assigned(self, n, acc):
        k = n['kind']
        if k == 'BinaryOperator' and n['opcode'].endswith('=') and n['opcode'] not in ('==', '!=', '<=', '>='):
            lhs = n['inner'][0]
            if lhs['kind'] == 'DeclRefExpr':
                nm = lhs['referencedDecl']['name']
                if nm not in acc:
                    acc.append(nm)
        if k == 'CompoundAssignOperator':
            lhs = n['inner'][0]
            if lhs['kind'] == 'DeclRefExpr':
                nm = lhs['referencedDecl']['name']
                if nm not in acc:
                    acc.append(nm)
        for c in n.get('inner', []):
            if isinstance(c, dict) and 'kind' in c:
                self.assigned(c, acc)
        return acc

    def stmts(self, lst, k):
        """translate a statement list followed by continuation term k (None = must return)"""
        if not lst:
            if k is None:
                raise Unsupported('control reaches end without return')
            return k
        s, rest = lst[0], lst[1:]
        kind = s['kind']
        if kind == 'CompoundStmt':
            return self.stmts(list(s.get('inner', [])) + rest, k)
        if kind == 'NullStmt':
            return self.stmts(rest, k)
        if kind == 'ReturnStmt':
            e, ek = self.expr(s['inner'][0])
            return e
        if kind == 'DeclStmt':
            out = None
            decls = s['inner']
            body = self.stmts(rest, k)
            for d in reversed(decls):
                if d['kind'] != 'VarDecl' or not d.get('inner'):
                    raise Unsupported('declaration without initialiser')
                e, ek = self.expr(d['inner'][-1])
                body = 'let %s := %s in\n  %s' % (self.var(d['name']), e, body)
            return body
        if kind in ('BinaryOperator', 'CompoundAssignOperator'):
            op = s['opcode']
            lhs = s['inner'][0]
            if lhs['kind'] != 'DeclRefExpr':
                raise Unsupported('assignment to non-variable')
            nm = self.var(lhs['referencedDecl']['name'])
            if op == '=':
                e, ek = self.expr(s['inner'][1])
            elif op.endswith('=') and op[:-1] in ('+', '-', '*', '|', '&', '^', '<<', '>>'):
                fake = dict(kind='BinaryOperator', opcode=op[:-1], type=s.get('computeResultType', s['type']),
                            inner=[dict(kind='ImplicitCastExpr', castKind='LValueToRValue', type=lhs['type'], inner=[lhs]), s['inner'][1]])
                e, ek = self.expr(fake)
                e = self.cast(e, ctype(fake), ctype(lhs), fake)
            else:
                raise Unsupported('statement operator %s' % op)
            return 'let %s := %s in\n  %s' % (nm, e, self.stmts(rest, k))
        if kind == 'IfStmt':
            inner = s['inner']
            c, ck = self.expr(inner[0])
            if ck != 'b':
                c = '(negb (%s =? 0))' % c
            th = inner[1]
            el = inner[2] if len(inner) > 2 else None
            if self.always_returns(th) and (el is None or not self.has_return(el) or self.always_returns(el)):
                if el is None:
                    return '(if %s then %s else\n  %s)' % (c, self.stmts([th], None), self.stmts(rest, k))
                if self.always_returns(el):
                    return '(if %s then %s else %s)' % (c, self.stmts([th], None), self.stmts([el], None))
                return '(if %s then %s else\n  %s)' % (c, self.stmts([th], None), self.stmts([el] + rest, k))
            if self.has_return(th) or (el is not None and self.has_return(el)):
                # returns on some paths only: duplicate the continuation
                restk = self.stmts(rest, k)
                return '(if %s then %s else\n  %s)' % (c, self.stmts([th], restk), self.stmts([el], restk) if el else restk)
            vs = []
            self.assigned(th, vs)
            if el is not None:
                self.assigned(el, vs)
            vs = [self.var(v) for v in vs]
            if not vs:
                return self.stmts(rest, k)
            tup = vs[0] if len(vs) == 1 else '(%s)' % ', '.join(vs)
            pat = vs[0] if len(vs) == 1 else "'(%s)" % ', '.join(vs)
            t_th = self.stmts([th], tup)
            t_el = self.stmts([el], tup) if el is not None else tup
            return 'let %s := (if %s then %s else %s) in\n  %s' % (pat, c, t_th, t_el, self.stmts(rest, k))
        raise Unsupported('statement kind %s' % kind)

    def function(self, fn, coq_name, params=None):
        ps = [c for c in fn.get('inner', []) if c.get('kind') == 'ParmVarDecl']
        body = [c for c in fn.get('inner', []) if c.get('kind') == 'CompoundStmt']
        if not body:
            raise Unsupported('no body')
        names = []
        for p in ps:
            ty = ctype(p)
            t = 'N' if self.mode == 'N' else 'Z'
            if ty[0] == 'b':
                t = 'bool'
            if ty[0] == 'p':
                t = 'bytes'
            names.append('(%s : %s)' % (self.var(p['name']), t))
        term = self.stmts([body[0]], None)
        rt = 'N' if self.mode == 'N' else 'Z'
        return 'Definition %s %s :=\n  %s.\n' % (coq_name, ' '.join(names), term)


def translate(repo, src_rel, fname, coq_name, mode='N', flags=(), **kw):
    docs = ast_dump(os.path.join(repo, src_rel) if not os.path.isabs(src_rel) else src_rel, fname, repo, flags)
    fns = find_function(docs, fname)
    if not fns:
        raise Unsupported('function %s not found in %s' % (fname, src_rel))
    tr = Translator(mode=mode, **kw)
    return tr.function(fns[0], coq_name), tr.assumptions
