"""FontKit — a GDL-lite compiler: rule programs -> Silf table (version 2) -> a loadable font (a shipped font with its Silf replaced).

Program (abstract syntax, shared with the reference semantics of Model/RuleModel.v):
  program = [pass, ...]          pass = dict(rules=[rule, ...], maxloop=int)
  rule    = dict(pre=int, pat=[set(gid), ...], acts=[[act, ...] per item from index pre to the end], ret=0)
  act     = ('G', gid) | ('S', ref, [in gids], [out gids]) | ('D',) | ('I', gid) | ('A', value) | ('X', value)
            put_glyph       put_subs via classes             delete   insert a slot before this item   advance.x   shift.x
Text form (one token, for case lines):  pass '/' pass ;  rule ';' rule ;  pre '~' item ',' item '~' acts ',' acts
  item = gid '.' gid ...   acts = act '&' act ... | '-'   act = G<gid> | S<ref>i<gids>o<gids> | D | I<gid> | A<v> | X<v>
"""
import struct

OP = dict(PUSH_GLYPH_ATTR_OBS=41, PUSH_FEAT=43, PUSH_BYTE=1, PUSH_SHORT=3, NEXT=25, COPY_NEXT=27, PUT_GLYPH8=28, PUT_SUBS8=29, PUT_COPY=30, INSERT=31, DELETE=32, ASSOC=33, CNTXT_ITEM=34, ATTR_SET=35,
          ATTR_SET_SLOT=38, POP_RET=48, RET_ZERO=49, RET_TRUE=50, PUSH_SLOT_ATTR=40, EQUAL=19, LESS=21, GTR=22, PUSH_ISLOT_ATTR=46, IATTR_SET=51)
SLAT_ADVX, SLAT_SHIFTX, SLAT_SHIFTY, SLAT_ATTTO, SLAT_ATTX, SLAT_ATTY, SLAT_WITHX, SLAT_WITHY, SLAT_USER = 0, 20, 21, 2, 3, 4, 8, 9, 55
NUM_USER = 2


# ------------------------------------------------------------------ text form
def prog_to_text(prog):
    def act(a):
        if a[0] == 'G': return 'G%d' % a[1]
        if a[0] == 'S': return 'S%di%so%s' % (a[1], '.'.join(map(str, a[2])), '.'.join(map(str, a[3])))
        if a[0] == 'D': return 'D'
        if a[0] == 'I': return 'I%d' % a[1]
        if a[0] == 'A': return 'A%d' % a[1]
        if a[0] == 'X': return 'X%d' % a[1]
        if a[0] == 'Y': return 'Y%d' % a[1]
        if a[0] == 'T': return 'T%d' % a[1]
        if a[0] == 'P': return 'P%d_%d' % (a[1], a[2])
        if a[0] == 'W': return 'W%d_%d' % (a[1], a[2])
        if a[0] == 'C': return 'C%d' % a[1]
        if a[0] == 'U': return 'U%d_%d' % (a[1], a[2])
        if a[0] == 'O': return 'O' + '_'.join(str(r) for r in a[1])
        raise ValueError(a)
    def con(r):
        c = r.get('con')
        ext = ''
        if c and len(c) > 3 and c[3] is not None: ext = 'u%d' % c[3]
        if c and len(c) > 4 and c[4] is not None: ext = 'a%d' % c[4]                       # a glyph attribute of the item's glyph
        if c and len(c) > 5 and c[5] is not None: ext = 'k%d' % c[5][2]                    # a feature of the segment: (index, id, value in force)
        if c and len(c) > 6 and c[6] == 'posx': ext = 'p'
        return ('~c%d%s%d%s' % (c[0], c[1], c[2], ext) if c else '') + ('~r%d' % r['ret'] if r.get('ret') else '')
    return '/'.join('%d:' % p.get('maxloop', 5) + ';'.join('%d~%s~%s%s' % (r['pre'], ','.join('.'.join(map(str, sorted(s))) for s in r['pat']),
                                                         ','.join('&'.join(act(a) for a in al) if al else '-' for al in r['acts']), con(r)) for r in p['rules']) for p in prog)


# ------------------------------------------------------------------ classes
class Classes:
    def __init__(self):
        self.lin = []

    def get(self, gids):
        t = tuple(gids)
        if t not in self.lin:
            self.lin.append(t)
        return self.lin.index(t)

    def table(self):
        n = len(self.lin)
        cls_off = 4 + 2 * (n + 1)
        offs, data = [], []
        for c in self.lin:
            offs.append(cls_off + 2 * len(data)); data += list(c)
        offs.append(cls_off + 2 * len(data))
        return struct.pack('>HH', n, n) + b''.join(struct.pack('>H', o) for o in offs) + b''.join(struct.pack('>H', g) for g in data)


# ------------------------------------------------------------------ action code
def compile_action(rule, classes):
    bc = []
    for al in rule['acts']:
        deleted = False
        for a in al:
            if a[0] == 'I':
                bc += [OP['INSERT'], OP['PUT_GLYPH8'], classes.get([a[1]]), OP['NEXT']]
        for a in al:
            if a[0] == 'G': bc += [OP['PUT_GLYPH8'], classes.get([a[1]])]
            elif a[0] == 'S': bc += [OP['PUT_SUBS8'], a[1] & 255, classes.get(a[2]), classes.get(a[3])]
            elif a[0] == 'A': bc += [OP['PUSH_SHORT'], (a[1] >> 8) & 255, a[1] & 255, OP['ATTR_SET'], SLAT_ADVX]
            elif a[0] == 'X': bc += [OP['PUSH_SHORT'], (a[1] >> 8) & 255, a[1] & 255, OP['ATTR_SET'], SLAT_SHIFTX]
            elif a[0] == 'Y': bc += [OP['PUSH_SHORT'], (a[1] >> 8) & 255, a[1] & 255, OP['ATTR_SET'], SLAT_SHIFTY]
            elif a[0] == 'C': bc += [OP['PUT_COPY'], a[1] & 255]
            elif a[0] == 'U': bc += [OP['PUSH_SHORT'], (a[2] >> 8) & 255, a[2] & 255, OP['IATTR_SET'], SLAT_USER, a[1]]
            elif a[0] == 'T': bc += [OP['PUSH_BYTE'], a[1] & 255, OP['ATTR_SET_SLOT'], SLAT_ATTTO]
            elif a[0] == 'P': bc += [OP['PUSH_SHORT'], (a[1] >> 8) & 255, a[1] & 255, OP['ATTR_SET'], SLAT_ATTX, OP['PUSH_SHORT'], (a[2] >> 8) & 255, a[2] & 255, OP['ATTR_SET'], SLAT_ATTY]
            elif a[0] == 'W': bc += [OP['PUSH_SHORT'], (a[1] >> 8) & 255, a[1] & 255, OP['ATTR_SET'], SLAT_WITHX, OP['PUSH_SHORT'], (a[2] >> 8) & 255, a[2] & 255, OP['ATTR_SET'], SLAT_WITHY]
            elif a[0] == 'O': bc += [OP['ASSOC'], len(a[1])] + [r & 255 for r in a[1]]
            elif a[0] == 'D': deleted = True
        if deleted:
            bc += [OP['DELETE']]
        bc += [OP['NEXT']]
    if rule.get('ret'):
        bc += [OP['PUSH_BYTE'], rule['ret'] & 255, OP['POP_RET']]
    else:
        bc += [OP['RET_ZERO']]
    return bytes(bc)


def compile_constraint(rule):
    """con = (item index in the window, 'l' | 'g' | 'e', value): advance.x of that item compared with the value"""
    c = rule.get('con')
    if not c:
        return b''
    item, op, val = c[0], c[1], c[2]
    user = c[3] if len(c) > 3 else None
    push = [OP['PUSH_SLOT_ATTR'], SLAT_ADVX, 0] if user is None else [OP['PUSH_ISLOT_ATTR'], SLAT_USER, 0, user]
    if len(c) > 4 and c[4] is not None:
        push = [OP['PUSH_GLYPH_ATTR_OBS'], c[4], 0]
    if len(c) > 5 and c[5] is not None:
        push = [OP['PUSH_FEAT'], c[5][0], 0]
    if len(c) > 6 and c[6] == 'posx':
        push = [OP['PUSH_SLOT_ATTR'], 18, 0]               # position.x: makes the engine position the rule's slots (font = NULL) before it tests
    block = push + [OP['PUSH_SHORT'], (val >> 8) & 255, val & 255, {'l': OP['LESS'], 'g': OP['GTR'], 'e': OP['EQUAL']}[op]]
    return bytes([OP['CNTXT_ITEM'], (item - rule['pre']) & 255, len(block)] + block + [OP['POP_RET']])


# ------------------------------------------------------------------ FSM
def build_fsm(rules):
    """subset construction over the rules' patterns (all rules of a pass share the pre-context length).
    Returns (ranges, ncols, trans rows, n_trans, success rule lists (per success state, in state order), n_states)"""
    gl = sorted(set(g for r in rules for s in r['pat'] for g in s))
    sig = {}
    for g in gl:
        sig[g] = frozenset((ri, i) for ri, r in enumerate(rules) for i, s in enumerate(r['pat']) if g in s)
    cols = {}
    for g in gl:
        cols.setdefault(sig[g], len(cols))
    ncols = len(cols)
    ranges, cur = [], None
    for g in gl:
        c = cols[sig[g]]
        if cur and cur[1] == g - 1 and cur[2] == c:
            cur[1] = g
        else:
            cur = [g, g, c]; ranges.append(cur)
    start = frozenset((ri, 0) for ri in range(len(rules)))
    states, order, work = {start: None}, [start], [start]
    trans = {}
    while work:
        S = work.pop(0)
        for sg, c in cols.items():
            T = frozenset((ri, i + 1) for (ri, i) in S if i < len(rules[ri]['pat']) and (ri, i) in sg)
            if not T:
                continue
            trans[(S, c)] = T
            if T not in states:
                states[T] = None; order.append(T); work.append(T)
    def has_trans(S): return any(i < len(rules[ri]['pat']) for (ri, i) in S)
    def succ(S): return sorted(ri for (ri, i) in S if i == len(rules[ri]['pat']))
    g1 = [S for S in order if not succ(S)]                        # the start state is first
    g2 = [S for S in order if succ(S) and has_trans(S)]
    g3 = [S for S in order if succ(S) and not has_trans(S)]
    allst = g1 + g2 + g3
    idx = {S: k for k, S in enumerate(allst)}
    ntrans = len(g1) + len(g2)
    rows = [[idx[trans[(S, c)]] if (S, c) in trans else 0 for c in range(ncols)] for S in allst[:ntrans]]
    return ranges, ncols, rows, ntrans, [succ(S) for S in g2 + g3], len(allst)


def compile_pass(p, classes, pass_off):
    """pass_off: offset of this pass from the start of the Silf subtable"""
    rules = p['rules']
    n = len(rules)
    pre = rules[0]['pre']
    assert all(r['pre'] == pre for r in rules)
    ranges, ncols, rows, ntrans, succ_rules, nstates = build_fsm(rules)
    nsucc = len(succ_rules)
    actions = [compile_action(r, classes) for r in rules]
    body = b''
    for (a, b, c) in ranges:
        body += struct.pack('>HHH', a, b, c)
    orm, rmap = [0], []
    for sr in succ_rules:
        rmap += sr; orm.append(len(rmap))
    body += b''.join(struct.pack('>H', o) for o in orm) + b''.join(struct.pack('>H', r) for r in rmap)
    body += struct.pack('>BB', pre, pre) + struct.pack('>h', 0)
    body += b''.join(struct.pack('>H', len(r['pat'])) for r in rules)           # sort keys
    body += bytes([pre] * n)
    body += struct.pack('>BH', 0, 0)                                              # reserved, pass constraint length
    cons = [compile_constraint(r) for r in rules]
    cblock = b'\x00' if any(cons) else b''                                       # offset 0 means "no constraint": keep it unused
    co = []
    for c in cons:
        co.append(len(cblock) if c else 0); cblock += c
    co.append(len(cblock))
    body += b''.join(struct.pack('>H', o) for o in co)
    ao, acc = [], 0
    for a in actions:
        ao.append(acc); acc += len(a)
    ao.append(acc)
    body += b''.join(struct.pack('>H', o) for o in ao)
    body += b''.join(struct.pack('>h', t) for row in rows for t in row)
    body += b'\x00'
    code_off = 40 + len(body)
    hdr = struct.pack('>BBBBHH', 0, p.get('maxloop', 5), max(len(r['pat']) for r in rules), pre, n, 0)
    hdr += struct.pack('>IIII', pass_off + code_off, pass_off + code_off, pass_off + code_off + len(cblock), 0)
    hdr += struct.pack('>HHHHH', nstates, ntrans, nsucc, ncols, len(ranges)) + struct.pack('>HHH', 0, 0, 0)
    assert len(hdr) == 40
    return hdr + body + cblock + b''.join(actions)


def compile_silf(prog, max_glyph, n_subst=None):
    """Silf table, version 2, one subtable; all passes are substitution passes unless n_subst says otherwise"""
    classes = Classes()
    npass = len(prog)
    n_subst = npass if n_subst is None else n_subst
    # pre-compile the actions once to collect the classes, then lay the subtable out
    for p in prog:
        for r in p['rules']:
            compile_action(r, classes)
    fixed = struct.pack('>HHH', max_glyph, 0, 0) + bytes([npass, 0, n_subst, npass, 0xFF, 0, 2, 8, 0, 1, 2, 3, 0, 0])
    fixed += struct.pack('>HBBBB', 0, NUM_USER, 0, 1, 0) + bytes(3) + bytes([0]) + bytes([0]) + bytes([0]) + struct.pack('>H', 0)
    # fixed ends with lbGID; then oPasses[npass+1], pseudo header, class map, passes
    pseudo = struct.pack('>HHHH', 0, 0, 0, 0)
    cmap = classes.table()
    passes_start = len(fixed) + 4 * (npass + 1) + len(pseudo) + len(cmap)
    passes_start += 2                                     # slack: the loader wants class data strictly before the passes
    offs, blobs, cur = [], [], passes_start
    for p in prog:
        b = compile_pass(p, classes, cur)
        offs.append(cur); blobs.append(b); cur += len(b)
    offs.append(cur)
    sub = fixed + b''.join(struct.pack('>I', o) for o in offs) + pseudo + cmap + b'\x00\x00' + b''.join(blobs)
    assert len(classes.table()) == len(cmap)
    return struct.pack('>IHHI', 0x00020000, 1, 0, 12) + sub


def replace_table(data, tag, new):
    d = bytearray(data)
    nt = struct.unpack('>H', d[4:6])[0]
    while len(d) % 4:
        d.append(0)
    off = len(d)
    d += new
    for i in range(nt):
        e = 12 + 16 * i
        if bytes(d[e:e + 4]) == tag:
            d[e + 8:e + 16] = struct.pack('>II', off, len(new))
    return bytes(d)


def relayout(data, last_tag, pad_final=False):
    """the same font with its tables stored in directory order except that [last_tag] comes physically last; without [pad_final]
    the file ends on that table's last byte (legal: only the tables in front of another one need padding)"""
    n = struct.unpack('>H', data[4:6])[0]
    ents = [(data[12 + 16 * i:16 + 16 * i], data[16 + 16 * i:20 + 16 * i]) + struct.unpack('>II', data[20 + 16 * i:28 + 16 * i]) for i in range(n)]
    order = [e for e in ents if e[0] != last_tag] + [e for e in ents if e[0] == last_tag]
    out = bytearray(data[:12 + 16 * n])
    where = {}
    for k, (tag, cs, off, ln) in enumerate(order):
        while len(out) % 4:
            out.append(0)
        where[tag] = len(out)
        out += data[off:off + ln]
    if pad_final:
        while len(out) % 4:
            out.append(0)
    for i, (tag, cs, off, ln) in enumerate(ents):
        out[12 + 16 * i:28 + 16 * i] = tag + cs + struct.pack('>II', where[tag], ln)
    return bytes(out)


def feat_records(data):
    """(offset of the record in the file, id, flags) of every feature of the font's Feat table"""
    tb = font_tables(data)
    if b'Feat' not in tb: return []
    o, l = tb[b'Feat']
    v2 = struct.unpack('>H', data[o:o + 2])[0] >= 2
    n = struct.unpack('>H', data[o + 4:o + 6])[0]
    rec = 16 if v2 else 12
    out = []
    for k in range(n):
        r = o + 12 + k * rec
        if r + rec > o + l: break
        fid = struct.unpack('>I', data[r:r + 4])[0] if v2 else struct.unpack('>H', data[r:r + 2])[0]
        out.append((r, fid, struct.unpack('>H', data[r + rec - 4:r + rec - 2])[0]))
    return out


def sill_langs(data):
    """the language codes of the font's Sill table"""
    tb = font_tables(data)
    if b'Sill' not in tb: return []
    o, l = tb[b'Sill']
    if l < 12: return []
    n = struct.unpack('>H', data[o + 4:o + 6])[0]
    return [struct.unpack('>I', data[o + 12 + 8 * k:o + 16 + 8 * k])[0] for k in range(n) if o + 20 + 8 * k <= o + l]


def silf_pseudos(data):
    """[(file offset of the entry, unicode, glyph)] of the pseudo-glyph map of the font's first Silf subtable (walks the header as the
    format document lays it out: v2 field by field, v3+ through pseudosOffset)"""
    tb = font_tables(data)
    if b'Silf' not in tb: return []
    o, l = tb[b'Silf']
    t = data[o:o + l]
    ver = struct.unpack('>I', t[:4])[0]
    if ver >= 0xFFFF0000 or ver < 0x00020000: return []          # compressed / old: not walked here
    p = 8 if ver >= 0x00030000 else 4
    nsub = struct.unpack('>H', t[p:p + 2])[0]
    if not nsub: return []
    sub = struct.unpack('>I', t[p + 4:p + 8])[0]
    q = sub
    if ver >= 0x00030000:
        q = sub + struct.unpack('>H', t[sub + 6:sub + 8])[0]
    else:
        h = sub
        npass, nj = t[h + 6], t[h + 19]
        h += 20 + 8 * nj
        ncrit = t[h + 9]
        h += 10 + 2 * ncrit + 1
        nscript = t[h]; h += 1 + 4 * nscript
        h += 2 + 4 * (npass + 1)
        q = h
    n = struct.unpack('>H', t[q:q + 2])[0]
    r = [(o + q + 8 + 6 * k,) + struct.unpack('>IH', t[q + 8 + 6 * k:q + 14 + 6 * k]) for k in range(n)]
    us = [u for _, u, _ in r]
    if any(u >= 0x110000 for u in us) or us != sorted(set(us)):
        return None                                              # not a pseudo map: a header layout this walk does not know
    return r


def font_tables(data):
    n = struct.unpack('>H', data[4:6])[0]
    return {data[12 + 16 * i:16 + 16 * i]: struct.unpack('>II', data[20 + 16 * i:28 + 16 * i]) for i in range(n)}


def base_info(data):
    """cmap (char -> gid) over ASCII, advances, max glyph of the base font"""
    from props import cmapgen
    tb = font_tables(data)
    mo, _ = tb[b'maxp']; ng = struct.unpack('>H', data[mo + 4:mo + 6])[0]
    ho, _ = tb[b'hhea']; nhm = struct.unpack('>H', data[ho + 34:ho + 36])[0]
    xo, _ = tb[b'hmtx']
    adv = []
    for g in range(ng):
        k = min(g, nhm - 1)
        adv.append(struct.unpack('>H', data[xo + 4 * k:xo + 4 * k + 2])[0])
    return ng, adv


def build_font(base_data, prog, n_subst=None):
    ng, _ = base_info(base_data)
    return replace_table(base_data, b'Silf', compile_silf(prog, ng - 1, n_subst))


# ------------------------------------------------------------------ glyph attributes and features of the compiled fonts
N_GATTR = 8                     # attributes 0..3 (pseudo / breakweight / directionality / mirroring) are 0; 4..7 carry test values
FEATS = [(0x101, [0, 1, 2, 3]), (0x202, [0, 5])]            # (feature id, setting values; the first is the default)


def gattr(g, k):
    """the value of glyph attribute k of glyph g in an enriched font"""
    return ((g * 7 + k * 13) % 23) - 5 if 4 <= k < N_GATTR else 0


def enrich(base_data):
    """the base font with a Glat / Gloc pair that gives every glyph the attributes of gattr() and a Feat table with FEATS"""
    ng, _ = base_info(base_data)
    glat, offs = struct.pack('>I', 0x00010000), []
    for g in range(ng):
        offs.append(len(glat))
        glat += bytes([4, N_GATTR - 4]) + b''.join(struct.pack('>h', gattr(g, k)) for k in range(4, N_GATTR))
    offs.append(len(glat))
    gloc = struct.pack('>IHH', 0x00010000, 0, N_GATTR) + b''.join(struct.pack('>H', o) for o in offs)
    hdr = struct.pack('>IHHI', 0x00010000, len(FEATS), 0, 0)
    so = len(hdr) + 12 * len(FEATS)
    recs, sets = b'', b''
    for fid, vals in FEATS:
        recs += struct.pack('>HHIHH', fid, len(vals), so + len(sets), 0, 256)
        sets += b''.join(struct.pack('>hH', v, 257) for v in vals)
    d = replace_table(base_data, b'Glat', glat)
    d = replace_table(d, b'Gloc', gloc)
    return replace_table(d, b'Feat', hdr + recs + sets)


def silf_full_map(gid_a, max_glyph, n_next, extra=()):
    """a Silf (version 2, one substitution pass, one rule) whose rule is matched one slot after the start of a slot map that the FSM
    returns completely full: pass maxRulePreContext 1, rule pre-context 0, sort key 63, action = extra opcodes + n_next x NEXT + RET_ZERO.
    The loader admits 63 NEXTs for a 63-slot rule; with a 64-entry map the cursor then stands one past the last map entry."""
    w = bytearray()
    def u8(v): w.append(v & 255)
    def u16(v): w.extend(struct.pack('>H', v & 0xFFFF))
    def u32(v): w.extend(struct.pack('>I', v & 0xFFFFFFFF))
    u32(0x00020000); u16(1); u16(0); u32(12)
    sub = len(w)
    u16(max_glyph); u16(0); u16(0)
    for v in (1, 0, 1, 1, 0xFF): u8(v)                       # numPasses, iSubst, iPos, iJust, iBidi
    for v in (0, 1, 63): u8(v)                               # flags, maxPreContext, maxPostContext
    for v in (0, 1, 2, 0, 0): u8(v)                          # attrPseudo, attrBreakWeight, attrDirectionality, attrMirroring, attrSkipPasses
    u8(0)                                                    # numJLevels
    u16(0); u8(0); u8(0); u8(1); u8(0)                       # numLigComp, numUserDefn, maxCompPerLig, direction, attCollisions
    for v in (0, 0, 0, 0, 0, 0): u8(v)
    u16(0)                                                   # lbGID
    o_passes = len(w); u32(0); u32(0)
    for v in (0, 0, 0, 0): u16(v)                            # pseudo map header
    u16(1); u16(1); u16(8); u16(10); u16(gid_a)              # class map: one linear class { gid_a }
    pas = len(w); w[o_passes:o_passes + 4] = struct.pack('>I', pas - sub)
    action = bytes(extra) + bytes([OP['NEXT']] * n_next) + bytes([OP['RET_ZERO']])
    for v in (0, 4, 64, 0): u8(v)                            # flags, maxRuleLoop, maxRuleContext, maxBackup
    u16(1); u16(0)                                           # numRules, fsmOffset
    code_offs = len(w); u32(0); u32(0); u32(0); u32(0)
    for v in (3, 3, 1, 1): u16(v)                            # numRows, numTransitional, numSuccess, numColumns
    for v in (1, 0, 0, 0): u16(v)                            # numRange ...
    u16(gid_a); u16(gid_a); u16(0)
    u16(0); u16(1); u16(0)                                   # oRuleMap[2], ruleMap[1]
    u8(0); u8(1)                                             # minRulePreContext, maxRulePreContext
    u16(0); u16(1)                                           # start states: one slot of context -> state 0, none -> state 1
    u16(63); u8(0)                                           # sort key, rule pre-context
    u8(0); u16(0)                                            # collision threshold, pass constraint length
    u16(0); u16(0)                                           # oConstraints[2]
    u16(0); u16(len(action))                                 # oActions[2]
    u16(2); u16(1); u16(2)                                   # state transitions
    u8(0)
    code = len(w) - sub
    w[code_offs:code_offs + 12] = struct.pack('>III', code, code, code)
    w.extend(action)
    w[o_passes + 4:o_passes + 8] = struct.pack('>I', len(w) - sub)
    return bytes(w)


def silf_many_rules(n_rules, sort_key, n_glyph_max=0):
    """a Silf (version 2, one pass) whose pass declares n_rules rules that all carry the same 16-bit sort key and have empty constraint and
    action code: every structural check of Pass::readPass holds, so the loader reaches readRules with counts at their 16-bit limits"""
    pw = bytearray()
    def u8(v): pw.append(v & 255)
    def u16(v): pw.extend(struct.pack('>H', v & 0xFFFF))
    def u32(v): pw.extend(struct.pack('>I', v & 0xFFFFFFFF))
    for v in (0, 1, 1, 0): u8(v)
    u16(n_rules); u16(0)
    at_pc = len(pw); u32(0); u32(0); u32(0); u32(0)
    for v in (1, 0, 1, 1): u16(v)
    for v in (1, 0, 0, 0): u16(v)
    u16(0); u16(0); u16(0)
    u16(0); u16(0)
    u8(0); u8(0)
    u16(0)
    pw.extend(struct.pack('>H', sort_key & 0xFFFF) * n_rules)
    pw.extend(bytes(n_rules))
    u8(0); u16(0)
    pw.extend(bytes(2 * (n_rules + 1))); pw.extend(bytes(2 * (n_rules + 1)))
    u8(0)
    code_off = len(pw)
    sw = bytearray()
    sw.extend(struct.pack('>HHH', n_glyph_max, 0, 0))
    sw.extend(bytes([1, 0, 1, 1, 0xFF, 0, 0, 0, 0, 0, 0, 0, 0, 0]))
    sw.extend(struct.pack('>H', 0)); sw.extend(bytes([0, 0, 1, 0, 0, 0, 0, 0, 0, 0])); sw.extend(struct.pack('>H', 0))
    at_po = len(sw); sw.extend(bytes(8))
    sw.extend(struct.pack('>HHHH', 0, 0, 0, 0))
    sw.extend(struct.pack('>HHH', 0, 0, 6)); sw.extend(struct.pack('>H', 0))
    pass_start = len(sw)
    sw[at_po:at_po + 8] = struct.pack('>II', pass_start, pass_start + len(pw))
    pw[at_pc:at_pc + 12] = struct.pack('>III', pass_start + code_off, pass_start + code_off, pass_start + code_off)
    return struct.pack('>IHHI', 0x00020000, 1, 0, 12) + bytes(sw) + bytes(pw)
