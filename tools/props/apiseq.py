"""Shared pieces of the API-sequence checks C08 / C09 / C10: harness wrapper, op generators, glyph-cache correspondence."""
import os
import vlib
from props import shapegen as S, c16


def build(san='asan'):
    impl = vlib.build_impl('direct', san)
    hexe0 = vlib.build_harness('impl_api', impl, san=san)
    hexe = os.path.join(os.path.dirname(hexe0), 'run_api.sh')
    with open(hexe, 'w') as fh:
        fh.write('#!/bin/sh\nexec %s %s\n' % (hexe0, vlib.REPO))
    os.chmod(hexe, 0o755)
    return hexe


def results(line):
    """the per-op results of an API line (between the face verdict and the LOG)"""
    if line is None or ' | LOG' not in line:
        return None
    parts = line.split(' | LOG')[0].split(' | ')
    return parts[0].split()[-1], parts[1:]


def probe_op(rng, font, slot=2):
    rep = S.repertoire(vlib.REPO, font)
    cps = S.gen_text_seeded(rng, vlib.REPO, font, 10) if rng.random() < 0.6 else S.gen_text(rng, rep, 10)
    enc = rng.choice((8, 16, 32))
    return 'seg:%d:%d:%d:-:-:%s' % (slot, enc, rng.randrange(8), S.utfgen.hexu(S.encode(cps, enc), enc))


def glyph_leg(chk, hexe, mexe, fonts, per_font):
    """component correspondence of GlyphCache::glyph with Model/MemoModel.v: the table read from a preloaded face instantiates the
    model's loader; random lookup histories on a lazy and on a preloaded face must return what the model returns"""
    rng = chk.rng
    tabs = {}
    tcases = ['t%d api %s 2 cb - gltab' % (k, f) for k, f in enumerate(fonts)]
    _, tl, _ = vlib.run_pair(None, hexe, tcases, timeout=1200, shards=4)
    for f, l in zip(fonts, tl):
        r = results(l)
        if r and r[0] == 'face=ok' and r[1] and r[1][0].startswith('gltab='):
            b = r[1][0][6:].split(';')
            tabs[f] = (int(b[0]), b[1:])
    cases, mcases = [], []
    for f in fonts:
        if f not in tabs:
            continue
        n, tab = tabs[f]
        for k in range(per_font):
            opts = rng.choice((0, 0, 2, 4, 6))
            gids = [rng.choice((0, 1, n - 1, n, n + 1, 65535, rng.randrange(0, max(1, n)), rng.randrange(0, max(1, n)))) for _ in range(rng.choice((1, 3, 8, 20)))]
            cid = 'g%d' % len(cases)
            cases.append('%s api %s %d cb - gl:%s %s gl:%s' % (cid, f, opts, ','.join(map(str, gids)), probe_op(rng, f), ','.join(map(str, gids))))
            mcases.append('%s memo %s %d %s %s' % (cid, 'pre' if opts & 2 else 'lazy', n, ';'.join(t if t else 'x' for t in tab), ','.join(map(str, gids + gids))))
    _, il, _ = vlib.run_pair(None, hexe, cases, timeout=2400)
    ml, _, _ = vlib.run_pair(mexe, None, mcases, timeout=2400)
    ndis = 0
    for c, i, m in zip(cases, il, ml):
        r = results(i)
        if r is None or r[0] != 'face=ok':
            chk.tie_break('harness', 'glyph lookups: no result: %s' % (i or '')[:200], c[:300]); continue
        got = ';'.join(p.split(';', 1)[1] for p in r[1] if p.startswith('gl=') and ';' in p)
        exp = (m or '').split(' M ', 1)[1] if m and ' M ' in m else '?'
        if got != exp:
            ndis += 1
            chk.tie_break('correspondence:glyphcache', 'GlyphCache::glyph and Model/MemoModel.v disagree: impl %s model %s' % (got[:300], exp[:300]), c[:300])
    return len(cases), ndis


def dying_chars(hexe, fonts, per_font=160):
    """characters whose one-character text makes gr_make_seg give up (a rule program dies: the machine ends in died_early, the insert
    budget runs out ...): font -> [code points].  Found by asking the real library, so that histories and thread workloads can include
    the texts on which shaping fails."""
    import vlib
    from props import shapegen as S
    cases, reps = [], []
    for f in fonts:
        rep = [c for c in S.repertoire(vlib.REPO, f) if c < 0x110000][:per_font]
        reps.append(rep)
        cases.append('dy%d api %s 0 file - %s' % (len(cases), f, ' '.join('seg:0:32:0:-:-:%08x' % c for c in rep)))
    _, il, _ = vlib.run_pair(None, hexe, cases, timeout=1200)
    out = {}
    for f, rep, l in zip(fonts, reps, il):
        r = results(l) if l else None
        if not r or r[0] != 'face=ok':
            continue
        segs = [p for p in r[1] if p.startswith('seg=')]
        d = [c for c, p in zip(rep, segs) if p.startswith('seg=NULLSEG')]
        if d:
            out[f] = d
    return out
