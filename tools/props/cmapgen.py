"""cmap generators + an independent reference (OpenType spec semantics) for C13."""
import struct


def fmt4(segs, glyph_arrays=True, length_override=None):
    """segs: list of dict(start,end,delta, gids=None|list)  — the caller supplies the final FFFF segment.
    Segments with gids use idRangeOffset into a glyphIdArray appended after the arrays."""
    n = len(segs)
    ends = [s['end'] for s in segs]
    starts = [s['start'] for s in segs]
    deltas = [s['delta'] & 0xFFFF for s in segs]
    ro = [0] * n
    garr = []
    for i, s in enumerate(segs):
        if s.get('gids') is not None:
            # offset in bytes from the location of idRangeOffset[i] to the first glyph of the segment
            ro[i] = 2 * ((n - i) + len(garr)) + s.get('ro_adjust', 0)
            garr += s['gids']
    words = [4, 0, 0, 2 * n, 0, 0, 0] + ends + [0] + starts + deltas + ro + garr
    words[1] = (2 * len(words)) if length_override is None else length_override
    return b''.join(struct.pack('>H', w & 0xFFFF) for w in words)


def fmt12(groups, length_override=None, ngroups_override=None):
    body = b''.join(struct.pack('>III', s, e, g) for s, e, g in groups)
    n = len(groups) if ngroups_override is None else ngroups_override
    ln = 16 + len(body) if length_override is None else length_override
    return struct.pack('>HHIII', 12, 0, ln, 0, n) + body


def cmap_table(subs, data_order=None):
    """subs: list of (platform, encoding, bytes) in record order; data_order: the order in which the subtables' bytes are stored (a
    permutation of range(len(subs)); the records stay sorted by platform / encoding as the format requires)"""
    n = len(subs)
    off = 4 + 8 * n
    order = list(data_order) if data_order is not None else list(range(n))
    where, body = {}, b''
    for k in order:
        where[k] = off + len(body)
        body += subs[k][2]
    hdr = struct.pack('>HH', 0, n)
    for k, (p, e, b) in enumerate(subs):
        hdr += struct.pack('>HHI', p, e, where[k])
    return hdr + body


# ---- independent reference: OpenType cmap semantics on the abstract description
def spec4(segs, c):
    for s in segs:
        if s['start'] <= c <= s['end']:
            if s.get('gids') is None:
                return (c + s['delta']) & 0xFFFF
            g = s['gids'][c - s['start']] if c - s['start'] < len(s['gids']) else None
            if g is None:
                return None            # reads outside the array the generator provided: not specified
            return 0 if g == 0 else (g + s['delta']) & 0xFFFF
    return 0


def spec12(groups, c):
    for s, e, g in groups:
        if s <= c <= e:
            return (g + c - s) & 0xFFFF
    return 0


def parse_font_cmap(path):
    """independent parser of a font file's Unicode cmap: returns dict usv -> gid following the OpenType rules
    (format 12 for supplementary-plane characters, format 4 for the BMP)"""
    d = open(path, 'rb').read()
    nt = struct.unpack('>H', d[4:6])[0]
    cm = None
    for i in range(nt):
        tag, cs, off, ln = struct.unpack('>4sIII', d[12 + 16 * i:28 + 16 * i])
        if tag == b'cmap':
            cm = d[off:off + ln]
    if cm is None:
        return {}
    n = struct.unpack('>H', cm[2:4])[0]
    recs = {}
    for i in range(n):
        p, e, o = struct.unpack('>HHI', cm[4 + 8 * i:12 + 8 * i])
        recs.setdefault((p, e), o)
    out = {}
    bmp = next((recs[k] for k in ((3, 1), (0, 3), (0, 2), (0, 1), (0, 0)) if k in recs and struct.unpack('>H', cm[recs[k]:recs[k] + 2])[0] == 4), None)
    smp = next((recs[k] for k in ((3, 10), (0, 4)) if k in recs and struct.unpack('>H', cm[recs[k]:recs[k] + 2])[0] == 12), None)
    if smp is not None:
        ng = struct.unpack('>I', cm[smp + 12:smp + 16])[0]
        for i in range(ng):
            s, e, g = struct.unpack('>III', cm[smp + 16 + 12 * i:smp + 28 + 12 * i])
            for c in range(max(s, 0x10000), e + 1):
                out[c] = (g + c - s) & 0xFFFF
    if bmp is not None:
        sc = struct.unpack('>H', cm[bmp + 6:bmp + 8])[0] // 2
        rd = lambda k: struct.unpack('>H', cm[bmp + 2 * k:bmp + 2 * k + 2])[0]
        ln = rd(1)
        for i in range(sc):
            e, s, dl, ro = rd(7 + i), rd(8 + sc + i), rd(8 + 2 * sc + i), rd(8 + 3 * sc + i)
            for c in range(s, e + 1):
                if ro == 0:
                    g = (c + dl) & 0xFFFF
                else:
                    k = 8 + 3 * sc + i + ro // 2 + (c - s)
                    g = rd(k) if 2 * k + 1 < ln else 0
                    g = (g + dl) & 0xFFFF if g else 0
                if g:
                    out[c] = g
    return {c: g for c, g in out.items() if g}


def gen_segments(rng, maxseg=40, final_real=False):
    segs = []
    c = rng.choice((0, 1, 0x20, 0x41, rng.randrange(0, 0x200)))
    nseg = rng.randrange(1, maxseg)
    for i in range(nseg):
        if c > 0xFFF0: break
        ln = rng.choice((1, 1, 2, 3, rng.randrange(1, 60), rng.randrange(1, 400)))
        end = min(c + ln - 1, 0xFFFD)
        s = dict(start=c, end=end, delta=rng.choice((0, 1, 0xFFFF, 0x8000, rng.randrange(0x10000), (-c) & 0xFFFF, (3 - c) & 0xFFFF)))
        if rng.random() < 0.35:
            s['gids'] = [rng.choice((0, 0, 1, 5, 0xFFFF, rng.randrange(0x10000))) for _ in range(end - c + 1)]
        segs.append(s)
        c = end + rng.choice((1, 1, 2, 3, rng.randrange(2, 300), rng.randrange(2, 5000)))
    if final_real and (not segs or segs[-1]['end'] < 0xFFE0):
        st = rng.randrange(max(0xFFE0, (segs[-1]['end'] + 1) if segs else 0), 0x10000)
        s = dict(start=st, end=0xFFFF, delta=rng.choice((0x20, 1, 0, rng.randrange(0x10000))))
        if rng.random() < 0.3:
            s['gids'] = [rng.randrange(1, 500) for _ in range(0x10000 - st)]
        segs.append(s)
    else:
        segs.append(dict(start=0xFFFF, end=0xFFFF, delta=1))
    return segs


def gen_groups(rng, maxg=30, bmp_too=False, top=False):
    groups = []
    c = rng.choice((0x10000, 0x10000, 0x1F600, 0x20000)) if not bmp_too else rng.choice((0x20, 0x41, 0x3000))
    for i in range(rng.randrange(1, maxg)):
        if c > 0x10FFF0: break
        ln = rng.choice((1, 2, 3, rng.randrange(1, 100), rng.randrange(1, 3000)))
        e = min(c + ln - 1, 0x10FFFD)
        groups.append((c, e, rng.choice((1, 100, 0xFFF0, rng.randrange(0x10000)))))
        c = e + rng.choice((1, 2, rng.randrange(2, 500), rng.randrange(2, 70000)))
    if top:
        st = max(c, rng.randrange(0x10FFF0, 0x110000))
        if st <= 0x10FFFF:
            groups.append((st, 0x10FFFF, rng.randrange(1, 1000)))
    return groups
