"""C12 — gr_make_seg consumes no more text than its contract allows (DESIGN.md section 6/C12)."""
import os
import vlib
from props import utfgen as G
from props import c11


def run(chk):
    chk.trusted += ['hand model read_text in Model/UtfModel.v of process_utf_data / Segment::read_text']
    chk.assumptions += ['the text buffer is allocated exactly to its terminating NUL unit (ASan red zone follows)']
    chk.check_proofs()
    mexe, wrapper = c11.build(chk)
    rng, thorough = chk.rng, chk.tier == 'thorough'
    cases, meta = [], []
    cp = os.path.join(vlib.VERIF, 'corpus', 'c12.txt')
    if os.path.exists(cp):
        for l in open(cp):
            f = l.split()
            if f and not l.startswith('#'):
                e = int(f[0]); u = [int(f[2][k:k + G.W[e]], 16) for k in range(0, len(f[2]), G.W[e])] if f[2] != '-' else []
                cases.append('k%d decode %d %s %s' % (len(cases), e, f[1], f[2])); meta.append((e, int(f[1]), u))
    for e, nch, u in G.gen_decode(rng, thorough, overestimate_only=True):
        cases.append('c%d decode %d %d %s' % (len(cases), e, nch, G.hexu(u, e))); meta.append((e, nch, u))
    ml, il, ierr = vlib.run_pair(mexe, wrapper, cases)
    # the same strings through fonts of other kinds: whether a character has a glyph (some of these fonts map even U+0000 to one), is
    # a pseudo glyph or is unmapped must not matter to where reading stops
    fonts = ['Scheherazadegr.ttf', 'Awami_test.ttf', 'charis_r_gr.ttf', 'general.ttf'] + (['Annapurnarc2.ttf', 'Awami_compressed_test.ttf', 'Scheherazadegr_noglyfs.ttf', 'small.ttf'] if thorough else [])
    allc, allm, alli, allml = list(cases), list(meta), list(il), list(ml)
    for fn in fonts:
        wf = wrapper[:-3] + '_' + fn.split('.')[0] + '.sh'
        with open(wf, 'w') as fh:
            fh.write(open(wrapper).read().rstrip('\n') + ' ' + fn + '\n')
        os.chmod(wf, 0o755)
        sub = [k for k in range(len(cases)) if thorough or k % 3 == 0]
        fc = ['%s.%s %s' % (cases[k].split()[0], fn.split('.')[0], ' '.join(cases[k].split()[1:])) for k in sub]
        _, fil, _ = vlib.run_pair(None, wf, fc)
        for k, c2, i2 in zip(sub, fc, fil):
            allc.append(c2 + ' @' + fn); allm.append(meta[k]); alli.append(i2)
            allml.append((ml[k] or '').replace(cases[k].split()[0], c2.split()[0], 1) if ml[k] else None)
    cases, meta, il, ml = allc, allm, alli, allml
    ndis, classes = 0, set()
    for c, (e, nch, u), m, i in zip(cases, meta, ml, il):
        if i is None:
            chk.tie_break('harness', 'no result line', c); continue
        ires, mres = i.split()[1:], (m or '').split()[1:]
        key = 'makeseg:%d:%d:%s' % (e, nch, G.hexu(u, e))
        if ires[:1] != ['D'] or ires[1:2] == ['NULL']:
            chk.violation(key, 'gr_make_seg(nChars=%d) on a %d-unit NUL-terminated string did not complete normally: %s' % (nch, len(u), i),
                          dict(case=c, got=i))
        else:
            n = int(ires[1][2:])
            nwf, status, _ = G.ref_analyse(u, e)
            if status == 'ok':
                want = min(nch, nwf)
                if n != want:
                    chk.violation(key, 'expected %d char-infos (characters before the NUL, capped by nChars), got %d' % (want, n), dict(case=c, got=i))
            elif n > min(nch, len(u)):
                chk.violation(key, '%d char-infos for a text of %d units' % (n, len(u)), dict(case=c, got=i))
            classes.add((e, status, min(len(u), 5), min(nch - len(u), 4)))
        if mres != ires:
            ndis += 1
            chk.tie_break('correspondence:read_text', 'model %r vs implementation %r' % (m, i), c)
    # --- estimates far beyond the text (the manual allows any over-estimate): 2^24 .. SIZE_MAX.  The model is run with nChars = the
    # number of units: C12_utf*_stops_at_nul says every larger value gives the same result.
    hcases, hmodel = [], []
    for e in (8, 16, 32):
        for u in ([0x61, 0x62, 0x63], [], [0x41], [0x61] * 9):
            for nch in (1 << 24, 1 << 31, (1 << 31) + 1, 1 << 32, 1 << 60, (1 << 64) - 10, (1 << 64) - 1):
                hcases.append('h%d decode %d %d %s' % (len(hcases), e, nch, G.hexu(u, e)))
                hmodel.append('h%d decode %d %d %s' % (len(hmodel), e, len(u), G.hexu(u, e)))
    _, hil, _ = vlib.run_pair(None, wrapper, hcases, timeout=1200)
    hml, _, _ = vlib.run_pair(mexe, None, hmodel)
    for c, m, i in zip(hcases, hml, hil):
        if i is None or m is None:
            chk.tie_break('harness', 'no result line', c); continue
        if i.split()[1:] != m.split()[1:]:
            chk.violation('makeseg:huge:%s' % ' '.join(c.split()[2:]), 'gr_make_seg with nChars = %s on the NUL-terminated string %s: expected %s, got %s' % (c.split()[3], c.split()[4], ' '.join(m.split()[1:])[:120], ' '.join(i.split()[1:])[:200]), dict(case=c, got=i))
        classes.add(('huge', c.split()[2], c.split()[3], c.split()[4][:8]))
    cases = cases + hcases
    chk.cov.update(evaluations=len(cases), distinct_nontrivial=len(classes), disagreements_checked=ndis,
                   rule='over Padauk and %d further fonts (among them fonts whose cmap gives U+0000 a glyph): NUL-terminated strings (all over a boundary alphabet up to 2-3 units, structured well-/ill-formed longer ones) in the three '
                        'encodings, nChars in {len, len+1, 2len+3, 64} and, for four short strings, 2^24, 2^31, 2^31+1, 2^32, 2^60, SIZE_MAX-9, SIZE_MAX; buffer allocated exactly to the terminator under ASan; non-trivial = distinct '
                        '(encoding, reference status, length class, over-estimate class)' % len(fonts),
                   samples=[cases[0], cases[len(cases) // 2], cases[-1]], exhaustive=False)


replay = c11.replay
