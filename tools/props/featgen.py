"""Feat / Sill / name table generators for C18 and an abstract reference of what the API must answer."""
import struct


def name_table(strings, first_is_label=False, mac_first=False):
    """strings: dict name_id -> python str; Windows Unicode BMP (3,1) English (0x409) records, UTF-16BE; with mac_first the Windows
    block is preceded by Macintosh Roman records (as sorted name tables have them) and nothing else"""
    recs, data = [], b''
    if mac_first:
        for nid in sorted(strings)[:2]:
            b = b'Mac'
            recs.append((1, 0, 0, nid, len(b), len(data))); data += b
    elif not first_is_label:
        b0 = 'copyright'.encode('utf-16-be')
        recs.append((3, 1, 0x409, 0, len(b0), 0)); data += b0
    for nid in sorted(strings):
        b = strings[nid].encode('utf-16-be')
        recs.append((3, 1, 0x409, nid, len(b), len(data)))
        data += b
    hdr = struct.pack('>HHH', 0, len(recs), 6 + 12 * len(recs))
    return hdr + b''.join(struct.pack('>HHHHHH', *r) for r in recs) + data


def feat_table(feats, version=0x00020000):
    """feats: list of dict(id, flags, nameid, settings=[(value,label)...])"""
    n = len(feats)
    v2 = version >= 0x00020000
    rec = 16 if v2 else 12
    hdr = struct.pack('>IHHI', version, n, 0, 0)
    off = 12 + n * rec
    recs, sets = b'', b''
    for f in feats:
        ns = len(f['settings'])
        if v2:
            recs += struct.pack('>IHHIHH', f['id'], ns, 0, off + len(sets), f['flags'], f['nameid'])
        else:
            recs += struct.pack('>HHIHH', f['id'] & 0xFFFF, ns, off + len(sets), f['flags'], f['nameid'])
        for v, l in f['settings']:
            sets += struct.pack('>HH', v & 0xFFFF, l)
    t = hdr + recs + sets
    if len(t) < 12 + n * 16:                      # the loader's conservative size test assumes 16-byte records
        t += b'\0' * (12 + n * 16 - len(t))
    return t


def sill_table(langs):
    """langs: list of (tag32, [(featid, value)...])"""
    n = len(langs)
    hdr = struct.pack('>IHHHH', 0x00010000, n, 0, 0, 0)
    off = 12 + 8 * (n + 1)
    ents, sets = b'', b''
    for tag, st in langs:
        ents += struct.pack('>IHH', tag, len(st), off + len(sets))
        for fid, v in st:
            sets += struct.pack('>IHH', fid, v & 0xFFFF, 0)
    ents += struct.pack('>IHH', 0x80808080, 0, off + len(sets))
    return hdr + ents + sets


def gen_font(rng, big=False):
    nf = rng.choice((1, 2, 3, 5, 8, 12, 20)) if not big else rng.choice((60, 129, 130, 200, 257, 300, 1015, 1019, 1021, 1030, 1100))
    feats, used, names = [], set(), {}
    nid = 256
    for i in range(nf):
        fid = rng.choice((1, rng.randrange(2, 3000), rng.getrandbits(32) | 0x01000000))
        while fid in used:
            fid = rng.getrandbits(32) | 0x01000000
        used.add(fid)
        k = rng.random()
        if big:
            ns = 0 if rng.random() < 0.8 else rng.randrange(1, 4)
        else:
            ns = 0 if k < 0.2 else rng.choice((1, 2, 2, 3, 4, 9))
        settings = []
        top = rng.choice((1, 1, 2, 3, 7, 8, 15, 16, 255, 256, 0x7FFF, 0x8000, 0xFFFE, 0xFFFF))
        vals = sorted(set([rng.choice((0, 1, top)) for _ in range(ns)] + ([top] if ns else [])))[:max(ns, 0)]
        if ns and rng.random() < 0.3:
            rng.shuffle(vals)
        for v in vals:
            nid += 1
            names[nid] = 'set%d_%d' % (i, v) + rng.choice(('', 'é', '中', ' long label'))
            settings.append((v, nid))
        nid += 1
        names[nid] = 'feat%d' % i + rng.choice(('', 'ā̃', ' x'))
        feats.append(dict(id=fid, flags=(0x0800 if rng.random() < 0.15 else 0) | (0x8000 if rng.random() < 0.3 else 0), nameid=nid, settings=settings))
    langs = []
    for _ in range(rng.choice((0, 1, 2, 4))):
        tag = rng.choice((b'en\0\0', b'vi\0\0', b'khw\0', b'urd\0', b'q\0\0\0', b'abcd'))
        if any(struct.unpack('>I', tag)[0] == l[0] for l in langs):
            continue
        st = []
        for _ in range(rng.randrange(0, 5)):
            f = rng.choice(feats)
            mx = max((v for v, _ in f['settings']), default=0xFFFF)
            st.append((f['id'] if rng.random() < 0.85 else rng.getrandbits(32), rng.choice((0, 1, mx, mx + 1 if mx < 0xFFFF else mx, rng.randrange(0x10000)))))
        langs.append((struct.unpack('>I', tag)[0], st))
    return feats, langs, names


def maxval(f):
    return max((v & 0xFFFF for v, _ in f['settings']), default=0xFFFF)     # any uint16 if no settings


def ref_defaults(feats):
    return [(f['settings'][0][0] & 0xFFFF) if f['settings'] else 0 for f in feats]


def ref_lang(feats, langs, tag):
    """reference: defaults overridden by the Sill entry; entries with v > max or unknown id ignored; feature id 1 receives the lang id"""
    vals = ref_defaults(feats)
    ent = next((l for l in langs if l[0] == tag), None) if tag else None
    if ent is None:
        return vals
    byid = {}
    for i, f in enumerate(feats):
        byid.setdefault(f['id'], i)
    for fid, v in ent[1]:
        if fid in byid and (v & 0xFFFF) <= maxval(feats[byid[fid]]):
            vals[byid[fid]] = v & 0xFFFF
    if 1 in byid:
        i = byid[1]
        mx = max((v & 0xFFFF for v, _ in feats[i]['settings']), default=0xFFFFFFFF)
        if ent[0] <= mx:
            vals[i] = ent[0] & 0xFFFF            # the API returns 16 bits of the stored value
    return vals
