"""C02 — shaping any accepted font with any text is safe, terminating and bounded (DESIGN.md section 6/C02).

Legs: (1) theorems over the control skeleton of the rule loop and the insert budget (Model/LoopModel.v), constants regenerated
from the source; (2) correspondence: the GRAPHITE2_VERIF hooks report every iteration of the rule loop (measure, counter, reset,
cursor) and every insert / delete / end-of-pass; the extracted acceptors must admit the traces — that is the monitored
hypothesis of the loop theorem — and the iteration count must respect the proved bound; (3) the property's oracle on the API:
make / query everything / destroy under ASan+UBSan(+LSan) with a per-case watchdog, n_slots <= 64 * n_chars, over shipped
fonts, adversarial rule actions that pass the real loader, and byte-mutated fonts that the real loader accepts."""
import os, re, struct, shutil
import vlib
from props import shapegen as S, engine, vmslotgen as V
OPDEL = 32


def tables(d):
    n = struct.unpack('>H', d[4:6])[0]
    out = {}
    for i in range(n):
        tag, _, off, ln = struct.unpack('>4sIII', d[12 + 16 * i:28 + 16 * i])
        out[tag.decode('latin1')] = (off, ln)
    return out


def mutate_font(rng, data):
    d = bytearray(data)
    tb = tables(data)
    names = [t for t in ('Silf', 'Silf', 'Silf', 'Silf', 'Silf', 'Glat', 'Gloc', 'Feat', 'Sill', 'cmap', 'hmtx', 'maxp', 'head', 'name') if t in tb]
    what = []
    for _ in range(rng.choice((1, 1, 1, 2, 3, 5))):
        t = rng.choice(names)
        off, ln = tb[t]
        if ln < 4 or off + ln > len(d):
            continue
        # Silf: stay away from the first bytes most of the time (version / offsets: instant rejection)
        lo = off + (min(ln - 1, 8) if rng.random() < 0.7 else 0)
        p = rng.randrange(lo, off + ln)
        k = rng.randrange(6)
        if k == 0: d[p] = rng.randrange(256)
        elif k == 1: d[p] = (d[p] + rng.choice((1, -1, 2, -2))) & 0xFF
        elif k == 2: d[p] = rng.choice((0, 0xFF, 0x7F, 0x80, 1))
        elif k == 3 and p + 1 < off + ln: d[p], d[p + 1] = d[p + 1], d[p]
        elif k == 4 and p + 1 < off + ln:
            v = (struct.unpack('>H', bytes(d[p:p + 2]))[0] + rng.choice((1, -1, 3, 16, -16, 256))) & 0xFFFF
            d[p:p + 2] = struct.pack('>H', v)
        else: d[p] ^= 1 << rng.randrange(8)
        what.append('%s+%d' % (t, p - off))
    return bytes(d), ','.join(what)


def check_lines(chk, tag, cases, il, ml, classes, stats):
    ndis = 0
    for c, i, m in zip(cases, il, ml):
        if i is None:
            chk.tie_break('harness', 'no result line', c[:300]); continue
        head = i.split(' | ')[0].split()
        key_in = ' '.join(c.split()[2:10])[:150]
        if 'ABORT' in head[1:3]:
            chk.violation('c02:%s:abort:%s' % (tag, key_in), 'make / query / destroy did not complete cleanly (sanitizer report, crash or watchdog): %s' % i[:300], dict(case=c, got=i[:800], tag=tag))
            stats['abort'] = stats.get('abort', 0) + 1
            continue
        if 'LOOPBOUND' in i:
            chk.violation('c02:%s:loopbound:%s' % (tag, key_in), 'a pass made more rule-loop iterations than maxRuleLoop * (slots + budget + 2): %s' % i[i.index('LOOPBOUND'):][:120], dict(case=c, got=i[:800], tag=tag))
        mres = (m or '').split()
        st = head[1] if len(head) > 1 else '?'
        if st == 'NOFACE':
            stats['noface'] = stats.get('noface', 0) + 1; continue
        if st == 'NULLSEG':
            stats['nullseg'] = stats.get('nullseg', 0) + 1
        else:
            try:
                n, nc = int(head[1][2:]), int(head[2][3:])
            except (ValueError, IndexError):
                chk.tie_break('harness', 'unparsable dump', c[:300]); continue
            stats['segments'] = stats.get('segments', 0) + 1
            if n > 64 * nc:
                chk.violation('c02:%s:growth:%s' % (tag, key_in), 'returned segment has %d slots for %d characters (> 64 per character)' % (n, nc), dict(case=c, got=i[:800], tag=tag))
            wf = [t for t in head if t.startswith('WF=')]
            classes.add((tag, c.split()[2][-24:], min(n, 8), min(n // max(nc, 1), 4), wf[0] if wf else ''))
        # model leg
        if len(mres) >= 2 and mres[1] == 'L' and len(mres) >= 3:
            lv = mres[2]
            if lv not in ('ok', 'none'):
                ndis += 1
                if lv.startswith('overbound'):
                    chk.violation('c02:%s:overbound:%s' % (tag, key_in), 'the rule loop exceeded the proved bound maxloop * (mu0 + 1): %s' % lv, dict(case=c, got=i[:800], tag=tag))
                else:
                    chk.tie_break('correspondence:loop', 'the per-iteration observations of Pass::runGraphite are not admitted by Model/LoopModel.v (the measure increased, a reset did not advance '
                                  'the high-water mark, or the counter deviates): %s' % ' '.join(mres[2:6]), c[:400])
            else:
                for t in mres:
                    if t.startswith('worst='):
                        a, b = t[6:].split('/')
                        if int(a) * stats.get('worst_den', 1) > stats.get('worst_num', 0) * int(b):
                            stats['worst_num'], stats['worst_den'] = int(a), int(b)
            if 'G' in mres:
                gv = mres[mres.index('G') + 1]
                if gv == 'reject-but-returned':
                    ndis += 1
                    chk.tie_break('correspondence:growth', 'a segment was returned although the insert/delete/pass-end trace is rejected by the growth model (budget or end-of-pass test)', c[:400])
                stats['G ' + gv] = stats.get('G ' + gv, 0) + 1
    return ndis


def run(chk):
    chk.trusted += ['hand model Model/LoopModel.v: control skeleton of the rule loop (counter, reset, exit) and insert budget; what a rule does to the stream is abstracted to its effect on the '
                    'measure, and that abstraction is monitored per iteration on the real engine, not proved from the opcode semantics',
                    'GRAPHITE2_VERIF hooks (passstart, passiter, passloop, insert, delete, passend)', 'ASan/UBSan/LSan runtime as the memory-safety oracle']
    chk.assumptions += ['memory safety, absence of UB and leaks are decided by sanitizers on the explored inputs, not by a theorem (partial)',
                        'loop theorem hypothesis (measure never increases, decreases at each reset) is checked on every explored run by the extracted acceptor']
    chk.partial = True
    chk.check_proofs()
    w = engine.build(chk)
    mexe = vlib.build_model_driver('Loop')
    rng = chk.rng
    thorough = chk.tier == 'thorough'
    classes, stats, ndis, total = set(), {}, 0, 0
    dist = {}
    # --- shipped fonts
    cases, meta = engine.gen_cases(chk, 400 if thorough else 14, ops=('dump', 'ltrace'), maxlen=40)
    # long and repetitive texts: growth and loop limits
    for font in S.FONTS:
        rep = S.repertoire(vlib.REPO, font)
        for k in range(6 if thorough else 1):
            c0 = rng.choice(rep); c1 = rng.choice(rep)
            cps = [c0, c1] * rng.choice((20, 60, 150))
            cases.append(S.case_line('r%d' % len(cases), font, S.encode(cps, 32), 32, dir_=rng.randrange(8), ops=('dump', 'ltrace')))
        # feature values
        for k in range(12 if thorough else 2):
            cps = S.gen_text(rng, rep, 16)
            feats = ','.join('%x=%d' % (rng.choice((0x6b65726e, 0x6c696761, rng.randrange(1, 40), 0x73733031 + rng.randrange(9), 0x63763031 + rng.randrange(60))), rng.choice((0, 1, 2, 3, 255, 65535)))
                             for _ in range(rng.randrange(1, 4)))
            cases.append(S.case_line('f%d' % len(cases), font, S.encode(cps, 16), 16, dir_=rng.randrange(8), feats=feats, ppm=rng.choice(('-', '14')), ops=('dump', 'ltrace')))
    _, il, _ = vlib.run_pair(None, w, cases, timeout=2400)
    ml, _, _ = vlib.run_pair(mexe, None, [l or 'x' for l in il], timeout=2400)
    ndis += check_lines(chk, 'shipped', cases, il, ml, classes, stats)
    total += len(cases)
    for c in cases:
        f = c.split()[2]; dist[f] = dist.get(f, 0) + 1
    # --- search for a failing input when the loop monitor rejected: texts near the repository's own test strings, for the fonts concerned
    rej = [t for t in chk.tie_breaks if t['what'] == 'correspondence:loop']
    if rej:
        rfonts = sorted(set((t.get('case') or '').split()[2] for t in rej if len((t.get('case') or '').split()) > 2))
        scases = []
        for k in range(24000 if thorough else 6000):
            font = rng.choice(rfonts)
            if font not in S.FONTS:
                continue
            cps = S.gen_text_seeded(rng, vlib.REPO, font, 10)
            if cps:
                scases.append(S.case_line('q%d' % k, font, S.encode(cps, 32), 32, dir_=rng.choice((0, 0, 1, 2, 3)), ops=('dump',)))
        _, sl, _ = vlib.run_pair(None, w, scases, timeout=3000)
        ndis += check_lines(chk, 'search', scases, sl, [None] * len(scases), classes, {})
        total += len(scases)
    # --- the glyph-attribute store: graphite2::sparse built from arbitrary (key, value) pairs against the extracted model
    from props import apiseq
    ahexe = apiseq.build('asan'); smexe = vlib.build_model_driver('Sparse')
    spcases = []
    for i in range(30000 if thorough else 3000):
        n = rng.choice((0, 1, 2, 5, 20, 60))
        keys = sorted(rng.sample(range(0, rng.choice((50, 100, 300, 3000, 65536))), min(n, 50)))
        if rng.random() < 0.15 and len(keys) > 1:
            j = rng.randrange(len(keys) - 1); keys[j + 1] = keys[j] if rng.random() < 0.5 else max(0, keys[j] - 1)     # not increasing: the store must stay null
        ps = [(k, rng.choice((0, 1, 5, 65535, rng.randrange(65536)))) for k in keys]
        q = [rng.choice(keys) if keys and rng.random() < 0.5 else rng.choice((0, 47, 48, 49, 95, 96, 65535, rng.randrange(65536))) for _ in range(12)]
        spcases.append('sp%d sparse %s %s' % (i, ','.join('%d:%d' % p for p in ps) or '-', ','.join(map(str, q))))
    sml, sil, _ = vlib.run_pair(smexe, ahexe, spcases, timeout=2400)
    for c, i, m in zip(spcases, sil, sml):
        if i is None or m is None:
            chk.tie_break('harness', 'no result line', c[:200]); continue
        if 'ABORT' in i.split()[1:3]:
            chk.violation('c02:sparse-abort:%s' % c.split()[2][:100], 'graphite2::sparse read outside its array: %s' % i[:300], dict(case=c, got=i[:600], tag='sparse')); continue
        if i != m:
            ndis += 1
            chk.tie_break('correspondence:sparse', 'graphite2::sparse and Model/SparseModel.v disagree: impl %s model %s' % (i[:200], m[:200]), c[:300])
        classes.add(('sparse', i.split()[2], min(len(c.split()[2]) // 40, 5)))
    total += len(spcases)
    # --- compiled GDL-lite programs that insert heavily: the growth cap and the insert budget at work
    from props import fontkit as K, cmapgen, c06
    gdir = os.path.join(vlib.BUILD, 'fuzzfonts', 'c02g-%s-%d' % (chk.tier, chk.seed))
    shutil.rmtree(gdir, ignore_errors=True); os.makedirs(gdir)
    gbase = open(os.path.join(vlib.REPO, 'tests/fonts', c06.BASE), 'rb').read()
    gcm = cmapgen.parse_font_cmap(os.path.join(vlib.REPO, 'tests/fonts', c06.BASE))
    ga, gb = gcm[0x61], gcm[0x62]
    gcases = []
    for k in range(60 if thorough else 12):
        npass = rng.choice((1, 2, 3, 4))
        prog = []
        for _ in range(npass):
            kins = rng.choice((1, 2, 3, 5, 7, 15, 40))
            rules = [dict(pre=0, pat=[{ga, gb}], acts=[[('I', rng.choice((ga, gb))) for _ in range(kins)]])]
            if rng.random() < 0.4:
                rules.append(dict(pre=0, pat=[{ga}, {gb}], acts=[[('D',)], [('I', ga), ('I', gb)]]))
            if rng.random() < 0.5:                                   # cursors that move backwards: the loop counter and the high-water mark at work
                for r in rules:
                    r['ret'] = rng.choice((0, -1, -1, -2, -3, 1))
                rules.append(dict(pre=0, pat=[{ga, gb}, {ga, gb}], acts=[[('G', rng.choice((ga, gb)))], []], ret=rng.choice((-1, -2, -3))))
            prog.append(dict(maxloop=rng.choice((1, 5, 200)), rules=rules, alpha=[ga, gb]))
        fp = os.path.join(gdir, 'g%d.ttf' % k)
        open(fp, 'wb').write(K.build_font(gbase, prog))
        for n in (1, 2, 5, 13, 40):
            gcases.append(S.case_line('g%d.%d' % (k, n), fp, [rng.choice((0x61, 0x62)) for _ in range(n)], 32, ops=('dump', 'ltrace')))
    _, gl_, _ = vlib.run_pair(None, w, gcases, timeout=2400)
    gml, _, _ = vlib.run_pair(mexe, None, [l or 'x' for l in gl_], timeout=2400)
    gstats = {}
    ndis += check_lines(chk, 'growth', gcases, gl_, gml, classes, gstats)
    total += len(gcases)
    shutil.rmtree(gdir, ignore_errors=True)
    chk.notes.append('inserting programs: %s' % sorted(gstats.items()))
    # --- the rule loop of the engine against the reference loop (Model/RuleModel.v: loop_step), iteration by iteration: the theorems
    #     C02_reference_loop_accepted / _pass_terminates / _growth_cap are about that reference; here its observation sequence
    #     (measure, counter, reset, live cursor per iteration, per pass) must be the engine's
    rexe = vlib.build_model_driver('Rule')
    rdir = os.path.join(vlib.BUILD, 'fuzzfonts', 'c02r-%s-%d' % (chk.tier, chk.seed))
    rbase, rgl, rinv, radv = c06.prepare(chk, w, rdir)
    rbase = K.enrich(rbase)
    rcases, rmcases, rtexts = [], [], []
    for k in range(500 if thorough else 60):
        prog, nsub = (c06.gen_growth_program(rng, rgl) if rng.random() < 0.3 else c06.gen_program(rng, rgl))
        try:
            data = K.build_font(rbase, prog, nsub)
        except Exception as e:
            chk.tie_break('compiler', 'fontkit failed: %s' % e); continue
        fp = os.path.join(rdir, 'r%d.ttf' % k)
        open(fp, 'wb').write(data)
        text = K.prog_to_text(prog)
        alpha = sorted(set(g for ps in prog for g in ps['alpha']))
        for t in range(6):
            n = rng.choice((1, 2, 3, 5, 8, 12))
            gids = [rng.choice(alpha) if rng.random() < 0.85 else rng.choice(rgl) for _ in range(n)]
            cid = 'rt%d.%d' % (k, t)
            fvs = prog[0].get('feats')
            rcases.append(S.case_line(cid, fp, [rinv[g] for g in gids], 32, feats=(','.join('%x=%x' % (f, v) for f, v in sorted(fvs.items())) if fvs else '-'), ops=('dump', 'ltrace')))
            rmcases.append('%s gdlL %d %s %s %s' % (cid, nsub, text, radv, ','.join(map(str, gids))))
            rtexts.append(text)
    _, ril, _ = vlib.run_pair(None, w, rcases, timeout=2400)
    rml, _, _ = vlib.run_pair(rexe, None, rmcases, timeout=2400)
    rstats = {'same': 0, 'iterations': 0, 'resets': 0, 'died': 0}
    for c, mc, i, m, text in zip(rcases, rmcases, ril, rml, rtexts):
        if i is None or m is None:
            chk.tie_break('harness', 'no result line', c[:300]); continue
        if 'ABORT' in i.split()[1:3]:
            chk.violation('c02:reftrace:abort:%s' % text[:100], 'shaping with a compiled rule program aborted: %s' % i[:300], dict(case=c, got=i[:800], tag='reftrace')); continue
        got = i.split(' | L ', 1)[1].split(' | ')[0].strip() if ' | L ' in i else '-'
        exp = m.split(' T ', 1)[1].strip() if ' T ' in m else '?'
        # the reset flag of an observation whose cursor is null carries no information (the acceptor ignores it; the reference derives it from the counter)
        norm = lambda tr: re.sub(r'(\d+,\d+),[01],0;', r'\1,0,0;', tr)
        got, exp = norm(got), norm(exp)
        if i.split()[1] == 'NULLSEG':
            rstats['died'] += 1
        if got == exp:
            rstats['same'] += 1
            its = [x for ps in got.split('/')[1:] for x in ps.split(':', 1)[1].split(';') if x]
            rstats['iterations'] += len(its); rstats['resets'] += sum(1 for x in its if x.split(',')[2] == '1')
            classes.add(('reftrace', min(len(its), 40), text.count('/'), i.split()[1] == 'NULLSEG'))
        else:
            ndis += 1
            gt, et = got.split(';'), exp.split(';')
            fd = next((k for k in range(min(len(gt), len(et))) if gt[k] != et[k]), min(len(gt), len(et)))
            chk.tie_break('correspondence:reference-loop', 'the engine\'s rule loop and the reference loop of Model/RuleModel.v differ in their per-iteration observations (measure, counter, reset, live): '
                          'first difference at iteration token %d: engine ...%s reference ...%s [%s]' % (fd, ';'.join(gt[max(0, fd - 3):fd + 3]), ';'.join(et[max(0, fd - 3):fd + 3]), text[:300]), c[:400])
    total += len(rcases)
    shutil.rmtree(rdir, ignore_errors=True)
    chk.notes.append('reference loop traces: %s' % sorted(rstats.items()))
    stats.update({'reftrace ' + k: v for k, v in rstats.items()})
    # --- the recursion over a cluster: a compiled program that hangs K marks under each of L nested parents (attach + put_copy of an
    #     attached slot: the copy joins the same parent), shaped on a 1 MiB stack.  Slot::finalise / floodShift cut the recursion off
    #     101 links deep whichever links it follows (C02_finalise_recursion_bounded), so the stack needed does not grow with the text
    cdir = os.path.join(vlib.BUILD, 'fuzzfonts', 'c02c-%s-%d' % (chk.tier, chk.seed))
    shutil.rmtree(cdir, ignore_errors=True); os.makedirs(cdir)
    inv = {g: c for c, g in gcm.items() if 0x21 <= c <= 0x7E and g}
    ka, kb, kc, kd = sorted(inv)[:4]
    comb = [dict(maxloop=3, alpha=[ka, kb, kc, kd], rules=[
        dict(pre=1, pat=[{ka, kd}, {kb}], acts=[[('T', -1)]]),                          # the first mark attaches to the parent
        dict(pre=1, pat=[{kb}, {kb}], acts=[[('C', -1)]]),                              # every further mark copies the previous one: same parent
        dict(pre=1, pat=[{kb}, {kc}, {kb}], acts=[[('G', kd), ('T', -1)], []], ret=-1),  # a new level hangs under the last mark
    ])]
    cfp = os.path.join(cdir, 'comb.ttf')
    open(cfp, 'wb').write(K.build_font(gbase, comb, 1))
    ws = os.path.join(os.path.dirname(w), 'run_shape_smallstack.sh')
    with open(ws, 'w') as f:
        f.write('#!/bin/sh\nulimit -s 1024\n' + open(w).read().split('\n', 1)[1])
    os.chmod(ws, 0o755)
    ccases = []
    for kk, ll in ((8, 8), (64, 40), (100, 90)) + (((200, 90), (30, 300)) if thorough else ()):
        units = [inv[ka]] + ([inv[kb]] * (kk - 1) + [inv[kc]]) * ll + [inv[kb]] * (kk - 1)
        ccases.append(S.case_line('comb%d.%d' % (kk, ll), cfp, units, 32, ops=('dump',)))
    _, cil, _ = vlib.run_pair(None, ws, ccases, timeout=2400, shards=1)
    for c, i in zip(ccases, cil):
        if i is None:
            chk.tie_break('harness', 'no result line', c[:300]); continue
        tk = i.split()
        if 'ABORT' in tk[1:3]:
            chk.violation('c02:comb:abort:%s' % c.split()[0], 'shaping a text whose marks form one large cluster (K siblings under each of L nested parents) overran a 1 MiB stack or was flagged by the sanitizers: the recursion over the cluster is not bounded by the depth cut-off: %s' % i[:300],
                          dict(case=c, got=i[:800], tag='comb', font_hex_gz=c06.blob(cfp)))
        elif tk[1] not in ('NULLSEG', 'NOFACE'):
            try:
                d0 = S.parse_dump(' '.join(i.split(' | ')[0].split()[1:]))
                natt = sum(1 for sl in d0['slots'] if sl[5] != '-1')
                classes.add(('comb', c.split()[0], natt > 0))
                stats['comb attached slots'] = stats.get('comb attached slots', 0) + natt
            except Exception:
                chk.tie_break('harness', 'unparsable dump', c[:300])
    total += len(ccases)
    shutil.rmtree(cdir, ignore_errors=True)
    # --- a slot map that the FSM returns completely full, with a rule matched one slot after its start and as many NEXTs as the loader
    #     admits: the action's cursor then stands one past the last map entry, where the interpreter stores the current slot (F29)
    fdir2 = os.path.join(vlib.BUILD, 'fuzzfonts', 'c02f-%s-%d' % (chk.tier, chk.seed))
    shutil.rmtree(fdir2, ignore_errors=True); os.makedirs(fdir2)
    pad = open(os.path.join(vlib.REPO, 'tests/fonts/Padauk.ttf'), 'rb').read()
    pcm = cmapgen.parse_font_cmap(os.path.join(vlib.REPO, 'tests/fonts/Padauk.ttf'))
    pmo = K.font_tables(pad)[b'maxp'][0]; png = struct.unpack('>H', pad[pmo + 4:pmo + 6])[0]
    fcases = []
    for nn in (61, 62, 63):
        for extra, nm in (((), 'plain'), ((OPDEL,), 'delete')):
            fp2 = os.path.join(fdir2, 'full%d%s.ttf' % (nn, nm))
            open(fp2, 'wb').write(K.replace_table(pad, b'Silf', K.silf_full_map(pcm[0x61], png - 1, nn, extra)))
            for lead in (62, 63, 64):
                fcases.append(S.case_line('full%d%s.%d' % (nn, nm, lead), fp2, [0x61] * lead + [0x62] + [0x61] * 4, 32, ops=('dump',)))
    _, fil, _ = vlib.run_pair(None, w, fcases, timeout=1200, shards=2)
    for c, i in zip(fcases, fil):
        if i is None:
            chk.tie_break('harness', 'no result line', c[:300]); continue
        if 'ABORT' in i.split()[1:3]:
            chk.violation('c02:fullmap:abort:%s' % c.split()[0], 'shaping with a rule that spans a completely full slot map aborted (sanitizer report, crash or watchdog): %s' % i[:300],
                          dict(case=c, got=i[:800], tag='fullmap', font_hex_gz=c06.blob(c.split()[2])))
        else:
            classes.add(('fullmap', c.split()[0].split('.')[0], i.split()[1] == 'NULLSEG'))
    total += len(fcases)
    shutil.rmtree(fdir2, ignore_errors=True)
    # --- mutated fonts that the real loader accepts
    fdir = os.path.join(vlib.BUILD, 'fuzzfonts', 'c02-%s-%d' % (chk.tier, chk.seed))
    shutil.rmtree(fdir, ignore_errors=True)
    os.makedirs(fdir)
    nf = 8000 if thorough else 160                 # a multiple of 16: all texts of one font land in the same shard
    fonts = []
    srcs = ['Padauk.ttf', 'charis_r_gr.ttf', 'Scheherazadegr.ttf', 'Annapurnarc2.ttf', 'Awami_test.ttf', 'general.ttf', 'grtest1gr.ttf', 'MagyarLinLibertineG.ttf', 'small.ttf', 'Charis5_eursub.ttf']
    datas = {f: open(os.path.join(vlib.REPO, 'tests/fonts', f), 'rb').read() for f in srcs}
    for k in range(nf):
        src = rng.choice(srcs)
        md, what = mutate_font(rng, datas[src])
        p = os.path.join(fdir, 'm%d.ttf' % k)
        open(p, 'wb').write(md)
        fonts.append((p, src, what))
    texts = {}
    mcases = []
    for t in range(3):
        for k, (p, src, what) in enumerate(fonts):
            rep = S.repertoire(vlib.REPO, src)
            cps = S.gen_text(rng, rep, 12) or [rep[0]]
            mcases.append(S.case_line('m%d.%d' % (k, t), p, S.encode(cps, 32), 32, dir_=rng.randrange(8), ppm=rng.choice(('-', '20')), ops=('dump', 'ltrace')))
    _, il2, _ = vlib.run_pair(None, w, mcases, timeout=3000)
    ml2, _, _ = vlib.run_pair(mexe, None, [l or 'x' for l in il2], timeout=2400)
    mstats = {}
    before = len(chk.violations)
    ndis += check_lines(chk, 'mutated', mcases, il2, ml2, classes, mstats)
    # keep the font of a failing case with the replay (the build directory is scratch)
    for v in chk.violations[before:]:
        try:
            fp = v['replay']['case'].split()[2]
            k = int(os.path.basename(fp)[1:-4])
            v['replay']['font_hex_gz'] = __import__('base64').b64encode(__import__('zlib').compress(open(fp, 'rb').read(), 9)).decode()[:4000000]
            v['replay']['mutation'] = '%s: %s' % (fonts[k][1], fonts[k][2])
        except (KeyError, ValueError, IndexError, OSError):
            pass
    total += len(mcases)
    shutil.rmtree(fdir, ignore_errors=True)
    # --- adversarial rule actions accepted by the real loader (sanitizer oracle; structural oracles belong to C03-C05)
    n_vm = 0
    try:
        hexe = vlib.build_harness('impl_vmslot', vlib.build_impl('direct', 'asan1'), san='asan1')
        wv = os.path.join(os.path.dirname(hexe), 'run_vmslot.sh')
        with open(wv, 'w') as f:
            f.write('#!/bin/sh\nexec %s %s\n' % (hexe, vlib.REPO))
        os.chmod(wv, 0o755)
        vcases = []
        cp = os.path.join(vlib.VERIF, 'corpus', 'vmslot.txt')
        if os.path.exists(cp):
            for l in open(cp):
                if l.strip() and not l.startswith('#'):
                    vcases.append('k%d vmslot %s' % (len(vcases), l.strip()))
        for i in range(10000 if thorough else 300):
            font = rng.choice(('Padauk.ttf', 'charis_r_gr.ttf', 'Scheherazadegr.ttf', 'Annapurnarc2.ttf', 'small.ttf', 'general.ttf'))      # the last two declare no / few user attributes
            rep = S.repertoire(vlib.REPO, font)
            k = rng.randrange(1, 9)
            cps = [rng.choice(rep) for _ in range(k)]
            rules = []
            for _ in range(rng.randrange(1, 7)):
                pos, ln, pre, bc = V.gen_rule(rng, k)
                rules.append('%d:%d:%d:%s' % (pos, ln, pre, bytes(bc).hex()))
            vcases.append('v%d vmslot %s %d %s %s' % (i, font, rng.randrange(2), ''.join('%08x' % c for c in cps), ' '.join(rules)))
        _, vl, _ = vlib.run_pair(None, wv, vcases, timeout=2400)
        for c, l in zip(vcases, vl):
            if l is None:
                chk.tie_break('harness', 'no result line', c[:300]); continue
            if 'ABORT' in l.split()[1:3]:
                chk.violation('c02:vmslot:abort:%s' % ' '.join(c.split()[2:5]), 'accepted rule bytecode made the engine abort (sanitizer / watchdog): %s' % l[:300], dict(case=c, got=l[:800], tag='vmslot'))
            classes.add(('vmslot', l.split()[1][:12] if len(l.split()) > 1 else ''))
        n_vm = len(vcases)
    except vlib.BuildError as e:
        chk.tie_break('build', 'vmslot harness: %s' % str(e)[:300])
    # --- the finite state machine of compiled passes, intact and with edited state tables, against Model/FsmModel.v (the object of
    #     C02_fsm_tables_well_formed / C02_fsm_run_in_bounds): tables as loaded; per slot of a text runFSM's verdict, context, map size, rules
    n_fsm = 0
    try:
        from props import fsmleg
        n_fsm, fcls, fdis, fdist = fsmleg.run(chk, 400 if thorough else 60)
        classes |= fcls; ndis += fdis; dist.update(fdist)
    except vlib.BuildError as e:
        chk.tie_break('build', 'fsm harness / driver: %s' % str(e)[:300])
    chk.notes.append('shipped: %s' % sorted(stats.items()))
    chk.notes.append('mutated fonts (%d fonts x 3 texts): %s' % (nf, sorted(mstats.items())))
    chk.cov.update(evaluations=total + n_vm + n_fsm, distinct_nontrivial=len(classes), disagreements_checked=ndis, distribution=dict(dist, **{k: v for k, v in stats.items() if k.startswith('reftrace') or k.startswith('comb')}),
                   rule='(a) shipped fonts x generated texts (3 encodings, dir 0..7, face options, ppm, ill-formed units), long repetitive texts, random feature values; (b) %d byte-mutated fonts '
                        '(Silf-weighted: 1-5 byte edits in Silf/Glat/Gloc/Feat/Sill/cmap/hmtx/maxp/head/name) x 3 texts, of which the real loader accepted those counted under segments/nullseg; '
                        '(b2) compiled GDL-lite programs of 1-4 passes inserting 1-40 slots per matched glyph on texts of 1-40 characters (growth up to the cap and the budget); '
                        '(b3) random and insert-heavy GDL-lite programs x 6 strings: the engine\'s per-iteration loop observations (measure, counter, reset, live) per pass compared token by token with the trace of the reference loop '
                        '(Model/RuleModel.v run_trace: budget, slot pool of Segment::newSlot, machine death), the object of the C02_reference_* theorems; (c) %d adversarial rule programs accepted by the real bytecode loader and run on real segments; (d) the state machines of compiled GDL-lite passes (intact, and with edited transitions, start states, ranges, rule map entries and offsets) as loaded and as run by Pass::runFSM from every slot of a text, against Model/FsmModel.v.  Every case: make, dump (all gr_seg_*/gr_slot_*/gr_cinfo_* queries), destroy under '
                        'ASan+UBSan+LSan with a watchdog; n_slots <= 64*n_chars; hook counter against maxRuleLoop*(slots+budget+2); loop/growth traces through the extracted acceptors; '
                        'non-trivial = distinct (family, font, size class, growth class, well-formedness verdict)' % (nf, n_vm),
                   samples=[cases[0][:200], mcases[0][:200]], exhaustive=False)


def replay(chk, obj):
    rp = obj.get('replay', {})
    case = rp.get('case') or (obj.get('broken') or [{}])[-1].get('case')
    if not case:
        print('no case'); return 1
    tmp = None
    if rp.get('font_hex_gz'):
        import base64, zlib
        tmp = os.path.join(vlib.BUILD, 'fuzzfonts', 'replay')
        os.makedirs(tmp, exist_ok=True)
        fp = os.path.join(tmp, 'replay.ttf')
        open(fp, 'wb').write(zlib.decompress(base64.b64decode(rp['font_hex_gz'])))
        f = case.split(); f[2] = fp; case = ' '.join(f)
    if case.split()[1] == 'sparse':
        from props import apiseq
        ml, il, _ = vlib.run_pair(vlib.build_model_driver('Sparse'), apiseq.build('asan'), [case], shards=1)
        print(case[:300]); print(' impl :', il[0]); print(' model:', ml[0])
        return 0 if il[0] == ml[0] and il[0] and 'ABORT' not in il[0] else 1
    if rp.get('tag') == 'vmslot' or case.split()[1] == 'vmslot':
        hexe = vlib.build_harness('impl_vmslot', vlib.build_impl('direct', 'asan1'), san='asan1')
        w = os.path.join(os.path.dirname(hexe), 'run_vmslot.sh')
        with open(w, 'w') as fh:
            fh.write('#!/bin/sh\nexec %s %s\n' % (hexe, vlib.REPO))
        os.chmod(w, 0o755)
    else:
        w = engine.build(chk)
        if rp.get('tag') == 'comb':                                # the cluster-recursion family runs on a 1 MiB stack
            ws = os.path.join(os.path.dirname(w), 'run_shape_smallstack.sh')
            with open(ws, 'w') as fh:
                fh.write('#!/bin/sh\nulimit -s 1024\n' + open(w).read().split('\n', 1)[1])
            os.chmod(ws, 0o755)
            w = ws
    _, il, err = vlib.run_pair(None, w, [case], shards=1)
    print(case[:300]); print(' impl :', (il[0] or '')[:1500]); print((err or b'')[-1500:] if isinstance(err, bytes) else str(err)[-1500:])
    l = il[0] or ''
    bad = 'ABORT' in l or 'LOOPBOUND' in l
    h = l.split()
    try:
        if h[1].startswith('n=') and int(h[1][2:]) > 64 * int(h[2][3:]):
            bad = True
    except (ValueError, IndexError):
        pass
    return 1 if bad else 0
