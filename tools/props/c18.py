"""C18 — feature values are an isolated, range-checked map with font defaults (DESIGN.md section 6/C18)."""
import os, struct
import vlib
from props import featgen as G


def build(chk):
    impl = vlib.build_impl('direct', 'asan')
    return vlib.build_model_driver('Feat'), vlib.build_harness('impl_feat', impl)


def units(s, enc):
    if enc == 8:
        b = s.encode('utf-8'); return ['%x' % x for x in b] + ['0']
    if enc == 16:
        b = s.encode('utf-16-be'); return ['%x' % struct.unpack('>H', b[i:i + 2])[0] for i in range(0, len(b), 2)] + ['0']
    return ['%x' % ord(c) for c in s] + ['0']


def gen_cases(chk):
    rng, thorough = chk.rng, chk.tier == 'thorough'
    cases, meta = [], []
    for i in range(6000 if thorough else 500):
        big = (i % 25 == 0)
        feats, langs, names = G.gen_font(rng, big=big)
        version = rng.choice((0x00020000, 0x00020000, 0x00010000, 0x00030000))
        if version < 0x00020000:
            for f in feats: f['id'] &= 0xFFFF
            ids = [f['id'] for f in feats]
            if len(set(ids)) != len(ids):
                continue
        mac_first = (i % 9 == 4)
        if mac_first and i % 2 == 0 and not big:
            # every label shares one name id: the Windows block of the name table is a single record, and it is not record 0
            nid0 = min(names)
            for f in feats:
                f['nameid'] = nid0
                f['settings'] = [(v, nid0) for v, _ in f['settings']]
            names = {nid0: names[nid0]}
        ft, st, nt = G.feat_table(feats, version), G.sill_table(langs) if langs else b'', G.name_table(names, first_is_label=(i % 6 == 0), mac_first=mac_first)
        for seq in range(4 if not big else 2):
            ops = []
            multi = (seq == 3) or (big and seq == 1)      # several faces: unbound maps (gr_featureval_clone(NULL)) and a second face's features
            for _ in range(rng.randrange(3, 40 if thorough else 14)):
                k = rng.random()
                if multi and k < 0.55:
                    fi = rng.randrange(len(feats)); mx = G.maxval(feats[fi])
                    k2 = rng.random()
                    if k2 < 0.3: ops.append('blank')
                    else:
                        v = rng.choice((0, 1, mx, min(mx + 1, 0xFFFF), min(mx + 1, 0xFFFF), mx // 2, 0xFFFF))
                        ops.append('%s:%d:%d' % ('xset' if k2 < 0.7 else 'set', fi, v))
                    continue
                fi = rng.randrange(len(feats)) if not big else rng.choice((0, 1, 2, len(feats) - 1, rng.randrange(len(feats)), 127, 128, 129) )
                fi = min(fi, len(feats) - 1)
                mx = G.maxval(feats[fi])
                if k < 0.6:
                    v = rng.choice((0, 1, mx, min(mx + 1, 0xFFFF), mx // 2, rng.randrange(0x10000), 0xFFFF))
                    ops.append('set:%d:%d' % (fi, v))
                elif k < 0.7:
                    ops.append('clone')
                elif k < 0.85:
                    if langs and rng.random() < 0.8:
                        tag = rng.choice(langs)[0]
                        r3 = rng.random()
                        if r3 < 0.4:
                            b = struct.pack('>I', tag).rstrip(b'\0'); tag = struct.unpack('>I', b + b' ' * (4 - len(b)))[0]   # space padded
                        elif r3 < 0.65:
                            # near misses of a known language: a '!' (0x21) or 0x1f before the padding, a space inside the tag, padding in
                            # front -- none of them is that language (only TRAILING spaces are padding)
                            b = bytearray(struct.pack('>I', tag).rstrip(b'\0'))
                            k3 = rng.randrange(5)
                            if k3 == 0: b = (b + b'! ')[:4] if len(b) < 4 else b[:3] + b'!'
                            elif k3 == 1 and len(b) >= 2: b = b[:1] + b' ' + b[1:]
                            elif k3 == 2: b = b' ' + b
                            elif k3 == 3: b = b + bytes([0x1f, 0x20])
                            else: b = b + b'!'
                            b = bytes(b[:4]); tag = struct.unpack('>I', b + b'\0' * (4 - len(b)))[0]
                    else:
                        tag = rng.choice((0, 0x7a7a7a00, 0x20202020, rng.getrandbits(32)))
                    ops.append('lang:%08x' % tag)
                else:
                    si = rng.randrange(-1, len(feats[fi]['settings'])) if feats[fi]['settings'] else -1
                    ops.append('label:%d:%d' % (fi, si))
            cases.append('c%d feat %s %s %s %s' % (len(cases), ft.hex() or '-', st.hex() or '-', nt.hex() or '-', ' '.join(ops)))
            meta.append(dict(kind='big' if big else 'wf', feats=feats, langs=langs, names=names, ops=ops))
    # malformed Feat / Sill tables: loader verdict + safety only
    for i in range(3000 if thorough else 300):
        feats, langs, names = G.gen_font(rng)
        ft, st = bytearray(G.feat_table(feats)), bytearray(G.sill_table(langs) if langs else b'')
        tgt = ft if (rng.random() < 0.6 or not st) else st
        k = rng.random()
        if k < 0.4:
            for _ in range(rng.randrange(1, 4)):
                tgt[rng.randrange(len(tgt))] = rng.choice((0, 1, 0xFF, 0x7F, 0x80, rng.randrange(256)))
        elif k < 0.6:
            del tgt[rng.randrange(0, len(tgt)):]
        elif k < 0.8 and len(tgt) > 6:
            tgt[4:6] = struct.pack('>H', rng.choice((0, 1, len(feats) + 1, 0xFFFF, 2 * len(feats))))
        else:
            p = rng.randrange(0, max(1, len(tgt) - 1)); tgt[p] = (tgt[p] + rng.choice((1, 255))) & 255
        if len(ft) >= 4 and ft[0] == 0xFF and ft[1] == 0xFF:
            ft[0] = 0x7F          # a first word >= 0xFFFFFFFF would send Face::Table into the decompressor (outside this model)
        ops = ['set:%d:%d' % (rng.randrange(max(1, len(feats))), rng.choice((0, 1, 0xFFFF))) for _ in range(3)] + ['lang:%08x' % (langs[0][0] if langs else 0)]
        cases.append('c%d feat %s %s - %s' % (len(cases), bytes(ft).hex() or '-', bytes(st).hex() or '-', ' '.join(ops)))
        meta.append(dict(kind='malformed'))
    return cases, meta


def oracle(chk, c, mt, i):
    """the property restated on the API's answers for well-formed fonts"""
    feats, langs, names = mt['feats'], mt['langs'], mt['names']
    key = 'feat:%s' % c.split()[2][:80]
    tok = i.split()
    if tok[1] != 'OK':
        # well-formed font whose storage fits: must load (fonts needing more than 256 words may be rejected)
        need = 0
        for f in feats:
            nb = G.maxval(f).bit_length() if f['settings'] else 32
            need = (need // 32 + 1) * 32 + nb if (need + nb) // 32 > need // 32 else need + nb
        if need <= 0xFF00 - 64:
            chk.violation(key, 'well-formed Feat/Sill tables rejected: %s' % i[:200], dict(case=c[:4000], got=i))
        return
    j = tok.index('D')
    cur = [int(x) for x in tok[j + 1].split(',')] if tok[j + 1] != '-' else []
    want = G.ref_defaults(feats)
    if cur != want:
        chk.violation(key + ':defaults', 'default feature values %s, the Feat table gives %s' % (cur, want), dict(case=c[:4000], got=i)); return
    state = list(want)
    bound = 1                  # the face the map belongs to (None: an unbound map from gr_featureval_clone(NULL)); state = its values there
    zeros = [0] * len(want)
    seen = lambda face: state if bound == face else zeros
    pos = j + 2
    for op in mt['ops']:
        if pos >= len(tok):
            break
        t = tok[pos]
        if op.startswith('set:') or op.startswith('xset:'):
            nm, fi, v = op.split(':'); fi, v = int(fi), int(v)
            face = 1 if nm == 'set' else 2
            ok = tok[pos + 1]
            vals = [int(x) for x in tok[pos + 2].split(',')]
            exp_ok = v <= G.maxval(feats[fi]) and bound in (None, face)
            if (ok == '1') != exp_ok:
                chk.violation(key + ':set', 'set_feature_value(feature %d (max %d) of face %d, %d) on a map %s: %s, expected %s' % (fi, G.maxval(feats[fi]), face, v,
                              'not yet bound' if bound is None else 'of face %d' % bound, 'succeeded' if ok == '1' else 'failed', 'success' if exp_ok else 'failure'),
                              dict(case=c[:4000], got=i, op=op)); return
            if exp_ok:
                if bound is None: bound, state = face, list(zeros)
                state[fi] = v
            if vals != seen(1):
                bad = [k for k in range(len(state)) if vals[k] != seen(1)[k]]
                chk.violation(key + ':isolation', 'after %s feature(s) %s read %s, expected %s' % (op, bad[:4], [vals[k] for k in bad[:4]], [seen(1)[k] for k in bad[:4]]),
                              dict(case=c[:4000], got=i, op=op)); return
            pos += 3
            if face == 2:
                vals2 = [int(x) for x in tok[pos].split(',')]
                if vals2 != seen(2):
                    bad = [k for k in range(len(state)) if vals2[k] != seen(2)[k]]
                    chk.violation(key + ':isolation', 'after %s feature(s) %s of the second face read %s, expected %s' % (op, bad[:4], [vals2[k] for k in bad[:4]], [seen(2)[k] for k in bad[:4]]),
                                  dict(case=c[:4000], got=i, op=op)); return
                pos += 1
        elif op == 'blank':
            bound, state = None, list(zeros)
            vals = [int(x) for x in tok[pos + 1].split(',')]
            if vals != zeros:
                chk.violation(key + ':blank', 'a map from gr_featureval_clone(NULL) reads %s' % vals[:8], dict(case=c[:4000], got=i)); return
            pos += 2
        elif op == 'clone':
            vals = [int(x) for x in tok[pos + 2].split(',')]
            if tok[pos + 1] != 'eq' or vals != seen(1):
                chk.violation(key + ':clone', 'clone does not compare equal to / read like its source', dict(case=c[:4000], got=i)); return
            pos += 3
        elif op.startswith('lang:'):
            tag = int(op[5:], 16)
            b = struct.pack('>I', tag)
            while b.endswith(b' '): b = b[:-1]
            ztag = struct.unpack('>I', b + b'\0' * (4 - len(b)))[0] if len(b) < 4 else tag
            vals = [int(x) for x in tok[pos + 1].split(',')]
            want = G.ref_lang(feats, langs, ztag)
            if vals != want:
                chk.violation(key + ':lang', 'featureval_for_lang(%08x) = %s, expected defaults overridden by the Sill entry = %s' % (tag, vals, want),
                              dict(case=c[:4000], got=i, op=op)); return
            state = list(want); bound = 1
            pos += 2
        elif op.startswith('label:'):
            _, fi, si = op.split(':'); fi, si = int(fi), int(si)
            nid = feats[fi]['nameid'] if si < 0 else feats[fi]['settings'][si][1]
            s = names.get(nid)
            got = tok[pos + 1:pos + 4]
            want = ['.'.join(units(s, e)) for e in (8, 16, 32)] if s is not None else ['NULL'] * 3
            if got != want:
                chk.violation(key + ':label', 'label of feature %d setting %d: %s, expected %s' % (fi, si, got, want), dict(case=c[:4000], got=i, op=op)); return
            pos += 4
    gets, rels = tok[-1].split('/')
    if gets != rels:
        chk.violation(key + ':tables', 'table handles obtained %s, released %s' % (gets, rels), dict(case=c[:4000], got=i))


def strip_labels(toks):
    out, k = [], 0
    while k < len(toks):
        if toks[k] == 'N':
            out.append('N'); k += 1
            while k < len(toks) and toks[k] not in ('S', 'C', 'L', 'N', 'T', 'X', 'B'): k += 1
        elif toks[k] == 'T':
            break
        else:
            out.append(toks[k]); k += 1
    return out


def run(chk):
    chk.trusted += ['hand model Model/FeatModel.v of the FeatureRef constructor, applyValToFeature / getFeatureVal, readFeats, readSill, cloneFeatures',
                    'Python Feat/Sill/name generators and reference (tools/props/featgen.py) as oracle']
    chk.assumptions += ['two faces over the same tables stand for "several faces"; feature ids distinct (qsort order of duplicates is not specified)',
                        'labels are compared by the oracle only (the name-table reader is modelled under C01)']
    chk.check_proofs()
    mexe, hexe = build(chk)
    cases, meta = gen_cases(chk)
    ml, il, ierr = vlib.run_pair(mexe, hexe, cases, timeout=2400)
    ndis, classes, dist = 0, set(), {}
    for c, mt, m, i in zip(cases, meta, ml, il):
        dist[mt['kind']] = dist.get(mt['kind'], 0) + 1
        if i is None:
            chk.tie_break('harness', 'no result line', c[:300]); continue
        if ' ABORT ' in i:
            chk.violation('feat:%s' % c.split()[2][:80], 'feature loading / access: %s' % i[:300], dict(case=c[:4000], got=i)); continue
        if mt['kind'] != 'malformed':
            oracle(chk, c, mt, i)
            classes.add((mt['kind'], len(mt['feats']) // 4, len(mt['langs']), i.split()[1]))
        else:
            classes.add(('malformed', i.split()[1], len(c) // 200))
        a, b = strip_labels((m or '').split()[1:]), strip_labels(i.split()[1:])
        if a != b:
            ndis += 1
            chk.tie_break('correspondence:feat', 'model %r vs implementation %r' % ((m or '')[:300], i[:300]), c[:2000])
    chk.cov.update(evaluations=len(cases), distinct_nontrivial=len(classes), disagreements_checked=ndis, distribution=dist,
                   rule='synthesised Feat (v1/v2/v3, 1-300 features, maxima straddling word boundaries, hidden features, features without settings), Sill (padded tags, '
                        'out-of-range values, unknown ids) and name tables; random set/clone/lang/label sequences (one sequence in four also with unbound maps from gr_featureval_clone(NULL) and writes through a second face) with read-back of ALL features after every step; '
                        'malformed tables for loader verdict + safety; non-trivial = distinct (family, size classes, verdict)',
                   samples=[cases[0][:300], cases[len(cases) // 2][:300]], exhaustive=False)


def replay(chk, obj):
    mexe, hexe = build(chk)
    case = obj.get('replay', {}).get('case') or (obj.get('broken') or [{}])[-1].get('case')
    if not case:
        print('no case'); return 1
    ml, il, err = vlib.run_pair(mexe, hexe, [case], shards=1)
    print(case[:400]); print(' model:', (ml[0] or '')[:600]); print(' impl :', (il[0] or '')[:600]); print(err[-1500:])
    return 0 if strip_labels((ml[0] or '').split()[1:]) == strip_labels((il[0] or '').split()[1:]) else 1
