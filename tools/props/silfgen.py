"""silfgen.py — Silf tables for the header leg of C01 (Model/SilfModel.v): a compiled GDL-lite Silf (fontkit.compile_silf: version 2, one
subtable) is taken apart and laid out again under any table version (2..5), with justification levels, critical features, script tags,
pseudo glyphs and several subtables, then damaged field by field."""
import struct

FIXED1 = 20          # maxGlyph .. numJLevels
OP_OFF = 32          # offset of oPasses[] in a compile_silf subtable: 20 + 10 (aLig .. ncrit) + 1 (reserved) + 1 (nscript) ... see parse


def parse_v2(silf):
    """fontkit.compile_silf output -> dict(hdr=20 bytes, blk=10 bytes, lb, passes=[bytes], pass_offs=[...], classmap=bytes)"""
    assert struct.unpack('>I', silf[:4])[0] == 0x00020000
    sub = struct.unpack('>I', silf[8:12])[0]
    s = silf[sub:]
    hdr = s[:20]
    npass, nj = hdr[6], hdr[19]
    assert nj == 0
    blk = s[20:30]
    ncrit = blk[9]
    p = 30 + 2 * ncrit + 1
    nscript = s[p]; p += 1 + 4 * nscript
    lb = struct.unpack('>H', s[p:p + 2])[0]
    op = p + 2
    offs = [struct.unpack('>I', s[op + 4 * i:op + 4 * i + 4])[0] for i in range(npass + 1)]
    p = op + 4 * (npass + 1)
    npseudo = struct.unpack('>H', s[p:p + 2])[0]
    assert npseudo == 0
    p += 8
    cm_start = p
    ncls = struct.unpack('>H', s[p:p + 2])[0]
    last = struct.unpack('>H', s[p + 4 + 2 * ncls:p + 6 + 2 * ncls])[0]
    classmap = s[cm_start:cm_start + last]
    passes = [s[offs[i]:offs[i + 1]] for i in range(npass)]
    return dict(hdr=bytearray(hdr), blk=bytearray(blk), lb=lb, passes=passes, pass_offs=offs[:-1], classmap=classmap)


def classmap32(cm):
    """re-encode a 16-bit-offset class map with 32-bit offsets (Silf version >= 4)"""
    ncls, nlin = struct.unpack('>HH', cm[:4])
    offs = [struct.unpack('>H', cm[4 + 2 * i:6 + 2 * i])[0] for i in range(ncls + 1)]
    h16, h32 = 4 + 2 * (ncls + 1), 4 + 4 * (ncls + 1)
    return cm[:4] + b''.join(struct.pack('>I', o - h16 + h32) for o in offs) + cm[h16:]


def layout_sub(d, version, justs=(), crit=(), scripts=(), pseudos=(), slack=2):
    """one subtable; returns (bytes, marks) where marks names byte offsets of interesting fields"""
    w = bytearray()
    marks = {}
    if version >= 0x30000:
        w += struct.pack('>IHH', 0x00030000, 0, 0)
    marks['hdr'] = len(w)
    h = bytearray(d['hdr']); h[19] = len(justs)
    w += h
    for j in justs:
        w += bytes(j) + bytes(4)
    marks['blk'] = len(w)
    b = bytearray(d['blk']); b[9] = len(crit)
    w += b
    for c in crit:
        w += struct.pack('>H', c)
    w += b'\x00'
    marks['nscript'] = len(w)
    w += bytes([len(scripts)])
    for t in scripts:
        w += struct.pack('>I', t)
    marks['lb'] = len(w)
    w += struct.pack('>H', d['lb'])
    marks['opasses'] = len(w)
    npass = len(d['passes'])
    w += bytes(4 * (npass + 1))
    marks['npseudo'] = len(w)
    w += struct.pack('>HHHH', len(pseudos), 0, 0, 0)
    for u, g in pseudos:
        w += struct.pack('>IH', u, g)
    marks['classmap'] = len(w)
    w += classmap32(d['classmap']) if version >= 0x40000 else d['classmap']
    w += bytes(slack)
    cur = len(w)
    offs = []
    for body, old in zip(d['passes'], d['pass_offs']):
        pb = bytearray(body)
        delta = cur - old
        for fo in (8, 12, 16):
            v = struct.unpack('>I', pb[fo:fo + 4])[0]
            pb[fo:fo + 4] = struct.pack('>I', (v + delta) & 0xFFFFFFFF)
        offs.append(cur); w += pb; cur += len(pb)
    offs.append(cur)
    for i, o in enumerate(offs):
        w[marks['opasses'] + 4 * i:marks['opasses'] + 4 * i + 4] = struct.pack('>I', o)
    marks['passes'] = offs
    return bytes(w), marks


def layout_table(subs, version):
    """subs: list of subtable byte strings -> (table bytes, [subtable offsets])"""
    w = bytearray(struct.pack('>I', version))
    if version >= 0x30000:
        w += struct.pack('>I', 0x00050000 & 0x07FFFFFF)          # compilerVersion (scheme bits clear: not compressed)
    w += struct.pack('>HH', len(subs), 0)
    dirpos = len(w)
    w += bytes(4 * len(subs))
    offs = []
    for i, s in enumerate(subs):
        offs.append(len(w))
        w[dirpos + 4 * i:dirpos + 4 * i + 4] = struct.pack('>I', len(w))
        w += s
    return bytearray(w), offs


def gen_case(rng, progs_silf, ng, na):
    """progs_silf: callable returning a fresh compile_silf table.  Returns (table bytes, description)."""
    version = rng.choice((0x20000, 0x20000, 0x30000, 0x30001, 0x40000, 0x40001, 0x50000))
    nsub = rng.choice((1, 1, 1, 1, 2, 2, 3))
    subs, marks = [], []
    for _ in range(nsub):
        d = parse_v2(progs_silf())
        justs = [tuple(rng.randrange(0, max(na, 1) + 3) for _ in range(4)) for _ in range(rng.choice((0, 0, 0, 1, 2, 4)))]
        crit = [rng.randrange(65536) for _ in range(rng.choice((0, 0, 1, 3)))]
        scripts = [rng.randrange(1 << 32) for _ in range(rng.choice((0, 0, 1, 2)))]
        pseudos = sorted((rng.randrange(0x20, 0x3000), rng.randrange(ng)) for _ in range(rng.choice((0, 0, 1, 2, 5))))
        if rng.random() < 0.3:                                   # a bidi pass number
            d['hdr'][10] = rng.choice((d['hdr'][9], d['hdr'][6], 0xFF))
        if rng.random() < 0.3:
            d['blk'][4] = rng.choice((0, 1, 2, 3))               # direction
        if rng.random() < 0.2:
            d['hdr'][11] = rng.choice((0, 1, 0x20, 0x3f, 4, 0x1c))   # flags
        s, m = layout_sub(d, version, justs, crit, scripts, pseudos, slack=rng.choice((2, 2, 2, 0, 1, 3, 8)))
        subs.append(s); marks.append(m)
    tbl, soffs = layout_table(subs, version)
    what = 'valid v%x x%d' % (version, nsub)
    r = rng.random()
    si = rng.randrange(nsub)
    so, m = soffs[si], marks[si]
    def u8(o, vals):
        nonlocal what
        if o < len(tbl):
            v = tbl[o]; nv = rng.choice(vals(v)) & 255; tbl[o] = nv; what = 'u8@%s+%d %d->%d' % (si, o - so, v, nv)
    def u16(o, vals):
        nonlocal what
        if o + 2 <= len(tbl):
            v = struct.unpack('>H', tbl[o:o + 2])[0]; nv = rng.choice(vals(v)) & 0xFFFF; tbl[o:o + 2] = struct.pack('>H', nv); what = 'u16@%s+%d %d->%d' % (si, o - so, v, nv)
    def u32(o, vals):
        nonlocal what
        if o + 4 <= len(tbl):
            v = struct.unpack('>I', tbl[o:o + 4])[0]; nv = rng.choice(vals(v)) & 0xFFFFFFFF; tbl[o:o + 4] = struct.pack('>I', nv); what = 'u32@%s+%d %d->%d' % (si, o - so, v, nv)
    small = lambda v: (0, 1, v + 1, v - 1, v + 2, 2 * v, 127, 128, 129, 254, 255, na, na - 1, na - 5, na - 6, na + 1)
    if r < 0.18:
        pass                                                     # valid
    elif r < 0.42:                                               # a byte of the fixed header (pass numbers, attribute numbers, numJusts)
        u8(so + m['hdr'] + rng.choice((6, 7, 8, 9, 10, 11, 14, 15, 16, 17, 18, 19)), small)
    elif r < 0.50:                                               # maxGlyph
        u16(so + m['hdr'], lambda v: (ng, ng - 1, ng + 1, 0, 0xFFFF, v + 1))
    elif r < 0.62:                                               # aLig / aUser / maxComp / dir / aCollision / ncrit
        fo = rng.choice((0, 2, 3, 4, 5, 5, 9, 9))
        (u16 if fo == 0 else u8)(so + m['blk'] + fo, lambda v: (0, 1, 126, 127, 128, 255, v + 1, na - 5, na - 6, na - 4, 3, 40, 200) if fo else (0, 127, 128, 0xFFFF, v + 1))
    elif r < 0.68:                                               # number of script tags
        u8(so + m['nscript'], lambda v: (0, 1, 2, 3, 50, 255, v + 1))
    elif r < 0.80:                                               # the pass offsets
        j = rng.randrange(len(m['passes']))
        u32(so + m['opasses'] + 4 * j, lambda v: (v + 1, v - 1, v + 2, v - 2, v + 40, v - 40, 0, len(tbl), len(subs[si]), len(subs[si]) + 1, len(subs[si]) - 1, 0xFFFFFFFF, m['classmap'], m['classmap'] + 4))
    elif r < 0.86:                                               # the pseudo count
        u16(so + m['npseudo'], lambda v: (v + 1, v + 2, 0, 1, 50, 0xFFFF, (m['passes'][0] - m['npseudo'] - 8) // 6, (m['passes'][0] - m['npseudo'] - 8) // 6 + 1))
    elif r < 0.92:                                               # the directory
        k = rng.randrange(3)
        base = 4 if version < 0x30000 else 8
        if k == 0:
            u16(base, lambda v: (0, v + 1, v + 2, v - 1, 40, 0xFFFF))
        elif k == 1:
            u32(base + 4 + 4 * si, lambda v: (0, v + 1, v - 1, v + 4, len(tbl), len(tbl) - 1, len(tbl) - 20, 0xFFFFFFFF, soffs[0], soffs[-1]))
        else:
            u32(0, lambda v: (0x10000, 0x1FFFF, 0x20000, 0x30000, 0x40000, 0x50000, 0x5FFFF, 0x60000, 0xFFFFFFFF))
    elif r < 0.97:                                               # truncation
        n = rng.choice((rng.randrange(0, len(tbl) + 1), soffs[si] + rng.randrange(0, 60), len(tbl) - rng.randrange(1, 8), 19, 20, 21))
        n = max(1, min(n, len(tbl))); what = 'trunc %d of %d' % (n, len(tbl)); tbl = tbl[:n]
    else:                                                        # any byte before the first pass of the subtable
        u8(so + rng.randrange(0, m['passes'][0]), lambda v: (0, 1, 255, v + 1, v - 1))
    if struct.unpack('>I', bytes(tbl[:4]).ljust(4, b'\0'))[0] >= 0x50000 and len(tbl) > 4:
        tbl[4] &= 7                                              # keep the compression scheme bits clear: decompression is C14 / C16
    return bytes(tbl), what
