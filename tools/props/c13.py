"""C13 — characters map to the glyphs the cmap assigns, by either lookup path (DESIGN.md section 6/C13)."""
import os, struct
import vlib
from props import cmapgen as G

FONTS = ['Padauk.ttf', 'Scheherazadegr.ttf', 'charis_r_gr.ttf', 'Annapurnarc2.ttf', 'Awami_test.ttf', 'MagyarLinLibertineG.ttf',
         'general.ttf', 'small.ttf', 'grtest1gr.ttf', 'PigLatinBenchmark_v3.ttf', 'Charis5_eursub.ttf', 'charis_fast.ttf',
         'AwamiNastaliq-Regular.ttf', 'Awami_compressed_test.ttf', 'Scheherazadegr_noglyfs.ttf', 'underflow.ttf']


def hexs(b):
    return b.hex() or '-'


def build(chk):
    impl = vlib.build_impl('direct', 'asan')
    hexe = vlib.build_harness('impl_cmap', impl, srcs=[])
    wrapper = os.path.join(os.path.dirname(hexe), 'run_cmap.sh')
    with open(wrapper, 'w') as f:
        f.write('#!/bin/sh\nexec %s %s\n' % (hexe, vlib.REPO))
    os.chmod(wrapper, 0o755)
    # the exhaustive per-font sweeps run on the -O1 sanitized build (value agreement over 2.2M lookups per font)
    impl1 = vlib.build_impl('direct', 'asan1')
    hexe1 = vlib.build_harness('impl_cmap', impl1, san='asan1', srcs=[])
    wrapper1 = os.path.join(os.path.dirname(hexe1), 'run_cmap.sh')
    with open(wrapper1, 'w') as f:
        f.write('#!/bin/sh\nexec %s %s\n' % (hexe1, vlib.REPO))
    os.chmod(wrapper1, 0o755)
    chk.sweep_wrapper = wrapper1
    return vlib.build_model_driver('Cmap'), wrapper


def query_points(rng, segs, groups, nrand):
    pts = {0, 1, 0xFFFE, 0xFFFF, 0x10000, 0x10FFFE, 0x10FFFF, 0x110000, 0x1FFFFF}
    for s in segs:
        pts.update((max(0, s['start'] - 1), s['start'], s['end'], min(0xFFFF, s['end'] + 1), (s['start'] + s['end']) // 2))
    for s, e, g in groups:
        pts.update((max(0, s - 1), s, e, e + 1, (s + e) // 2))
    for _ in range(nrand):
        pts.add(rng.randrange(0, 0x10000) if rng.random() < 0.6 else rng.randrange(0x10000, 0x110000))
    return sorted(pts)


def gen_oddlen(rng, n):
    out = []
    for _ in range(n):
        k = rng.randrange(1, 6)
        a = rng.randrange(0x20, 0xF000)
        segs = []
        if rng.random() < 0.5:
            b = rng.randrange(1, a - 8) if a > 16 else 1
            segs.append(dict(start=b, end=b + rng.randrange(0, 4), delta=rng.randrange(1, 500)))
        segs.append(dict(start=a, end=a + k - 1, delta=0, gids=[rng.randrange(1, 400) for _ in range(k)]))
        segs.append(dict(start=0xFFFF, end=0xFFFF, delta=1))
        sub = bytearray(G.fmt4(segs))
        cut = rng.choice((1, 1, 1, 3))                                  # drop the last byte (or three): the length becomes odd
        sub = sub[:len(sub) - cut]
        sub[2:4] = struct.pack('>H', len(sub))
        tbl = G.cmap_table([(3, 1, bytes(sub))])
        out.append((tbl, sorted(set([a + k - 1, a + k - 2 if k > 1 else a, a, a + k, 0x41]))))
    return out


def gen_cases(chk):
    rng, thorough = chk.rng, chk.tier == 'thorough'
    cases, meta = [], []

    def add(kind, tbl, pts, segs=None, groups=None, agree=True):
        cases.append('c%d tbl %s %s' % (len(cases), hexs(tbl), ' '.join('%x' % p for p in pts)))
        meta.append(dict(kind=kind, pts=pts, segs=segs, groups=groups, agree=agree, tbl=tbl))
    cp = os.path.join(vlib.VERIF, 'corpus', 'c13.txt')
    if os.path.exists(cp):
        for l in open(cp):
            f = l.split()
            if f and not l.startswith('#'):
                add('corpus', bytes.fromhex(f[0]), [int(x, 16) for x in f[1:]])
    for i in range(4000 if thorough else 300):
        segs = G.gen_segments(rng, 300 if (thorough and i % 10 == 0) else 40, final_real=(i % 5 == 0))
        groups = []
        subs = [(3, 1, G.fmt4(segs))] if i % 7 else [(rng.choice(((0, 3), (0, 2), (0, 1), (0, 0))) + (G.fmt4(segs),))]
        mode = i % 4
        if mode == 1:
            groups = G.gen_groups(rng, top=(i % 8 == 1))
            subs.append((3, 10, G.fmt12(groups)))
        elif mode == 2:
            groups = G.gen_groups(rng)
            subs.append((0, 4, G.fmt12(groups)))
        elif mode == 3:
            # format 12 also covers BMP characters consistently with format 4 (OpenType: superset)
            groups = [(s['start'], s['end'], (s['start'] + s['delta']) & 0xFFFF) for s in segs
                      if s.get('gids') is None and ((s['start'] + s['delta']) & 0xFFFF) + (s['end'] - s['start']) < 0x10000 and s['end'] < 0xFFFF][:20]
            groups += [g for g in G.gen_groups(rng) if not groups or g[0] > groups[-1][1]]
            subs.append((3, 10, G.fmt12(groups)))
        subs.sort(key=lambda s: (s[0], s[1]))
        # the subtables' bytes may be stored in any order: the encoding records carry absolute offsets
        tbl = G.cmap_table(subs, data_order=(list(reversed(range(len(subs)))) if i % 3 == 1 else None))
        add('wellformed', tbl, query_points(rng, segs, groups, 60 if not thorough else 300), segs, groups)
    # format 12 maps BMP characters that format 4 does not (not a superset-consistent font): the BMP is still format 4's
    for i in range(400 if thorough else 40):
        segs = G.gen_segments(rng, 10)
        groups = G.gen_groups(rng, 6, bmp_too=True)
        tbl = G.cmap_table([(3, 1, G.fmt4(segs)), (3, 10, G.fmt12(groups))])
        add('wellformed', tbl, query_points(rng, segs, groups, 30), segs, groups)
    # subtable preference and rejected candidates
    for i in range(300 if thorough else 40):
        segs_a, segs_b = G.gen_segments(rng, 8), G.gen_segments(rng, 8)
        a, b = G.fmt4(segs_a), G.fmt4(segs_b)
        ka, kb = rng.sample([(3, 1), (0, 3), (0, 2), (0, 1), (0, 0)], 2)
        bad = bytearray(a)
        if i % 3 == 0:
            bad[0:2] = b'\x00\x06'           # first candidate has the wrong format: the next candidate is taken
        subs = sorted([(ka[0], ka[1], bytes(bad)), (kb[0], kb[1], b)], key=lambda s: (s[0], s[1]))
        add('choice', G.cmap_table(subs), query_points(rng, segs_a + segs_b, [], 20), None, None)
    # malformed: safety + agreement with the model only
    for i in range(6000 if thorough else 500):
        segs = G.gen_segments(rng, 12, final_real=(i % 3 == 0))
        groups = G.gen_groups(rng, 8)
        t = bytearray(G.cmap_table([(3, 1, G.fmt4(segs)), (3, 10, G.fmt12(groups))]))
        k = rng.random()
        if k < 0.3:
            for _ in range(rng.randrange(1, 4)):
                t[rng.randrange(len(t))] = rng.choice((0, 1, 0xFF, 0x7F, 0x80, rng.randrange(256)))
        elif k < 0.5:
            t = t[:rng.randrange(0, len(t))]
        elif k < 0.7:
            p = rng.choice((2, 3, 8, 9, 10, 11, 16, 17, 18, 19))     # counts / offsets in the header
            if p < len(t): t[p] = (t[p] + rng.choice((1, 255, 2, 128))) & 255
        elif k < 0.85:
            o = 20
            if o + 8 < len(t):
                t[o + 2:o + 4] = struct.pack('>H', rng.choice((0, 15, 16, 17, len(t), len(t) - o, len(t) - o + 1, 0xFFFF)))   # fmt4 length
                if rng.random() < 0.5:
                    t[o + 6:o + 8] = struct.pack('>H', rng.choice((0, 1, 2, 0xFFFE, 0xFFFF, 2 * len(segs) + 2, 2 * len(segs) - 2)))
        else:
            rng.shuffle(segs)
            t = bytearray(G.cmap_table([(3, 1, G.fmt4(segs)), (3, 10, G.fmt12(list(reversed(groups))))]))
        add('malformed', bytes(t), query_points(rng, segs, groups, 10))
    # a format 4 subtable of odd length that ends with the table: the last glyphIdArray entry starts at the subtable's last byte, so the
    # lookup of its code point must be refused by the bounds test (offset * 2 + 1 >= length), not read one byte past the table
    for tbl, pts in gen_oddlen(rng, 60 if thorough else 12):
        add('malformed', tbl, pts)
    for n in range(0, 12):
        add('tiny', bytes([0, 0, 0, 1, 0, 3, 0, 1, 0, 0, 0, 12][:n]), [0x41, 0x10000])
    return cases, meta


def run(chk):
    chk.trusted += ['hand model Model/CmapModel.v of FindCmapSubtable, CheckCmapSubtable4/12, CmapSubtable4/12Lookup/NextCodepoint, cache_subtable, Direct/CachedCmap',
                    'Python reference for OpenType cmap semantics (tools/props/cmapgen.py) used as the oracle']
    chk.assumptions += ['C13_cached_eq_direct is proved for every table whose accepted subtables meet wf4 / wf12 (sorted disjoint segments / groups, start <= end, final format-4 segment ending at 0xFFFF); outside that (malformed tables the checks still accept) agreement of the two paths is not claimed by the property and only safety + model agreement are checked',
                        'a well-formed cmap: sorted disjoint segments/groups, final format-4 segment ending at 0xFFFF; where a format-12 subtable also '
                        'covers BMP characters it agrees with the format-4 subtable (OpenType requires a superset)']
    chk.check_proofs()
    mexe, wrapper = build(chk)
    cases, meta = gen_cases(chk)
    # API level: every code point of every shipped font, direct vs cached
    fonts = FONTS if chk.tier == 'thorough' else FONTS[:6]
    fcases = []
    for fn in fonts:
        for opts in (0, 4):
            fcases.append('f%d font %s %d' % (len(fcases), fn, opts))
    # the pseudo-glyph map is part of the mapping: the shipped fonts that have one, and copies of them whose pseudo entries are moved to
    # other code points (the ends of the BMP and of the supplementary planes among them)
    import shutil, struct as _st
    from props import fontkit as _K
    pdir = os.path.join(vlib.BUILD, 'fuzzfonts', 'c13p-%s-%d' % (chk.tier, chk.seed)); shutil.rmtree(pdir, ignore_errors=True); os.makedirs(pdir)
    pseudo_of = {}
    for fn in ('general.ttf', 'Awami_test.ttf', 'Scheherazadegr.ttf', 'charis_r_gr.ttf'):
        data = open(os.path.join(vlib.REPO, 'tests/fonts', fn), 'rb').read()
        try: ps = _K.silf_pseudos(data)
        except Exception: ps = None
        if not ps: continue
        pseudo_of[fn] = (fn, {u: g for _, u, g in ps})
        if fn not in fonts:
            fcases.append('f%d font %s %d' % (len(fcases), fn, 0))
        for k in range(4 if chk.tier == 'thorough' else 2):
            # strictly increasing new code points for the first entries (the map is searched in order)
            news = sorted(chk.rng.sample([0xFFFF, 0x10000, 0x10001, 0x1F600, 0xF0000, 0x10FFFF, 0xFFFE, 0xE000, 0x2FFFF, 0x100000, chk.rng.randrange(0x10000, 0x110000), chk.rng.randrange(0x80, 0x10000)], min(len(ps), chk.rng.choice((1, 2, 3)))))
            keep = [u for _, u, _ in ps[len(news):]]
            if keep and news[-1] >= keep[0]:
                news = [u for u in news if u < keep[0]]
                if not news: continue
            d = bytearray(data)
            # the moved entries go to the END of the map when they are larger than what stays, so the map stays sorted: rewrite the whole map
            ents = sorted([(u, g) for u, (_, _, g) in zip(news, ps)] + [(u, g) for _, u, g in ps[len(news):]])
            for (off, _, _), (u, g) in zip(ps, ents):
                d[off:off + 6] = _st.pack('>IH', u, g)
            p = os.path.join(pdir, 'pseudo%d_%s' % (k, fn))
            open(p, 'wb').write(bytes(d))
            pseudo_of[p] = (fn, dict(ents))
            for opts in (0, 4):
                fcases.append('f%d font %s %d' % (len(fcases), p, opts))
    ml, il, ierr = vlib.run_pair(mexe, wrapper, cases, timeout=2400)
    _, fl, ferr = vlib.run_pair(None, chk.sweep_wrapper, fcases, timeout=2400)
    ndis, classes, dist = 0, set(), {}

    def meets_wf(mt):
        """the hypotheses wf4 / wf12 of C13_cached_eq_direct, on the generator's own description of the table"""
        sg, gr = mt['segs'], mt['groups'] or []
        ok4 = bool(sg) and all(a['start'] <= a['end'] for a in sg) and all(a['end'] < b['start'] for a, b in zip(sg, sg[1:])) and sg[-1]['end'] == 0xFFFF
        ok12 = all(s <= e <= 0x10FFFF for s, e, g in gr) and all(a[1] < b[0] for a, b in zip(gr, gr[1:]))
        return ok4 and ok12
    for c, mt, m, i in zip(cases, meta, ml, il):
        dist[mt['kind']] = dist.get(mt['kind'], 0) + 1
        if mt['kind'] == 'wellformed':
            k = 'wellformed meeting wf4/wf12 (the hypotheses of C13_cached_eq_direct)' if meets_wf(mt) else 'wellformed outside wf4/wf12'
            dist[k] = dist.get(k, 0) + 1
        if i is None:
            chk.tie_break('harness', 'no result line', c[:300]); continue
        key = 'cmap:%s' % hexs(mt['tbl'])[:96]
        if ' ABORT ' in i:
            chk.violation(key, 'cmap handling read out of bounds / undefined behaviour: %s' % i[:300], dict(case=c, got=i))
        else:
            try:
                body = i.split(' D ')[1]
                dpart, cpart = body.split(' C ') if ' C ' in body else (body.split(' C')[0], '')
                d, cc = dpart.split(), cpart.split()
            except Exception:
                chk.tie_break('harness', 'unparsable line %r' % i[:200], c[:300]); continue
            if mt['kind'] in ('wellformed',):
                for k, p in enumerate(mt['pts']):
                    if d[:1] == ['NA']:
                        chk.violation(key, 'well-formed cmap rejected by the direct path', dict(case=c, got=i)); break
                    exp = (G.spec4(mt['segs'], p) if p <= 0xFFFF else (G.spec12(mt['groups'], p) if p <= 0x10FFFF and mt['groups'] else 0))
                    if exp is None:
                        continue
                    if int(d[k], 16) != exp:
                        chk.violation('cmap-direct:%x:%s' % (p, key[5:60]), 'U+%04X: direct lookup gives glyph %s, the cmap assigns %x' % (p, d[k], exp),
                                      dict(case=c, got=i, codepoint='%x' % p)); break
                    if p <= 0x10FFFF and cc and cc[0] != 'NA' and cc[k] != d[k]:
                        chk.violation('cmap-cached:%x:%s' % (p, key[5:60]), 'U+%04X: cached lookup gives %s, direct gives %s' % (p, cc[k], d[k]),
                                      dict(case=c, got=i, codepoint='%x' % p)); break
                classes.add((mt['kind'], len(mt['segs']) // 8, bool(mt['groups'])))
            else:
                classes.add((mt['kind'], d[:1] == ['NA'], len(mt['tbl']) // 64))
        if (m or '').split()[1:] != i.split()[1:]:
            ndis += 1
            chk.tie_break('correspondence:cmap', 'model %r vs implementation %r' % ((m or '')[:200], i[:200]), c[:400])
    # more format 12 groups than a 16-bit counter holds (num_groups is a uint32): characters of the groups beyond the 65536th.  Against the
    # reference of the cmap format only (the extracted model needs minutes for a table of this size)
    rng = chk.rng
    bcases, bmeta = [], []
    for i in range(3 if chk.tier == 'thorough' else 1):
        segs = G.gen_segments(rng, 6)
        ngr = 65536 + rng.choice((1, 464, 3000))
        groups, c = [], 0x10000
        for k in range(ngr):
            ln = 1 if k % 7 else 2
            groups.append((c, c + ln - 1, 1 + (k * 5) % 60000))
            c += ln + (1 if k % 3 else 2)
        pts = sorted(set([0x41, groups[0][0], groups[1][1], groups[65535][0], groups[65536][0], groups[65536][1], groups[-1][0], groups[-1][1], groups[-1][1] + 1, groups[40000][0], groups[65535][1] + 1]
                         + [groups[rng.randrange(ngr)][0] for _ in range(8)]))
        tbl = G.cmap_table([(3, 1, G.fmt4(segs)), (3, 10, G.fmt12(groups))])
        bcases.append('b%d tbl %s %s' % (i, hexs(tbl), ' '.join('%x' % p for p in pts))); bmeta.append((segs, groups, pts))
    _, bil, _ = vlib.run_pair(None, wrapper, bcases, timeout=1200)
    for c, (segs, groups, pts), i in zip(bcases, bmeta, bil):
        key = 'cmap-many-groups:%d' % len(groups)
        if i is None or ' ABORT ' in i or ' D ' not in i:
            chk.violation(key, 'a cmap with %d format 12 groups was not handled: %s' % (len(groups), (i or '')[:200]), dict(case=c[:300] + '...', got=(i or '')[:400], ngroups=len(groups))); continue
        body = i.split(' D ')[1]
        d, cc = (body.split(' C ') + [''])[:2]
        d, cc = d.split(), cc.split()
        for k, p in enumerate(pts):
            exp = G.spec4(segs, p) if p <= 0xFFFF else G.spec12(groups, p)
            if exp is None:
                continue
            if k < len(d) and int(d[k], 16) != exp:
                chk.violation('cmap-direct:%x:%s' % (p, key), 'U+%04X in a cmap with %d format 12 groups: direct lookup gives glyph %s, the cmap assigns %x' % (p, len(groups), d[k], exp), dict(codepoint='%x' % p, ngroups=len(groups), got=i[:400])); break
            if cc and cc[0] != 'NA' and k < len(cc) and int(cc[k], 16) != exp:
                chk.violation('cmap-cached:%x:%s' % (p, key), 'U+%04X in a cmap with %d format 12 groups: cached lookup gives glyph %s, the cmap assigns %x' % (p, len(groups), cc[k], exp), dict(codepoint='%x' % p, ngroups=len(groups), got=i[:400])); break
        classes.add(('many-groups', len(groups) > 65536))
    dist['tables with more than 65536 format 12 groups'] = len(bcases)
    # fonts
    byfont = {}
    pmodel = []
    for c, l in zip(fcases, fl):
        f = c.split()
        if l is None or ' G' not in l:
            chk.violation('cmap-font:%s:%s' % (f[2], f[3]), 'sweep of %s (options %s) did not complete: %s' % (f[2], f[3], (l or '')[:200]), dict(case=c, got=l)); continue
        byfont.setdefault(f[2], {})[f[3]] = l.split(' ', 1)[1]
    for fn, r in byfont.items():
        if '0' in r and '4' in r and r['0'] != r['4']:
            a, b = r['0'].split(), r['4'].split()
            diff = [x for x in a if x not in b][:3] + [x for x in b if x not in a][:3]
            chk.violation('cmap-font-cached:%s' % fn, 'direct and cached faces disagree on %s: %s' % (fn, diff), dict(font=fn, differing_runs=diff))
        if '0' in r and fn in pseudo_of and ' P' in r['0']:
            # supported-though-unmapped code points are exactly the pseudo map's entries the cmap leaves unmapped
            base, pm = pseudo_of[fn]
            cm = G.parse_font_cmap(os.path.join(vlib.REPO, 'tests/fonts', base))
            want = sorted(u for u, g in pm.items() if g and not cm.get(u, 0))
            gotp = sorted(int(x.split(':')[0], 16) for x in r['0'].split(' P', 1)[1].split() if x.endswith(':1'))
            odd = [x for x in r['0'].split(' P', 1)[1].split() if not x.endswith(':1')]
            if gotp != want or odd:
                bad = sorted(set(gotp) ^ set(want))[:5]
                chk.violation('cmap-pseudo:%s:%s' % (os.path.basename(fn), ','.join('%x' % b for b in bad)), '%s: gr_face_is_char_supported on code points the cmap leaves unmapped: the pseudo-glyph map lists %s, the face supports %s%s'
                              % (os.path.basename(fn), ['%x' % u for u in want][:12], ['%x' % u for u in gotp][:12], (' and reports %s' % odd[:3]) if odd else ''), dict(font=os.path.basename(fn), pseudo_map={'%x' % u: g for u, g in pm.items()}, base_font=base))
            classes.add(('pseudo', os.path.basename(fn), len(want)))
            # the same points through Model/PseudoModel.v (extracted): every listed code point and its neighbours, and whatever the face
            # reported as supported-though-unmapped, each with the cmap's answer
            pts = sorted(set(p for u in pm for p in (u - 1, u, u + 1) if 0 <= p < 0x110000) | set(gotp))[:400]
            pcase = 'p%d pseudo %s %s' % (len(pmodel), ','.join('%x:%d' % (u, g) for u, g in sorted(pm.items())) or '-', ' '.join('%x:%d' % (p_, cm.get(p_, 0)) for p_ in pts))
            pmodel.append((pcase, fn, set(gotp), cm, pts))
        if '0' in r:
            exp = G.parse_font_cmap(os.path.join(vlib.REPO, 'tests/fonts', fn if not fn.startswith('/') else pseudo_of[fn][0]))
            got = {}
            for run_ in r['0'].split(' P')[0].split()[1:]:
                rg, g = run_.split(':'); s, e = rg.split('-')
                for u in range(int(s, 16), int(e, 16) + 1):
                    got[u] = (int(g, 16) + u - int(s, 16)) & 0xFFFF
            if got != exp:
                bad = sorted(set(k for k in set(got) | set(exp) if got.get(k) != exp.get(k)))[:5]
                chk.violation('cmap-font-spec:%s:%x' % (fn, bad[0]), '%s: face maps %s differently from the cmap table (independent parser): %s'
                              % (fn, ['%x' % b for b in bad], [(hex(b), got.get(b), exp.get(b)) for b in bad]), dict(font=fn))
            classes.add(('font', fn))
    if pmodel:
        pml, _, _ = vlib.run_pair(mexe, None, [x[0] for x in pmodel])
        for (pcase, fn, gotp_, cm_, pts), m in zip(pmodel, pml):
            if m is None or ' PS' not in m:
                chk.tie_break('harness', 'no model line for the pseudo-glyph points', pcase[:200]); continue
            for q in m.split(' PS', 1)[1].split():
                u, g, sup = q.split(':'); u = int(u, 16)
                isup = 1 if (u in gotp_ or cm_.get(u, 0)) else 0
                if int(sup) != isup:
                    ndis += 1
                    chk.tie_break('correspondence:pseudo', 'U+%04X on %s: Model/PseudoModel.v says supported=%s (initial glyph %s), the face says %d' % (u, os.path.basename(fn), sup, g, isup), pcase[:600]); break
        dist['pseudo-glyph points through the model'] = sum(len(x[4]) for x in pmodel)
    chk.cov.update(evaluations=len(cases) + len(fcases), distinct_nontrivial=len(classes), disagreements_checked=ndis, distribution=dist,
                   fonts_swept=sorted(byfont), exhaustive_per_font=True,
                   rule='synthesised cmaps: format-4 (1-300 segments, adjacent / gapped, idRangeOffset arrays, wrapping deltas, real final segment) with or without '
                        'format-12, all subtable keys; queried at every boundary +-1 + random points, direct and cached; malformed variants (safety + model agreement); '
                        'all 0x110000 code points of %d shipped fonts direct vs cached vs an independent parser; non-trivial = distinct (family, size class) / font' % len(byfont),
                   samples=[cases[0][:160], cases[len(cases) // 2][:160], fcases[0]], exhaustive=False)


def replay(chk, obj):
    mexe, wrapper = build(chk)
    case = obj.get('replay', {}).get('case') or (obj.get('broken') or [{}])[-1].get('case')
    if not case:
        print('replay names no case:', str(obj)[:400]); return 1
    ml, il, err = vlib.run_pair(mexe, wrapper, [case], shards=1)
    print(case[:300]); print(' model:', (ml[0] or '')[:300]); print(' impl :', (il[0] or '')[:300]); print(err[-1500:])
    return 0 if (ml[0] or '').split()[1:] == (il[0] or '').split()[1:] else 1
