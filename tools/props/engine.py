"""Shared runner for the engine properties (C03 C04 C05, and the shaping part of C02): shapes generated texts with the
instrumented library, evaluates the structural oracle on the API output, and replays the recorded operation trace through
the extracted stream model, comparing every snapshot."""
import os
import vlib
from props import shapegen as S

CATS = {
    'C03': ('cycle', 'overlong', 'prev-not-inverse', 'last-mismatch', 'count', 'empty-but-linked', 'index-not-permutation', 'non-finite', 'gid-out-of-range'),
    'C04': ('parent-outside', 'parent-cycle', 'child-chain', 'child-names-other-parent', 'child-outside', 'sibling-cycle', 'base-chain'),
    'C05': ('assoc-range', 'char-uncovered', 'cinfo-slot-range'),
}


def build(chk, machine='direct'):
    impl = vlib.build_impl(machine, 'asan1')
    hexe = vlib.build_harness('impl_shape', impl, san='asan1')
    w = os.path.join(os.path.dirname(hexe), 'run_shape.sh')
    with open(w, 'w') as f:
        f.write('#!/bin/sh\nexec %s %s\n' % (hexe, vlib.REPO))
    os.chmod(w, 0o755)
    return w


def gen_cases(chk, per_font, fonts=None, ops=('dump', 'trace'), maxlen=24):
    rng = chk.rng
    cases, meta = [], []
    cp = os.path.join(vlib.VERIF, 'corpus', 'engine.txt')
    if os.path.exists(cp):
        for l in open(cp):
            f = l.split()
            if f and not l.startswith('#'):
                cases.append('k%d shape %s %s' % (len(cases), ' '.join(f), ' '.join(ops))); meta.append(dict(font=f[0], corpus=True))
    for font in (fonts or S.FONTS):
        rep = S.repertoire(vlib.REPO, font)
        for i in range(per_font):
            cps = S.gen_text_seeded(rng, vlib.REPO, font, maxlen) if rng.random() < 0.35 else S.gen_text(rng, rep, maxlen)
            enc = rng.choice((8, 16, 32))
            d = rng.randrange(8)
            units = S.encode(cps, enc)
            if rng.random() < 0.05 and units:                    # ill-formed text now and then
                units[rng.randrange(len(units))] = rng.choice((0x80, 0xC0, 0xFF)) if enc == 8 else (0xD800 if enc == 16 else 0x110000)
            units = [u for u in units if u]                       # no embedded NUL
            cases.append(S.case_line('c%d' % len(cases), font, units, enc, dir_=d, opts=rng.choice((0, 0, 2, 4, 6)), ppm=rng.choice(('-', '-', '12', '96.5')), ops=ops))
            meta.append(dict(font=font, n=len(cps), dir=d, enc=enc))
    return cases, meta


def classify_vmslot(line):
    """identify the known cause of a ghost child: a slot that was attached, then temp-copied (TEMP_COPY overwrote its entry in
    the slot map) and deleted, so that collectGarbage never frees it and it stays in its parent's child chain (F23)"""
    try:
        body = line.split(' | T ')[1].split()[1]
    except IndexError:
        return None
    toks = body.split(';')
    final = toks[-1]
    if 'BROKEN' in final or '[' not in final or ']' not in final:
        return None                                   # the links themselves are broken: not the recorded ghost-slot defects
    stream_part = final[final.index('[') + 1:final.index(']')]
    in_stream, kids = set(), []
    for ent in stream_part.split(','):
        if not ent: continue
        f = ent.split(':')
        if len(f) < 6:
            return None
        in_stream.add(f[0])
        kids += [k for k in f[5].split('.') if k]
        if f[4] != '-1': kids.append(f[4])                  # parents too: a ghost parent has the same cause
    ghosts = sorted(set(k for k in kids if k not in in_stream))
    if not ghosts:
        return None
    causes = set()
    for g in ghosts:
        tc = [i for i, t in enumerate(toks) if t.startswith('tc') and t.split(',')[1] == g]
        ins = [i for i, t in enumerate(toks) if t.startswith('i' + g + ',')]
        de = [i for i, t in enumerate(toks) if t == 'd' + g]
        fr = [i for i, t in enumerate(toks) if t == 'f' + g]
        if not de or [x for x in fr if x > de[-1]]:
            return None
        if tc and tc[0] < de[-1]:
            causes.add('ghost-after-delete-of-temp-copied-attached-slot')
        elif ins and ins[-1] < de[-1] and not any(t.startswith('P') for t in toks[ins[-1]:de[-1]]):
            # INSERT never enters the new slot in the slot map; deleted again before the rule ends, collectGarbage cannot see it (F24)
            causes.add('ghost-after-delete-of-slot-inserted-by-the-same-rule')
        else:
            # deleted, and later in the same rule (before the next pass snapshot) an INSERT or a TEMP_COPY: DELETE leaves the map cursor on the
            # deleted slot's entry, INSERT steps the cursor back, the following NEXT returns to that entry with another current slot, and the
            # next store into the map (TEMP_COPY, the end-of-rule store) overwrites the only reference collectGarbage could have found (F52)
            nxt = next((i for i in range(de[-1] + 1, len(toks)) if toks[i].startswith('P')), len(toks))
            prv = max([i for i in range(0, de[-1]) if toks[i].startswith('P')] + [0])
            span = toks[prv:nxt]                                  # the events of the rule that deleted the ghost
            isdel = lambda t: t.startswith('d') and t[1:].isdigit()
            isins = lambda t: t.startswith('i') and t[1:2].isdigit()
            firstdel = next((i for i, t in enumerate(span) if isdel(t)), None)
            # an INSERT after a DELETE anywhere in that rule puts the map cursor and the current slot out of step: whatever is deleted from
            # then on (this slot or a later one) is not the slot the cursor's entry names
            if firstdel is not None and any(isins(t) for t in span[firstdel + 1:]):
                causes.add('ghost-after-delete-followed-by-insert-in-the-same-rule')
            else:
                return None
    return sorted(causes)[0] if len(causes) == 1 else None


def run_vmslot(chk, pid, n):
    """adversarial rule actions on real segments (harness/impl_vmslot.cpp): accepted programs over INSERT / DELETE / PUT_COPY / ASSOC /
    attach in arbitrary, re-attaching and mutually referential ways"""
    from props import vmslotgen as V
    impl = vlib.build_impl('direct', 'asan1')
    hexe = vlib.build_harness('impl_vmslot', impl, san='asan1')
    w = os.path.join(os.path.dirname(hexe), 'run_vmslot.sh')
    with open(w, 'w') as f:
        f.write('#!/bin/sh\nexec %s %s\n' % (hexe, vlib.REPO))
    os.chmod(w, 0o755)
    mexe = vlib.build_model_driver('Stream')
    rng = chk.rng
    cases = []
    cp = os.path.join(vlib.VERIF, 'corpus', 'vmslot.txt')
    if os.path.exists(cp):
        for l in open(cp):
            if l.strip() and not l.startswith('#'):
                cases.append('k%d vmslot %s' % (len(cases), l.strip()))
    for i in range(n):
        font = rng.choice(('Padauk.ttf', 'charis_r_gr.ttf', 'Scheherazadegr.ttf', 'Annapurnarc2.ttf', 'small.ttf', 'general.ttf'))      # the last two declare no / few user attributes
        rep = S.repertoire(vlib.REPO, font)
        k = rng.randrange(1, 9)
        cps = [rng.choice(rep) for _ in range(k)]
        rules = []
        for _ in range(rng.randrange(1, 7)):
            pos, ln, pre, bc = V.gen_rule(rng, k)
            rules.append('%d:%d:%d:%s' % (pos, ln, pre, bytes(bc).hex()))
        cases.append('v%d vmslot %s %d %s %s' % (len(cases), font, rng.randrange(2), ''.join('%08x' % c for c in cps), ' '.join(rules)))
    _, il, _ = vlib.run_pair(None, w, cases, timeout=2400)
    ml, _, _ = vlib.run_pair(mexe, None, [l or 'x' for l in il], timeout=2400)
    mine = CATS[pid]
    classes, ndis, ran = set(), 0, 0
    for c, i, m in zip(cases, il, ml):
        if i is None:
            chk.tie_break('harness', 'no result line', c[:300]); continue
        tok = i.split()
        if 'ABORT' in tok[1:3]:
            if pid == 'C03':
                chk.violation('vmslot-abort:%s' % ' '.join(tok[2:6]), 'rule actions aborted: %s' % i[:300], dict(case=c, got=i[:600]))
            continue
        if tok[1] == 'NULLSEG':
            continue
        wf = tok[1][3:]
        ran += sum(1 for x in tok[2:] if x.startswith('R'))
        wf, also = (wf.split('+', 1) + [None])[:2]
        if wf != 'ok' and any(wf.startswith(x) for x in mine):
            cause = classify_vmslot(i)
            key = ('%s:%s' % (pid.lower(), cause)) if cause else ('%s:vmslot:%s:%s' % (pid.lower(), wf, ' '.join(c.split()[2:])[:160]))
            chk.violation(key, 'after accepted rule actions the segment violates the property: %s%s' % (wf, (' [' + cause + ']') if cause else ''),
                          dict(case=c, got=i[:2000]))
        if also and any(also.startswith(x) for x in mine):
            # beside the first problem (which may be a recorded one): a slot whose parent is in the stream is not exactly once in that parent's
            # chain -- a slot outside the stream does not account for that
            chk.violation('%s:vmslot:%s:%s' % (pid.lower(), also, ' '.join(c.split()[2:])[:160]),
                          'after accepted rule actions a slot whose parent is in the segment does not occur exactly once in that parent\'s attachment chain (beside: %s)' % wf, dict(case=c, got=i[:2000]))
        mres = (m or '').split()
        if len(mres) < 3 or mres[2] != 'ok':
            ndis += 1
            chk.tie_break('correspondence:stream', 'replay of adversarial rule actions through Model/StreamModel.v diverges: %s' % (m or '')[:600], c[:400])
        classes.add(('vmslot', wf, min(len(tok), 12)))
    return len(cases), classes, ndis, ran


def run_engine(chk, pid, per_font, fonts=None):
    """returns (n_cases, classes, distribution, disagreements)"""
    wrapper = build(chk)
    mexe = vlib.build_model_driver('Stream')
    cases, meta = gen_cases(chk, per_font, fonts)
    _, il, ierr = vlib.run_pair(None, wrapper, cases, timeout=2400)
    ml, _, _ = vlib.run_pair(mexe, None, [l or 'x' for l in il], timeout=2400)
    classes, dist, ndis = set(), {}, 0
    mine = CATS[pid]
    for c, mt, i, m in zip(cases, meta, il, ml):
        dist[mt['font']] = dist.get(mt['font'], 0) + 1
        key = '%s:%s' % (pid.lower(), ' '.join(c.split()[2:10])[:120])
        if i is None:
            chk.tie_break('harness', 'no result line', c[:300]); continue
        tok = i.split()
        if 'ABORT' in tok[1:3]:
            if pid == 'C03':      # memory errors while shaping are raised once, under C03 / C02
                chk.violation(key, 'shaping aborted: %s' % i[:300], dict(case=c, got=i[:600]))
            continue
        if tok[1] in ('NOFACE', 'NULLSEG'):
            classes.add((mt['font'], tok[1])); continue
        wf = tok[4][3:]
        if wf != 'ok' and any(wf.startswith(x) for x in mine):
            chk.violation(key, 'segment violates the property: %s' % wf, dict(case=c, got=i[:1500]))
        if 'LOOPBOUND' in i and pid == 'C03':
            pass
        mres = (m or '').split()
        if len(mres) < 3 or mres[2] not in ('ok', 'none'):
            ndis += 1
            chk.tie_break('correspondence:stream', 'trace replay through Model/StreamModel.v diverges from the implementation: %s' % (m or '')[:600], c[:300])
        n = int(tok[1][2:])
        classes.add((mt['font'], min(n, 12), mt.get('dir', 0) & 1, wf == 'ok'))
    return len(cases), classes, dist, ndis, cases


def run_fontkit(chk, pid, nprog):
    """compiled GDL-lite programs (tools/props/fontkit.py) on the real engine: structural oracle + trace replay.  A rule that deletes a slot
    without re-associating its characters is something the shipped fonts never do; here it is common."""
    import shutil
    from props import fontkit as K, c06, cmapgen
    rng = chk.rng
    wrapper = build(chk)
    mexe = vlib.build_model_driver('Stream')
    base = open(os.path.join(vlib.REPO, 'tests/fonts', c06.BASE), 'rb').read()
    cm = cmapgen.parse_font_cmap(os.path.join(vlib.REPO, 'tests/fonts', c06.BASE))
    inv = {}
    for c, g in cm.items():
        if 0x21 <= c <= 0x7E and g:
            inv.setdefault(g, c)
    gl = sorted(inv)
    tmp = os.path.join(vlib.BUILD, 'fuzzfonts', 'fk-%s-%s-%d' % (pid, chk.tier, chk.seed))
    shutil.rmtree(tmp, ignore_errors=True); os.makedirs(tmp)
    cases, progs, nsub_of = [], [], {}
    for k in range(nprog):
        prog, nsub = c06.gen_copy_pos_program(rng, gl) if k % 10 == 7 else c06.gen_program(rng, gl)
        p = os.path.join(tmp, 'p%d.ttf' % k)
        nsub_of[p] = nsub
        open(p, 'wb').write(K.build_font(base, prog, nsub))
        text = K.prog_to_text(prog)
        alpha = sorted(set(g for ps in prog for g in ps['alpha']))
        for t in range(5):
            gids = [rng.choice(alpha) if rng.random() < 0.85 else rng.choice(gl) for _ in range(rng.choice((1, 2, 3, 5, 8, 12)))]
            cases.append(S.case_line('f%d.%d' % (k, t), p, [inv[g] for g in gids], 32, dir_=rng.choice((0, 0, 1, 2)), ops=('dump', 'trace')))
            progs.append((p, text))
    _, il, _ = vlib.run_pair(None, wrapper, cases, timeout=2400)
    ml, _, _ = vlib.run_pair(mexe, None, [l or 'x' for l in il], timeout=2400)
    mine = CATS[pid]
    classes, ndis = set(), 0
    for c, (fp, text), i, m in zip(cases, progs, il, ml):
        if i is None:
            chk.tie_break('harness', 'no result line', c[:300]); continue
        tok = i.split()
        if 'ABORT' in tok[1:3]:
            if pid == 'C03':
                chk.violation('fontkit-abort:%s' % text[:100], 'shaping with a compiled rule program aborted: %s' % i[:300], dict(case=c, got=i[:600], program=text, font_gz_b64=c06.blob(fp)))
            continue
        if tok[1] in ('NOFACE', 'NULLSEG'):
            continue
        wf = tok[4][3:]
        if wf != 'ok' and any(wf.startswith(x) for x in mine):
            key = '%s:fontkit:%s:%s' % (pid.lower(), wf.split('@')[0], text[:120])
            # the recorded defect F10: a slot is deleted and no rule re-associates its characters (no ASSOC): the char info keeps -1
            vals = wf.split(':')[-1].split(',') if ':' in wf else []
            if pid == 'C05' and wf.startswith('cinfo-slot-range') and '-1' in vals and 'D' in text and all(v == '-1' or v.lstrip('-').isdigit() and int(v) >= 0 for v in vals):
                key = 'c05:char-of-deleted-slot-left-unassociated'
            # the recorded defect F36: PUT_COPY in a positioning pass (after associateChars has run for the last time) hands the slot the
            # before / after of the slot it copies and loses its own, so a character may be left in no slot's range
            if pid == 'C05' and wf.startswith('char-uncovered') and nsub_of.get(fp) is not None and any('C' in ps for ps in text.split('/')[nsub_of[fp]:]):
                key = 'c05:put-copy-in-positioning-pass-loses-the-association'
            chk.violation(key, 'after the passes of a compiled rule program the segment violates the property: %s' % wf, dict(case=c, got=i[:1500], program=text, font_gz_b64=c06.blob(fp)))
        mres = (m or '').split()
        if len(mres) < 3 or mres[2] not in ('ok', 'none'):
            ndis += 1
            chk.tie_break('correspondence:stream', 'trace replay through Model/StreamModel.v diverges on a compiled rule program: %s' % (m or '')[:500], c[:300])
        classes.add(('fontkit', text.count('/'), 'D' in text, 'I' in text, wf.split('@')[0]))
    shutil.rmtree(tmp, ignore_errors=True)
    return len(cases), classes, ndis
