"""C05 — see DESIGN.md section 6/C05.  Shares the engine runner (tools/props/engine.py)."""
import vlib
from props import engine


def run(chk):
    chk.trusted += ['hand model Model/StreamModel.v (list-level) of the stream-editing primitives; the harness abstraction function (walk of the real links with consistency checks)',
                    'GRAPHITE2_VERIF event hooks in /repo (add-only) recording the operation trace']
    chk.assumptions += ['the model is list-level: that the pointer manipulations implement the list operations is checked on every snapshot (after every pass and at the end), not proved',
                        'glyph attributes consulted by reverseSlots (bidi class 16 = mark) enter the model as recorded inputs']
    chk.check_proofs()
    per_font = 400 if chk.tier == 'thorough' else 40
    n, classes, dist, ndis, cases = engine.run_engine(chk, 'C05', per_font)
    nv, vclasses, vdis, ran = engine.run_vmslot(chk, 'C05', 30000 if chk.tier == 'thorough' else 2500)
    n += nv; classes |= vclasses; ndis += vdis
    nf, fclasses, fdis = engine.run_fontkit(chk, 'C05', 400 if chk.tier == 'thorough' else 40)
    n += nf; classes |= fclasses; ndis += fdis
    # the first clause of the property: the char-infos are the decoded input characters in order (U+FFFD for ill-formed sequences) with
    # strictly increasing code-unit offsets -- the text-reading model shared with C11 / C12 (C05_cinfo_chars_utf8) against gr_make_seg on
    # well- and ill-formed texts in the three encodings
    from props import c11 as _c11, utfgen as _G
    mexe11, wutf = _c11.build(chk)
    dcases = ['d%d decode %d %d %s' % (k, e, nch, _G.hexu(u, e)) for k, (e, nch, u) in enumerate(_G.gen_decode(chk.rng, False)) if k % (1 if chk.tier == 'thorough' else 3) == 0]
    dml, dil, _ = vlib.run_pair(mexe11, wutf, dcases)
    for c, m, i in zip(dcases, dml, dil):
        if i is None or m is None:
            chk.tie_break('harness', 'no result line', c[:200]); continue
        if i.split()[1:] != m.split()[1:]:
            t = i.split()
            bases = [int(x.split(':')[1]) for x in t[3:] if ':' in x] if t[1:2] == ['D'] and t[2:3] != ['NULL'] else []
            chk.violation('c05:cinfo:%s' % ' '.join(c.split()[2:])[:120], 'the char-infos of gr_make_seg are not the decoded characters of the text with their code-unit offsets: got %s, the decoding gives %s%s'
                          % (' '.join(t[1:])[:200], ' '.join(m.split()[1:])[:200], '' if bases == sorted(set(bases)) else ' (offsets not strictly increasing)'), dict(case=c, got=i[:600]))
        classes.add(('cinfo', c.split()[2], min(len(c.split()[4]) // 8, 4), i.split()[2][:4] if len(i.split()) > 2 else ''))
    n += len(dcases)
    # one segment of more than 65536 characters (ordinary text): associations are character INDICES, whatever the length of the text
    from props import shapegen as _S
    w = engine.build(chk)
    lcases = []
    for k, (font, nch) in enumerate((('Padauk.ttf', 65537), ('charis_r_gr.ttf', 70000)) if chk.tier != 'thorough' else
                                     (('Padauk.ttf', 65536), ('Padauk.ttf', 65537), ('charis_r_gr.ttf', 70000), ('Scheherazadegr.ttf', 66000), ('charis_r_gr.ttf', 131073))):
        lines = [l for l in _S.seeds(vlib.REPO, font)[1] if l] or [[0x61, 0x20]]
        cps = []
        while len(cps) < nch:
            cps += chk.rng.choice(lines) + [0x20]
        enc = (32, 16, 8)[k % 3]
        lcases.append(_S.case_line('long%d' % k, font, _S.encode(cps[:nch], enc), enc, dir_=1 if font.startswith('Scheh') else 0))
    _, lil, _ = vlib.run_pair(None, w, lcases, shards=len(lcases), timeout=1200)
    for c, i in zip(lcases, lil):
        head = ' '.join(c.split()[:8])
        if i is None:
            chk.tie_break('harness', 'no result line', head); continue
        m_ = [t for t in i.split()[:12] if t.startswith('WF=')]
        if 'ABORT' in i.split()[1:3] or not m_ or m_[0] != 'WF=ok':
            chk.violation('c05:long:%s' % ' '.join(c.split()[2:8]), 'a segment of %s characters: %s' % ([t for t in i.split()[:8] if t.startswith('nc=')], ' '.join(i.split()[1:8])[:200]),
                          dict(case=c, got=i[:300]))
        classes.add(('long', c.split()[2], m_[0] if m_ else 'none'))
    n += len(lcases)
    chk.notes.append('adversarial rule-action programs: %d cases, %d accepted programs executed' % (nv, ran))
    chk.cov.update(evaluations=n, distinct_nontrivial=len(classes), disagreements_checked=ndis, distribution=dist,
                   rule='%d texts per shipped font (16 fonts): repertoire windows, spaces / joiners, unmapped and astral characters, ill-formed units, three encodings, dir 0..7, '
                        'face options, with / without gr_font; each shaped with the instrumented library, structural oracle on the API output, operation trace replayed '
                        'through the extracted model with snapshot comparison after every pass; plus adversarial accepted action programs (INSERT/DELETE/PUT_COPY/ASSOC/attach in arbitrary, re-attaching, mutually referential ways) run by the real loader + interpreter on real segments, same replay; plus compiled GDL-lite rule programs (FontKit: insert / delete without re-association / substitutions over overlapping classes) on the real engine; non-trivial = distinct (font, slot-count class, direction, verdict)' % per_font,
                   samples=[cases[0][:200], cases[len(cases) // 2][:200]], exhaustive=False)


def replay(chk, obj):
    case = obj.get('replay', {}).get('case') or (obj.get('broken') or [{}])[-1].get('case')
    if not case:
        print('no case'); return 1
    w = engine.build(chk); mexe = vlib.build_model_driver('Stream')
    if obj.get('replay', {}).get('font_gz_b64'):
        import base64, zlib, os
        tmp = os.path.join(vlib.BUILD, 'fuzzfonts', 'replay'); os.makedirs(tmp, exist_ok=True)
        fp = os.path.join(tmp, 'replay.ttf')
        open(fp, 'wb').write(zlib.decompress(base64.b64decode(obj['replay']['font_gz_b64'])))
        f = case.split(); f[2] = fp; case = ' '.join(f)
    _, il, err = vlib.run_pair(None, w, [case], shards=1)
    ml, _, _ = vlib.run_pair(mexe, None, [il[0] or 'x'], shards=1)
    print(case[:300]); print(' impl :', (il[0] or '')[:800]); print(' model:', (ml[0] or '')[:800])
    return 0 if (ml[0] or '').split()[2:3] == ['ok'] and ' WF=ok ' in (il[0] or '') else 1
