"""C05 — see DESIGN.md section 6/C05.  Shares the engine runner (tools/props/engine.py)."""
import vlib
from props import engine


def run(chk):
    chk.trusted += ['hand model Model/StreamModel.v (list-level) of the stream-editing primitives; the harness abstraction function (walk of the real links with consistency checks)',
                    'GRAPHITE2_VERIF event hooks in /repo (add-only) recording the operation trace']
    chk.assumptions += ['the model is list-level: that the pointer manipulations implement the list operations is checked on every snapshot (after every pass and at the end), not proved',
                        'glyph attributes consulted by reverseSlots (bidi class 16 = mark) enter the model as recorded inputs']
    chk.check_proofs()
    per_font = 400 if chk.tier == 'thorough' else 40
    n, classes, dist, ndis, cases = engine.run_engine(chk, 'C05', per_font)
    nv, vclasses, vdis, ran = engine.run_vmslot(chk, 'C05', 30000 if chk.tier == 'thorough' else 2500)
    n += nv; classes |= vclasses; ndis += vdis
    nf, fclasses, fdis = engine.run_fontkit(chk, 'C05', 400 if chk.tier == 'thorough' else 40)
    n += nf; classes |= fclasses; ndis += fdis
    chk.notes.append('adversarial rule-action programs: %d cases, %d accepted programs executed' % (nv, ran))
    chk.cov.update(evaluations=n, distinct_nontrivial=len(classes), disagreements_checked=ndis, distribution=dist,
                   rule='%d texts per shipped font (16 fonts): repertoire windows, spaces / joiners, unmapped and astral characters, ill-formed units, three encodings, dir 0..7, '
                        'face options, with / without gr_font; each shaped with the instrumented library, structural oracle on the API output, operation trace replayed '
                        'through the extracted model with snapshot comparison after every pass; plus adversarial accepted action programs (INSERT/DELETE/PUT_COPY/ASSOC/attach in arbitrary, re-attaching, mutually referential ways) run by the real loader + interpreter on real segments, same replay; plus compiled GDL-lite rule programs (FontKit: insert / delete without re-association / substitutions over overlapping classes) on the real engine; non-trivial = distinct (font, slot-count class, direction, verdict)' % per_font,
                   samples=[cases[0][:200], cases[len(cases) // 2][:200]], exhaustive=False)


def replay(chk, obj):
    case = obj.get('replay', {}).get('case') or (obj.get('broken') or [{}])[-1].get('case')
    if not case:
        print('no case'); return 1
    w = engine.build(chk); mexe = vlib.build_model_driver('Stream')
    if obj.get('replay', {}).get('font_gz_b64'):
        import base64, zlib, os
        tmp = os.path.join(vlib.BUILD, 'fuzzfonts', 'replay'); os.makedirs(tmp, exist_ok=True)
        fp = os.path.join(tmp, 'replay.ttf')
        open(fp, 'wb').write(zlib.decompress(base64.b64decode(obj['replay']['font_gz_b64'])))
        f = case.split(); f[2] = fp; case = ' '.join(f)
    _, il, err = vlib.run_pair(None, w, [case], shards=1)
    ml, _, _ = vlib.run_pair(mexe, None, [il[0] or 'x'], shards=1)
    print(case[:300]); print(' impl :', (il[0] or '')[:800]); print(' model:', (ml[0] or '')[:800])
    return 0 if (ml[0] or '').split()[2:3] == ['ok'] and ' WF=ok ' in (il[0] or '') else 1
