"""C06 — passes apply rules with the documented matching and precedence semantics (DESIGN.md section 6/C06).

Legs: (1) theorems: the executable reference semantics (Model/RuleModel.v) selects, among the rules that match, the one of
highest precedence; passes through where none matches; terminates; composes passes; (2) correspondence: random GDL-lite rule
programs (uniform pre-context 0..2, rule length <= 5, overlapping glyph sets, put_glyph / put_subs / insert / delete / advance /
shift) are compiled by tools/props/fontkit.py into Silf tables, the real engine shapes random glyph strings with them and its
glyph ids, advances and design-unit origins are compared with the extracted reference."""
import os, shutil
import vlib
from props import shapegen as S, engine, fontkit as K, cmapgen

BASE = 'general.ttf'


def gen_growth_program(rng, gl):
    """insert-heavy programs: every rule inserts in front of every item and most step the cursor back, so that a few passes use up the
    insert budget of 64 slots per character (the machine dies and gr_make_seg fails) or end a pass above it"""
    prog = []
    alpha = rng.sample(gl, rng.randrange(2, 4))
    for _ in range(rng.choice((2, 3, 3))):
        rules = []
        for _ in range(rng.randrange(1, 3)):
            ln = rng.randrange(1, 4)
            pat = [set(alpha) if rng.random() < 0.7 else set(rng.sample(alpha, 1)) for _ in range(ln)]
            acts = [([('I', rng.choice(alpha))] if rng.random() < 0.85 else [('G', rng.choice(alpha))]) for _ in range(ln)]
            if rng.random() < 0.15 and ln > 1:
                acts[rng.randrange(ln)] = [('D',)]
            rules.append(dict(pre=0, pat=pat, acts=acts, con=None, ret=rng.choice((0, 0, -1, -1, -2, -3))))
        prog.append(dict(maxloop=rng.choice((2, 3, 5, 8)), rules=rules, alpha=alpha))
    return prog, len(prog)


def gen_copy_pos_program(rng, gl):
    """a positioning pass whose rules copy slots (put_copy) and nothing is ever attached: positioning passes run after the slot indices
    have been assigned, so whatever a copy brings along besides the glyph and its metrics shows in the returned segment"""
    alpha = rng.sample(gl, rng.randrange(2, 5))
    rules = []
    for _ in range(rng.randrange(1, 4)):
        ln = rng.randrange(2, 5)
        pat = [set(rng.sample(alpha, rng.randrange(1, len(alpha) + 1))) for _ in range(ln)]
        acts = []
        for j in range(ln):
            al = []
            if rng.random() < 0.6:
                al.append(('C', rng.choice([r for r in range(-j, ln - j) if r != 0])))
            if rng.random() < 0.2: al.append(('X', rng.choice((-50, 30, 200))))
            acts.append(al)
        rules.append(dict(pre=0, pat=pat, acts=acts, con=None, ret=0))
    prog = [dict(maxloop=2, rules=[dict(pre=0, pat=[set(alpha)], acts=[[('A', 600)]], con=None, ret=0)], alpha=alpha, feats=None),
            dict(maxloop=rng.choice((1, 3)), rules=rules, alpha=alpha)]
    return prog, 1


def gen_reattach_program(rng, gl):
    """five distinct glyphs matched as one window by 2-4 successive positioning passes, each re-attaching some of the five items to
    others: first children, middle children and parents with several children change hands, so the child lists behind the parents
    (which positioning walks) are edited at every position; the first text is the five glyphs in pattern order"""
    alpha = rng.sample(gl, 5)
    prog = [dict(maxloop=1, rules=[dict(pre=0, pat=[{alpha[0]}], acts=[[('A', 500)]], con=None, ret=0)], alpha=alpha, feats=None, hint=list(alpha))]
    for _ in range(rng.choice((2, 3, 3, 4))):
        acts = []
        for j in range(5):
            al = []
            if rng.random() < 0.45:
                al.append(('T', rng.choice([r for r in range(-j, 5 - j) if r != 0])))
                if rng.random() < 0.5: al.append(('P', rng.choice((0, 100, 300, 600)), rng.choice((0, 250, -120))))
            acts.append(al)
        prog.append(dict(maxloop=1, rules=[dict(pre=0, pat=[{g} for g in alpha], acts=acts, con=None, ret=0)], alpha=alpha))
    return prog, 1


def gen_recycle_program(rng, gl):
    """slots that are freed and handed out again: a pass gives some glyphs user attributes (and an advance), a later pass deletes them, a
    later one inserts new glyphs -- which take the freed slots -- and a last one tests a user attribute of whatever stands there: an inserted
    glyph starts with every attribute at 0"""
    a, b, x, y = rng.sample(gl, 4)
    u = [rng.choice((1, 2, 7, -3)) for _ in range(2)]
    p1 = dict(maxloop=1, rules=[dict(pre=0, pat=[{a}], acts=[[('U', 0, u[0]), ('U', 1, u[1])] + ([('A', 777)] if rng.random() < 0.5 else [])], con=None, ret=0)], alpha=[a, b, x, y], feats=None)
    p2 = dict(maxloop=2, rules=[dict(pre=0, pat=[{a}, {b, a}], acts=[[('D',)], []], con=None, ret=0)], alpha=[a, b, x, y])
    p3 = dict(maxloop=2, rules=[dict(pre=0, pat=[{b}], acts=[[('I', x)]], con=None, ret=0)], alpha=[a, b, x, y])
    p4 = dict(maxloop=1, rules=[dict(pre=0, pat=[{x}], acts=[[('G', y)]], con=(0, rng.choice('eg'), rng.choice((0, u[1], u[0])), rng.randrange(2)), ret=0)], alpha=[a, b, x, y])
    prog = [p1, p2, p3] + ([p4] if rng.random() < 0.7 else [])
    prog[0]['hint'] = rng.choice(([a, b], [a, a, b], [a, b, a, b], [b, a, b]))
    return prog, len(prog)


def gen_program(rng, gl):
    """gl: glyph ids reachable from the keyboard"""
    if rng.random() < 0.12:
        return gen_growth_program(rng, gl)
    if rng.random() < 0.08:
        return gen_recycle_program(rng, gl)
    if rng.random() < 0.12:
        return gen_reattach_program(rng, gl)
    prog = []
    # the feature values the texts of this program are shaped with (None: the font's defaults, i.e. the first setting of each feature)
    fv = {fid: rng.choice(vals) for fid, vals in K.FEATS} if rng.random() < 0.6 else None
    fin_force = [(fv[fid] if fv else vals[0]) for fid, vals in K.FEATS]
    for _ in range(rng.choice((1, 1, 2, 3))):
        pre = rng.choice((0, 0, 1, 2))
        alpha = rng.sample(gl, rng.randrange(3, 9))               # a small alphabet so that rules overlap and fire
        rules = []
        for _ in range(rng.randrange(1, 7)):
            ln = rng.randrange(pre + 1, min(5, pre + 3) + 1)
            pat = [set(rng.sample(alpha, rng.randrange(1, min(4, len(alpha)) + 1))) for _ in range(ln)]
            acts = []
            for j in range(pre, ln):
                al = []
                k = rng.random()
                if k < 0.30: al.append(('G', rng.choice(alpha)))
                elif k < 0.45:
                    ref = rng.randrange(-j, ln - j)
                    ins = sorted(pat[j + ref]) if rng.random() < 0.8 else rng.sample(alpha, rng.randrange(1, len(alpha)))
                    outs = [rng.choice(alpha) for _ in range(max(1, len(ins) - rng.choice((0, 0, 1))))]
                    al.append(('S', ref, ins, outs))
                elif k < 0.53 and ln > 1:
                    refs = [r for r in range(-j, ln - j) if r != 0]
                    al.append(('C', rng.choice(refs)))
                elif k < 0.60 and ln - pre > 1: al.append(('D',))
                elif k < 0.68: al.append(('I', rng.choice(alpha)))
                if rng.random() < 0.12: al.append(('O', [rng.randrange(-j, ln - j) for _ in range(rng.choice((1, 1, 2, 3)))]))
                if rng.random() < 0.2 and ('D',) not in al: al.append(('A', rng.choice((0, 100, 777, 1500))))
                if rng.random() < 0.1 and ('D',) not in al: al.append(('X', rng.choice((-50, 30, 200))))
                if rng.random() < 0.2 and ('D',) not in al: al.append(('U', rng.randrange(2), rng.choice((1, 2, 7, -3))))
                acts.append(al)
            if all(('D',) in al for al in acts):
                acts[0] = [('G', rng.choice(alpha))]
            con = None
            if rng.random() < 0.35:
                con = (rng.randrange(0, ln), rng.choice('lge'), rng.choice((0, 100, 462, 520, 751, 777, 1000, 1500)))
            elif rng.random() < 0.3:
                con = (rng.randrange(0, ln), rng.choice('lge'), rng.choice((0, 1, 2, 7, -3)), rng.randrange(2))      # a test on a user attribute
            elif rng.random() < 0.3:
                con = (rng.randrange(0, ln), rng.choice('lge'), rng.choice((-5, -2, 0, 3, 6, 9, 12, 17)), None, rng.randrange(4, K.N_GATTR))     # a glyph attribute of the item's glyph
            elif rng.random() < 0.25:
                fi = rng.randrange(len(K.FEATS))
                con = (rng.randrange(0, ln), rng.choice('lge'), rng.choice((0, 1, 2, 3, 5)), None, None, (fi, K.FEATS[fi][0], fin_force[fi]))   # a feature value of the segment
            ret = rng.choice((-1, -1, -2, -3, 1, 2)) if rng.random() < 0.25 else 0
            rules.append(dict(pre=pre, pat=pat, acts=acts, con=con, ret=ret))
        prog.append(dict(maxloop=rng.choice((1, 2, 3, 5)), rules=rules, alpha=alpha, feats=fv))
    nsub = len(prog)
    # positioning passes: attach items to earlier / later items of the window, set attach / with points, shifts, advances
    for _ in range(rng.choice((0, 0, 1, 1, 2))):
        pre = rng.choice((0, 0, 1))
        alpha = rng.sample(gl, rng.randrange(3, 7)) if rng.random() < 0.5 else list(prog[-1]['alpha'])
        rules = []
        for _ in range(rng.randrange(1, 5)):
            ln = rng.randrange(pre + 1, min(5, pre + 3) + 1)
            pat = [set(rng.sample(alpha, rng.randrange(1, min(4, len(alpha)) + 1))) for _ in range(ln)]
            acts = []
            for j in range(pre, ln):
                al = []
                if ln > 1 and rng.random() < 0.6:
                    ref = rng.choice([r for r in range(-j, ln - j) if r != 0])
                    al.append(('T', ref))
                    if rng.random() < 0.7: al.append(('P', rng.choice((0, 100, 300, -50, 600)), rng.choice((0, 0, 250, -120))))
                    if rng.random() < 0.4: al.append(('W', rng.choice((0, 10, 200)), rng.choice((0, 20, -30))))
                if rng.random() < 0.2: al.append(('X', rng.choice((-50, 30, 200))))
                if rng.random() < 0.15: al.append(('Y', rng.choice((-80, 60))))
                if rng.random() < 0.2: al.append(('A', rng.choice((0, 100, 777, 1500))))
                acts.append(al)
            con = (rng.randrange(0, ln), rng.choice('lge'), rng.choice((0, 462, 520, 751, 1000))) if rng.random() < 0.2 else None
            ret = rng.choice((-1, -2, 1)) if rng.random() < 0.2 else 0
            rules.append(dict(pre=pre, pat=pat, acts=acts, con=con, ret=ret))
        prog.append(dict(maxloop=rng.choice((1, 2, 3, 5)), rules=rules, alpha=alpha))
    return prog, nsub


def prepare(chk, w, tmp):
    """the base font, the glyphs reachable from the keyboard, glyph -> character, and the advances as the engine sees them"""
    base = open(os.path.join(vlib.REPO, 'tests/fonts', BASE), 'rb').read()
    cm = cmapgen.parse_font_cmap(os.path.join(vlib.REPO, 'tests/fonts', BASE))
    chars = {c: g for c, g in cm.items() if 0x21 <= c <= 0x7E and g}
    inv = {}
    for c, g in chars.items():
        inv.setdefault(g, c)
    gl = sorted(inv)
    # advances as the engine sees them: an inert compiled font, the keyboard glyphs ten at a time
    shutil.rmtree(tmp, ignore_errors=True); os.makedirs(tmp)
    inert = os.path.join(tmp, 'inert.ttf')
    open(inert, 'wb').write(K.build_font(base, [dict(maxloop=1, rules=[dict(pre=0, pat=[{gl[0]}, {gl[0]}, {gl[0]}, {gl[0]}, {gl[0]}], acts=[[('G', gl[0])], [], [], [], []])])]))
    order = sorted(inv.items())
    acases = [S.case_line('adv%d' % k, inert, [c for g, c in order[k:k + 10]], 32, ops=('dump',)) for k in range(0, len(order), 10)]
    _, tl, _ = vlib.run_pair(None, w, acases, shards=1)
    advs = {}
    for l in tl:
        d0 = S.parse_dump(' '.join(l.split(' | ')[0].split()[1:]))
        for sl in d0['slots']:
            advs[int(sl[0])] = int(float(sl[10]))
    ng, hadv = K.base_info(base)
    for g, a in advs.items():
        if hadv[g] != a:
            chk.tie_break('compiler', 'glyph %d: hmtx advance %d but the engine reports %d' % (g, hadv[g], a))
    advtab = ','.join(str(advs.get(g, hadv[g])) for g in range(ng))
    return base, gl, inv, advtab


def run(chk):
    chk.trusted += ['hand model Model/RuleModel.v (reference semantics of the GDL-lite subset)', 'tools/props/fontkit.py: the GDL-lite compiler (FSM by subset construction, action bytecode, Silf v2 layout) — a wrong '
                    'compilation shows as a disagreement, it cannot hide one', 'shaping harness harness/impl_shape.cpp']
    chk.assumptions += ['GDL-lite: rule constraints limited to one advance comparison on one item (cntxt_item + push_slot_attr), cursor left after the window (ret = 0), left-to-right only; pass constraints, feature / glyph-attribute tests, cursor adjustment, bidi / mirroring and collision passes are outside this check',
                        'reads inside an action refer to the window as it was when the rule fired (the engine keeps a temp copy of a slot that is both changed and referenced)']
    chk.partial = True
    chk.check_proofs()
    thorough = chk.tier == 'thorough'
    rng = chk.rng
    w = engine.build(chk)
    mexe = vlib.build_model_driver('Rule')
    tmp = os.path.join(vlib.BUILD, 'fuzzfonts', 'c06-%s-%d' % (chk.tier, chk.seed))
    base, gl, inv, advtab = prepare(chk, w, tmp)
    base = K.enrich(base)          # glyph attributes 4..7 and two features for the constraints to test
    cases, mcases, progs = [], [], []
    for k in range(1500 if thorough else 150):
        prog, nsub = gen_program(rng, gl)
        try:
            data = K.build_font(base, prog, nsub)
        except (AssertionError, ValueError, struct_error) as e:
            chk.tie_break('compiler', 'fontkit failed: %s' % e); continue
        p = os.path.join(tmp, 'p%d.ttf' % k)
        open(p, 'wb').write(data)
        text = K.prog_to_text(prog)
        alpha = sorted(set(g for ps in prog for g in ps['alpha']))
        for t in range(8 if thorough else 6):
            n = rng.choice((1, 2, 3, 5, 8, 12)) if len(prog) != nsub or any(ps['maxloop'] not in (2, 3, 5, 8) or len(ps['alpha']) > 3 for ps in prog) or t > 4 else rng.choice((1, 1, 2, 2, 3))
            gids = [rng.choice(alpha) if rng.random() < 0.85 else rng.choice(gl) for _ in range(n)]
            if prog[0].get('hint') and t < 2:
                gids = list(prog[0]['hint']) * (t + 1)
            cid = 'q%d.%d' % (k, t)
            fvs = prog[0].get('feats')
            rtl = rng.random() < 0.3                     # right to left on these left-to-right fonts: the passes see the reversed stream
            cases.append(S.case_line(cid, p, [inv[g] for g in gids], 32, dir_=1 if rtl else 0, feats=(','.join('%x=%x' % (f, v) for f, v in sorted(fvs.items())) if fvs else '-'), ops=('dump', 'udump')))
            mcases.append('%s gdl %d%s %s %s %s' % (cid, nsub, 'r' if rtl else '', text, advtab, ','.join(map(str, gids))))
            progs.append((p, text))
    _, il, _ = vlib.run_pair(None, w, cases, timeout=3000)
    ml, _, _ = vlib.run_pair(mexe, None, mcases, timeout=3000)
    classes, ndis, stats = set(), 0, {}
    for c, mc, i, m, (fp, text) in zip(cases, mcases, il, ml, progs):
        if i is None or m is None:
            chk.tie_break('harness', 'no result line', c[:300]); continue
        t = i.split()
        if 'ABORT' in t[1:3]:
            chk.violation('c06:abort:%s' % text[:100], 'shaping with a compiled GDL-lite font aborted: %s' % i[:300], dict(case=c, model_case=mc, got=i[:800], program=text)); continue
        if t[1] == 'NOFACE':
            stats[t[1]] = stats.get(t[1], 0) + 1
            chk.tie_break('compiler', 'the engine rejects a font compiled by fontkit: %s' % text[:300], c[:300])
            continue
        if t[1] == 'NULLSEG':
            # gr_make_seg failed: the machine died on an exhausted insert budget, or a substitution pass ended with more than 64 slots per character
            stats['NULLSEG'] = stats.get('NULLSEG', 0) + 1
            d = dict(slots=[])
            got = 'DIED'
        else:
            d = S.parse_dump(' '.join(i.split(' | ')[0].split()[1:]))
            us = (i.split(' | U', 1)[1].split(' | ')[0].split() if ' | U' in i else [])
            got = 'adv=%d ' % int(float(d['adv'].split(',')[0])) + ';'.join('%d,%d,%d,%d,%s,%s' % (int(s[0]), int(float(s[10])), int(float(s[8])), int(float(s[9])), s[5], (us[k] if k < len(us) else '?').replace(',', '/'))
                                                                            for k, s in enumerate(d['slots']))
        exp = m.split(' R ', 1)[1] if ' R ' in m else '?'
        stats['compared'] = stats.get('compared', 0) + 1
        classes.add((text.count('/'), text.count(';') > 2, len(d['slots']), 'D' in text, 'I' in text, 'S' in text, 'T' in text, any(s[5] != '-1' for s in d['slots']), got == exp))
        if got != exp:
            chk.violation('c06:%s|%s' % (text[:120], mc.split()[-1][:40]), 'the engine and the reference semantics disagree on glyphs / advances / origins / attachments: engine %s, reference %s' % (got[:300], exp[:300]),
                          dict(case=c, model_case=mc, got=i[:1500], program=text, font_gz_b64=blob(fp)))
    shutil.rmtree(tmp, ignore_errors=True)
    chk.notes.append('programs x strings: %s' % sorted(stats.items()))
    chk.cov.update(evaluations=len(cases), distinct_nontrivial=len(classes), disagreements_checked=ndis, distribution=dict(stats, **{BASE: len(cases)}),
                   rule='random GDL-lite programs: 1-3 passes, uniform pre-context 0..2, 1-6 rules of length <= 5 over a 3-8 glyph alphabet (overlapping sets, so several rules match at a position and sort keys / rule order '
                        'decide), optional constraint on the advance of one item (also of pre-context items, also on values set by an earlier pass), actions put_glyph / put_subs / put_copy (with references to earlier, later and own items) / delete / insert / advance / shift / user attributes, constraints on advances or user attributes, followed by 0-2 positioning passes whose rules attach items to earlier or later items (re-attachment, cycles refused), set attach / with points, shifts and advances; each compiled to a font and run on 6-8 glyph strings of 1-12 glyphs; '
                        'glyph ids, advances, attachment parents, user attributes, design-unit origins (x, y) and the segment advance compared with the extracted reference (final positions through the positioning model of C15); non-trivial = distinct (#passes, many rules, output length, uses delete / insert / subs, verdict)',
                   samples=[mcases[0][:300], mcases[len(mcases) // 2][:300]], exhaustive=False)


struct_error = Exception


def blob(path):
    try:
        import base64, zlib
        return base64.b64encode(zlib.compress(open(path, 'rb').read(), 9)).decode()
    except OSError:
        return None


def replay(chk, obj):
    rp = obj.get('replay', {})
    case, mc = rp.get('case'), rp.get('model_case')
    if not case or not mc:
        print('no case'); return 1
    w = engine.build(chk); mexe = vlib.build_model_driver('Rule')
    if rp.get('font_gz_b64'):
        import base64, zlib
        tmp = os.path.join(vlib.BUILD, 'fuzzfonts', 'replay'); os.makedirs(tmp, exist_ok=True)
        fp = os.path.join(tmp, 'replay.ttf')
        open(fp, 'wb').write(zlib.decompress(base64.b64decode(rp['font_gz_b64'])))
        f = case.split(); f[2] = fp; case = ' '.join(f)
    _, il, _ = vlib.run_pair(None, w, [case], shards=1)
    ml, _, _ = vlib.run_pair(mexe, None, [mc], shards=1)
    print(rp.get('program', '')[:400]); print(' impl :', (il[0] or '')[:800]); print(' model:', (ml[0] or '')[:800])
    try:
        d = S.parse_dump(' '.join(il[0].split(' | ')[0].split()[1:]))
        us = (il[0].split(' | U', 1)[1].split(' | ')[0].split() if ' | U' in il[0] else [])
        got = 'adv=%d ' % int(float(d['adv'].split(',')[0])) + ';'.join('%d,%d,%d,%d,%s,%s' % (int(s[0]), int(float(s[10])), int(float(s[8])), int(float(s[9])), s[5], (us[k] if k < len(us) else '?').replace(',', '/'))
                                                                        for k, s in enumerate(d['slots']))
        return 0 if got == ml[0].split(' R ', 1)[1] else 1
    except (ValueError, IndexError, AttributeError):
        return 1
