"""fsmleg.py — the finite state machine of a pass (C02 / C06): compiled GDL-lite fonts, intact and with edits in the state tables, through
the real loader and the real Pass::runFSM (harness/impl_fsm.cpp) against Model/FsmModel.v (tables as loaded, and for every slot of a
text: runFSM's verdict, the context, the number of slots in the map and the accumulated rules in precedence order)."""
import os, struct
import vlib
from props import fontkit as K, c06, cmapgen


def pass_slices(silf):
    sub = struct.unpack('>I', silf[8:12])[0]
    npass = silf[sub + 6]
    op = sub + 6 + 14 + 6 + 3 + 1 + 1 + 1 + 2
    offs = [struct.unpack('>I', silf[op + 4 * i:op + 4 * i + 4])[0] for i in range(npass + 1)]
    return [(sub + offs[i], sub + offs[i + 1]) for i in range(npass)]


def table_offsets(body):
    """offsets (within the pass) of ranges, rule-map offsets, rule map, start states, transitions"""
    nrules, = struct.unpack('>H', body[4:6])
    nstates, ntrans, nsucc, ncols, nranges = struct.unpack('>HHHHH', body[24:34])
    o_rule_map = 40 + 6 * nranges
    nent, = struct.unpack('>H', body[o_rule_map + 2 * nsucc:o_rule_map + 2 * nsucc + 2])
    rule_map = o_rule_map + 2 * (nsucc + 1)
    p = rule_map + 2 * nent
    minpre, maxpre = body[p], body[p + 1]
    starts = p + 2
    sort_keys = starts + 2 * (maxpre - minpre + 1)
    states = sort_keys + 3 * nrules + 3 + 4 * (nrules + 1)
    return dict(nrules=nrules, nstates=nstates, ntrans=ntrans, nsucc=nsucc, ncols=ncols, nranges=nranges, ranges=40, o_rule_map=o_rule_map,
                nent=nent, rule_map=rule_map, starts=starts, nstart=maxpre - minpre + 1, states=states)


def run(chk, n_fonts):
    rng = chk.rng
    hexe = vlib.build_harness('impl_fsm', vlib.build_impl('direct', 'asan1'), san='asan1')
    w = os.path.join(os.path.dirname(hexe), 'run_fsm.sh')
    with open(w, 'w') as f:
        f.write('#!/bin/sh\nexec %s %s\n' % (hexe, vlib.REPO))
    os.chmod(w, 0o755)
    mexe = vlib.build_model_driver('Fsm')
    tmp = os.path.join(vlib.BUILD, 'fuzzfonts', 'fsm-%s-%d' % (chk.tier, chk.seed))
    os.makedirs(tmp, exist_ok=True)
    base_path = os.path.join(vlib.REPO, 'tests/fonts', c06.BASE)
    base = K.enrich(open(base_path, 'rb').read())
    cm = cmapgen.parse_font_cmap(base_path)
    inv = {}
    for c_, g_ in cm.items():
        if 0x21 <= c_ <= 0x7E and g_:
            inv.setdefault(g_, c_)
    ng0 = K.base_info(base)[0]
    cases, info = [], []
    for k in range(n_fonts):
        prog, nsub = c06.gen_program(rng, sorted(inv))
        silf = bytearray(K.compile_silf(prog, ng0 - 1, nsub))
        sl = pass_slices(silf)
        what = 'intact'
        if rng.random() < 0.45:
            pi = rng.randrange(len(sl))
            a, b = sl[pi]
            o = table_offsets(bytes(silf[a:b]))
            kind = rng.random()
            def setw(off, vals):
                v = struct.unpack('>H', silf[a + off:a + off + 2])[0]
                nv = rng.choice(vals(v)) & 0xFFFF
                silf[a + off:a + off + 2] = struct.pack('>H', nv)
                return '%d->%d' % (v, nv)
            if kind < 0.3 and o['ntrans'] * o['ncols']:
                off = o['states'] + 2 * rng.randrange(o['ntrans'] * o['ncols'])
                what = 'transition@%d %s' % (off, setw(off, lambda v: (0, 1, v + 1, o['nstates'] - 1, o['nstates'], o['nstates'] + 1, 0xFFFF, rng.randrange(o['nstates'] + 1))))
            elif kind < 0.45:
                off = o['starts'] + 2 * rng.randrange(o['nstart'])
                what = 'start@%d %s' % (off, setw(off, lambda v: (0, v + 1, o['nstates'] - 1, o['nstates'], 0xFFFF)))
            elif kind < 0.7:
                off = o['ranges'] + 6 * rng.randrange(o['nranges']) + rng.choice((0, 2, 4))
                what = 'range@%d %s' % (off, setw(off, lambda v: (0, v + 1, v - 1, v + 2, o['ncols'] - 1, o['ncols'], ng0 - 1, ng0, ng0 + 1, 0xFFFF)))
            elif kind < 0.85 and o['nent']:
                off = o['rule_map'] + 2 * rng.randrange(o['nent'])
                what = 'rulemap@%d %s' % (off, setw(off, lambda v: (0, v + 1, o['nrules'] - 1, o['nrules'], 0xFFFF, rng.randrange(o['nrules'] + 1))))
            else:
                off = o['o_rule_map'] + 2 * rng.randrange(o['nsucc'] + 1)
                what = 'rulemapoffset@%d %s' % (off, setw(off, lambda v: (0, v + 1, v - 1, o['nent'], o['nent'] + 1, 0xFFFF)))
            what = 'pass %d: %s' % (pi, what)
        p = os.path.join(tmp, 'f%d.ttf' % k)
        open(p, 'wb').write(K.replace_table(base, b'Silf', bytes(silf)))
        alpha = sorted(set(g for ps in prog for g in ps.get('alpha', [])))
        for pi, (a, b) in enumerate(sl):
            txt = [inv[rng.choice(alpha)] if rng.random() < 0.85 else rng.choice(list(inv.values())) for _ in range(rng.randrange(1, 12))]
            if rng.random() < 0.1:
                txt = txt * 8                                              # long enough to fill a slot map
            cases.append('m%d.%d fsm %s %d %d %s' % (k, pi, p, pi, 0, ''.join('%08x' % c for c in txt)))
            info.append((k, pi, bytes(silf[a:b]), what))
    # many rules: 100 rules of each length 1..3 over one glyph, so that one walk over "aaaa" goes through three success states whose
    # lists together exceed MAX_RULES: the accumulated list must stop at MAX_RULES entries (and stay inside the machine's buffer)
    for k2 in range(2):
        g = rng.choice(sorted(inv))
        per = rng.choice((100, 110, 70))
        rules = []
        for ln in (1, 2, 3):
            for _ in range(per):
                rules.append(dict(pre=0, pat=[{g}] * ln, acts=[[('G', g)]] + [[] for _ in range(ln - 1)], con=None, ret=0))
        if k2 == 0:
            rng.shuffle(rules)
        prog = [dict(maxloop=1, rules=rules, alpha=[g])]
        silf = bytearray(K.compile_silf(prog, ng0 - 1, 1))
        if k2 == 1:
            # every sort key 3, shorter rules first in the font: the rules of the deeper states have the LOWER precedence, so the merge
            # runs out of accumulated rules first and what is left of the new state's list is appended
            a0, b0 = pass_slices(silf)[0]
            o0 = table_offsets(bytes(silf[a0:b0]))
            sk = a0 + o0['starts'] + 2 * o0['nstart']
            for r_ in range(o0['nrules']):
                silf[sk + 2 * r_:sk + 2 * r_ + 2] = struct.pack('>H', 3)
        p = os.path.join(tmp, 'many%d.ttf' % k2)
        open(p, 'wb').write(K.replace_table(base, b'Silf', bytes(silf)))
        a, b = pass_slices(silf)[0]
        cases.append('many%d.0 fsm %s 0 0 %s' % (k2, p, ''.join('%08x' % inv[g] for _ in range(5))))
        info.append((n_fonts + k2, 0, bytes(silf[a:b]), 'intact: %d rules of each length 1..3%s' % (per, ', equal sort keys' if k2 else '')))
    _, il, _ = vlib.run_pair(None, w, cases, timeout=2400)
    mcases = []
    for c, (k, pi, body, what), i in zip(cases, info, il):
        gs = '-'
        t = (i or '').split()
        if 'G' in t:
            gs = t[t.index('G') + 1]
        mcases.append('%s fsm %s %s' % (c.split()[0], body.hex() or '-', gs))
    ml, _, _ = vlib.run_pair(mexe, None, mcases, timeout=2400)
    stats, ndis, classes = {}, 0, set()
    byfont = {}
    for c, (k, pi, body, what), i, m in zip(cases, info, il, ml):
        byfont.setdefault(k, []).append((c, pi, what, i, m))
    for k, rows in byfont.items():
        noface = any((i or '').split()[2:3] == ['NOFACE'] for _, _, _, i, _ in rows)
        for c, pi, what, i, m in rows:
            if i is None or m is None:
                chk.tie_break('harness', 'no result line', c[:200]); continue
            if 'ABORT' in i.split()[1:3]:
                chk.violation('c02:fsm-abort:%s' % what[:80], 'loading or running the state machine of a compiled pass aborted (%s): %s' % (what, i[:300]), dict(case=c, got=i[:600], mutation=what, tag='fsm')); continue
            mt = m.split()
            mv = mt[2] if len(mt) > 2 else 'BAD'
            cls = ('noface' if noface else 'ok') + '/' + (mv if mv != 'T' else 'OK') + ('' if mv != 'REJ' else mt[3])
            stats[cls] = stats.get(cls, 0) + 1
            classes.add(('fsm', cls, what.split(': ')[-1].split('@')[0]))
            if ':TRAP' in m:
                ndis += 1; chk.tie_break('model:fsm', 'Model/FsmModel.v indexes outside a table (contradicts C02_fsm_run_in_bounds): %s' % m[:300], c[:300]); continue
            if mv == 'TRAP' and not noface:
                # read_fsm is defined on passes whose header Model/PassModel.v accepts: a table running past the pass is refused there
                ndis += 1; chk.tie_break('model:fsm', 'the loader accepted a pass whose tables Model/FsmModel.v cannot read inside the pass: %s' % m[:300], c[:300]); continue
            if noface:
                continue                # the loader refused the font (this pass or another; code loading is beyond the model): nothing to compare
            if mv != 'T':
                ndis += 1
                chk.tie_break('correspondence:fsm-tables', 'the loader accepted a font whose pass %d the model of readRanges / readStates / the rule map refuses (%s): %s' % (pi, what, m[:200]), c[:300]); continue
            if i.split()[2:] != mt[2:]:
                ndis += 1
                # find the first differing token
                a, b = i.split()[2:], mt[2:]
                d = next((j for j in range(min(len(a), len(b))) if a[j] != b[j]), min(len(a), len(b)))
                chk.tie_break('correspondence:fsm', 'Pass::runFSM / the loaded tables and Model/FsmModel.v differ (%s) at token %d: impl %s model %s' % (what, d, ' '.join(a[d:d + 3])[:200], ' '.join(b[d:d + 3])[:200]), c[:300])
    chk.notes.append('fsm: %s' % sorted(stats.items()))
    return len(cases), classes, ndis, {'fsm ' + k: v for k, v in stats.items()}
