"""C10 — face options change resource behaviour, never results (DESIGN.md section 6/C10).

Legs: (1) theorems over Model/MemoModel.v: a preloaded and a lazily filled glyph cache answer every history alike (both are the
cache-free function); the cached / direct character map equality is C13's; (2) correspondence of GlyphCache::glyph with the
model on lazy and preloaded faces; (3) the property on the API: the same call sequence on faces made with every option bit
combination, from the file and from table callbacks, must report the same glyph count, features, languages, character
support, labels and produce identical segments."""
import os, struct, shutil
import vlib
from props import shapegen as S, c16, apiseq, c08, cmapgen


def with_cmap(data, cmap):
    """the font with its cmap table replaced (new table appended, directory entry redirected)"""
    d = bytearray(data)
    nt = struct.unpack('>H', d[4:6])[0]
    while len(d) % 4:
        d.append(0)
    off = len(d)
    d += cmap
    for i in range(nt):
        e = 12 + 16 * i
        if bytes(d[e:e + 4]) == b'cmap':
            d[e + 8:e + 16] = struct.pack('>II', off, len(cmap))
    return bytes(d)


def fontblob(path):
    if not path.startswith('/'):
        return None
    try:
        import base64, zlib
        return base64.b64encode(zlib.compress(open(path, 'rb').read(), 9)).decode()
    except OSError:
        return None


def strip_subboxes(data):
    """a Glat-3 font with every glyph's sub-box bitmap cleared and the sub-box records dropped: bounding octaboxes only"""
    from props import fontkit as K
    tb = K.font_tables(data)
    go, gl = tb[b'Gloc']; ao, al = tb[b'Glat']
    ver, flags, na = struct.unpack('>IHH', data[go:go + 8])
    if struct.unpack('>I', data[ao:ao + 4])[0] < 0x00030000 or (struct.unpack('>I', data[ao + 4:ao + 8])[0] >> 27):
        return None                                      # no octaboxes, or compressed
    w = 4 if flags & 1 else 2
    n = (gl - 8 - (2 * na if flags & 2 else 0)) // w - 1
    offs = [struct.unpack('>I' if w == 4 else '>H', data[go + 8 + w * i:go + 8 + w * i + w])[0] for i in range(n + 1)]
    glat, noffs = bytearray(data[ao:ao + 8]), []
    for i in range(n):
        blk = data[ao + offs[i]:ao + offs[i + 1]]
        noffs.append(len(glat))
        if len(blk) >= 6:
            num = bin(struct.unpack('>H', blk[:2])[0]).count('1')
            blk = b'\x00\x00' + blk[2:6] + blk[6 + 8 * num:]
        glat += blk
    noffs.append(len(glat))
    gloc = data[go:go + 8] + b''.join(struct.pack('>I' if w == 4 else '>H', o) for o in noffs) + data[go + 8 + w * (n + 1):go + gl]
    return K.replace_table(K.replace_table(data, b'Glat', bytes(glat)), b'Gloc', gloc)


def synth_cmap_fonts(rng, n, tmp):
    """fonts whose character map has format 4 and format 12 subtables with group boundaries at the interesting code points"""
    out = []
    for k in range(n):
        src = rng.choice(('Padauk.ttf', 'charis_r_gr.ttf', 'general.ttf'))
        data = open(os.path.join(vlib.REPO, 'tests/fonts', src), 'rb').read()
        ng = 200
        segs = [dict(start=0x20, end=0x7E, delta=(rng.randrange(1, 60) - 0x20) & 0xFFFF)]
        if rng.random() < 0.5:
            st = rng.choice((0xFFF0, 0xFFFE, 0xFF00)); segs.append(dict(start=st, end=rng.choice((0xFFFE, 0xFFFF)), delta=(5 - st) & 0xFFFF))
        if segs[-1]['end'] != 0xFFFF:
            segs.append(dict(start=0xFFFF, end=0xFFFF, delta=1))
        groups, cps = [], [0x20, 0x41, 0x7E, 0x7F, 0xFFFE, 0xFFFF]
        c = rng.choice((0x10000, 0x10000, 0x10001, 0x1F600))
        bmp_groups = [(0x20, 0x7E, (0x20 + segs[0]['delta']) & 0xFFFF)] if rng.random() < 0.7 else []
        for _ in range(rng.randrange(1, 5)):
            ln = rng.choice((1, 2, 3, 40))
            e = min(c + ln - 1, 0x10FFFF)
            groups.append((c, e, rng.randrange(1, ng - ln - 1)))
            cps += [c - 1, c, e, e + 1]
            c = e + rng.choice((1, 2, 300, 70000))
            if c > 0x10FFFF:
                break
        if rng.random() < 0.3 and (not groups or groups[-1][1] < 0x10FFFF):
            groups.append((0x10FFFF, 0x10FFFF, 7)); cps.append(0x10FFFF)
        if k % 8 == 5:
            # no format 4 subtable at all: the BMP is only in format 12 (whether a face can be made must not depend on the options)
            cmap = cmapgen.cmap_table([(3, 10, cmapgen.fmt12(sorted([(0x20, 0x7E, 3)] + groups)))])
        else:
            cmap = cmapgen.cmap_table([(3, 1, cmapgen.fmt4(segs)), (3, 10, cmapgen.fmt12(sorted(bmp_groups + groups)))], data_order=((1, 0) if k % 4 == 2 else None))
        p = os.path.join(tmp, 'cm%d.ttf' % k)
        open(p, 'wb').write(with_cmap(data, cmap))
        cps = sorted(set(c for c in cps if 0 < c <= 0x10FFFF and not 0xD800 <= c <= 0xDFFF))
        out.append((p, src, cps))
    return out


def run(chk):
    chk.trusted += ['hand model Model/MemoModel.v of GlyphCache::glyph / its constructor; the table reader is an oracle', 'API harness harness/impl_api.cpp']
    chk.assumptions += ['well-formed fonts: the 16 shipped fonts; a face that cannot be made under some option set is reported only if it can be made under another',
                        'cached vs direct cmap equality rests on the C13 theorems and check']
    chk.partial = True
    chk.check_proofs()
    hexe = apiseq.build('asan')
    mexe = vlib.build_model_driver('Memo')
    thorough = chk.tier == 'thorough'
    rng = chk.rng
    ng, ndis = apiseq.glyph_leg(chk, hexe, mexe, S.FONTS, 60 if thorough else 8)
    variants = [(o, s) for o in range(8) for s in ('cb', 'file', 'cbnorel')]      # cbnorel: table callbacks without a release_table function
    cases, groups = [], []
    for k in range(700 if thorough else 60):
        font = rng.choice(S.FONTS)
        ops = ['info'] + c08.safe_history(rng, font, rng.choice((2, 4, 8, 14))) + [apiseq.probe_op(rng, font), 'info']
        ops = [o for o in ops if not o.startswith('break')]
        g = []
        for (o, s) in (variants if thorough or k % 4 == 0 else rng.sample(variants, 6)):
            g.append(len(cases)); cases.append('v%d.%d%s api %s %d %s - %s' % (k, o, s, font, o, s, ' '.join(ops)))
        groups.append((font, g))
    # fonts with synthetic character maps: support and shaping of the boundary code points under every option set
    tmp = os.path.join(vlib.BUILD, 'fuzzfonts', 'c10-%s-%d' % (chk.tier, chk.seed))
    shutil.rmtree(tmp, ignore_errors=True); os.makedirs(tmp)
    for p, src, cps in synth_cmap_fonts(rng, 120 if thorough else 16, tmp):
        ops = ['sup:%s' % ','.join('%x' % c for c in cps), 'seg:0:32:0:-:-:%s' % ''.join('%08x' % c for c in cps[:12]), 'seg:1:32:1:-:-:%s' % ''.join('%08x' % c for c in cps[-12:]), 'info']
        g = []
        for (o, sm) in variants:
            g.append(len(cases)); cases.append('y%d.%d%s api %s %d %s - %s' % (len(groups), o, sm, p, o, sm, ' '.join(ops)))
        groups.append(('synthetic cmap on ' + src, g))
    # a name table of format 1 (legal OpenType; TtfUtil::CheckTable turns it away, so every kind of face must ignore it alike): feature and
    # setting labels and everything else a face reports, under every option set and table source
    from props import fontkit as _K
    for src in ('Padauk.ttf', 'charis_r_gr.ttf', 'Scheherazadegr.ttf'):
        data = open(os.path.join(vlib.REPO, 'tests/fonts', src), 'rb').read()
        no, nl = _K.font_tables(data)[b'name']
        nm = bytearray(data[no:no + nl])
        cnt, so = struct.unpack('>HH', nm[2:6])
        nm[0:2] = b'\x00\x01'
        nm[4:6] = struct.pack('>H', so + 2)
        nm[6 + 12 * cnt:6 + 12 * cnt] = b'\x00\x00'                 # langTagCount = 0
        p = os.path.join(tmp, 'name1_' + src)
        open(p, 'wb').write(_K.replace_table(data, b'name', bytes(nm)))
        ops = ['info'] + ['label:%d:%d:%d' % (fi, rng.choice((0x409, 0, 0x455)), rng.choice((8, 16, 32))) for fi in range(4)] + ['vlabel:%d:%d:%d:%d' % (fi, 0, 0x409, 8) for fi in range(3)] + ['info']
        g = []
        for (o, sm) in variants:
            g.append(len(cases)); cases.append('n%d.%d%s api %s %d %s - %s' % (len(groups), o, sm, p, o, sm, ' '.join(ops)))
        groups.append(('format 1 name table on ' + src, g))
    # the same font files laid out differently: each table graphite reads stored physically last, the file ending on its last byte
    # (only tables in front of another one need padding) -- a file face must find exactly what a callback face over the same bytes finds
    for src in (('Padauk.ttf', 'charis_r_gr.ttf') if not thorough else ('Padauk.ttf', 'charis_r_gr.ttf', 'Scheherazadegr.ttf', 'Awami_test.ttf')):
        data = open(os.path.join(vlib.REPO, 'tests/fonts', src), 'rb').read()
        tb = _K.font_tables(data)
        tags = [t for t in (b'head', b'Silf', b'Glat', b'Gloc', b'Feat', b'Sill', b'name', b'cmap', b'hmtx', b'maxp', b'OS/2', b'hhea', b'glyf', b'loca') if t in tb]
        odd = [t for t in tags if tb[t][1] % 4]
        for t in (odd if thorough else rng.sample(odd, min(3, len(odd)))) + [rng.choice(tags)]:
            for padf in (False, True) if thorough else (False,):
                p = os.path.join(tmp, 'last_%s_%d_%s' % (t.decode().strip().replace('/', '_'), padf, src))
                open(p, 'wb').write(_K.relayout(data, t, padf))
                ops = ['info', apiseq.probe_op(rng, src), 'label:0:1033:8', 'seg:0:32:%d:-:-:%s' % (1 if src.startswith(('Awami', 'Schehera')) else 0, ''.join('%08x' % c for c in rng.choice(S.seeds(vlib.REPO, src)[1])[:24])), 'info']
                g = []
                for (o, sm) in ((0, 'cb'), (0, 'file'), (7, 'file'), (rng.randrange(1, 7), 'file')):
                    g.append(len(cases)); cases.append('l%d.%d%s api %s %d %s - %s' % (len(groups), o, sm, p, o, sm, ' '.join(ops)))
                groups.append(('%s stored last%s in %s' % (t.decode(), '' if padf else ', file ends on its last byte', src), g))
    # the strings the repository itself tests each font with (whole lines of its comparison corpus), lazily loaded against preloaded faces:
    # glyphs that shaping touches only indirectly (collision exclusion glyphs, pseudo glyphs) are loaded by different routes
    # a collision font whose glyphs have bounding octaboxes but no sub-boxes (the preloading constructor reads the octaboxes in the same
    # loop as the sub-boxes): F33
    nosub = {}
    for font in ('Awami_test.ttf',) + (('AwamiNastaliq-Regular.ttf',) if thorough else ()):
        sd = strip_subboxes(open(os.path.join(vlib.REPO, 'tests/fonts', font), 'rb').read())
        if sd:
            nosub[font] = os.path.join(tmp, 'nosub_' + font)
            open(nosub[font], 'wb').write(sd)
    for font in S.FONTS:
        _, lines, _ = S.seeds(vlib.REPO, font)
        collides = font.startswith('Awami')
        take = lines if (collides or thorough) else lines[:40]
        if not collides and len(take) > 300:
            take = rng.sample(take, 300)
        rtl = 1 if font.startswith(('Awami', 'Schehera')) else 0
        for b in range(0, len(take), 16):
            ops = ['seg:%d:32:%d:-:-:%s' % (j % 3, rtl, ''.join('%08x' % c for c in t[:48])) for j, t in enumerate(take[b:b + 16])]
            g = []
            for (o, sm) in ((0, 'file'), (2, 'file'), (7, 'cb'), (4, 'cb')):
                g.append(len(cases)); cases.append('z%d.%d%s api %s %d %s - %s' % (len(groups), o, sm, font, o, sm, ' '.join(ops)))
            groups.append((font + ' corpus lines', g))
            if font in nosub and b < 160:
                g = []
                for (o, sm) in ((0, 'file'), (2, 'file')):
                    g.append(len(cases)); cases.append('zn%d.%d%s api %s %d %s - %s' % (len(groups), o, sm, nosub[font], o, sm, ' '.join(ops)))
                groups.append((font + ' without sub-boxes, corpus lines', g))
    _, il, _ = vlib.run_pair(None, hexe, cases, timeout=3000)
    classes, dist = set(), {}
    for font, g in groups:
        dist[font] = dist.get(font, 0) + 1
        res = []
        for ix in g:
            l = il[ix]
            if l is None:
                chk.tie_break('harness', 'no result line', cases[ix][:300]); continue
            if 'ABORT' in l.split()[1:3]:
                chk.violation('c10:abort:%s' % ' '.join(cases[ix].split()[2:5]), 'the call sequence aborted: %s' % l[:300], dict(cases=[cases[ix]], got=[l[:800]])); continue
            r = apiseq.results(l)
            if r:
                res.append((ix, r))
        if len(res) < 2:
            continue
        base_ix, base = res[0]
        for ix, r in res[1:]:
            if r != base:
                # first differing op
                d = next((j for j, (a, b) in enumerate(zip(base[1], r[1])) if a != b), None)
                what = 'face verdict %s vs %s' % (base[0], r[0]) if base[0] != r[0] else 'result %d of the sequence: %s vs %s' % (d, (base[1][d] if d is not None else '?')[:200], (r[1][d] if d is not None else '?')[:200])
                chk.violation('c10:%s:%s vs %s' % (font, ' '.join(cases[base_ix].split()[3:5]), ' '.join(cases[ix].split()[3:5])),
                              'the same calls give different results under different face options / sources: %s' % what, dict(cases=[cases[base_ix], cases[ix]], got=[il[base_ix][:1500], il[ix][:1500]], font_gz_b64=fontblob(cases[ix].split()[2])))
                break
        classes.add((font, base[0], len(res), len(base[1])))
    shutil.rmtree(tmp, ignore_errors=True)
    chk.cov.update(evaluations=ng + len(cases), distinct_nontrivial=len(classes), disagreements_checked=ndis, distribution=dist,
                   rule='glyph cache lookups on lazy / preloaded faces against the model; API: %d call sequences (face report, segments in 3 encodings and dir 0..7 with fonts and feature values, labels, value labels, '
                        'justification, face report again) each run on faces with option bits 0..7 x {callbacks, file}; fonts re-laid-out with each table graphite reads stored last and the file ending on its last byte; (all 16 in thorough, 6 sampled + every 4th full in quick), every result compared; '
                        'non-trivial = distinct (font, face verdict, #variants, #results)' % len(groups),
                   samples=[cases[0][:200], cases[len(cases) // 2][:200]], exhaustive=False)


def replay(chk, obj):
    cs = obj.get('replay', {}).get('cases') or [c for c in [(obj.get('broken') or [{}])[-1].get('case')] if c]
    if not cs:
        print('no case'); return 1
    blob = obj.get('replay', {}).get('font_gz_b64')
    if blob:
        import base64, zlib
        tmp = os.path.join(vlib.BUILD, 'fuzzfonts', 'replay'); os.makedirs(tmp, exist_ok=True)
        fp = os.path.join(tmp, 'replay.ttf')
        open(fp, 'wb').write(zlib.decompress(base64.b64decode(blob)))
        cs = [' '.join(c.split()[:2] + [fp] + c.split()[3:]) for c in cs]
    hexe = apiseq.build('asan')
    _, il, _ = vlib.run_pair(None, hexe, cs, shards=1)
    for c, l in zip(cs, il):
        print(c[:400]); print(' impl :', (l or '')[:1200])
    if len(cs) == 2 and all(il):
        same = apiseq.results(il[0]) == apiseq.results(il[1])
        print(' equal:', same)
        return 0 if same else 1
    return 1 if any('ABORT' in (l or '') for l in il) else 0
