"""C10 — face options change resource behaviour, never results (DESIGN.md section 6/C10).

Legs: (1) theorems over Model/MemoModel.v: a preloaded and a lazily filled glyph cache answer every history alike (both are the
cache-free function); the cached / direct character map equality is C13's; (2) correspondence of GlyphCache::glyph with the
model on lazy and preloaded faces; (3) the property on the API: the same call sequence on faces made with every option bit
combination, from the file and from table callbacks, must report the same glyph count, features, languages, character
support, labels and produce identical segments."""
import vlib
from props import shapegen as S, c16, apiseq, c08


def run(chk):
    chk.trusted += ['hand model Model/MemoModel.v of GlyphCache::glyph / its constructor; the table reader is an oracle', 'API harness harness/impl_api.cpp']
    chk.assumptions += ['well-formed fonts: the 16 shipped fonts; a face that cannot be made under some option set is reported only if it can be made under another',
                        'cached vs direct cmap equality rests on the C13 theorems and check']
    chk.partial = True
    chk.check_proofs()
    hexe = apiseq.build('asan')
    mexe = vlib.build_model_driver('Memo')
    thorough = chk.tier == 'thorough'
    rng = chk.rng
    ng, ndis = apiseq.glyph_leg(chk, hexe, mexe, S.FONTS, 60 if thorough else 8)
    variants = [(o, s) for o in range(8) for s in ('cb', 'file')]
    cases, groups = [], []
    for k in range(700 if thorough else 60):
        font = rng.choice(S.FONTS)
        ops = ['info'] + c08.safe_history(rng, font, rng.choice((2, 4, 8, 14))) + [apiseq.probe_op(rng, font), 'info']
        ops = [o for o in ops if not o.startswith('break')]
        g = []
        for (o, s) in (variants if thorough or k % 4 == 0 else rng.sample(variants, 6)):
            g.append(len(cases)); cases.append('v%d.%d%s api %s %d %s - %s' % (k, o, s, font, o, s, ' '.join(ops)))
        groups.append((font, g))
    _, il, _ = vlib.run_pair(None, hexe, cases, timeout=3000)
    classes, dist = set(), {}
    for font, g in groups:
        dist[font] = dist.get(font, 0) + 1
        res = []
        for ix in g:
            l = il[ix]
            if l is None:
                chk.tie_break('harness', 'no result line', cases[ix][:300]); continue
            if 'ABORT' in l.split()[1:3]:
                chk.violation('c10:abort:%s' % ' '.join(cases[ix].split()[2:5]), 'the call sequence aborted: %s' % l[:300], dict(cases=[cases[ix]], got=[l[:800]])); continue
            r = apiseq.results(l)
            if r:
                res.append((ix, r))
        if len(res) < 2:
            continue
        base_ix, base = res[0]
        for ix, r in res[1:]:
            if r != base:
                # first differing op
                d = next((j for j, (a, b) in enumerate(zip(base[1], r[1])) if a != b), None)
                what = 'face verdict %s vs %s' % (base[0], r[0]) if base[0] != r[0] else 'result %d of the sequence: %s vs %s' % (d, (base[1][d] if d is not None else '?')[:200], (r[1][d] if d is not None else '?')[:200])
                chk.violation('c10:%s:%s vs %s' % (font, ' '.join(cases[base_ix].split()[3:5]), ' '.join(cases[ix].split()[3:5])),
                              'the same calls give different results under different face options / sources: %s' % what, dict(cases=[cases[base_ix], cases[ix]], got=[il[base_ix][:1500], il[ix][:1500]]))
                break
        classes.add((font, base[0], len(res), len(base[1])))
    chk.cov.update(evaluations=ng + len(cases), distinct_nontrivial=len(classes), disagreements_checked=ndis, distribution=dist,
                   rule='glyph cache lookups on lazy / preloaded faces against the model; API: %d call sequences (face report, segments in 3 encodings and dir 0..7 with fonts and feature values, labels, value labels, '
                        'justification, face report again) each run on faces with option bits 0..7 x {callbacks, file} (all 16 in thorough, 6 sampled + every 4th full in quick), every result compared; '
                        'non-trivial = distinct (font, face verdict, #variants, #results)' % len(groups),
                   samples=[cases[0][:200], cases[len(cases) // 2][:200]], exhaustive=False)


def replay(chk, obj):
    cs = obj.get('replay', {}).get('cases') or [c for c in [(obj.get('broken') or [{}])[-1].get('case')] if c]
    if not cs:
        print('no case'); return 1
    hexe = apiseq.build('asan')
    _, il, _ = vlib.run_pair(None, hexe, cs, shards=1)
    for c, l in zip(cs, il):
        print(c[:400]); print(' impl :', (l or '')[:1200])
    if len(cs) == 2 and all(il):
        same = apiseq.results(il[0]) == apiseq.results(il[1])
        print(' equal:', same)
        return 0 if same else 1
    return 1 if any('ABORT' in (l or '') for l in il) else 0
