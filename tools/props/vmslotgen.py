"""Adversarial action programs for the rule-action harness (harness/impl_vmslot.cpp)."""
NEXT, PUT_COPY, INSERT, DELETE, ASSOC, ATTR_SET, ATTR_SET_SLOT, PUSH_BYTE, RET_ZERO, POP_RET = 0x19, 0x1E, 0x1F, 0x20, 0x21, 0x23, 0x26, 0x01, 0x31, 0x30
PUSH_LONG = 0x05
ATTR_ADD, IATTR_SET = 0x24, 0x33
ATT_TO, ADV_X, ATT_X = 2, 0, 3


def gen_rule(rng, nslots):
    """returns (pos, len, pre, bytecode) for a stream of nslots slots"""
    ln = rng.randrange(1, min(5, max(1, nslots)) + 1)
    pre = rng.randrange(0, min(ln, 3))
    pos = rng.randrange(0, max(1, nslots - ln + 1))
    bc = []
    out_len = ln
    i = pre
    # the loader starts _out_index at pre_context; one item per NEXT
    while i < out_len:
        for _ in range(rng.choice((0, 1, 1, 2))):
            k = rng.random()
            rel = lambda: rng.randrange(-i, out_len - i) if out_len else 0
            if k < 0.30:                                     # attach to another slot of the window
                off = rel()
                if rng.random() < 0.06:                      # a slot reference at the edge of int32: the map offset is added to it
                    v = rng.choice((0x7FFFFFFF, 0x7FFFFFFE, 0x7FFFFFFD, 0x80000000, 0x80000001, 0xFFFFFFFF))
                    bc += [PUSH_LONG, v >> 24, (v >> 16) & 255, (v >> 8) & 255, v & 255, ATTR_SET_SLOT, ATT_TO]
                else:
                    bc += [PUSH_BYTE, off & 255, ATTR_SET_SLOT, ATT_TO]
            elif k < 0.42:
                bc += [PUT_COPY, rel() & 255]
            elif k < 0.57:
                n = rng.randrange(1, 4)
                bc += [ASSOC, n] + [rel() & 255 for _ in range(n)]
            elif k < 0.70:
                bc += [INSERT]; out_len += 1
                if rng.random() < 0.7:
                    n = rng.randrange(1, 3); bc += [ASSOC, n] + [rel() & 255 for _ in range(n)]
            elif k < 0.82 and out_len > 1:
                bc += [DELETE]; out_len -= 1; i -= 1
                if rng.random() < 0.12:                      # the rule ends on the DELETE: no NEXT moves the map cursor off the deleted entry
                    return pos, ln, pre, bc + [RET_ZERO]
                if rng.random() < 0.3:                       # INSERT while the cursor may still stand on the deleted slot (it does when that was the first slot of the segment)
                    bc += [INSERT]; out_len += 1
                    if rng.random() < 0.5:
                        n = rng.randrange(1, 3); bc += [ASSOC, n] + [rel() & 255 for _ in range(n)]
                break
            else:
                r2 = rng.random()
                if r2 < 0.7:
                    bc += [PUSH_BYTE, rng.randrange(0, 100), ATTR_SET, rng.choice((ADV_X, ATT_X))]
                elif r2 < 0.9:                                   # any slot attribute the loader lets a substitution rule set (attach.to is covered above)
                    at = rng.choice([a for a in range(0, 31) if a != ATT_TO] + [22, 22, 55, 56, 57, 60])
                    bc += [PUSH_BYTE, rng.choice((0, 1, 3, 100, 255)), rng.choice((ATTR_SET, ATTR_SET, ATTR_ADD)), at]
                else:                                            # an indexed attribute (user attributes, justification levels)
                    bc += [PUSH_BYTE, rng.choice((0, 1, 7, 255)), IATTR_SET, rng.choice((55, 55, 25, 26, 28, 22)), rng.choice((0, 1, 2, 7, 63, 255))]
        bc += [NEXT]
        i += 1
    if rng.random() < 0.05:                                  # the cursor stands on the slot after the rule: delete it
        bc += [DELETE] + ([INSERT] if rng.random() < 0.6 else [])
    bc += rng.choice(([RET_ZERO], [PUSH_BYTE, rng.choice((0, 1, 255, 254)), POP_RET]))
    return pos, ln, pre, bc
