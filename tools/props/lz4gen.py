"""LZ4 block generators for C14: a Python encoder producing valid blocks with controllable match choices."""

def emit_len(n, out):
    while n >= 255:
        out.append(255); n -= 255
    out.append(n)


def encode(data, rng, mode='greedy', minlast=5):
    """encode bytes `data` into an LZ4 block.  mode: greedy | random | literal.  The block ends with a literals-only
    sequence of at least `minlast` bytes, and no match starts within the last 12 bytes (reference encoder rules)."""
    n = len(data)
    out = []
    i = 0
    lit_start = 0
    limit = n - 12 if n >= 13 else 0          # last match must start before this
    while i < limit:
        best = None
        if mode != 'literal':
            # candidate matches
            cands = []
            lo = max(0, i - (70 if mode == 'random' else 4096))
            for j in range(lo, i):
                l = 0
                while i + l < n - 5 and data[j + l] == data[i + l]:   # j+l may run into the match itself (overlap)
                    l += 1
                if l >= 4:
                    cands.append((l, i - j))
            if cands:
                if mode == 'greedy':
                    best = max(cands)
                else:
                    if rng.random() < 0.7:
                        l, d = rng.choice(cands)
                        l = rng.randrange(4, l + 1)
                        best = (l, d)
        if best is None:
            i += 1
            continue
        l, d = best
        ll = i - lit_start
        tok = (min(ll, 15) << 4) | min(l - 4, 15)
        out.append(tok)
        if ll >= 15: emit_len(ll - 15, out)
        out.extend(data[lit_start:i])
        out.append(d & 255); out.append(d >> 8)
        if l - 4 >= 15: emit_len(l - 4 - 15, out)
        i += l
        lit_start = i
    ll = n - lit_start
    out.append(min(ll, 15) << 4)
    if ll >= 15: emit_len(ll - 15, out)
    out.extend(data[lit_start:])
    return out


def ref_decode(blk):
    """independent strict reference (sequence semantics); returns list or None"""
    i, n, out = 0, len(blk), []
    while True:
        if i >= n: return None
        tok = blk[i]; i += 1
        ll = tok >> 4
        if ll == 15:
            while True:
                if i >= n: return None
                b = blk[i]; i += 1; ll += b
                if b != 255: break
        if ll > n - i: return None
        out.extend(blk[i:i + ll]); i += ll
        if i == n: return out
        if n - i < 2: return None
        d = blk[i] | (blk[i + 1] << 8); i += 2
        ml = tok & 15
        if ml == 15:
            while True:
                if i >= n: return None
                b = blk[i]; i += 1; ml += b
                if b != 255: break
        ml += 4
        if d == 0 or d > len(out): return None
        for _ in range(ml):
            out.append(out[-d])


def gen_plain(rng, maxlen=600):
    kind = rng.random()
    n = rng.randrange(14, maxlen)
    if kind < 0.25:
        a = [rng.randrange(0, 4) for _ in range(n)]                  # highly repetitive
    elif kind < 0.5:
        unit = [rng.randrange(256) for _ in range(rng.randrange(1, 24))]
        a = (unit * (n // len(unit) + 1))[:n]                         # periodic: overlapping matches
        for _ in range(rng.randrange(0, 4)):
            a[rng.randrange(n)] = rng.randrange(256)
    elif kind < 0.75:
        words = [[rng.randrange(256) for _ in range(rng.randrange(3, 12))] for _ in range(6)]
        a = []
        while len(a) < n: a += rng.choice(words)
        a = a[:n]
    else:
        a = [0] * n if rng.random() < 0.5 else [rng.randrange(256) for _ in range(n)]
    return a


def fast_matches(data, min_len=8):
    """non-overlapping matches found with a hash of 4-byte windows (one pass, LZ4-fast style): [(pos, len, dist)], ascending; no match
    starts within the last 12 bytes nor covers the last 5"""
    n, last, out, i = len(data), {}, [], 0
    while i < n - 12:
        key = bytes(data[i:i + 4])
        j = last.get(key)
        last[key] = i
        if j is not None and i - j <= 65535:
            l = 4
            while i + l < n - 5 and data[j + l] == data[i + l]:
                l += 1
            if l >= min_len:
                out.append((i, l, i - j)); i += l; continue
        i += 1
    return out


def encode_matches(data, matches):
    """the block that uses exactly these matches (ascending, non-overlapping) and literals elsewhere"""
    out, lit = [], 0
    for pos, l, d in matches:
        ll = pos - lit
        out.append((min(ll, 15) << 4) | min(l - 4, 15))
        if ll >= 15: emit_len(ll - 15, out)
        out.extend(data[lit:pos])
        out.append(d & 255); out.append(d >> 8)
        if l - 4 >= 15: emit_len(l - 4 - 15, out)
        lit = pos + l
    ll = len(data) - lit
    out.append(min(ll, 15) << 4)
    if ll >= 15: emit_len(ll - 15, out)
    out.extend(data[lit:])
    return out


def encode_barely(data, delta, rng):
    """a valid block exactly `delta` bytes shorter than the data (delta small): as few matches as it takes, the last one shortened.
    None when the data does not compress that far."""
    ms = fast_matches(data)
    rng.shuffle(ms)
    chosen = []
    for m in ms:
        chosen = sorted(chosen + [m])
        size = len(encode_matches(data, chosen))
        if size <= len(data) - delta:
            over = (len(data) - delta) - size                 # bytes to give back
            pos, l, d = m
            for cut in range(over, over + 4):                  # shortening a match by c gives c literals back (length bytes may shift by one)
                if l - cut >= 4:
                    trial = sorted([x for x in chosen if x != m] + [(pos, l - cut, d)])
                    blk = encode_matches(data, trial)
                    if len(blk) == len(data) - delta:
                        return blk
            chosen = [x for x in chosen if x != m]             # try another last match
    return None
