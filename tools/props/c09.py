"""C09 — a preloaded face and unhinted fonts can be shared by concurrent shapers (DESIGN.md section 6/C09).

Legs: (1) theorems over Model/MemoModel.v: after gr_face_preloadAll the face state is never written — any schedule of lookups
returns the single-threaded answers and leaves the cache as it was; the loader is dropped; (2) correspondence of the glyph cache
with the model (shared with C08/C10); (3) the property on the real library built with ThreadSanitizer: N threads shape, query
and destroy on one shared cold face and shared fonts; no race report, no table callback after gr_make_face, every result equal
to the single-threaded one computed on a separate face.  As a liveness check of the oracle the same workload on a lazy face
(where races are expected by design) is run and its outcome recorded, never judged."""
import os
import vlib
from props import shapegen as S, apiseq

TSAN_ENV = dict(os.environ, TSAN_OPTIONS='halt_on_error=1:exitcode=99:second_deadlock_stack=1:report_signal_unsafe=0')


def run(chk):
    chk.trusted += ['hand model Model/MemoModel.v (face state = glyph cache; preloaded = read-only)', 'ThreadSanitizer runtime (dynamic race detection on the explored schedules)',
                    'thread harness harness/impl_thr.cpp']
    chk.assumptions += ['the model cannot exhibit the memory model: data-race freedom is decided by TSan on the schedules the OS produced (partial)',
                        'fonts without advance callbacks (gr_make_font)']
    chk.partial = True
    chk.check_proofs()
    thorough = chk.tier == 'thorough'
    rng = chk.rng
    # glyph cache correspondence (asan build)
    hexe_api = apiseq.build('asan')
    mexe = vlib.build_model_driver('Memo')
    ng, ndis = apiseq.glyph_leg(chk, hexe_api, mexe, S.FONTS[:8], 20 if thorough else 4)
    impl = vlib.build_impl('direct', 'tsan')
    hexe0 = vlib.build_harness('impl_thr', impl, san='tsan')
    hexe = os.path.join(os.path.dirname(hexe0), 'run_thr.sh')
    with open(hexe, 'w') as fh:
        fh.write('#!/bin/sh\nexec %s %s\n' % (hexe0, vlib.REPO))
    os.chmod(hexe, 0o755)
    cases = []
    for k in range(160 if thorough else 24):
        font = rng.choice(S.FONTS) if k % 4 else rng.choice([f for f in S.FONTS if len(S.pseudos(vlib.REPO, f)) >= 2])
        rep = S.repertoire(vlib.REPO, font)
        texts = []
        for _ in range(rng.choice((2, 4, 8))):
            cps = S.gen_text_seeded(rng, vlib.REPO, font, 10) if rng.random() < 0.6 else S.gen_text(rng, rep, 10)
            texts.append('%s:%d' % (''.join('%08x' % c for c in cps) or '00000041', rng.choice((0, 1, 0, 3))))
        ps = S.pseudos(vlib.REPO, font)
        if len(ps) >= 2:                       # characters served by the pseudo-glyph map (a per-face table consulted while shaping)
            for _ in range(2):
                cps = [rep[0]] + rng.sample(ps, min(len(ps), rng.randrange(2, 6)))
                texts.append('%s:%d' % (''.join('%08x' % c for c in cps), rng.choice((0, 1))))
        cases.append('t%d thr %s %d %d %d %s %s' % (k, font, rng.choice((6, 6, 7)), rng.choice((2, 4, 8)), rng.choice((3, 10, 25 if thorough else 10)), rng.choice(('-', '12', '96.5')), ' '.join(texts)))
    # texts on which shaping gives up (a rule program dies) among ordinary ones: a failed call must leave nothing behind on the shared face
    for font, dcs in sorted(apiseq.dying_chars(hexe_api, S.FONTS).items()):
        rep = S.repertoire(vlib.REPO, font)
        for k2 in range(3 if thorough else 2):
            dc = rng.choice(dcs)
            texts = ['%08x:0' % dc, '%08x%08x:0' % (rng.choice(rep), dc), '%08x:0' % rng.choice(rep), '%08x%08x:1' % (dc, rng.choice(rep))]
            cases.append('t%d thr %s %d %d %d %s %s' % (len(cases), font, rng.choice((6, 7)), rng.choice((2, 4)), 10, rng.choice(('-', '12')), ' '.join(texts)))
    # fonts whose name table passes the generic table check but not the name reader's own (cut off inside its string storage, or with a
    # string offset outside the table): label queries from every thread must neither fetch the table again nor touch shared state
    import struct as _st
    from props import fontkit as _K
    ndir = os.path.join(vlib.BUILD, 'fuzzfonts', 'c09-%s-%d' % (chk.tier, chk.seed)); os.makedirs(ndir, exist_ok=True)
    for font in ('Padauk.ttf', 'charis_r_gr.ttf'):
        data = open(os.path.join(vlib.REPO, 'tests/fonts', font), 'rb').read()
        no, nl = _K.font_tables(data)[b'name']
        nm = bytearray(data[no:no + nl])
        cnt, so = _st.unpack('>HH', nm[2:6])
        for k2, kind in enumerate(('cut', 'offset')):
            t = bytearray(nm)
            if kind == 'cut':
                t = t[:max(18, 6 + 12 * (cnt - 1) - rng.randrange(0, 30))]          # ends inside the record array: the name reader refuses it
            else:
                t[4:6] = _st.pack('>H', min(0xFFFF, len(t) + rng.choice((0, 1, 100))))  # string storage at / beyond the end of the table
            p = os.path.join(ndir, 'name_%s_%s' % (kind, font))
            open(p, 'wb').write(_K.replace_table(data, b'name', bytes(t)))
            rep = S.repertoire(vlib.REPO, font)
            texts = ['%s:0' % ''.join('%08x' % c for c in S.gen_text(rng, rep, 6)) for _ in range(2)]
            cases.append('t%d thr %s %d %d %d %s %s' % (len(cases), p, rng.choice((6, 7)), 4, 10, '-', ' '.join(texts)))
    # fonts with a glyph the glyph loader cannot read (an empty attribute block in Gloc): a face made with gr_face_preloadAll either is
    # refused or is as read-only as any other preloaded face
    from props import cmapgen as _cg
    for font in ('Padauk.ttf', 'charis_r_gr.ttf', 'Scheherazadegr.ttf'):
        fp = os.path.join(vlib.REPO, 'tests/fonts', font)
        data = open(fp, 'rb').read()
        go, gl = _K.font_tables(data)[b'Gloc']
        w = 4 if _st.unpack('>H', data[go + 4:go + 6])[0] & 1 else 2
        nblocks = (gl - 8) // w - 1
        cm = _cg.parse_font_cmap(fp)
        rep = S.repertoire(vlib.REPO, font)
        for k2 in range(3 if thorough else 1):
            g = rng.choice((nblocks - 1, nblocks - 1, rng.choice([cm[c] for c in rep if cm.get(c, 0) > 1] or [nblocks - 1])))
            if not (0 < g < nblocks): continue
            gloc = bytearray(data[go:go + gl])
            if g == nblocks - 1: gloc[8 + w * (g + 1):8 + w * (g + 2)] = gloc[8 + w * g:8 + w * (g + 1)]     # the last block ends where it starts
            else: gloc[8 + w * g:8 + w * (g + 1)] = gloc[8 + w * (g + 1):8 + w * (g + 2)]
            p = os.path.join(ndir, 'noglyph%d_%s' % (k2, font))
            open(p, 'wb').write(_K.replace_table(data, b'Gloc', bytes(gloc)))
            texts = ['%s:0' % ''.join('%08x' % c for c in S.gen_text(rng, rep, 8)) for _ in range(3)]
            cases.append('t%d thr %s %d %d %d %s %s' % (len(cases), p, rng.choice((6, 7)), 4, 10, rng.choice(('-', '12')), ' '.join(texts)))
    _, il, err = vlib.run_pair(None, hexe, cases, timeout=3000, impl_env=TSAN_ENV, shards=8)
    classes, dist = set(), {}
    for c, l in zip(cases, il):
        f = c.split()
        dist[f[2]] = dist.get(f[2], 0) + 1
        if l is None:
            chk.tie_break('harness', 'no result line', c[:300]); continue
        t = l.split()
        if 'ABORT' in t[1:3]:
            chk.violation('c09:%s:%s' % (t[2] if len(t) > 2 else 'abort', ' '.join(f[2:6])), 'concurrent shaping on a shared preloaded face: %s' % l[:300], dict(case=c, got=l[:600])); continue
        if t[2] == 'NOFACE':
            classes.add((f[2], 'noface')); continue
        if t[2] != 'ok':
            chk.violation('c09:diff:%s' % ' '.join(f[2:6]), 'a thread obtained a segment different from the single-threaded one: %s' % l[:300], dict(case=c, got=l[:600]))
        after = [x for x in t if x.startswith('calls_after_make=')]
        if after and after[0] != 'calls_after_make=0':
            chk.violation('c09:callback:%s' % ' '.join(f[2:4]), 'gr_face_preloadAll, yet a table callback was invoked while threads were shaping: %s' % l[:200], dict(case=c, got=l[:600]))
        classes.add((f[2], f[3], f[4], f[6] != '-', t[2][:4]))
    # oracle liveness: the same workload on lazy faces
    lcases = [c.replace(' %s ' % c.split()[3], ' 0 ', 1) if False else ' '.join(c.split()[:3] + ['0'] + c.split()[4:]) for c in cases[:8]]
    _, ll, _ = vlib.run_pair(None, hexe, lcases, timeout=3000, impl_env=TSAN_ENV, shards=8)
    lazy_races = sum(1 for l in ll if l and 'ABORT' in l.split()[1:3] and 'tsan' in l)
    chk.notes.append('oracle liveness: %d of %d lazy-face runs (options 0, outside the property) were reported racy by TSan' % (lazy_races, len(lcases)))
    chk.cov.update(evaluations=ng + len(cases) + len(lcases), distinct_nontrivial=len(classes), disagreements_checked=ndis, distribution=dist,
                   rule='%d workloads: one shared face made with gr_face_preloadAll (6 or 7) from logging callbacks and one shared unhinted gr_font (or none); 2/4/8 threads each shape 2-8 texts (seeded and random, dir 0/1/3) '
                        '3-25 times in rotated order, query every slot and char info, feature values and labels, destroy; ThreadSanitizer build; reference results from a separate face; non-trivial = distinct '
                        '(font, options, threads, with font, verdict)' % len(cases),
                   samples=[cases[0][:200], cases[-1][:200]], exhaustive=False)


def replay(chk, obj):
    case = obj.get('replay', {}).get('case') or (obj.get('broken') or [{}])[-1].get('case')
    if not case:
        print('no case'); return 1
    impl = vlib.build_impl('direct', 'tsan')
    hexe0 = vlib.build_harness('impl_thr', impl, san='tsan')
    hexe = os.path.join(os.path.dirname(hexe0), 'run_thr.sh')
    with open(hexe, 'w') as fh:
        fh.write('#!/bin/sh\nexec %s %s\n' % (hexe0, vlib.REPO))
    os.chmod(hexe, 0o755)
    bad = 0
    for k in range(5):
        _, il, err = vlib.run_pair(None, hexe, [case], shards=1, impl_env=TSAN_ENV)
        l = il[0] or ''
        print(' run %d:' % k, l[:400])
        if 'ABORT' in l or (' THR ok' not in l and 'NOFACE' not in l) or ('calls_after_make=0' not in l and 'NOFACE' not in l):
            bad = 1; print(err[-1500:]); break
    return bad
