"""C17 — collision fixing: the cost-ordered set of free intervals (DESIGN.md section 6/C17).

Legs: (1) theorems over Model/ZonesModel.v (every reachable interval list is sorted, disjoint, in bounds; coverage never grows;
inserts keep positions; excluded positions never come back; closest() answers inside an interval); (2) correspondence: the same
operation sequences run on graphite2::Zones (component harness on src/Intervals.cpp) and on the extracted model, the full
interval list (bounds, weights, open flag) compared after every operation; (3) oracle on the implementation's own lists and
closest() answers.  The limit clause is proved over definitions regenerated from ShiftCollider::initSlot / resolve (tie A) and checked on the real ShiftCollider (component);
the resolved-verdict clause is exercised end to end on the Awami fonts only."""
import os
import vlib
from props import shapegen as S, engine


def gen(chk, n):
    rng = chk.rng
    cases = []
    cp = os.path.join(vlib.VERIF, 'corpus', 'c17.txt')
    if os.path.exists(cp):
        for l in open(cp):
            if l.strip() and not l.startswith('#'):
                cases.append('k%d zones %s' % (len(cases), l.strip()))
    for i in range(n):
        sd = rng.random() < 0.4
        xmin = rng.randrange(-60, 1)
        r = rng.random()
        xmax = xmin if r < 0.06 else xmin + rng.choice((1, 2, 5, 30, 60, 100)) if r < 0.5 else rng.randrange(xmin, 61)
        ml, mw, a0 = rng.choice((0, 1, 3, 5, 10)), rng.choice((0, 1, 2, 4, 8)), rng.randrange(-10, 11)
        pts = [xmin, xmax, xmin - 3, xmax + 3, 0]
        ops = []

        def pt():
            p = rng.choice(pts) + rng.choice((0, 0, 0, 1, -1, 2, -2)) if rng.random() < 0.7 else rng.randrange(-70, 71)
            pts.append(p)
            return p
        for _ in range(rng.choice((1, 2, 3, 4, 6, 10, 16))):
            k = rng.random()
            a, b = pt(), pt()
            if rng.random() < 0.9 and a > b:
                a, b = b, a
            if sd:
                ax = rng.choice((2, 3)) if rng.random() < 0.97 else rng.choice((0, 1))
            else:
                ax = rng.choice((0, 1)) if rng.random() < 0.97 else rng.choice((2, 3))
            if k < 0.3:
                ops.append('x:%d:%d' % (a, b))
            elif k < 0.55:
                ops.append('m:%d:%d:%d' % (a, b, ax))
            elif k < 0.85:
                ops.append('w:%d:%d:%d:%d:%d:%d:%d:%d:%d:%d' % (ax, a, b, rng.choice((0, 1, 2, 4, -1)), rng.randrange(-10, 11), rng.choice((0, 1, 2, 4, 8, -2)), rng.randrange(-20, 21),
                                                             rng.randrange(-5, 6), rng.randrange(0, 11), rng.randrange(2)))
            else:
                ops.append('c:%d' % pt())
        ops.append('c:%d' % pt())
        cases.append('z%d zones %d %d %d %d %d %d %s' % (i, 1 if sd else 0, xmin, xmax, ml, mw, a0, ' '.join(ops)))
    return cases


def parse_list(s):
    if s == '-':
        return []
    return [tuple(float(v) for v in e.split(',')) for e in s.split(';') if e]


def oracle(case, line):
    """checks on the implementation's own output.  Returns list of (key, text)."""
    f = case.split()
    xmin, xmax = float(f[3]), float(f[4])
    ops = f[8:]
    secs = line.split(' | ')
    secs[0] = secs[0].split(' Z ', 1)[1] if ' Z ' in secs[0] else '-'
    out = []
    excluded = []
    cur = parse_list(secs[0])
    for k, (o, s) in enumerate(zip([None] + ops, secs)):
        if o is not None and o.startswith('c:'):
            p, cost = (float(v) for v in s[1:].split(','))
            if cost != -1.0:
                if not any(e[0] <= p <= e[1] for e in cur):
                    out.append(('closest-outside', 'op %d: closest(%s) answers %g (cost %g), inside none of the free intervals %s' % (k, o[2:], p, cost, [(e[0], e[1]) for e in cur])))
                for (x, xm) in excluded:
                    if x < p < xm:
                        key = 'zero-width-zone-keeps-excluded-position' if xmin == xmax else 'closest-excluded'
                        out.append((key, 'op %d: closest(%s) answers %g, which lies strictly inside the excluded range (%g, %g)' % (k, o[2:], p, x, xm)))
            continue
        cur = parse_list(s)
        if o is not None and (o.startswith('x:') or o.startswith('m:')):
            a = o.split(':')
            if float(a[1]) < float(a[2]):
                excluded.append((float(a[1]), float(a[2])))
        prev = xmin
        for e in cur:
            if not (prev <= e[0] <= e[1] <= xmax):
                out.append(('unsorted', 'after op %d the interval list is not sorted / disjoint / inside [%g, %g]: %s' % (k, xmin, xmax, [(q[0], q[1]) for q in cur]))); break
            prev = e[1]
        for e in cur:
            for (x, xm) in excluded:
                if max(e[0], x) < min(e[1], xm) or (e[0] == e[1] and x < e[0] < xm):
                    key = 'zero-width-zone-keeps-excluded-position' if xmin == xmax else 'offers-excluded'
                    out.append((key, 'after op %d the interval [%g, %g] offers positions inside the excluded range (%g, %g)' % (k, e[0], e[1], x, xm)))
    return out


def compare(case, iline, mline):
    """exact comparison of interval lists after every op; SD zones: the model's weights are in quarter units"""
    f = case.split()
    scale = 4.0 if f[2] == '1' else 1.0
    isec = iline.split(' | '); msec = mline.split(' | ')
    isec[0] = isec[0].split(' Z ', 1)[1] if ' Z ' in isec[0] else '?'
    msec[0] = msec[0].split(' Z ', 1)[1] if ' Z ' in msec[0] else '??'
    if len(isec) != len(msec):
        return 'different number of results'
    for k, (a, b) in enumerate(zip(isec, msec)):
        if b == 'C':
            continue
        try:
            la = [(e[0], e[1], e[2] * scale, e[3] * scale, e[4] * scale, e[5]) for e in parse_list(a)]
            lb = parse_list(b)
        except ValueError:
            return 'unparsable at op %d' % k
        if la != lb:
            return 'after op %d: implementation %s, model %s' % (k, la, lb)
    return None


def resolved_oracle(case, line):
    """the geometric oracle: when resolve() reports the target resolved, its octabox at offset + shift must not overlap (with positive
    measure, on all four axes x, y, x+y, x-y) any box standing for the merged neighbour; and offset + shift must respect the limit"""
    t = line.split()
    if 'ABORT' in t[1:3]:
        return ('abort',)
    if len(t) < 3 or t[1] != 'COLL2' or not t[2].startswith('init='):
        return None
    kv = dict(x.split('=', 1) for x in t[2:8] if '=' in x)
    if kv.get('init') != '1' or kv.get('merged') != '1':
        return ('unmerged',)
    if kv.get('isCol') == '1':
        return ('collides',)
    f = case.split()
    lbx, lby, ltx, lty, ox, oy, sx0, sy0, nx, ny = (float(v) for v in f[7:17])
    shx, shy = (float(v) for v in kv['shift'].split(','))
    ti = t.index('T'); ni = t.index('N')
    txi, tyi, txa, tya, tsi, tdi, tsa, tda = (float(v) for v in t[ti + 1].split(','))
    # positions relative to the collider's origin (the target's anchor without its offset): the target sits at offset + shift,
    # the neighbour at its origin minus that anchor
    Tx, Ty = ox + shx, oy + shy
    Nx, Ny = nx, ny
    tol = 0.51
    margin = float(f[17])
    # the four interval sets after the merge are printed between N and nsub=: Zk[pos,posm](x,xm)...
    zt = [x for x in t[ni + 1:] if x.startswith('Z')]
    zero_width = []
    for z in zt:
        try:
            a_, b_ = z[z.index('[') + 1:z.index(']')].split(',')
            if float(a_) == float(b_):
                zero_width.append(z[:2])
        except ValueError:
            pass
    ni = ni + len(zt)
    boxes = [tuple(float(v) for v in b.split(',')) for b in t[ni + 2:]]
    nsub = int(t[ni + 1].split('=')[1])
    main = boxes[0]
    # "within reach of its limit rectangle" as ShiftCollider::mergeSlot tests it: the neighbour's main box against the limit rectangle
    # re-based by the offset (note that the test ignores the extent of the target's own box: see DESIGN.md Appendix C.4, F25)
    l_bx, l_by, l_tx, l_ty = lbx - ox, lby - oy, ltx - ox, lty - oy
    reach = (Nx + main[2] + margin >= l_bx and Nx + main[0] - margin <= l_tx) or (Ny + main[3] + margin >= l_by and Ny + main[1] - margin <= l_ty)
    for nbx in ([','.join(map(str, b)) for b in (boxes[1:] if nsub > 0 else boxes[:1])]):
        bxi, byi, bxa, bya, bsi, bdi, bsa, bda = (float(v) for v in nbx.split(','))
        ov = (min(Tx + txa, Nx + bxa) - max(Tx + txi, Nx + bxi), min(Ty + tya, Ny + bya) - max(Ty + tyi, Ny + byi),
              min(Tx + Ty + tsa, Nx + Ny + bsa) - max(Tx + Ty + tsi, Nx + Ny + bsi), min(Tx - Ty + tda, Nx - Ny + bda) - max(Tx - Ty + tdi, Nx - Ny + bdi))
        # the same test in the frame it belongs to (the neighbour's position is relative to the un-offset anchor, so it has to be compared with
        # the limit rectangle itself, not with the rectangle re-based by the offset): F32
        reach_frame = (Nx + main[2] + margin >= lbx and Nx + main[0] - margin <= ltx) or (Ny + main[3] + margin >= lby and Ny + main[1] - margin <= lty)
        if all(o > tol for o in ov) and not reach and reach_frame and (ox != 0 or oy != 0):
            return ('known-frame', 'the neighbour overlaps the target\'s octabox by (%.1f, %.1f, %.1f, %.1f) and lies inside the limit rectangle, but ShiftCollider::mergeSlot compares its position (relative to the '
                                   'un-offset anchor) with the limit rectangle re-based by the accumulated offset (%g,%g): it is skipped and the glyph is reported resolved at shift (%g, %g) (neighbour at (%g,%g), limit [(%g,%g),(%g,%g)])'
                                   % (ov[0], ov[1], ov[2], ov[3], ox, oy, shx, shy, nx, ny, lbx, lby, ltx, lty))
        if all(o > tol for o in ov) and not reach:
            return ('known-reach', 'the neighbour overlaps the target\'s octabox by (%.1f, %.1f, %.1f, %.1f) but fails ShiftCollider::mergeSlot\'s reach test, which compares the neighbour\'s box with the limit rectangle '
                                   'of origin movement and ignores the extent of the target\'s own box: nothing is excluded and the glyph is reported resolved at shift (%g, %g) (neighbour at (%g,%g), limit [(%g,%g),(%g,%g)])'
                                   % (ov[0], ov[1], ov[2], ov[3], shx, shy, nx, ny, lbx, lby, ltx, lty))
        if all(o > tol for o in ov) and zero_width:
            return ('known-zero', 'the interval set of axis %s has zero width (the offset leaves no room along that axis): Zones::remove cannot exclude its only position (the recorded zero-width finding), so the axis offers '
                                  'shift 0 at no cost and the glyph is reported resolved at shift (%g, %g) although its octabox overlaps the neighbour\'s by (%.1f, %.1f, %.1f, %.1f) (offset (%g,%g), limit [(%g,%g),(%g,%g)])'
                                  % (','.join(zero_width), shx, shy, ov[0], ov[1], ov[2], ov[3], ox, oy, lbx, lby, ltx, lty))
        if all(o > tol for o in ov) and not (int(f[6]) & 1) and ox != 0:
            return ('known-ltr', 'left to right with accumulated offset (%g,%g): ShiftCollider::initSlot overwrites the re-based lower x bound with -limit.tr.x (dropping the offset), the per-axis range test then discards the '
                                 'neighbour and the glyph is reported resolved at shift (%g, %g) although its octabox overlaps the neighbour\'s by (%.1f, %.1f, %.1f, %.1f) (neighbour at (%g,%g), x-symmetric limit [(%g,%g),(%g,%g)])'
                                 % (ox, oy, shx, shy, ov[0], ov[1], ov[2], ov[3], nx, ny, lbx, lby, ltx, lty))
        if all(o > tol for o in ov) and nsub > 0 and (bxi < main[0] - 1 or byi < main[1] - 1 or bxa > main[2] + 1 or bya > main[3] + 1
                                                       or bsi < main[4] - 1 or bdi < main[5] - 1 or bsa > main[6] + 1 or bda > main[7] + 1):
            return ('known-subbox', 'the neighbour glyph\'s data puts a sub-octabox outside its own bounding octabox (sub-box x %g..%g y %g..%g sum %g..%g diff %g..%g, bounding octabox x %g..%g y %g..%g sum %g..%g diff %g..%g): '
                                    'ShiftCollider::mergeSlot tests the bounding octabox first, axis by axis, and skips the sub-boxes on every axis where that box cannot be hit inside the limits, so this sub-box is never excluded and '
                                    'the glyph is reported resolved at shift (%g, %g) while overlapping it by (%.1f, %.1f, %.1f, %.1f) (neighbour at (%g,%g))'
                                    % (bxi, bxa, byi, bya, bsi, bsa, bdi, bda, main[0], main[2], main[1], main[3], main[4], main[6], main[5], main[7], shx, shy, ov[0], ov[1], ov[2], ov[3], nx, ny))
        if all(o > tol for o in ov):
            return ('violation', 'ShiftCollider::resolve reports the glyph resolved at shift (%g, %g) yet its octabox overlaps the neighbour\'s by (%.1f, %.1f, %.1f, %.1f) on the x, y, sum and diff axes '
                                 '(offset (%g,%g), neighbour at (%g,%g))' % (shx, shy, ov[0], ov[1], ov[2], ov[3], ox, oy, nx, ny))
    if not (lbx - tol <= Tx <= ltx + tol and lby - tol <= Ty <= lty + tol):
        return ('violation', 'resolved shift (%g, %g) puts the accumulated offset (%g, %g) outside the limit rectangle [(%g,%g),(%g,%g)]' % (shx, shy, Tx, Ty, lbx, lby, ltx, lty))
    return ('resolved',)


def run(chk):
    chk.trusted += ['hand model Model/ZonesModel.v of src/Intervals.cpp over exact integers (SD weights in quarter units)',
                    'component harness harness/impl_zones.cpp (private members of graphite2::Zones read through #define private public)']
    chk.assumptions += ['positions and weights on an integer lattice where float arithmetic is exact; NaN / infinite inputs are outside the model',
                        'the geometric clauses of C17 (limit rectangle respected, resolved verdict true) are not modelled: exercised end to end under sanitizers only']
    chk.partial = True
    chk.check_proofs()
    impl = vlib.build_impl('direct', 'asan')
    hexe = vlib.build_harness('impl_zones', impl, san='asan')
    mexe = vlib.build_model_driver('Zones')
    cases = gen(chk, 40000 if chk.tier == 'thorough' else 4000)
    ml, il, _ = vlib.run_pair(mexe, hexe, cases, timeout=2400)
    classes, ndis, mixed = set(), 0, 0
    dist = {}
    for c, i, m in zip(cases, il, ml):
        if i is None:
            chk.tie_break('harness', 'no result line', c[:300]); continue
        if 'ABORT' in i.split()[1:3]:
            chk.violation('c17:abort:%s' % ' '.join(c.split()[2:12])[:150], 'Zones operations aborted (sanitizer / watchdog): %s' % i[:300], dict(case=c, got=i[:800])); continue
        for key, text in oracle(c, i):
            chk.violation('c17:%s' % key if key == 'zero-width-zone-keeps-excluded-position' else 'c17:%s:%s' % (key, ' '.join(c.split()[2:])[:150]), text, dict(case=c, got=i[:1500]))
        if m is None or m.split()[1:2] == ['MIXED']:
            mixed += 1
        else:
            d = compare(c, i, m)
            if d:
                ndis += 1
                chk.tie_break('correspondence:zones', 'graphite2::Zones and Model/ZonesModel.v disagree: %s' % d[:600], c[:400])
        f = c.split()
        nops = len(f) - 8
        kinds = ''.join(sorted(set(o[0] for o in f[8:])))
        classes.add((f[2], f[3] == f[4], min(nops, 6), kinds, i.count(';') // max(1, nops + 1)))
        dist[kinds] = dist.get(kinds, 0) + 1
    # --- end to end: collision fonts under sanitizers (limit / resolved clauses are not modelled)
    w = engine.build(chk)
    ecases = []
    rng = chk.rng
    for font in ('Awami_test.ttf', 'AwamiNastaliq-Regular.ttf', 'Awami_compressed_test.ttf'):
        rep = S.repertoire(vlib.REPO, font)
        for k in range(400 if chk.tier == 'thorough' else 40):
            cps = S.gen_text_seeded(rng, vlib.REPO, font, 14) if rng.random() < 0.6 else S.gen_text(rng, rep, 14)
            ecases.append(S.case_line('e%d' % len(ecases), font, S.encode(cps, 32), 32, dir_=rng.choice((1, 1, 0, 3)), ops=('dump', 'colldump')))
    _, el, _ = vlib.run_pair(None, w, ecases, timeout=2400)
    # --- the limit clause on the real ShiftCollider (component): initSlot + resolve with everything but a sliver at one end of one axis excluded
    ccases = []
    texts = {'Awami_test.ttf': [0x628, 0x6cc, 0x646, 0x6af, 0x631], 'AwamiNastaliq-Regular.ttf': [0x628, 0x6cc, 0x646, 0x6af, 0x631]}
    for k in range(6000 if chk.tier == 'thorough' else 800):
        font = rng.choice(sorted(texts))
        lbx, lby = rng.choice((-200, -100, -50, 0, -1000)), rng.choice((-200, -100, -50, 0, -1000))
        ltx, lty = lbx + rng.choice((0, 50, 200, 400, 2000)), lby + rng.choice((0, 50, 200, 400, 2000))
        # accumulated offset anywhere in the rectangle (most interesting: non-zero), current shift such that offset + shift is inside
        px, py = rng.randrange(lbx, ltx + 1), rng.randrange(lby, lty + 1)
        ox, oy = (0, 0) if rng.random() < 0.2 else (rng.randrange(lbx, ltx + 1), rng.randrange(lby, lty + 1))
        sx, sy = px - ox, py - oy
        ccases.append('g%d coll %s %s %d %d %d %d %d %d %d %d %d %d %d %d %s' % (k, font, ''.join('%08x' % c for c in texts[font]), rng.randrange(4), rng.choice((1, 1, 3)),
                                                                           lbx, lby, ltx, lty, ox, oy, sx, sy, rng.randrange(4), rng.randrange(2), rng.choice(('0', '10', '50'))))
    _, cl, _ = vlib.run_pair(None, w, ccases, timeout=2400)
    ncoll = 0
    for c, l in zip(ccases, cl):
        if l is None:
            chk.tie_break('harness', 'no result line', c[:300]); continue
        t = l.split()
        if 'ABORT' in t[1:3]:
            chk.violation('c17:coll-abort:%s' % ' '.join(c.split()[5:16]), 'ShiftCollider aborted: %s' % l[:300], dict(case=c, got=l[:600])); continue
        if 'shift=' not in l:
            continue
        f = c.split()
        lbx, lby, ltx, lty, ox, oy, sx, sy = (float(v) for v in f[6:14])
        sh = [x for x in t if x.startswith('shift=')][0][6:].split(',')
        iscol = 'isCol=1' in t
        ncoll += 1
        classes.add(('coll', f[14], f[15], iscol, ox == 0 and oy == 0))
        if not iscol:
            ax, ay = ox + float(sh[0]), oy + float(sh[1])
            tol = 1e-3 * (1 + max(abs(v) for v in (lbx, lby, ltx, lty)))
            if not (lbx - tol <= ax <= ltx + tol and lby - tol <= ay <= lty + tol):
                chk.violation('c17:limit:axis%s:%s' % (f[14], ' '.join(f[6:16])), 'ShiftCollider::resolve computed shift (%s, %s): accumulated offset (%g, %g) leaves the limit rectangle [(%g,%g),(%g,%g)] '
                              '(offset (%g,%g), current shift (%g,%g), axis %s)' % (sh[0], sh[1], ax, ay, lbx, lby, ltx, lty, ox, oy, sx, sy, f[14]), dict(case=c, got=l[:600]))
    # --- the limit clause on the real KernCollider (the kerning path of the fixer), driven as Pass::resolveKern drives it: the offset carried
    # over from earlier collision passes anywhere in the limit rectangle, neighbours displaced so that small and very large kerns are needed
    kcases = []
    ktexts = {'Awami_test.ttf': [0x628, 0x6cc, 0x646, 0x20, 0x6af, 0x631, 0x62f, 0x20, 0x633, 0x644], 'AwamiNastaliq-Regular.ttf': [0x628, 0x6cc, 0x646, 0x20, 0x6af, 0x631, 0x62f, 0x20, 0x633, 0x644]}
    for k in range(4000 if chk.tier == 'thorough' else 600):
        font = rng.choice(sorted(ktexts))
        lbx = rng.choice((-2000, -1200, -500, -100, 0, 100)); ltx = lbx + rng.choice((0, 100, 600, 1700, 6200))
        lby = rng.choice((-500, 0)); lty = lby + rng.choice((0, 500))
        ox = 0 if rng.random() < 0.2 else rng.randrange(lbx, ltx + 1)
        kcases.append('n%d kern %s %s %d %d %d %d %d %d %d %d %d %s' % (k, font, ''.join('%08x' % c for c in ktexts[font]), rng.randrange(8), rng.choice((1, 1, 3, 0)),
                                                                    lbx, lby, ltx, lty, ox, 0, rng.choice((-3000, -1500, -600, -200, 0, 200, 600, 1500, 3000)), rng.choice(('0', '10', '50'))))
    _, kl, _ = vlib.run_pair(None, w, kcases, timeout=2400)
    nkern = 0
    for c, l in zip(kcases, kl):
        if l is None:
            chk.tie_break('harness', 'no result line', c[:300]); continue
        t = l.split()
        if 'ABORT' in t[1:3]:
            chk.violation('c17:kern-abort:%s' % ' '.join(c.split()[4:14]), 'KernCollider aborted: %s' % l[:300], dict(case=c, got=l[:600])); continue
        kv = [x for x in t if x.startswith('kern=')]
        if not kv:
            continue
        f = c.split()
        lbx, lby, ltx, lty, ox, oy = (float(v) for v in f[6:12])
        kx = float(kv[0][5:].split(',')[0])
        nkern += 1
        classes.add(('kern', f[5], ox == 0, kx + ox <= lbx, kx + ox >= ltx))
        tol = 1e-3 * (1 + max(abs(v) for v in (lbx, ltx)))
        if lbx <= ltx and not (lbx - tol <= ox + kx <= ltx + tol):
            chk.violation('c17:kern-limit:%s' % ' '.join(f[4:14]), 'KernCollider::resolve computed kern %g: with the offset %g carried over from earlier passes the accumulated offset %g leaves the limit rectangle\'s x range [%g, %g]'
                          % (kx, ox, ox + kx, lbx, ltx), dict(case=c, got=l[:600]))
    chk.notes.append('kerning path: %d of %d KernCollider set-ups collided and were resolved' % (nkern, len(kcases)))
    # --- the resolved-verdict clause on the real ShiftCollider: two glyphs of a live Awami segment at arbitrary relative origins
    rcases = []
    for k in range(20000 if chk.tier == 'thorough' else 2500):
        font = rng.choice(sorted(texts))
        lim = rng.choice((100, 200, 400, 1000))
        lbx, lby, ltx, lty = -lim, -rng.choice((lim, lim // 2, 0)), lim, rng.choice((lim, lim // 2))
        ox, oy = (0, 0) if rng.random() < 0.5 else (rng.randrange(lbx // 2, ltx // 2 + 1), rng.randrange(lby // 2, lty // 2 + 1))
        if rng.random() < 0.15:                              # an offset near the edge of the limit rectangle (left by earlier collision passes)
            ox, oy = rng.choice((lbx, ltx, (ltx * 5) // 6, (lbx * 5) // 6, 0)), rng.choice((lby, lty, (lty * 5) // 6, 0))
        sx, sy = (0, 0) if rng.random() < 0.6 else (rng.randrange((lbx - ox) // 2, (ltx - ox) // 2 + 1), rng.randrange((lby - oy) // 2, (lty - oy) // 2 + 1))
        a, b = rng.sample(range(4), 2)
        arab = [c for c in S.repertoire(vlib.REPO, font) if 0x620 <= c <= 0x6FF]
        txt = [rng.choice(arab) for _ in range(5)] if arab and rng.random() < 0.7 else texts[font]      # many glyph pairs: with and without sub-boxes
        rcases.append('r%d coll2 %s %s %d %d %d %d %d %d %d %d %d %d %d %d %d %s %d %d' % (k, font, ''.join('%08x' % c for c in txt), a, b, rng.choice((1, 1, 3, 0, 2)),      # right to left; left to right (the limits here are x-symmetric)
                      lbx, lby, ltx, lty, ox, oy, sx, sy, rng.randrange(-900, 901), rng.randrange(-900, 901), rng.choice(('0', '10', '50')), rng.randrange(2), rng.randrange(2)))
    _, rl, _ = vlib.run_pair(None, w, rcases, timeout=2400)
    # grazing arrangements, built from the boxes the first round printed: the neighbour is put where one of its (sub-)boxes overlaps the
    # target by 1..5 units across one axis and widely along it -- the smallest overlaps that still count, at the edge of every test that
    # decides whether a box takes part in an axis
    gz = []
    for c, l in zip(rcases, rl):
        if len(gz) >= (3000 if chk.tier == 'thorough' else 500) or l is None or ' T ' not in l or ' N ' not in l:
            continue
        t, f = l.split(), c.split()
        try:
            ti, ni = t.index('T'), t.index('N')
            txi, tyi, txa, tya = (float(v) for v in t[ti + 1].split(',')[:4])
            zt = [x for x in t[ni + 1:] if x.startswith('Z')]
            k2 = ni + len(zt)
            nsub = int(t[k2 + 1].split('=')[1])
            boxes = [tuple(float(v) for v in b.split(',')) for b in t[k2 + 2:]]
        except (ValueError, IndexError):
            continue
        if not boxes:
            continue
        bx = rng.choice(boxes[1:] if nsub > 0 and len(boxes) > 1 else boxes[:1])
        ox, oy, sx0, sy0 = (float(v) for v in f[11:15])
        px, py = ox + sx0, oy + sy0
        d = rng.choice((1, 1, 2, 3, 5))
        if rng.random() < 0.5:       # graze across y (from below or above), overlap widely in x
            ny = py + tyi - bx[3] + d if rng.random() < 0.5 else py + tya - bx[1] - d
            nx = px + (txi + txa) / 2 - (bx[0] + bx[2]) / 2 + rng.randrange(-20, 21)
        else:                        # graze across x
            nx = px + txi - bx[2] + d if rng.random() < 0.5 else px + txa - bx[0] - d
            ny = py + (tyi + tya) / 2 - (bx[1] + bx[3]) / 2 + rng.randrange(-20, 21)
        g = list(f); g[0] = 'z%d' % len(gz); g[15] = '%d' % round(nx); g[16] = '%d' % round(ny); g[17] = '0'
        gz.append(' '.join(g))
    _, gl, _ = vlib.run_pair(None, w, gz, timeout=2400)
    rcases, rl = rcases + gz, list(rl) + list(gl)
    nres = 0
    for c, l in zip(rcases, rl):
        if l is None:
            chk.tie_break('harness', 'no result line', c[:300]); continue
        bad = resolved_oracle(c, l)
        if bad is None:
            continue
        if bad[0] == 'abort':
            chk.violation('c17:coll2-abort:%s' % ' '.join(c.split()[4:18]), 'ShiftCollider aborted: %s' % l[:300], dict(case=c, got=l[:600])); continue
        nres += bad[0] == 'resolved'
        classes.add(('coll2', bad[0], c.split()[17], c.split()[18]))
        if bad[0] == 'violation':
            chk.violation('c17:resolved:%s' % ' '.join(c.split()[4:19]), bad[1], dict(case=c, got=l[:1200]))
        if bad[0] == 'known-reach':
            chk.violation('c17:reach-test-ignores-target-extent', bad[1], dict(case=c, got=l[:1200]))
        if bad[0] == 'known-zero':
            chk.violation('c17:zero-width-zone-keeps-excluded-position', bad[1], dict(case=c, got=l[:1200]))
        if bad[0] == 'known-frame':
            chk.violation('c17:reach-test-in-offset-frame', bad[1], dict(case=c, got=l[:1200]))
        if bad[0] == 'known-subbox':
            chk.violation('c17:subbox-outside-the-bounding-octabox-is-pruned-with-it', bad[1], dict(case=c, got=l[:1200]))
        if bad[0] == 'known-ltr':
            chk.violation('c17:ltr-lower-x-bound-drops-offset', bad[1], dict(case=c, got=l[:1200]))
    chk.notes.append('resolved-verdict clause: %d arrangements reported resolved and checked against the octabox separation oracle' % nres)
    nshift = 0
    for c, l in zip(ecases, el):
        if l is None:
            chk.tie_break('harness', 'no result line', c[:300]); continue
        if 'ABORT' in l.split()[1:3]:
            chk.violation('c17:e2e-abort:%s' % ' '.join(c.split()[2:10])[:150], 'shaping a collision font aborted: %s' % l[:300], dict(case=c, got=l[:800])); continue
        if ' | K ' in l:
            for t in l.split(' | K ')[1].split(' | ')[0].split():
                v = t.split(',')
                # offset inside the limit rectangle when the rectangle is well formed and the slot was fixed (flags & COLL_FIX) and not marked COLL_ISCOL... reported, not judged: limits may be changed by later rules
                if len(v) >= 7 and (float(v[4]) != 0 or float(v[5]) != 0):
                    nshift += 1
        classes.add(('e2e', c.split()[2], l.split()[1][:6] if len(l.split()) > 1 else ''))
    chk.notes.append('zones: %d sequences, %d mixed-kind sequences compared by oracle only; end to end: %d collision-font segments, %d slots with a non-zero collision offset; limit clause: %d resolve() answers checked' % (len(cases), mixed, len(ecases), nshift, ncoll))
    chk.cov.update(evaluations=len(cases) + len(ecases) + len(ccases) + len(rcases), distinct_nontrivial=len(classes), disagreements_checked=ndis, distribution=dist,
                   rule='Zones: initialise (XY 60%% / SD 40%%, 6%% zero width) then 1-16 operations from exclude / exclude_with_margins / weighted (f, m possibly negative) / closest, end points drawn from '
                        'existing boundaries +-{0,1,2} (touching, equal, nested, overlapping, outside) on an integer lattice; full list comparison after every operation, oracle on sortedness, bounds, excluded '
                        'ranges and closest answers; end to end: Awami fonts x generated texts under ASan/UBSan; non-trivial = distinct (kind, zero width, #ops, op kinds, list length class)',
                   samples=[cases[0][:200], cases[len(cases) // 2][:200]], exhaustive=False)


def replay(chk, obj):
    case = obj.get('replay', {}).get('case') or (obj.get('broken') or [{}])[-1].get('case')
    if not case:
        print('no case'); return 1
    if case.split()[1] == 'coll2':
        w = engine.build(chk)
        _, il, _ = vlib.run_pair(None, w, [case], shards=1)
        print(case[:300]); print(' impl :', (il[0] or '')[:800])
        r = resolved_oracle(case, il[0] or '')
        print(' oracle:', r)
        return 1 if r and r[0] in ('violation', 'abort', 'known-reach', 'known-frame', 'known-ltr', 'known-zero') else 0
    if case.split()[1] == 'coll':
        w = engine.build(chk)
        _, il, _ = vlib.run_pair(None, w, [case], shards=1)
        print(case[:300]); print(' impl :', (il[0] or '')[:800])
        f = case.split(); t = (il[0] or '').split()
        if 'shift=' not in (il[0] or '') or 'isCol=1' in t:
            return 1 if 'ABORT' in (il[0] or '') else 0
        sh = [x for x in t if x.startswith('shift=')][0][6:].split(',')
        lbx, lby, ltx, lty, ox, oy = (float(v) for v in f[6:12])
        ax, ay = ox + float(sh[0]), oy + float(sh[1])
        tol = 1e-3 * (1 + max(abs(v) for v in (lbx, lby, ltx, lty)))
        bad = not (lbx - tol <= ax <= ltx + tol and lby - tol <= ay <= lty + tol)
        print(' accumulated offset (%g, %g): %s' % (ax, ay, 'OUTSIDE the limit' if bad else 'inside'))
        return 1 if bad else 0
    if case.split()[1] == 'kern':
        w = engine.build(chk)
        _, il, _ = vlib.run_pair(None, w, [case], shards=1)
        print(case[:300]); print(' impl :', (il[0] or '')[:800])
        f = case.split(); kv = [x for x in (il[0] or '').split() if x.startswith('kern=')]
        if not kv:
            return 1 if 'ABORT' in (il[0] or '') else 0
        lbx, ltx, ox = float(f[6]), float(f[8]), float(f[10]); kx = float(kv[0][5:].split(',')[0])
        tol = 1e-3 * (1 + max(abs(lbx), abs(ltx)))
        bad = lbx <= ltx and not (lbx - tol <= ox + kx <= ltx + tol)
        print(' accumulated offset %g: %s' % (ox + kx, 'OUTSIDE the limit' if bad else 'inside'))
        return 1 if bad else 0
    if case.split()[1] != 'zones':
        w = engine.build(chk)
        _, il, _ = vlib.run_pair(None, w, [case], shards=1)
        print(case[:300]); print(' impl :', (il[0] or '')[:1500])
        return 1 if 'ABORT' in (il[0] or '') else 0
    impl = vlib.build_impl('direct', 'asan')
    hexe = vlib.build_harness('impl_zones', impl, san='asan')
    mexe = vlib.build_model_driver('Zones')
    ml, il, _ = vlib.run_pair(mexe, hexe, [case], shards=1)
    print(case[:400]); print(' impl :', (il[0] or '')[:1500]); print(' model:', (ml[0] or '')[:1500])
    bad = oracle(case, il[0] or '') if il[0] else [('none', 'no output')]
    for k, t in bad:
        print(' oracle:', k, t[:300])
    d = compare(case, il[0], ml[0]) if il[0] and ml[0] and 'MIXED' not in ml[0] else None
    print(' compare:', d or 'equal')
    return 1 if bad or d else 0
