"""C07 — the stack machine follows the opcode spec; both interpreter builds agree (DESIGN.md section 6/C07)."""
import os
import vlib

M32 = 1 << 32
LAT = [0, 1, 2, 3, 7, 8, 127, 128, 129, 255, 256, 257, 32767, 32768, 32769, 65535, 65536, 0x7FFFFFFE, 0x7FFFFFFF,
       -1, -2, -3, -127, -128, -129, -255, -256, -32767, -32768, -32769, -65536, -0x7FFFFFFF, -0x80000000, 0x55555555, -0x55555556, 1000, -1000, 46341, 46340, 0x10000000]
BIN = {'add': 0x06, 'sub': 0x07, 'mul': 0x08, 'div': 0x09, 'min': 0x0A, 'max': 0x0B, 'and': 0x10, 'or': 0x11, 'eq': 0x13, 'ne': 0x14,
       'lt': 0x15, 'gt': 0x16, 'le': 0x17, 'ge': 0x18, 'bor': 0x3E, 'band': 0x3F}
UN = {'neg': 0x0C, 't8': 0x0D, 't16': 0x0E, 'not': 0x12, 'bnot': 0x40}


def s32(x):
    x &= M32 - 1
    return x - M32 if x >= 1 << 31 else x


def push(z, force=None):
    z = s32(z)
    if force == 'long' or not (-32768 <= z < 65536):
        return [5] + list((z & (M32 - 1)).to_bytes(4, 'big'))
    if -128 <= z < 128: return [1, z & 255]
    if 0 <= z < 256: return [2, z]
    if -32768 <= z < 32768: return [3] + list((z & 0xFFFF).to_bytes(2, 'big'))
    return [4] + list(z.to_bytes(2, 'big'))


class Die(Exception):
    pass


def ref_bin(op, a, b):
    """the opcode specification on 32-bit two's-complement integers: a is the 2nd item, b the top-most"""
    if op == 'add': return s32(a + b)
    if op == 'sub': return s32(a - b)
    if op == 'mul': return s32(a * b)
    if op == 'div':
        if b == 0 or (a == -0x80000000 and b == -1): raise Die()
        q = abs(a) // abs(b)
        return s32(q if (a < 0) == (b < 0) else -q)
    if op == 'min': return min(a, b)
    if op == 'max': return max(a, b)
    if op == 'and': return int(a != 0 and b != 0)
    if op == 'or': return int(a != 0 or b != 0)
    if op == 'eq': return int(a == b)
    if op == 'ne': return int(a != b)
    if op == 'lt': return int(a < b)
    if op == 'gt': return int(a > b)
    if op == 'le': return int(a <= b)
    if op == 'ge': return int(a >= b)
    if op == 'bor': return s32((a & (M32 - 1)) | (b & (M32 - 1)))
    if op == 'band': return s32((a & (M32 - 1)) & (b & (M32 - 1)))


def ref_un(op, a):
    if op == 'neg': return s32(-a)
    if op == 't8': return a & 0xFF
    if op == 't16': return a & 0xFFFF
    if op == 'not': return int(a == 0)
    if op == 'bnot': return s32(~a)


def gen_tree(rng, depth):
    if depth == 0 or rng.random() < 0.25:
        return ('c', rng.choice(LAT) if rng.random() < 0.7 else s32(rng.getrandbits(32)))
    k = rng.random()
    if k < 0.6: return ('b', rng.choice(list(BIN)), gen_tree(rng, depth - 1), gen_tree(rng, depth - 1))
    if k < 0.8: return ('u', rng.choice(list(UN)), gen_tree(rng, depth - 1))
    if k < 0.92: return ('?', gen_tree(rng, depth - 1), gen_tree(rng, depth - 1), gen_tree(rng, depth - 1))
    return ('s', rng.getrandbits(16), rng.getrandbits(16), gen_tree(rng, depth - 1))


def comp(t):
    if t[0] == 'c': return push(t[1])
    if t[0] == 'b': return comp(t[2]) + comp(t[3]) + [BIN[t[1]]]
    if t[0] == 'u': return comp(t[2]) + [UN[t[1]]]
    if t[0] == '?': return comp(t[1]) + comp(t[2]) + comp(t[3]) + [0x0F]
    return comp(t[3]) + [0x41] + list(t[1].to_bytes(2, 'big')) + list(t[2].to_bytes(2, 'big'))


def ev(t):
    if t[0] == 'c': return s32(t[1])
    if t[0] == 'b':
        a, b = ev(t[2]), ev(t[3]); return ref_bin(t[1], a, b)
    if t[0] == 'u': return ref_un(t[1], ev(t[2]))
    if t[0] == '?':
        c, x, y = ev(t[1]), ev(t[2]), ev(t[3]); return x if c != 0 else y
    a = ev(t[3])
    return s32(((a & (M32 - 1)) & ~t[1] & (M32 - 1)) | t[2])


def gen_cases(chk):
    rng, thorough = chk.rng, chk.tier == 'thorough'
    cases, meta = [], []

    def add(bc, kind, expect=None):
        cases.append('c%d %d %s' % (len(cases), len(cases) & 1, bytes(bc).hex() or '-'))
        meta.append((kind, expect))

    def expect_of(fn):
        try:
            return ('finished', fn())
        except Die:
            return ('died_early', 0)
    lat = LAT if thorough else LAT[::1]
    for op in BIN:
        for a in lat:
            for b in (lat if thorough else rng.sample(lat, 14) + [0, -1, -0x80000000]):
                add(push(a, rng.choice((None, 'long'))) + push(b) + [BIN[op], 0x30], 'bin-' + op, expect_of(lambda: ref_bin(op, s32(a), s32(b))))
    for op in UN:
        for a in LAT + [s32(rng.getrandbits(32)) for _ in range(30)]:
            add(push(a) + [UN[op], 0x30], 'un-' + op, ('finished', ref_un(op, s32(a))))
    for _ in range(2000 if thorough else 300):
        c, t, f = rng.choice(LAT), rng.choice(LAT), rng.choice(LAT)
        add(push(c) + push(t) + push(f) + [0x0F, 0x30], 'cond', ('finished', s32(t) if s32(c) != 0 else s32(f)))
        m, v, a = rng.getrandbits(16), rng.getrandbits(16), rng.choice(LAT)
        add(push(a) + [0x41] + list(m.to_bytes(2, 'big')) + list(v.to_bytes(2, 'big')) + [0x30], 'setbits',
            ('finished', s32(((s32(a) & (M32 - 1)) & ~m & (M32 - 1)) | v)))
    for _ in range(60000 if thorough else 4000):
        t = gen_tree(rng, rng.randrange(1, 9))
        add(comp(t) + [0x30], 'tree', expect_of(lambda: ev(t)))
    # stack limit: n pushes then n-1 adds
    for n in (1, 2, 1021, 1022, 1023, 1024, 1025, 1026, 1030):
        add(sum([push(1) for _ in range(n)], []) + [0x06] * (n - 1) + [0x30], 'deep', ('finished', n) if n <= 1023 else ('stack_overflow', 0))
    # returns with non-empty stacks, NOPs, several returns
    add([1, 5, 1, 6, 0x30], 'ret', ('stack_not_empty', 0)); add([1, 5, 0x31], 'ret', ('stack_not_empty', 0)); add([0x31], 'ret', ('finished', 0))
    add([0x32], 'ret', ('finished', 1)); add([0, 0, 1, 9, 0, 0x30, 1, 3, 0x30], 'ret', ('finished', 9)); add([1, 5, 0x32], 'ret', ('stack_not_empty', 0))
    # ill-formed / arbitrary byte strings: loader verdicts must agree
    subset = list(range(0, 0x19)) + [0x30, 0x31, 0x32, 0x3E, 0x3F, 0x40, 0x41]
    for _ in range(40000 if thorough else 4000):
        n = rng.randrange(0, 12)
        bc = [rng.choice(subset) if rng.random() < 0.9 else rng.randrange(256) for _ in range(n)]
        if rng.random() < 0.7: bc.append(rng.choice((0x30, 0x31, 0x32)))
        add(bc, 'bytes')
    return cases, meta


def build(chk):
    mexe = vlib.build_model_driver('Vm')
    exes = {}
    for mach in ('direct', 'call'):
        impl = vlib.build_impl(mach, 'asan')
        hexe = vlib.build_harness('impl_vm', impl)
        w = os.path.join(os.path.dirname(hexe), 'run_vm.sh')
        with open(w, 'w') as f:
            f.write('#!/bin/sh\nexec %s %s\n' % (hexe, vlib.REPO))
        os.chmod(w, 0o755)
        exes[mach] = w
    return mexe, exes


def run(chk):
    chk.trusted += ['hand model Model/VmModel.v of the decoder (arithmetic subset) and of the opcode bodies / run loop',
                    'Python reference of the opcode specification on int32 (tools/props/c07.py) as oracle']
    chk.assumptions += ['opcodes outside 0x00-0x18, 0x30-0x32, 0x3E-0x41 are declined by the model (counted as unsupported, compared between the two builds only)',
                        'the opcode numbering of 0x3E / 0x3F follows the code (BITOR, BITAND); doc/OpCodes.adoc lists them the other way round (DESIGN.md section 7, F7)']
    chk.check_proofs()
    mexe, exes = build(chk)
    cases, meta = gen_cases(chk)
    ml, dl, _ = vlib.run_pair(mexe, exes['direct'], cases, timeout=2400)
    _, cl, _ = vlib.run_pair(None, exes['call'], cases, timeout=2400)
    ndis, classes, dist, unsupported = 0, set(), {}, 0
    for c, (kind, expect), m, d, k in zip(cases, meta, ml, dl, cl):
        dist[kind] = dist.get(kind, 0) + 1
        key = 'vm:%s' % c.split()[2][:60]
        if d is None or k is None:
            chk.tie_break('harness', 'no result line', c[:300]); continue
        dres, kres = d.split()[1:], k.split()[1:]
        if dres != kres:
            chk.violation(key + ':builds', 'direct-threaded build gives %s, call-threaded build gives %s' % (dres, kres), dict(case=c, direct=d, call=k))
        if dres[:1] == ['ABORT']:
            chk.violation(key, 'interpreter aborted: %s' % d[:300], dict(case=c, got=d)); continue
        if expect is not None:
            want = ['R', expect[0], str(expect[1])]
            if dres != want:
                chk.violation(key + ':spec', 'program returned %s, the opcode specification gives %s' % (dres, want), dict(case=c, got=d, expected=' '.join(want)))
        mres = (m or '').split()[1:]
        if mres[:1] == ['UNSUPPORTED']:
            unsupported += 1
        elif mres != dres:
            ndis += 1
            chk.tie_break('correspondence:vm', 'model %r vs implementation %r' % (m, d), c[:300])
        classes.add((kind, tuple(dres[:2])))
    chk.notes.append('programs declined by the model (opcodes outside the subset): %d' % unsupported)
    chk.partial.append('end-to-end agreement of the two builds on shaped text is checked by the shaping harness (C02/C06); here component level')
    chk.cov.update(evaluations=len(cases) * 2, distinct_nontrivial=len(classes), disagreements_checked=ndis, distribution=dist,
                   rule='PUSH a; PUSH b; op; POP_RET over a 40-value boundary lattice for every binary opcode, unary / cond / setbits likewise, random well-formed expression '
                        'trees to depth 8, programs at the stack limit (1021-1030 pushes), multiple / early returns, random byte strings over the opcode subset (loader verdicts); '
                        'each in the direct- and the call-threaded build under ASan/UBSan; non-trivial = distinct (family, verdict, status)',
                   samples=[cases[0], cases[len(cases) // 2], cases[-1]], exhaustive=False)


def replay(chk, obj):
    mexe, exes = build(chk)
    case = obj.get('replay', {}).get('case') or (obj.get('broken') or [{}])[-1].get('case')
    if not case:
        print('no case'); return 1
    ml, dl, err = vlib.run_pair(mexe, exes['direct'], [case], shards=1)
    _, cl, _ = vlib.run_pair(None, exes['call'], [case], shards=1)
    print(case); print(' model :', ml[0]); print(' direct:', dl[0]); print(' call  :', cl[0]); print(err[-1000:])
    return 0 if (ml[0] or '').split()[1:] == (dl[0] or '').split()[1:] == (cl[0] or '').split()[1:] else 1
