"""C14 — LZ4 decoder exact and bounded; compressed tables transparent (DESIGN.md section 6/C14)."""
import os
import vlib
from props import lz4gen as L


def hexs(b):
    return ''.join('%02x' % x for x in b) or '-'


def gen_cases(chk):
    rng, thorough = chk.rng, chk.tier == 'thorough'
    cases, meta = [], []

    def add(osz, blk, kind, plain=None):
        cases.append('c%d %d %s' % (len(cases), osz, hexs(blk)))
        meta.append((kind, osz, blk, plain))
    cp = os.path.join(vlib.VERIF, 'corpus', 'c14.txt')
    if os.path.exists(cp):
        for l in open(cp):
            f = l.split()
            if f and not l.startswith('#'):
                if f[1] == 'wrap':
                    cases.append('k%d 0 wrap %s' % (len(cases), f[2])); meta.append(('wrap', 0, [], None))
                else:
                    blk = [int(f[1][k:k + 2], 16) for k in range(0, len(f[1]), 2)] if f[1] != '-' else []
                    add(int(f[0]), blk, 'corpus')
    # runs of one byte: the best compressible data, whose blocks are 10 - 12 bytes long
    for n, by in ((13, 0), (20, 0), (64, 65), (300, 0), (534, 255)):
        plain = [by] * n
        add(len(plain), L.encode(plain, rng, 'greedy'), 'valid-greedy', plain)
    nvalid = 6000 if thorough else 500
    for i in range(nvalid):
        plain = L.gen_plain(rng, 1500 if thorough else 500)
        mode = ('greedy', 'random', 'random', 'literal')[i % 4]
        blk = L.encode(plain, rng, mode)
        add(len(plain), blk, 'valid-' + mode, plain)
        r = rng.random()
        if r < 0.25: add(len(plain) + 1, blk, 'osz+1', plain)
        elif r < 0.5: add(max(0, len(plain) - 1), blk, 'osz-1', plain)
        elif r < 0.75: add(len(plain), blk[:-1], 'in-1', plain)
        else: add(len(plain), blk + [rng.randrange(256)], 'in+1', plain)
        # mutations aimed at each guard
        for _ in range(3):
            m = list(blk)
            k = rng.random()
            pos = rng.randrange(len(m))
            if k < 0.3: m[pos] = rng.randrange(256)
            elif k < 0.5: m[pos] = (m[pos] + rng.choice((1, 255, 16, 240))) & 255
            elif k < 0.65: m[pos] = rng.choice((0, 255, 0x0F, 0xF0, 0xFF))
            elif k < 0.8: del m[pos]
            else: m.insert(pos, rng.choice((0, 255, rng.randrange(256))))
            add(len(plain) + rng.choice((0, 0, 0, 1, -1, 7, -7)), m, 'mutant', plain)
    # long runs: 255-chains in match and literal lengths
    for n in ((300, 600, 5000, 20000) if thorough else (300, 600, 5000)):      # (the extracted model is cubic in the run length: 20000 takes a minute)
        plain = [7] * n
        add(n, L.encode(plain, rng, 'greedy'), 'run', plain)
        plain = [rng.randrange(256) for _ in range(n // 10)] + [1, 2, 3, 4] * (n // 4)
        add(len(plain), L.encode(plain, rng, 'greedy'), 'run', plain)
    # hand-built boundary blocks: remaining output 5..9 at a match, distances 1..9 (overrun vs safe copy), lenient tails
    for dist in range(1, 12):
        for ml in (4, 5, 8, 11, 12, 19, 20):
            for slack in (0, 1, 2, 3, 4, 5, 6, 7, 8, 9, 13):
                lit = list(range(65, 65 + 12))
                blk = [(12 << 4) | min(ml - 4, 15)] + lit + [dist, 0]
                if ml - 4 >= 15: L.emit_len(ml - 4 - 15, blk)
                tail = [0x41 + k for k in range(slack)]
                blk += [min(slack, 15) << 4] + tail
                plain = L.ref_decode(blk)
                add(len(plain) if plain else 40, blk, 'boundary', plain)
                add((len(plain) if plain else 40) - 1, blk, 'boundary-osz-1', plain)
                add(len(plain) if plain else 40, blk + [0], 'tail+1', plain)
    # tails: a match too close to the end, a stray byte after the final literals
    for _ in range(3000 if thorough else 300):
        plain = L.gen_plain(rng, 200)
        blk = L.encode(plain, rng, 'random')
        k = rng.randrange(1, 7)
        add(len(plain) + rng.randrange(0, 3), blk + [rng.randrange(256) for _ in range(k)], 'garbage-tail', plain)
    # a match sequence whose fields end at every distance 0..8 from the end of the block, with 0..4 length-extension
    # bytes (0xFF chains and terminators) and every remaining-byte count: the MINCODA / end-of-block boundary
    for lits in (0, 8, 12):
        for mnib in (0, 3, 14, 15):
            for ext in ([], [0], [7], [255], [255, 0], [255, 255], [255, 255, 255], [255, 255, 255, 255], [255, 255, 255, 255, 255, 255, 255, 255]):
                for rem in range(0, 9):
                    for tailkind in (0, 1):
                        pre = [0x80] + [0x61 + k for k in range(8)] + [3, 0, 0x50] + [0x71 + k for k in range(5)] if lits == 0 else []
                        blk = list(pre) + [(min(lits, 15) << 4) | mnib] + [0x41 + k for k in range(lits)] + [rng.choice((1, 4, 8)), 0]
                        blk += ext if mnib == 15 else []
                        if rem:
                            blk += ([min(rem - 1, 15) << 4] + [0x76 + k for k in range(rem - 1)]) if tailkind == 0 else [255] * rem
                        for osz in (len(blk) + 1, 32, 64, 300):
                            add(osz, blk, 'coda-boundary')
    # every prefix of short valid blocks that contain long (nibble-15) lengths: the end-of-block parsing of each field
    for _ in range(400 if thorough else 40):
        plain = L.gen_plain(rng, 120)
        blk = L.encode(plain, rng, rng.choice(('greedy', 'random')))
        for k in range(1, len(blk)):
            add(len(plain) + rng.choice((0, 0, 1, -1)), blk[:k], 'prefix', plain)
    # hand-built incomplete final sequences: token, literals, 0-2 distance bytes, 0-5 length-extension bytes, 0-6 trailing bytes
    for _ in range(6000 if thorough else 1200):
        head = L.encode(L.gen_plain(rng, 80), rng, 'random')[:-6] if rng.random() < 0.5 else [0x80 | rng.choice((0, 4, 15))] + [rng.randrange(256) for _ in range(8)] + [rng.choice((1, 2, 8, 9)), 0]
        lnib, mnib = rng.choice((0, 1, 5, 14, 15)), rng.choice((0, 1, 14, 15, 15, 15))
        seq = [(lnib << 4) | mnib]
        ll = lnib
        if lnib == 15:
            e = [rng.choice((0, 1, 255)) for _ in range(rng.randrange(1, 3))]
            if e[-1] == 255: e.append(rng.choice((0, 3)))
            seq += e; ll += sum(e)
        seq += [rng.randrange(256) for _ in range(min(ll, 40))]
        seq += [rng.choice((1, 4, 8, 9, 0)), 0][:rng.choice((0, 1, 2, 2, 2))]
        seq += [rng.choice((255, 255, 0, 7)) for _ in range(rng.randrange(0, 6))]
        seq += [rng.randrange(256) for _ in range(rng.randrange(0, 7))]
        blk = head + seq
        add(len(blk) + rng.choice((1, 5, 20, 40, 300)), blk, 'tail-ext')
    for _ in range(20000 if thorough else 1500):
        n = rng.randrange(0, 40)
        add(rng.randrange(0, 80), [rng.choice((0, 1, 4, 15, 16, 0x1F, 0xF0, 0xFF, rng.randrange(256))) for _ in range(n)], 'random')
    return cases, meta


def build(chk):
    impl = vlib.build_impl('direct', 'asan')
    return vlib.build_model_driver('Lz4'), vlib.build_harness('impl_lz4', impl)


def run(chk):
    chk.trusted += ['hand model Model/DecompModel.v of Face::Table::Table / decompress', 'hand model Model/Lz4Model.v of lz4::decompress, read_sequence, read_literal, overrun_copy, safe_copy, fast_copy',
                    'regex extraction of MINMATCH / LASTLITERALS / MINCODA / MINSRCSIZE and the compiled sizeof(unsigned long) (Gen/GenLz4.v)']
    chk.assumptions += ['pointers do not wrap around the address space; size_t is 64 bits, unsigned long is 8 bytes (checked by tie A)',
                        'the reference LZ4 block decoder is the sequence semantics of the block format: last sequence literals-only, ending exactly at the end of input']
    chk.check_proofs()
    mexe, hexe = build(chk)
    cases, meta = gen_cases(chk)
    ml, il, ierr = vlib.run_pair(mexe, hexe, cases, timeout=2400)
    ndis, classes, dist = 0, set(), {}
    for c, (kind, osz, blk, plain), m, i in zip(cases, meta, ml, il):
        dist[kind] = dist.get(kind, 0) + 1
        if i is None:
            chk.tie_break('harness', 'no result line', c); continue
        ires, mres = i.split()[1:], (m or '').split()[1:]
        key = 'lz4:%d:%s' % (osz, hexs(blk)[:80])
        if ires[:1] == ['ABORT']:
            chk.violation(key, 'decoder read or wrote out of bounds / undefined behaviour: %s' % i, dict(case=c, got=i))
        elif kind == 'wrap':
            if ires[:1] != ['F']:
                chk.violation('lz4:wrap', 'wrapped match length accepted: %s' % i, dict(case=c, got=i))
        elif ires[:1] == ['R']:
            n = int(ires[1])
            got = ires[2] if len(ires) > 2 else '-'
            ref = L.ref_decode(blk)
            if ref is None or hexs(ref) != got:
                chk.violation(key, 'decoder accepted the block and produced %d bytes, but the reference decoder %s'
                              % (n, 'rejects it' if ref is None else 'produces different bytes'), dict(case=c, got=i, reference=None if ref is None else hexs(ref)))
            classes.add((kind, 'R', min(n // 64, 8)))
        else:
            # rejected: must not be a valid shrinking block with proper end conditions
            ref = L.ref_decode(blk)
            if kind.startswith('valid') and ref is not None and len(ref) == osz and len(blk) < osz and len(blk) >= 13:
                chk.violation(key, 'valid LZ4 block (smaller than its plaintext, reference end conditions) rejected', dict(case=c, got=i))
            elif kind.startswith('valid') and ref is not None and len(ref) == osz and len(blk) < osz:
                # the recorded finding: MINSRCSIZE (13, the smallest PLAINTEXT that can hold a match) is tested against the COMPRESSED size
                chk.violation('c14:valid-block-shorter-than-13-bytes-refused', 'valid LZ4 block of %d bytes for %d bytes of data refused: lz4::decompress tests MINSRCSIZE = 13 against the size of the '
                              'compressed block' % (len(blk), osz), dict(case=c, got=i))
            classes.add((kind, 'F', ref is None))
        if mres != ires[:len(mres)] or (ires[:1] == ['R'] and mres[:3] != ires[:3]):
            ndis += 1
            chk.tie_break('correspondence:lz4', 'model %r vs implementation %r' % (m, i), c)
    # --- Face::Table over generated bytes (the constructor + decompress) against Model/DecompModel.v: plain / dropped / replaced by the data,
    # two-sided.  Valid tables (data beginning with the version word), wrong version word, every small announced size, one off the true
    # size, other schemes, tables shorter than the 20 bytes decompress wants, versions below the first compressed one
    import struct as _s
    tb_cases = []
    rngt = chk.rng
    for k in range(4000 if chk.tier == 'thorough' else 500):
        ver = rngt.choice((0x00050000, 0x00030000, 0x00050001, 0x00020000))
        vmin = rngt.choice((0x00050000, 0x00030000, 0, 0, 0, 0x00020000))
        n = rngt.choice((4, 5, 8, 12, 13, 14, 20)) if rngt.random() < 0.25 else rngt.choice((24, 40, 100, 300, 1500))
        data = bytearray(_s.pack('>I', ver if rngt.random() < 0.85 else ver ^ rngt.choice((1, 0x10000, 0x80000000))))
        while len(data) < n:
            data += bytes(rngt.choice((b'ab', b'abcabc', bytes([rngt.randrange(256)]), b'\0\0\0\0', bytes(data[-6:]))))
        data = list(data[:n])
        blk = L.encode_matches(data, L.fast_matches(data)) if rngt.random() < 0.8 else L.encode_matches(data, [])
        r = rngt.random()
        ann = len(data)
        scheme = 1
        if r < 0.25: ann = rngt.choice((0, 1, 2, 3, 4, 5, 8))
        elif r < 0.37: ann = max(0, len(data) + rngt.choice((-1, 1, -4, 4)))
        elif r < 0.45: scheme = rngt.choice((0, 2, 3, 31))
        body = bytes(blk)
        if rngt.random() < 0.1: body = body[:rngt.randrange(0, len(body) + 1)]
        if rngt.random() < 0.1: body = bytes(rngt.randrange(256) for _ in range(rngt.choice((0, 3, 11, 12, 13, 30))))
        t = _s.pack('>II', ver, (scheme << 27) | ann) + body
        if rngt.random() < 0.06: t = t[:rngt.choice((0, 3, 4, 7, 8, 12, 19, 20))]
        tb_cases.append('x%d table %d %s' % (k, vmin, t.hex() or '-'))
    tml, til2, _ = vlib.run_pair(mexe, hexe, tb_cases)
    tdist = {}
    for c, m, i in zip(tb_cases, tml, til2):
        if i is None or m is None:
            chk.tie_break('harness', 'no result line', c[:200]); continue
        ti, tm = i.split()[1:], m.split()[1:]
        kind = ' '.join(ti[:2])
        tdist[kind] = tdist.get(kind, 0) + 1
        classes.add(('table', kind, min(len(c.split()[3]) // 64, 6)))
        if 'ABORT' in ti[:2] or 'LEDGER' in ti:
            chk.violation('c14:table:%s' % c.split()[3][:60], 'Face::Table over %d bytes: %s' % (len(c.split()[3]) // 2, i[:300]), dict(case=c, got=i[:600], model=m[:300])); continue
        if ti != tm:
            ndis += 1
            chk.tie_break('correspondence:table', 'model %r vs implementation %r' % (m[:200], i[:200]), c[:600])
    dist['Face::Table over generated bytes'] = len(tb_cases)
    chk.notes.append('Face::Table verdicts: %s' % ', '.join('%s %d' % kv for kv in sorted(tdist.items())))
    # --- transparency at the level of the font: the Awami test font with Silf (version 5) and Glat (version 3) stored plain against twins
    # whose Silf or Glat is stored as a valid LZ4 block of the same bytes -- every match the one-pass encoder finds, half of them, and
    # blocks that are only 1 .. 16 bytes shorter than the data ("shorter than the data" is all the property asks of an encoding)
    import os, struct
    from props import apiseq, fontkit as K, shapegen as S
    tdir = os.path.join(vlib.BUILD, 'fuzzfonts', 'c14-%s-%d' % (chk.tier, chk.seed)); os.makedirs(tdir, exist_ok=True)
    src = open(os.path.join(vlib.REPO, 'tests/fonts', 'Awami_compressed_test.ttf'), 'rb').read()
    tabs = K.font_tables(src)
    plain_tables = {}
    for tag in (b'Silf', b'Glat'):
        o, ln = tabs[tag]
        t = src[o:o + ln]
        hdr = struct.unpack('>I', t[4:8])[0]
        plain_tables[tag] = bytes(L.ref_decode(list(t[8:]))) if hdr >> 27 == 1 else t
    plain_font = K.replace_table(K.replace_table(src, b'Silf', plain_tables[b'Silf']), b'Glat', plain_tables[b'Glat'])
    pf = os.path.join(tdir, 'plain.ttf'); open(pf, 'wb').write(plain_font)
    twins = []
    rng = chk.rng
    for tag in (b'Silf', b'Glat'):
        data = list(plain_tables[tag])
        ms = L.fast_matches(data)
        encs = [('all matches', L.encode_matches(data, ms)), ('half of the matches', L.encode_matches(data, ms[::2]))]
        for dl in ((1, 2, 5, 8, 9, 16) if chk.tier == 'thorough' else (rng.choice((1, 2, 3)), rng.choice((5, 7, 8)), 9)):
            b = L.encode_barely(data, dl, rng)
            if b is not None:
                encs.append(('%d bytes shorter than the data' % dl, b))
        for what, blk in encs:
            if len(blk) >= len(data) or L.ref_decode(blk) != data:
                continue
            tbl = plain_tables[tag][:4] + struct.pack('>I', (1 << 27) | len(data)) + bytes(blk)
            p = os.path.join(tdir, 'twin%d.ttf' % len(twins))
            open(p, 'wb').write(K.replace_table(plain_font, tag, tbl))
            twins.append((p, '%s as an LZ4 block with %s (%d -> %d bytes)' % (tag.decode(), what, len(data), len(blk))))
    # the size a compressed table announces is part of "arbitrary compressed bytes": every small value (the loader clears the first four
    # bytes of the output before decoding), one off the true size either way, the largest the field holds; unknown schemes
    bad_hdr = []
    for tag in (b'Silf', b'Glat'):
        data = list(plain_tables[tag])
        blk = bytes(L.encode_matches(data, L.fast_matches(data)))
        sizes = [0, 1, 2, 3, 4, 5, 7, 8, len(data) - 1, len(data) + 1, (1 << 27) - 1] if chk.tier == 'thorough' else [rng.choice((0, 1)), rng.choice((2, 3)), rng.choice((4, 5, 7, 8)), len(data) + rng.choice((-1, 1)), (1 << 27) - 1]
        for sz in sizes:
            for scheme in ((1,) if sz != sizes[0] else (1, 2, 31)):
                for body in ((blk,) if sz > 8 else (blk, bytes(rng.randrange(256) for _ in range(rng.choice((12, 40)))))):
                    tbl = plain_tables[tag][:4] + struct.pack('>I', (scheme << 27) | sz) + body
                    p = os.path.join(tdir, 'hdr%d.ttf' % len(bad_hdr))
                    open(p, 'wb').write(K.replace_table(plain_font, tag, tbl))
                    bad_hdr.append((p, '%s announcing scheme %d and %d bytes (the data has %d)' % (tag.decode(), scheme, sz, len(data))))
    _, lines, _ = S.seeds(vlib.REPO, 'Awami_test.ttf')
    ops = ['info'] + ['seg:%d:32:1:-:-:%s' % (j, ''.join('%08x' % c for c in t[:30])) for j, t in enumerate(rng.sample(lines, min(3, len(lines))))] + ['info']
    hapi = apiseq.build('asan')
    tcases = []
    for k, (p, what) in enumerate([(pf, 'plain')] + twins):
        for o, sm in ((0, 'cb'), (7, 'file')):
            tcases.append('t%d.%d%s api %s %d %s - %s' % (k, o, sm, p, o, sm, ' '.join(ops)))
    hcases = []
    for k, (p, what) in enumerate(bad_hdr):
        o, sm = rng.choice(((0, 'cb'), (7, 'cb'), (0, 'file'), (6, 'cb')))
        hcases.append('h%d.%d%s api %s %d %s - %s' % (k, o, sm, p, o, sm, ' '.join(ops[:2])))
    _, hil, _ = vlib.run_pair(None, hapi, hcases, timeout=2400)
    for c, l, (p, what) in zip(hcases, hil, bad_hdr):
        if l is None or 'ABORT' in l.split()[1:3]:
            chk.violation('c14:header:%s' % what[:80], 'a font with %s: loading it aborted (a write outside the announced size, or another fault): %s' % (what, (l or '')[:300]), dict(case=c, got=(l or '')[:600], header=what)); continue
        classes.add(('header', what.split(' bytes')[0][-24:], 'face=ok' in l.split()))
        if 'face=ok' in l.split() and ' scheme 1 ' in what and int(what.split(' and ')[1].split()[0]) < int(what.split('has ')[1].rstrip(')')):
            chk.violation('c14:header-accepted:%s' % what[:80], 'a font with %s loads: the block decodes to more than the announced size' % what, dict(case=c, got=l[:600], header=what))
    dist['compressed tables with a wrong announced size / scheme'] = len(bad_hdr)
    _, til, _ = vlib.run_pair(None, hapi, tcases, timeout=2400)
    ref = {}
    for c, l in zip(tcases, til):
        k = int(c.split()[0][1:].split('.')[0]); var = c.split()[0].split('.')[1]
        what = 'plain' if k == 0 else twins[k - 1][1]
        r = apiseq.results(l) if l else None
        if l is None or 'ABORT' in l.split()[1:3] or r is None:
            chk.violation('c14:transparency-abort:%s' % what[:80], 'loading / shaping the font aborted: %s' % (l or '')[:300], dict(case=c, got=(l or '')[:600], encoding=what)); continue
        if k == 0:
            ref[var] = r
            if r[0] != 'face=ok':
                chk.tie_break('harness', 'the plain twin does not load: %s' % l[:200], c[:200])
            continue
        classes.add(('twin', what.split(' (')[0][:40], r[0]))
        if var in ref and (r[0], r[1]) != (ref[var][0], ref[var][1]):
            chk.violation('c14:transparency:%s' % what[:100], 'the font with %s does not behave as the same font with the table stored plain: %s vs %s'
                          % (what, r[0] + ' ' + ' | '.join(r[1])[:160], ref[var][0] + ' ' + ' | '.join(ref[var][1])[:160]), dict(case=c, got=l[:800], encoding=what))
    dist['compressed twins'] = len(twins)
    chk.cov.update(evaluations=len(cases), distinct_nontrivial=len(classes), disagreements_checked=ndis, distribution=dist,
                   rule='valid blocks from a Python encoder (greedy / random match choices incl. overlapping matches / literal-only) of repetitive, periodic, '
                        'dictionary and random data, long 255-chains, output size +-1, input +-1 byte, guard-targeted mutations, hand-built boundary blocks '
                        '(distance 1..11 x match length x remaining output 5..13), garbage tails, random bytes; exact-size heap buffers under ASan; '
                        'non-trivial = distinct (family, verdict, size class)',
                   samples=[cases[0][:200], cases[len(cases) // 2][:200], cases[-1][:200]], exhaustive=False)


def replay(chk, obj):
    mexe, hexe = build(chk)
    case = obj.get('replay', {}).get('case') or (obj.get('broken') or [{}])[-1].get('case')
    if not case:
        print('no case in replay file'); return 1
    if case.split()[1] == 'api':
        from props import apiseq
        _, il, err = vlib.run_pair(None, apiseq.build('asan'), [case], shards=1)
        print(case[:300]); print(' impl :', (il[0] or '')[:600]); print(err[-1500:])
        return 1 if (il[0] is None or 'ABORT' in il[0].split()[1:3]) else 0
    ml, il, err = vlib.run_pair(mexe, hexe, [case], shards=1)
    print(case[:300]); print(' model:', (ml[0] or '')[:300]); print(' impl :', (il[0] or '')[:300]); print(err[-1500:])
    return 0 if (ml[0] or '').split()[1:3] == (il[0] or '').split()[1:3] else 1
