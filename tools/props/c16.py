"""C16 — table callbacks follow strict borrow discipline; nothing is leaked (DESIGN.md section 6/C16).

Legs: (1) theorems: soundness of the ledger acceptor against the declarative discipline, local contracts of Face::Table;
(2) correspondence: random programs over real Face::Table objects (component harness) against the extracted life-cycle model,
state compared after every operation; (3) the property on the API: random call sequences (create with every option set, from
well-formed and corrupted fonts, shape, query labels / features, justify, cut, destroy in any owner-respecting order) with
callbacks that hand out a fresh copy per get_table, free it at release_table (use after release = ASan error) and log every
call; the extracted ledger must accept every log; LeakSanitizer is queried after every case."""
import os
import vlib
from props import shapegen as S

TABLES = ('Silf', 'Glat', 'Gloc', 'Feat', 'Sill', 'name', 'cmap', 'head', 'hhea', 'hmtx', 'maxp', 'loca', 'glyf', 'OS/2')


def gen_table(chk, n):
    rng = chk.rng
    out = []
    for i in range(n):
        nv = rng.randrange(1, 5)
        ops = []
        for _ in range(rng.choice((1, 2, 3, 5, 8, 12))):
            k = rng.random()
            if k < 0.5: ops.append('n:%d:%s' % (rng.randrange(nv), rng.choice(('a', 'b', 'p', 'p', 'z1', 'z1', 'z0'))))
            elif k < 0.85: ops.append('m:%d:%d' % (rng.randrange(nv), rng.randrange(nv)))
            else: ops.append('c:%d' % rng.randrange(nv))
        out.append('t%d table %d %d %s' % (i, 0 if rng.random() < 0.25 else 1, nv, ' '.join(ops)))
    return out


def gen_ops(rng, font, nops):
    rep = S.repertoire(vlib.REPO, font)
    ops = []
    for _ in range(nops):
        k = rng.random()
        if k < 0.35:
            cps = S.gen_text_seeded(rng, vlib.REPO, font, 8) if rng.random() < 0.5 else S.gen_text(rng, rep, 8)
            enc = rng.choice((8, 16, 32))
            ops.append('seg:%d:%d:%d:%s:%s:%s' % (rng.randrange(3), enc, rng.randrange(8), rng.choice(('-', '0', '1')), rng.choice(('-', '-', '0')), S.utfgen.hexu(S.encode(cps, enc), enc)))
        elif k < 0.42: ops.append('dseg:%d' % rng.randrange(3))
        elif k < 0.50: ops.append('font:%d:%s' % (rng.randrange(2), rng.choice(('12', '96', '0.5', '2048'))))
        elif k < 0.54: ops.append('dfont:%d' % rng.randrange(2))
        elif k < 0.62:
            tag = rng.choice(('0', '656e6720', '76697420', '6b686b20', 'ffffffff'))
            ls = sill_langs(font)
            if ls and rng.random() < 0.6:            # a language the font's Sill table lists, zero- or space-padded
                import struct
                b = struct.pack('>I', rng.choice(ls)).rstrip(b'\0')
                tag = (b + rng.choice((b'\0', b' ')) * 4)[:4].hex()
            ops.append('fv:%d:%s' % (rng.randrange(2), tag))
        elif k < 0.68: ops.append('setfv:%d:%d:%d' % (rng.randrange(2), rng.randrange(12), rng.choice((0, 1, 2, 200, 65535))))
        elif k < 0.70: ops.append('dfv:%d' % rng.randrange(2))
        elif k < 0.82: ops.append('label:%d:%d:%d' % (rng.randrange(14), rng.choice((0x409, 0x409, 0, 0x40c, 1)), rng.choice((8, 16, 32))))
        elif k < 0.90: ops.append('vlabel:%d:%d:%d:%d' % (rng.randrange(14), rng.randrange(4), rng.choice((0x409, 0, 0x40c)), rng.choice((8, 16, 32))))
        elif k < 0.94: ops.append('info')
        elif k < 0.97: ops.append('just:%d:%s' % (rng.randrange(3), rng.choice(('3000', '50', '-1'))))
        else: ops.append('break:%d:%d' % (rng.randrange(3), rng.randrange(1, 6)))
    return ops


def gen_api(chk, n):
    rng = chk.rng
    out = []
    cp = os.path.join(vlib.VERIF, 'corpus', 'c16.txt')
    if os.path.exists(cp):
        for l in open(cp):
            if l.strip() and not l.startswith('#'):
                out.append('k%d api %s' % (len(out), l.strip()))
    for i in range(n):
        font = rng.choice(S.FONTS)
        opts = rng.randrange(8)
        mode = 'cb' if rng.random() < 0.85 else 'cbnorel'
        r = rng.random()
        if r < 0.55:
            corrupt = '-'
        else:
            cs = []
            for _ in range(rng.choice((1, 1, 2))):
                t = rng.choice(TABLES)
                k = rng.random()
                if k < 0.35: cs.append('drop:%s' % t)
                elif k < 0.6: cs.append('trunc:%s:%d' % (t, rng.choice((0, 2, 4, 8, 20, 60, 200, 1000))))
                else: cs.append('set:%s:%d:%d' % (t, rng.choice((0, 1, 2, 3, 4, 5, 6, 7, 8, 10, 12, 16, 20, 30, 50, 100, 200, 400)), rng.randrange(256)))
            corrupt = ','.join(cs)
        ops = gen_ops(rng, font, rng.choice((0, 1, 2, 4, 8, 14)))
        if rng.random() < 0.12:
            # directed: preloadAll with an optional table absent, then the queries that would want it
            opts = rng.choice((6, 7)); corrupt = 'drop:%s' % rng.choice(('name', 'name', 'Sill', 'Feat', 'OS/2', 'hmtx', 'glyf', 'loca')); mode = 'cb'
            ops = ['label:%d:1033:8' % rng.randrange(4), 'info'] + ops[:4] + ['vlabel:%d:0:1033:16' % rng.randrange(4)]
        elif rng.random() < 0.12:
            # directed: every feature hidden (a legal Feat table; features are then reachable by id only), preloadAll, labels by id
            ids = feat_ids(font)
            if ids:
                opts = rng.choice((6, 7, 6, 7, 2, 4, 0)); corrupt = 'hideall'; mode = rng.choice(('cb', 'cb', 'cbnorel'))
                ops = ['info'] + ['flabel:%x:%d:%d' % (rng.choice(ids), rng.choice((1033, 0, 1036)), rng.choice((8, 16, 32))) for _ in range(rng.randrange(1, 4))] + ops[:3] + ['info']
        out.append('a%d api %s %d %s %s %s' % (i, font, opts, mode, corrupt, ' '.join(ops)))
    return out


_featids = {}
_sill = {}


def sill_langs(font):
    if font not in _sill:
        from props import fontkit as K
        try: _sill[font] = K.sill_langs(open(os.path.join(vlib.REPO, 'tests/fonts', font), 'rb').read())
        except Exception: _sill[font] = []
    return _sill[font]


def feat_ids(font):
    if font not in _featids:
        from props import fontkit as K
        try: _featids[font] = [r[1] for r in K.feat_records(open(os.path.join(vlib.REPO, 'tests/fonts', font), 'rb').read())]
        except Exception: _featids[font] = []
    return _featids[font]


def judge_api(chk, c, i, m, classes, stats):
    f = c.split()
    opts, mode = int(f[3]), f[4]
    key_in = ' '.join(f[2:6])
    if i is None:
        chk.tie_break('harness', 'no result line', c[:300]); return 0
    tok = i.split()
    if 'ABORT' in tok[1:3]:
        chk.violation('c16:abort:%s:%s' % (key_in, ' '.join(tok[2:8])[:80]), 'the call sequence aborted (use after release, double free, overflow, UB or watchdog): %s' % i[:400], dict(case=c, got=i[:1500])); return 0
    face_ok = 'face=ok' in tok
    stats['face_ok' if face_ok else 'face_null'] = stats.get('face_ok' if face_ok else 'face_null', 0) + 1
    if 'LEAK=1' in tok:
        chk.violation('c16:leak:%s' % key_in, 'after every object was destroyed LeakSanitizer still finds library allocations', dict(case=c, got=i[:1500]))
    if 'MISUSE' in tok:
        chk.violation('c16:misuse:%s' % key_in, 'release_table was called with a pointer that is not outstanding', dict(case=c, got=i[:1500]))
    log = i.split(' | LOG')[1].split(' | ')[0].split() if ' | LOG' in i else []
    if mode == 'cbnorel':
        if any(t.startswith('R') for t in log):
            chk.violation('c16:norel-release:%s' % key_in, 'a release was attempted although no release callback was given', dict(case=c, got=i[:1500]))
        if (opts & 6) == 6 and 'M' in log and any(t[0] in 'GN' for t in log[log.index('M'):]):
            chk.violation('c16:preload-get:%s' % ' '.join(t for t in log[log.index('M'):] if t[0] in 'GN')[:60], 'gr_face_preloadAll, yet get_table is called after gr_make_face returned', dict(case=c, got=i[:1500]))
        classes.add(('norel', f[2], opts, face_ok))
        return 0
    mres = (m or '').split()
    verdict = mres[2] if len(mres) > 2 else 'none'
    classes.add((f[2], opts, face_ok, f[5] != '-', verdict.split('@')[0], min(len(f) - 6, 6)))
    if verdict == 'ok':
        return 0
    # the ledger rejected: say what the discipline clause is
    after = log[log.index('M'):] if 'M' in log else []
    if verdict.startswith('reject') and (opts & 6) == 6 and any(t[0] in 'GN' for t in after):
        calls = [t.split(':')[0] for t in after if t[0] in 'GN']
        chk.violation('c16:preload-get:%s' % ','.join(sorted(set(calls)))[:60], 'gr_face_preloadAll, yet get_table is called after gr_make_face returned: %s' % ' '.join(calls)[:200], dict(case=c, got=i[:1500], ledger=' '.join(mres[1:])))
    else:
        chk.violation('c16:ledger:%s:%s' % (verdict[:40], key_in), 'the get/release log breaks the borrow discipline (%s): %s' % (verdict, ' '.join(log)[:300]), dict(case=c, got=i[:1500], ledger=' '.join(mres[1:])))
    return 1


def run(chk):
    chk.trusted += ['hand model Model/TableModel.v: life cycle of Face::Table and the ledger of callback events', 'component/API harness harness/impl_api.cpp (callbacks that copy, free and log)',
                    'ASan (use after release, double free) and LeakSanitizer (recoverable leak check after every case)']
    chk.assumptions += ['"never dereferenced afterwards" and "holds no allocation" are decided by ASan/LSan on the explored call sequences (partial)',
                        'ownership-respecting orders only: segments are destroyed before the fonts and face they use']
    chk.partial = True
    chk.check_proofs()
    impl = vlib.build_impl('direct', 'asan')
    hexe0 = vlib.build_harness('impl_api', impl, san='asan')
    hexe = os.path.join(os.path.dirname(hexe0), 'run_api.sh')
    with open(hexe, 'w') as fh:
        fh.write('#!/bin/sh\nexec %s %s\n' % (hexe0, vlib.REPO))
    os.chmod(hexe, 0o755)
    mexe = vlib.build_model_driver('Table')
    thorough = chk.tier == 'thorough'
    # component
    tcases = gen_table(chk, 20000 if thorough else 2000)
    ml, il, _ = vlib.run_pair(mexe, hexe, tcases, timeout=2400)
    ndis, classes, stats = 0, set(), {}
    for c, i, m in zip(tcases, il, ml):
        if i is None or m is None:
            chk.tie_break('harness', 'no result line', c[:300]); continue
        if 'ABORT' in i.split()[1:3]:
            chk.violation('c16:table-abort:%s' % ' '.join(c.split()[2:10])[:120], 'a program over Face::Table objects aborted: %s' % i[:300], dict(case=c, got=i[:800])); continue
        ib, ie = i.rsplit(' | END ', 1); mb, me = m.rsplit(' | END ', 1)
        has_rel = c.split()[2] == '1'
        if ib != mb:
            ndis += 1
            chk.tie_break('correspondence:table', 'Face::Table and Model/TableModel.v disagree: impl %s model %s' % (ib[:300], mb[:300]), c[:300])
        if 'leak=1' in ie or 'MISUSE' in ie or (has_rel and 'lent=0' not in ie):
            chk.violation('c16:table:%s' % ' '.join(c.split()[2:])[:150], 'after destroying every Face::Table a buffer is still lent, leaked or was released twice: %s' % ie, dict(case=c, got=i[:800]))
        if 'bad=true' in me or (has_rel and 'lent=0' not in me) or 'heap=0' not in me:
            ndis += 1
            chk.tie_break('model:table', 'the model itself ends with a buffer outstanding or a misuse: %s' % me, c[:300])
        classes.add(('table', has_rel, min(len(c.split()) - 4, 6), ib.count('H') > 0, ib.count('A') > 2))
    # API
    acases = gen_api(chk, 6000 if thorough else 700)
    _, al, _ = vlib.run_pair(None, hexe, acases, timeout=3000)
    aml, _, _ = vlib.run_pair(mexe, None, [((l or 'x') + ' P=%d' % (1 if (int(c.split()[3]) & 6) == 6 else 0)) for c, l in zip(acases, al)], timeout=2400)
    dist = {}
    for c, i, m in zip(acases, al, aml):
        ndis_before = ndis
        judge_api(chk, c, i, m, classes, stats)
        dist[c.split()[2]] = dist.get(c.split()[2], 0) + 1
    chk.notes.append('api: %s' % sorted(stats.items()))
    chk.cov.update(evaluations=len(tcases) + len(acases), distinct_nontrivial=len(classes), disagreements_checked=ndis, distribution=dist,
                   rule='component: programs of 1-12 construct (absent / failing CheckTable / plain / lz4 ok / lz4 bad) / move-assign / clear operations over 1-4 real Face::Table objects, with and '
                        'without a release callback, state compared with the model after every operation; API: one face per case over the 16 shipped fonts x option bits 0..7 x {release callback, none} x '
                        '{well-formed 55%, dropped / truncated / byte-edited tables}, then 0-14 calls from make_seg (3 slots, 3 encodings, dir 0..7, fonts, feature values), destroy, make/destroy font, '
                        'feature values, labels, value labels, info, justify, linebreak; ledger acceptance of the callback log, LeakSanitizer after every case; non-trivial = distinct '
                        '(font, options, face made, corrupted, ledger verdict, length class)',
                   samples=[tcases[0][:200], acases[0][:200]], exhaustive=False)


def replay(chk, obj):
    case = obj.get('replay', {}).get('case') or (obj.get('broken') or [{}])[-1].get('case')
    if not case:
        print('no case'); return 1
    impl = vlib.build_impl('direct', 'asan')
    hexe0 = vlib.build_harness('impl_api', impl, san='asan')
    hexe = os.path.join(os.path.dirname(hexe0), 'run_api.sh')
    with open(hexe, 'w') as fh:
        fh.write('#!/bin/sh\nexec %s %s\n' % (hexe0, vlib.REPO))
    os.chmod(hexe, 0o755)
    mexe = vlib.build_model_driver('Table')
    _, il, err = vlib.run_pair(None, hexe, [case], shards=1)
    line = il[0] or 'x'
    if case.split()[1] == 'api':
        line += ' P=%d' % (1 if (int(case.split()[3]) & 6) == 6 else 0)
        ml, _, _ = vlib.run_pair(mexe, None, [line], shards=1)
    else:
        ml, _, _ = vlib.run_pair(mexe, None, [case], shards=1)
    print(case[:400]); print(' impl :', line[:2000]); print(' model:', (ml[0] or '')[:600])
    m = (ml[0] or '').split()
    bad = 'ABORT' in line or 'LEAK=1' in line or 'MISUSE' in line or (case.split()[1] == 'api' and case.split()[4] == 'cb' and (len(m) < 3 or m[2] != 'ok'))
    return 1 if bad else 0
