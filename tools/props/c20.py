"""C20 — tag/string conversions (DESIGN.md section 6/C20)."""
import itertools, os
import vlib

ALPHA = [0x01, 0x20, 0x41, 0x61, 0x7a, 0x7f, 0x80, 0x81, 0xa0, 0xc3, 0xfe, 0xff]
LANGS = {0: ['khw', 'ksw', 'kyu'], 1: ['chz', 'vi', 'ro', 'vie'], 2: ['bdh', 'sd', 'ur', 'urd'],
         3: ['chz', 'vi', 'vie'], 4: ['ro', 'ron', 'vi']}


def spec_s2t(bs):
    k = bs[:4] + [0] * (4 - min(4, len(bs)))
    return (k[0] << 24) | (k[1] << 16) | (k[2] << 8) | k[3]


def spec_zeropad(t):
    b = [(t >> 24) & 255, (t >> 16) & 255, (t >> 8) & 255, t & 255]
    i = 4
    while i > 0 and b[i - 1] == 0x20:
        i -= 1
    b = b[:i] + [0] * (4 - i)
    return (b[0] << 24) | (b[1] << 16) | (b[2] << 8) | b[3]


def gen_cases(chk):
    rng, thorough = chk.rng, chk.tier == 'thorough'
    cases = []
    dist = dict(s2t=0, t2s=0, pad=0, lang=0, feat=0)

    def add(kind, *f):
        cases.append('c%d %s %s' % (len(cases), kind, ' '.join(f)))
        dist[kind] += 1
    # corpus first
    cp = os.path.join(vlib.VERIF, 'corpus', 'c20.txt')
    if os.path.exists(cp):
        for l in open(cp):
            l = l.strip()
            if l and not l.startswith('#'):
                f = l.split()
                add(f[0], *f[1:])
    hexs = lambda bs: ''.join('%02x' % b for b in bs) or '-'
    full = 5 if thorough else 3
    for n in range(0, full + 1):
        for t in itertools.product(ALPHA, repeat=n):
            add('s2t', hexs(t))
    for n in range(full + 1, 9):
        for _ in range(40000 if thorough else 1500):
            add('s2t', hexs([rng.choice(ALPHA) if rng.random() < 0.8 else rng.randrange(1, 256) for _ in range(n)]))
    for _ in range(200000 if thorough else 3000):
        n = rng.randrange(0, 9)
        add('s2t', hexs([rng.randrange(1, 256) for _ in range(n)]))
    alpha0 = [0x00] + ALPHA
    lat = list(itertools.product(alpha0, repeat=4))
    if not thorough:
        lat = rng.sample(lat, 6000)
    for t in lat:
        h = '%02x%02x%02x%02x' % t
        add('t2s', h)
        add('pad', h)
    # neighbourhood of the constants zeropad tests (0x20) and of byte-carry boundaries: exhaustive over a small alphabet
    for t in itertools.product([0x00, 0x1f, 0x20, 0x21, 0x41, 0x7f, 0x80, 0xff], repeat=4):
        add('pad', '%02x%02x%02x%02x' % t)
    for _ in range(300000 if thorough else 4000):
        h = '%08x' % rng.getrandbits(32)
        add('t2s', h)
        add('pad', h)
    for fi, ls in LANGS.items():
        for l in ls + ['zzz', 'q']:
            for padc in (0x00, 0x20):
                bs = [ord(c) for c in l] + [padc] * (4 - len(l))
                add('lang', str(fi), '%02x%02x%02x%02x' % tuple(bs))
    # feature ids: every id of each font's Feat table in its space-padded, zero-padded and one-off spellings, + a crafted font whose Feat
    # table holds a space-padded id, and the zero- and the space-padded spelling of one tag side by side
    import struct
    from props import fontkit as K
    fonts = ['Padauk.ttf', 'charis_r_gr.ttf', 'Scheherazadegr.ttf', 'Charis5_eursub.ttf', 'charis_fast.ttf']
    targets = []
    for fi, fn in enumerate(fonts):
        data = open(os.path.join(vlib.REPO, 'tests/fonts', fn), 'rb').read()
        targets.append((str(fi), [r[1] for r in K.feat_records(data)]))
        if fi == 0:
            recs = K.feat_records(data)
            if len(recs) >= 4 and recs[0][0] and struct.unpack('>H', data[K.font_tables(data)[b'Feat'][0]:K.font_tables(data)[b'Feat'][0] + 2])[0] >= 2:
                d = bytearray(data)
                new = [0x78797a20, 0x61620000, 0x61622020]                       # 'xyz ', 'ab\0\0', 'ab  '
                for (r, _, _), nid in zip(recs[1:4], new):
                    d[r:r + 4] = struct.pack('>I', nid)
                tmp = os.path.join(vlib.BUILD, 'fuzzfonts'); os.makedirs(tmp, exist_ok=True)
                p = os.path.join(tmp, 'c20-featids-%s-%d.ttf' % (chk.tier, chk.seed))
                open(p, 'wb').write(bytes(d))
                targets.append((p, new + [recs[0][1]]))
    for where, ids in targets:
        tags = set()
        for t in ids[:40] if not thorough else ids:
            b = struct.pack('>I', t)
            z = b.rstrip(b'\0').rstrip(b' ')
            for padc in (b'\0', b' '):
                tags.add(struct.unpack('>I', (z + padc * 4)[:4])[0])
                tags.add(struct.unpack('>I', (b.rstrip(b'\0') + padc * 4)[:4])[0])
            tags.add(t); tags.add(t | 0x20); tags.add((t & ~0xFF) | 0x20); tags.add((t & ~0xFFFF) | 0x2020)
        for _ in range(20):
            tags.add(rng.getrandbits(32))
        for t in sorted(tags):
            for u in sorted({t, spec_zeropad(t)}):
                add('feat', where, '%08x' % u)
    return cases, dist


def run(chk):
    chk.trusted += ['hand model Model/TagModel.v of gr_str_to_tag / gr_tag_to_str / zeropad',
                    'cxx2v translation of zeropad and of the script strip (Gen/GenTag.v)']
    chk.assumptions += ['char is 8 bits; the C string region is exactly its characters and terminator',
                        'the script tag is not observable through the public API (Face::chooseSilf ignores it), so the script '
                        'entry point is tied by translation (tie A) only']
    chk.check_proofs()
    impl = vlib.build_impl('direct', 'asan')
    hexe = vlib.build_harness('impl_tag', impl)
    mexe = vlib.build_model_driver('Tag')
    cases, dist = gen_cases(chk)

    class H:  # harness wrapper passing the repo path
        pass
    wrapper = os.path.join(os.path.dirname(hexe), 'run_tag.sh')
    with open(wrapper, 'w') as f:
        f.write('#!/bin/sh\nexec %s %s\n' % (hexe, vlib.REPO))
    os.chmod(wrapper, 0o755)
    ml, il, ierr = vlib.run_pair(mexe, wrapper, cases)
    ndis = 0
    nontrivial = set()
    langres = {}
    featres = {}
    for c, m, i in zip(cases, ml, il):
        f = c.split()
        cid, kind = f[0], f[1]
        if i is None:
            chk.tie_break('harness', 'no result line for case', c)
            continue
        ires = i.split()[1:]
        if kind == 'lang':
            langres[(f[2], f[3])] = (ires, c)
            continue
        if kind == 'feat':
            featres[(f[2], f[3])] = (ires, c)
            continue
        mres = (m or '').split()[1:]
        # --- direct oracle: the property restated on the implementation's observable behaviour
        if kind == 's2t':
            bs = [int(f[2][k:k + 2], 16) for k in range(0, len(f[2]), 2)] if f[2] != '-' else []
            want = ['T', '%08x' % spec_s2t(bs)]
            if ires != want:
                chk.violation('str_to_tag:%s' % f[2], 'gr_str_to_tag("%s"): expected %s, implementation gave %s' % (f[2], want, ires),
                              dict(case=c, expected=' '.join(want), got=i))
            nontrivial.add(('s2t', min(len(bs), 5), tuple(b >= 0x80 for b in bs[:4])))
        elif kind == 't2s':
            t = int(f[2], 16)
            want = ['W'] + ['%d:%02x' % (k, (t >> (24 - 8 * k)) & 255) for k in range(4)]
            if ires != want:
                chk.violation('tag_to_str:%s' % f[2], 'gr_tag_to_str(0x%s): expected stores %s, implementation %s' % (f[2], want, ires),
                              dict(case=c, expected=' '.join(want), got=i))
            nontrivial.add(('t2s', tuple(((t >> s) & 255) in (0, 0xAA, 0x55) for s in (24, 16, 8, 0))))
        elif kind == 'pad':
            t = int(f[2], 16)
            want = ['P', '%08x' % spec_zeropad(t)]
            if ires != want:
                chk.violation('zeropad:%s' % f[2], 'zeropad(0x%s): expected %s got %s' % (f[2], want, ires), dict(case=c, got=i))
            nontrivial.add(('pad', spec_zeropad(t) != t, tuple(((t >> s) & 255) == 0x20 for s in (24, 16, 8, 0))))
        # --- tie B
        if mres != ires:
            ndis += 1
            chk.tie_break('correspondence:tag', 'model %r vs implementation %r' % (m, i), c)
    # API-level padding oracle: space- and zero-padded language tags select the same feature values
    for (fi, h), (res, c) in langres.items():
        if h.endswith('20'):
            z = h
            while z.endswith('20'):
                z = z[:-2]
            z = z + '00' * ((8 - len(z)) // 2)
            other = langres.get((fi, z))
            if other and (other[0] != res or res[:1] == ['ABORT']):
                chk.violation('lang-padding:%s:%s' % (fi, h), 'gr_face_featureval_for_lang differs for %s vs %s' % (h, z),
                              dict(case=c, other=other[1], got=res, got_other=other[0]))
            nontrivial.add(('lang', fi, h))
    # ... and space- and zero-padded feature tags select the same feature
    for (where, h), (res, c) in featres.items():
        t = int(h, 16); z = spec_zeropad(t)
        if res[:1] == ['ABORT']:
            chk.violation('feat-padding:%s:%s' % (os.path.basename(where), h), 'gr_face_find_fref(%s) aborted' % h, dict(case=c, got=res)); continue
        if z != t:
            other = featres.get((where, '%08x' % z))
            if other and other[0] != res:
                chk.violation('feat-padding:%s:%s' % (os.path.basename(where), h), 'gr_face_find_fref selects %s for the tag %s and %s for its zero-padded spelling %08x' % (' '.join(res), h, ' '.join(other[0]), z),
                              dict(case=c, other=other[1], got=res, got_other=other[0]))
            nontrivial.add(('feat', os.path.basename(where), res[1:2] == ['none']))
    chk.cov.update(evaluations=len(cases), distinct_nontrivial=len(nontrivial), disagreements_checked=ndis,
                   rule='strings of length 0..8 over a 12-value byte alphabet (exhaustive to length %d) + random bytes, in exact-size heap '
                        'buffers and against a PROT_NONE guard page; tags on a 13^4 lattice + random; non-trivial = distinct '
                        '(operation, length class, high-bit / sentinel / space pattern) classes' % (5 if chk.tier == 'thorough' else 3),
                   samples=[cases[0], cases[len(cases) // 3], cases[len(cases) // 2], cases[-1]], distribution=dist,
                   exhaustive=False)


def replay(chk, obj):
    impl = vlib.build_impl('direct', 'asan')
    hexe = vlib.build_harness('impl_tag', impl)
    case = obj.get('replay', {}).get('case') or (obj.get('broken') or [{}])[0].get('case')
    if not case:
        print('replay file names no case:', obj.get('broken'))
        return 1
    rc, so, se, _ = vlib.run([hexe, vlib.REPO], inp=(case + '\n').encode(), env=vlib.SAN_ENV, timeout=60)
    print(case, '->', so.decode().strip(), se.decode()[-800:])
    exp = obj.get('replay', {}).get('expected')
    if exp:
        print('expected:', exp)
        return 0 if so.decode().split()[1:] == exp.split() else 1
    return 0
