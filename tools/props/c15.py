"""C15 — positions are the design-unit results scaled linearly by the font size (DESIGN.md section 6/C15).

Two legs.  (1) correspondence: the harness dumps the per-slot design-unit inputs of Slot::finalise and the resulting origins
with font = NULL and with unhinted fonts of 2 and 3 times the units per em; the extracted positioning model
(Model/PosModel.v) recomputes them exactly.  (2) the property's own oracle on the API: the same text shaped with font = NULL
and with an unhinted font of P pixels per em, P anywhere in (0, 4096]: identical glyph ids / attachments / associations,
origins, advances and segment advance proportional within single-precision rounding — also after justification."""
import os, re, struct, shutil, struct
import vlib
from props import shapegen as S, engine

_upem = {}


def upem(font):
    if font not in _upem:
        d = open(os.path.join(vlib.REPO, 'tests/fonts', font), 'rb').read()
        n = struct.unpack('>H', d[4:6])[0]
        u = 0
        for i in range(n):
            tag, _, off, ln = struct.unpack('>4sIII', d[12 + 16 * i:28 + 16 * i])
            if tag == b'head' and off + 20 <= len(d):
                u = struct.unpack('>H', d[off + 18:off + 20])[0]
        _upem[font] = u
    return _upem[font]


PPMS = ('0.001', '0.37', '1', '7.25', '9', '12', '13.7', '16', '72', '96.5', '300', '1000.125', '2047', '4095.9', '4096')


def gen(chk, per_font):
    rng = chk.rng
    groups = []            # (meta, [case lines]) : first line is the design-unit run
    for font in S.FONTS:
        u = upem(font)
        if not u:
            continue
        rep = S.repertoire(vlib.REPO, font)
        fd = run.fdirs.get(font, 0)
        for i in range(per_font):
            cps = S.gen_text(rng, rep, 16)
            if not cps:
                continue
            d = fd if rng.random() < 0.6 else rng.randrange(8)
            feats = '-'
            units = S.encode(cps, 32)
            jw = None
            if d == fd and rng.random() < 0.35:
                jw = rng.choice((0.5, 1.0, 1.3, 2.0, 4.0))        # justify to this multiple of the natural width (second pass)
            ppms = [rng.choice(PPMS), '%.6g' % (rng.random() * 4096 + 1e-3), rng.choice((str(u), str(2 * u), str(3 * u), '%.6g' % (u / 2.0)))]
            if rng.random() < 0.3:      # an unhinted font made the other ways: an application handle but no callbacks
                ppms[rng.randrange(3)] += rng.choice('naff')
            g = len(groups)
            lines = []
            for j, p in enumerate(['-'] + ppms):
                ops = ['dump', 'posdump'] if j == 0 else ['dump']
                lines.append(S.case_line('g%d.%d' % (g, j), font, units, 32, dir_=d, ppm=p, feats=feats, ops=ops))
            groups.append((dict(font=font, dir=d, n=len(cps), ppms=ppms, jw=jw, upem=u), lines))
    return groups


def gen_synth(chk, count):
    """hand-built attachment forests with arbitrary positioning inputs (integral design units, so that the exact model applies)"""
    rng = chk.rng
    out = []
    small = (0, 0, 0, 1, -1, 7, -13, 120, -250, 600, -900, 1500, 2048, -3000)
    for c in range(count):
        font = rng.choice(('Padauk.ttf', 'charis_r_gr.ttf', 'Scheherazadegr.ttf', 'general.ttf'))
        r = rng.random()
        n = rng.randrange(105, 125) if r < 0.03 else (rng.randrange(104, 140) if r < 0.07 else rng.choice((1, 2, 3, 3, 4, 5, 6, 8, 12, 20)))
        star = 0.03 <= r < 0.07                  # one parent with more children than the depth cut-off (sibling links count as depth), or a few such parents chained
        order = list(range(n)); rng.shuffle(order)
        rank = {s: k for k, s in enumerate(order)}
        chainy = r < 0.03 or rng.random() < 0.15
        slots = []
        for i in range(n):
            par = -1
            if rank[i] > 0 and rng.random() < (0.97 if chainy else 0.55):
                par = order[rank[i] - 1] if chainy else order[rng.randrange(rank[i])]
            if star and rank[i] > 0:
                par = order[0] if r < 0.05 else order[(rank[i] - 1) // 60 * 60 and (rank[i] - 1) // 60 * 60 - 59]
            adv = rng.choice((0, 0, 500, 640, 1000, 1, -200, 37))
            v = [par, rng.choice(small), rng.choice(small), adv, rng.choice((0, 0, 0, 0, 40, -75, 900)), rng.choice(small), rng.choice(small),
                 rng.choice(small), rng.choice(small), rng.choice((0, 0, 0, 15, 300, -40))]
            slots.append(','.join(str(x) for x in v))
        u = upem(font)
        ppms = [rng.choice(PPMS), '%.6g' % (rng.random() * 4096 + 1e-3), str(u)]
        out.append('s%d synth %s %d %s %s' % (c, font, rng.randrange(2), ','.join(ppms), ' '.join(slots)))
    return out


def synth_oracle(chk, case, line, classes):
    parts = line.split(' | ')
    try:
        xt = parts[1].split()
        u = int([t for t in xt if t.startswith('upem=')][0][5:])
        adv = [float(v) for v in [t for t in xt if t.startswith('adv=')][0][4:].split(',')]
        i0 = xt.index('S') + 1
        i1 = xt.index('K2')
        du = [(float(t.split(',')[15]), float(t.split(',')[16])) for t in xt[i0:i1]]
        a0 = [tuple(float(v) for v in t.split(',')) for t in [p for p in parts if p.startswith('A')][0].split()[1:]]
        big = max([abs(v) for o in du for v in o] + [abs(v) for a in a0 for v in a] + [abs(v) for v in adv] + [1.0])
        for p in parts:
            if not p.startswith('P '):
                continue
            t = p.split()
            s = float(t[1]) / u
            tol = 2e-5 * big * s + 1e-30
            padv = [float(v) for v in t[2][4:].split(',')]
            pairs = [('segment advance x', adv[0], padv[0]), ('segment advance y', adv[1], padv[1])]
            for k, q in enumerate(t[3:]):
                ox, oy, ax, ay = (float(v) for v in q.split(','))
                pairs += [('slot %d origin x' % k, du[k][0], ox), ('slot %d origin y' % k, du[k][1], oy), ('slot %d advance x' % k, a0[k][0], ax), ('slot %d advance y' % k, a0[k][1], ay)]
            for nm, a, b in pairs:
                if not (abs(a * s - b) <= tol):
                    return '%s: design units %.9g * %s/%d = %.9g but font gives %.9g (tolerance %.3g)' % (nm, a, t[1], u, a * s, b, tol)
    except (ValueError, IndexError):
        return 'unparsable'
    return None


STRUCT = (0, 1, 2, 3, 4, 5, 6, 7)      # gid, index, before, after, original, parent, child, sibling


def compare(mt, base, other, ppm, slack_du=0.0):
    """base / other: parsed dumps (font NULL / font of ppm).  Returns None or a description of the first deviation."""
    ppm = str(ppm).rstrip('naf')
    s = float(ppm) / mt['upem']
    if base['n'] != other['n'] or base['nc'] != other['nc']:
        return 'slot or char count differs: %d/%d vs %d/%d' % (base['n'], base['nc'], other['n'], other['nc'])
    if base['wf'] != other['wf']:
        return 'well-formedness verdict differs'
    for k, (a, b) in enumerate(zip(base['slots'], other['slots'])):
        for f in STRUCT:
            if a[f] != b[f]:
                return 'slot %d field %d (gid,index,before,after,original,parent,child,sibling) differs: %s vs %s' % (k, f, a[f], b[f])
    if base['cinfo'] != other['cinfo']:
        return 'char info differs'
    vals = [abs(float(x)) for sl in base['slots'] for x in sl[8:12]] + [abs(float(x)) for x in base['adv'].split(',')]
    big = max(vals + [1.0])
    # justification hands out whole design units (int truncation of width / scale): a rounding of the target width can move a unit per slot
    tol = 2e-5 * big * s + slack_du * s + 1e-30
    pairs = [('segment advance %s' % 'xy'[i], float(a), float(b)) for i, (a, b) in enumerate(zip(base['adv'].split(','), other['adv'].split(',')))]
    for k, (a, b) in enumerate(zip(base['slots'], other['slots'])):
        for f, nm in ((8, 'origin x'), (9, 'origin y'), (10, 'advance x'), (11, 'advance y')):
            pairs.append(('slot %d %s' % (k, nm), float(a[f]), float(b[f])))
    for nm, a, b in pairs:
        if not (abs(a * s - b) <= tol):
            return '%s: design units %.9g * %.9g/%d = %.9g but font gives %.9g (tolerance %.3g)' % (nm, a, float(ppm), mt['upem'], a * s, b, tol)
    return None


def just_lines(mt, g, lines, base):
    """second pass for groups with justification: the natural width is known now"""
    w = float(base['adv'].split(',')[0])
    if not (w > 0) or mt['jw'] is None:
        return []
    out = []
    f = lines[0].split()
    for j, p in enumerate(['-'] + mt['ppms']):
        width = w * mt['jw'] * (1.0 if p == '-' else float(str(p).rstrip('naf')) / mt['upem'])
        ff = list(f)
        ff[0] = 'j%d.%d' % (g, j); ff[7] = p
        out.append(' '.join(ff[:10]) + ' dump just:0:%.9g:0:-:- redump' % width)
    return out


def run(chk):
    chk.trusted += ['hand model Model/PosModel.v (exact arithmetic) of Slot::finalise and the base loop of Segment::positionSlots; the harness abstraction that reads '
                    'shift / advance / attach / with / just / collision offsets out of the slots (posdump)']
    chk.assumptions += ['the theorems range over positive integer scales (exact in single precision); rounding at other sizes is bounded by the differential oracle only',
                        'hinted fonts (application advance callbacks) are outside the property']
    chk.partial = True
    chk.check_proofs()
    w = engine.build(chk)
    mexe = vlib.build_model_driver('Pos')
    pre = [S.case_line('p%d' % k, f, [0x41], 32) for k, f in enumerate(S.FONTS)]
    _, pl, _ = vlib.run_pair(None, w, pre, timeout=600, shards=4)
    for f, l in zip(S.FONTS, pl):
        for t in (l or '').split():
            if t.startswith('fdir='):
                run.fdirs[f] = int(t[5:])
    groups = gen(chk, 1200 if chk.tier == "thorough" else 60)
    cases = [l for _, ls in groups for l in ls]
    _, il, _ = vlib.run_pair(None, w, cases, timeout=2400)
    res = dict(zip((c.split()[0] for c in cases), il))
    # model leg
    firsts = [ls[0] for _, ls in groups]
    ml, _, _ = vlib.run_pair(mexe, None, [res[c.split()[0]] or 'x' for c in firsts], timeout=2400)
    mstat, ndis, classes, dist = {}, 0, set(), {}
    for (mt, ls), c, m in zip(groups, firsts, ml):
        st = ' '.join((m or 'x X none').split()[1:3])
        mstat[st] = mstat.get(st, 0) + 1
        if 'MISMATCH' in st or 'unparsable' in st:
            ndis += 1
            chk.tie_break('correspondence:positioning', 'Model/PosModel.v and Slot::finalise/positionSlots disagree: %s' % (m or '')[:400], c[:400])
    # oracle leg, then the justified second pass
    second = []
    for g, (mt, ls) in enumerate(groups):
        dist[mt['font']] = dist.get(mt['font'], 0) + 1
        outs = [res.get(l.split()[0]) for l in ls]
        if any(o is None for o in outs):
            chk.tie_break('harness', 'no result line', ls[0][:300]); continue
        if any('ABORT' in o.split()[1:3] for o in outs):
            chk.violation('c15:abort:%s' % ' '.join(ls[0].split()[2:8]), 'shaping did not return normally', dict(cases=ls, got=[o[:300] for o in outs])); continue
        if outs[0].split()[1] in ('NOFACE', 'NULLSEG'):
            continue
        try:
            base = S.parse_dump(' '.join(outs[0].split(' | ')[0].split()[1:]))
        except (ValueError, IndexError):
            chk.tie_break('harness', 'unparsable dump', ls[0][:300]); continue
        for l, o, p in zip(ls[1:], outs[1:], mt['ppms']):
            try:
                other = S.parse_dump(' '.join(o.split(' | ')[0].split()[1:]))
            except (ValueError, IndexError):
                chk.violation('c15:nodump:%s' % ' '.join(l.split()[2:10])[:150], 'shaping with a font gave no segment where font = NULL gave one', dict(cases=[ls[0], l], got=[outs[0][:600], o[:600]])); continue
            bad = compare(mt, base, other, p)
            classes.add((mt['font'], mt['dir'], min(base['n'], 6), any(s[5] != '-1' for s in base['slots']), bad is None))
            if bad:
                chk.violation('c15:%s:%s' % (bad.split(':')[0].split(' differs')[0][:40], ' '.join(l.split()[2:10])[:150]),
                              'font of %s ppm vs font = NULL: %s' % (p, bad), dict(cases=[ls[0], l], upem=mt['upem'], ppm=p, got=[outs[0][:1500], o[:1500]]))
        jl = just_lines(mt, g, ls, base)
        if jl:
            second.append((mt, jl))
    nj = 0
    if second:
        jc = [l for _, ls in second for l in ls]
        _, jl, _ = vlib.run_pair(None, w, jc, timeout=2400)
        jres = dict(zip((c.split()[0] for c in jc), jl))
        for mt, ls in second:
            outs = [jres.get(l.split()[0]) for l in ls]
            if any(o is None for o in outs):
                chk.tie_break('harness', 'no result line', ls[0][:300]); continue
            if any('ABORT' in o.split()[1:3] for o in outs):
                chk.violation('c15:abort-just:%s' % ' '.join(ls[0].split()[2:8]), 'justification did not return normally', dict(cases=ls, got=[o[:300] for o in outs])); continue
            try:
                dumps = [S.parse_dump(o.split(' | ')[-1]) for o in outs]
            except (ValueError, IndexError):
                continue
            nj += 1
            for l, d, p in zip(ls[1:], dumps[1:], mt['ppms']):
                bad = compare(mt, dumps[0], d, p, slack_du=dumps[0]['n'] + 1.0)
                classes.add((mt['font'], mt['dir'], 'just', mt['jw'], bad is None))
                if bad:
                    chk.violation('c15:just:%s:%s' % (bad.split(':')[0][:40], ' '.join(l.split()[2:10])[:150]),
                                  'justified line, font of %s ppm vs font = NULL: %s' % (p, bad), dict(cases=[ls[0], l], upem=mt['upem'], ppm=p, got=[outs[0][:1500], outs[ls.index(l)][:1500]]))
    # a cluster deeper than the cut-off of Slot::finalise (child and sibling links both count) whose slots were positioned once in design
    # units while the rules ran (a rule that reads position.x): the slots the final positioning does not reach (F35)
    from props import fontkit as K, cmapgen, c06
    dbase = K.enrich(open(os.path.join(vlib.REPO, 'tests/fonts', c06.BASE), 'rb').read())
    dcm = cmapgen.parse_font_cmap(os.path.join(vlib.REPO, 'tests/fonts', c06.BASE))
    ga, gt = dcm[0x61], dcm[0x74]
    dprog = [dict(maxloop=3, alpha=[ga, gt], rules=[
        dict(pre=1, pat=[{ga}, {ga}], acts=[[('T', -1)]]),
        dict(pre=1, pat=[{ga}, {gt}, {gt}, {gt}], acts=[[('T', -1)], [('T', -2)], [('T', -3)]], con=(1, 'g', -30000, None, None, None, 'posx'))])]
    ddir = os.path.join(vlib.BUILD, 'fuzzfonts', 'c15d-%s-%d' % (chk.tier, chk.seed))
    shutil.rmtree(ddir, ignore_errors=True); os.makedirs(ddir)
    dfp = os.path.join(ddir, 'deep.ttf')
    open(dfp, 'wb').write(K.build_font(dbase, dprog, 0))
    dcases = []
    for na in (20, 97, 98, 99, 100, 120):
        units = [0x61] * na + [0x74] * 3 + [0x61]
        dcases.append(S.case_line('deep%d.0' % na, dfp, units, 32, ops=('dump',)))
        for pp in ('10', '100', '380.221'):
            dcases.append(S.case_line('deep%d.%s' % (na, pp), dfp, units, 32, ppm=pp, ops=('dump',)))
    _, dl, _ = vlib.run_pair(None, w, dcases, timeout=1200, shards=2)
    dres = dict(zip((c.split()[0] for c in dcases), dl))
    upem_d = struct.unpack('>H', dbase[K.font_tables(dbase)[b'head'][0] + 18:][:2])[0]
    for na in (20, 97, 98, 99, 100, 120):
        o0 = dres.get('deep%d.0' % na)
        if not o0 or 'ABORT' in o0.split()[1:3] or o0.split()[1] in ('NOFACE', 'NULLSEG'):
            if o0 and 'ABORT' in o0.split()[1:3]:
                chk.violation('c15:deep-abort', 'shaping a deep cluster aborted: %s' % o0[:200], dict(cases=['deep%d' % na], got=[o0[:300]]))
            continue
        b0 = S.parse_dump(' '.join(o0.split(' | ')[0].split()[1:]))
        # link depth of every slot: parent depth + 1 + position among its parent's children (finalise passes depth + 1 to child and sibling)
        idx = {sl[1]: k for k, sl in enumerate(b0['slots'])}
        def ldepth(k, seen=0):
            sl = b0['slots'][k]
            if sl[5] == '-1' or seen > 400:
                return 0
            par = idx.get(sl[5])
            if par is None:
                return 0
            # children of par in chain order
            ch, c = [], b0['slots'][par][6]
            while c != '-1' and c in idx and len(ch) < 400:
                ch.append(c); c = b0['slots'][idx[c]][7]
            return ldepth(par, seen + 1) + 1 + (ch.index(sl[1]) if sl[1] in ch else 0)
        for pp in ('10', '100', '380.221'):
            o = dres.get('deep%d.%s' % (na, pp))
            if not o or o.split()[1] in ('NOFACE', 'NULLSEG'):
                continue
            other = S.parse_dump(' '.join(o.split(' | ')[0].split()[1:]))
            bad = compare(dict(upem=upem_d), b0, other, pp)
            classes.add(('deep', na, bad is None))
            if bad:
                m_ = re.match(r'slot (\d+) ', bad)
                deep = m_ is not None and ldepth(int(m_.group(1))) > 100
                key = 'c15:depth-cutoff-keeps-stale-position' if deep else 'c15:deep:%s' % bad.split(':')[0][:40]
                chk.violation(key, 'cluster of %d chained slots + 3, font of %s ppm vs font = NULL: %s%s' % (na, pp, bad, ' [the slot lies more than 100 child / sibling links below its base: Slot::finalise does not visit it and it keeps the '
                              'design-unit position an earlier internal positionSlots(NULL) gave it]' if deep else ''), dict(cases=[c for c in dcases if c.split()[0] in ('deep%d.0' % na, 'deep%d.%s' % (na, pp))], got=[o0[:600], o[:600]], upem=upem_d, ppm=pp, font_gz_b64=c06.blob(dfp)))
                break
    shutil.rmtree(ddir, ignore_errors=True)
    # hand-built attachment forests: exact model + proportionality at arbitrary sizes
    sc = gen_synth(chk, 6000 if chk.tier == 'thorough' else 600)
    _, sl, _ = vlib.run_pair(None, w, sc, timeout=2400)
    sm, _, _ = vlib.run_pair(mexe, None, [l or 'x' for l in sl], timeout=2400)
    for c, l, m in zip(sc, sl, sm):
        if l is None or ' SYNTH ' not in l:
            if l and 'ABORT' in l:
                chk.violation('c15:synth-abort', 'final positioning of a hand-built forest did not return normally: %s' % l[:200], dict(cases=[c], got=[l[:300]]))
            else:
                chk.tie_break('harness', 'no synth result: %s' % (l or '')[:100], c[:300])
            continue
        st = ' '.join((m or 'x X none').split()[1:3])
        mstat['synth ' + st] = mstat.get('synth ' + st, 0) + 1
        if ' tie=1' in (m or ''):
            mstat['synth with an exact tie'] = mstat.get('synth with an exact tie', 0) + 1
        if st != 'X ok':
            ndis += 1
            chk.tie_break('correspondence:positioning', 'Model/PosModel.v and Slot::finalise/positionSlots disagree on a hand-built forest: %s' % (m or '')[:400], c[:600])
        bad = synth_oracle(chk, c, l, classes)
        f = c.split()
        classes.add(('synth', f[2], f[3], min(len(f) - 5, 8), sum(1 for q in f[5:] if not q.startswith('-1,')) > 0, bad is None))
        if bad:
            # where the exact (design-unit) computation compares two EQUAL quantities, single-precision rounding of the scaled operands decides
            # the branch with a font and the whole cluster can move by the amount at stake: the recorded finding c15:rounding-decides-an-exact-tie.
            # Model/PosModel.v (bases_tie) says whether this forest has such a tie; the attribution needs the model to agree with the engine
            # on the design-unit run (X ok), so that the tie is one the engine really meets.
            tie = st == 'X ok' and ' tie=1' in (m or '')
            key = 'c15:rounding-decides-an-exact-tie' if tie else 'c15:synth:%s' % bad.split(':')[0].split(' ', 2)[-1][:30]
            chk.violation(key, 'hand-built forest, font vs font = NULL: %s%s' % (bad, ' [the design-unit computation compares equal quantities: rounding of the scaled values decides the branch]' if tie else ''), dict(cases=[c], got=[l[:2500]]))
    chk.notes.append('model leg verdicts: %s' % sorted(mstat.items()))
    dist.update({'model: ' + k: v for k, v in mstat.items()})
    chk.cov.update(evaluations=len(cases) + sum(len(ls) for _, ls in second) + len(sc), distinct_nontrivial=len(classes), disagreements_checked=ndis, distribution=dist,
                   rule='texts over the shipped fonts (60%% in the font direction, else dir 0..7), each shaped with font = NULL and three unhinted fonts: one ppm from %s, one uniform in (0,4096], one of '
                        '{upem, 2upem, 3upem, upem/2}; %d groups justified to {0.5,1,1.3,2,4} x natural width at every size; structure must be identical, origins/advances/segment advance '
                        'proportional within 2e-5 of the largest coordinate (justified lines: plus one design unit per slot, justification distributes whole units); plus %d hand-built attachment forests (1..20 slots, 3%% chains of 105-125, random shift/advance/attach/with/just incl. advance.y and negative values) positioned by Segment::positionSlots at NULL, 2upem, 3upem and three ppm; design-unit inputs + exact-scale outputs replayed through the extracted positioning model; non-trivial = distinct '
                        '(font, dir, size class, has attachments, verdict)' % (list(PPMS), nj, len(sc)),
                   samples=[cases[0][:200], cases[len(cases) // 2][:200]], exhaustive=False)


run.fdirs = {}


def replay(chk, obj):
    rp = obj.get('replay', {})
    cs = rp.get('cases') or [c for c in [(obj.get('broken') or [{}])[-1].get('case')] if c]
    if not cs:
        print('no case'); return 1
    if rp.get('font_gz_b64'):
        import base64, zlib
        tmp = os.path.join(vlib.BUILD, 'fuzzfonts', 'replay'); os.makedirs(tmp, exist_ok=True)
        fp = os.path.join(tmp, 'replay.ttf')
        open(fp, 'wb').write(zlib.decompress(base64.b64decode(rp['font_gz_b64'])))
        cs = [' '.join(c.split()[:2] + [fp] + c.split()[3:]) for c in cs]
    w = engine.build(chk); mexe = vlib.build_model_driver('Pos')
    _, il, _ = vlib.run_pair(None, w, cs, shards=1)
    ml, _, _ = vlib.run_pair(mexe, None, [il[0] or 'x'], shards=1)
    for c, l in zip(cs, il):
        print(c[:300]); print(' impl :', (l or '')[:1500])
    print(' model:', (ml[0] or '')[:600])
    if cs[0].split()[1] == 'synth':
        bad = synth_oracle(chk, cs[0], il[0] or '', set())
        print(' oracle:', bad or 'proportional')
        return 1 if bad or 'MISMATCH' in (ml[0] or '') else 0
    if len(cs) >= 2 and rp.get('ppm') and all(il[:2]):
        try:
            a = S.parse_dump(il[0].split(' | ')[-1] if ' just' in il[0] else ' '.join(il[0].split(' | ')[0].split()[1:]))
            b = S.parse_dump(il[1].split(' | ')[-1] if ' just' in il[1] else ' '.join(il[1].split(' | ')[0].split()[1:]))
        except (ValueError, IndexError):
            return 1
        bad = compare(dict(upem=rp['upem']), a, b, rp['ppm'], slack_du=(a['n'] + 1.0) if ' just' in il[0] else 0.0)
        print(' oracle:', bad or 'proportional')
        return 1 if bad else 0
    return 1 if 'MISMATCH' in (ml[0] or '') else 0
