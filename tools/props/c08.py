"""C08 — shaping is a pure function of its arguments (DESIGN.md section 6/C08).

Legs: (1) theorems over Model/MemoModel.v: the only state a face keeps between calls (the lazily filled glyph cache) is
observationally pure — after any history a lookup returns what it returns on the fresh face; (2) correspondence: the model,
instantiated with the glyph table read from a preloaded face, predicts every GlyphCache::glyph answer of random lookup histories
on lazy and preloaded faces; (3) the property on the API: a probe gr_make_seg (+ face report) after a random history of other
calls on the same face and fonts must equal the same probe on a freshly made face, and the face report before = after."""
import vlib
from props import shapegen as S, c16, apiseq

RTL = ('Scheherazadegr.ttf', 'Scheherazadegr_noglyfs.ttf', 'Awami_test.ttf', 'AwamiNastaliq-Regular.ttf', 'Awami_compressed_test.ttf')


def safe_history(rng, font, n):
    """history ops; justification only on segments shaped in the font's own direction (C19's recorded defects otherwise)"""
    fd = 1 if font in RTL else 0
    ops, segdir = [], {}
    for o in c16.gen_ops(rng, font, n):
        a = o.split(':')
        if a[0] == 'seg':
            if a[1] == '2':
                a[1] = '1'                      # slot 2 is the probe's
            segdir[a[1]] = int(a[3]); o = ':'.join(a)
        if a[0] in ('dseg', 'break') and a[1] == '2':
            continue
        if a[0] == 'just' and (a[1] == '2' or segdir.get(a[1]) != fd):
            continue
        ops.append(o)
    return ops


def run(chk):
    chk.trusted += ['hand model Model/MemoModel.v of GlyphCache::glyph / its constructor; the table reader is an oracle (a pure function of the immutable tables)',
                    'API harness harness/impl_api.cpp']
    chk.assumptions += ['per-call state (Segment, SlotMap, Machine, FSM) is created inside gr_make_seg: its freshness is checked by the API leg, not proved',
                        'justification in histories only on segments shaped in the font direction (C19 known findings F15/F16 otherwise)']
    chk.partial = True
    chk.check_proofs()
    hexe = apiseq.build('asan')
    mexe = vlib.build_model_driver('Memo')
    thorough = chk.tier == 'thorough'
    rng = chk.rng
    ng, ndis = apiseq.glyph_leg(chk, hexe, mexe, S.FONTS, 60 if thorough else 8)
    cases, meta = [], []
    for k in range(3000 if thorough else 350):
        font = rng.choice(S.FONTS)
        opts = rng.randrange(8)
        src = rng.choice(('cb', 'cb', 'file'))
        probe = apiseq.probe_op(rng, font)
        usefont = rng.random() < 0.4
        pre = ['font:0:%s' % rng.choice(('12', '96.5'))] if usefont else []
        if usefont:
            a = probe.split(':'); a[4] = '0'; probe = ':'.join(a)
        hist = safe_history(rng, font, rng.choice((1, 3, 6, 12, 20)))
        if rng.random() < 0.3:
            hist.insert(rng.randrange(len(hist) + 1), probe.replace('seg:2:', 'seg:1:'))      # the same call earlier
        hist = [o for o in hist if not o.startswith('font:0') and not o.startswith('dfont:0')]
        sup = []
        if rng.random() < 0.4:
            # echo family: the history ends with the very character the probe starts with / asks about (last-lookup state)
            rep = S.repertoire(vlib.REPO, font)
            astral = [c for c in rep if c > 0xFFFF]
            x = rng.choice(([rng.choice(astral)] if astral else []) + [0x1F600, 0x10FFFF, 0xFFFF, 0x378, rng.choice(rep), rng.choice(rep)] + S.pseudos(vlib.REPO, font)[:2])
            y = rng.choice(rep)
            hist.append('seg:1:32:%d:-:-:%s' % (rng.randrange(2), ''.join('%08x' % c for c in (y, x))))
            a = probe.split(':'); a[2] = '32'; a[6] = ''.join('%08x' % c for c in (x, y, x)); probe = ':'.join(a)
            sup = ['sup:%x,%x,%x' % (x, y, x)]
        cases.append('r%d api %s %d %s - %s' % (k, font, opts, src, ' '.join(pre + ['info'] + sup + [probe] + sup + ['info'])))
        cases.append('h%d api %s %d %s - %s' % (k, font, opts, src, ' '.join(pre + ['info'] + sup + hist + [probe] + sup + ['info'])))
        meta.append((font, opts, len(hist)))
    _, il, _ = vlib.run_pair(None, hexe, cases, timeout=3000)
    classes, dist = set(), {}
    for k, (font, opts, nh) in enumerate(meta):
        ref, his = il[2 * k], il[2 * k + 1]
        rc, hc = cases[2 * k], cases[2 * k + 1]
        dist[font] = dist.get(font, 0) + 1
        for c, l in ((rc, ref), (hc, his)):
            if l is None:
                chk.tie_break('harness', 'no result line', c[:300])
            elif 'ABORT' in l.split()[1:3]:
                chk.violation('c08:abort:%s' % ' '.join(c.split()[2:5]), 'the call sequence aborted: %s' % l[:300], dict(cases=[c], got=[l[:800]]))
        r1, r2 = apiseq.results(ref), apiseq.results(his)
        if not r1 or not r2:
            continue
        if r1[0] != r2[0]:
            chk.violation('c08:face:%s %d' % (font, opts), 'gr_make_face gives different verdicts for the same arguments', dict(cases=[rc, hc], got=[ref[:300], his[:300]])); continue
        if r1[0] != 'face=ok':
            classes.add((font, 'noface')); continue
        pr = [p for p in r1[1] if p.startswith('seg=')]; ph = [p for p in r2[1] if p.startswith('seg=')]
        i1 = [p for p in r1[1] if p.startswith('info=') or p.startswith('sup=')]; i2 = [p for p in r2[1] if p.startswith('info=') or p.startswith('sup=')]
        classes.add((font, opts, min(nh, 8), pr[-1][:12] if pr else ''))
        if pr and ph and pr[-1] != ph[-1]:
            chk.violation('c08:probe:%s' % ' '.join(hc.split()[2:5] + hc.split()[-2:-1])[:160], 'the same gr_make_seg call returns a different segment after a history of other calls on the face', dict(cases=[rc, hc], got=[pr[-1][:1500], ph[-1][:1500]]))
        if len(set(p for p in i1 + i2 if p.startswith('info='))) > 1 or len(set(p for p in i1 + i2 if p.startswith('sup='))) > 1:
            chk.violation('c08:report:%s %d' % (font, opts), 'what the face reports about itself (glyphs, features, languages, character support, face info) changed with use', dict(cases=[rc, hc], got=[i1[0][:600], i1[-1][:600], i2[0][:600], i2[-1][:600]]))
    chk.cov.update(evaluations=ng + len(cases), distinct_nontrivial=len(classes), disagreements_checked=ndis, distribution=dist,
                   rule='glyph cache: lookup histories (1-20 gids incl. 0, n-1, n, 65535) before and after a shaping call on lazy / preloaded faces against the model; API: for each of the %d (font, option bits 0..7, '
                        'cb|file) a probe gr_make_seg (3 encodings, dir 0..7, with/without gr_font) + face report on a fresh face vs after 1-20 other calls (segments in other slots, destroys, fonts, feature values, '
                        'labels, info, linebreaks, justification in the font direction, the same call earlier); non-trivial = distinct (font, options, history length class, probe result class)' % len(meta),
                   samples=[cases[0][:200], cases[1][:200]], exhaustive=False)


def replay(chk, obj):
    cs = obj.get('replay', {}).get('cases') or [c for c in [(obj.get('broken') or [{}])[-1].get('case')] if c]
    if not cs:
        print('no case'); return 1
    hexe = apiseq.build('asan')
    _, il, _ = vlib.run_pair(None, hexe, cs, shards=1)
    for c, l in zip(cs, il):
        print(c[:400]); print(' impl :', (l or '')[:1200])
    if len(cs) == 2 and all(il):
        r1, r2 = apiseq.results(il[0]), apiseq.results(il[1])
        if r1 and r2:
            p1 = [p for p in r1[1] if p.startswith('seg=')]; p2 = [p for p in r2[1] if p.startswith('seg=')]
            same = bool(p1 and p2 and p1[-1] == p2[-1])
            print(' probe equal:', same)
            return 0 if same else 1
    return 1 if any('ABORT' in (l or '') for l in il) else 0
