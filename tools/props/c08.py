"""C08 — shaping is a pure function of its arguments (DESIGN.md section 6/C08).

Legs: (1) theorems over Model/MemoModel.v: the only state a face keeps between calls (the lazily filled glyph cache) is
observationally pure — after any history a lookup returns what it returns on the fresh face; (2) correspondence: the model,
instantiated with the glyph table read from a preloaded face, predicts every GlyphCache::glyph answer of random lookup histories
on lazy and preloaded faces; (3) the property on the API: a probe gr_make_seg (+ face report) after a random history of other
calls on the same face and fonts must equal the same probe on a freshly made face, and the face report before = after."""
import os
import vlib
from props import shapegen as S, c16, apiseq

RTL = ('Scheherazadegr.ttf', 'Scheherazadegr_noglyfs.ttf', 'Awami_test.ttf', 'AwamiNastaliq-Regular.ttf', 'Awami_compressed_test.ttf')


def safe_history(rng, font, n):
    """history ops; justification only on segments shaped in the font's own direction (C19's recorded defects otherwise)"""
    fd = 1 if font in RTL else 0
    ops, segdir = [], {}
    for o in c16.gen_ops(rng, font, n):
        a = o.split(':')
        if a[0] == 'seg':
            if a[1] == '2':
                a[1] = '1'                      # slot 2 is the probe's
            segdir[a[1]] = int(a[3]); o = ':'.join(a)
        if a[0] in ('dseg', 'break') and a[1] == '2':
            continue
        if a[0] == 'just' and (a[1] == '2' or segdir.get(a[1]) != fd):
            continue
        ops.append(o)
    return ops


def K_tables(data):
    import struct
    n = struct.unpack('>H', data[4:6])[0]
    return {data[12 + 16 * i:16 + 16 * i]: struct.unpack('>II', data[20 + 16 * i:28 + 16 * i]) for i in range(n)}


def run(chk):
    chk.trusted += ['hand model Model/MemoModel.v of GlyphCache::glyph / its constructor; the table reader is an oracle (a pure function of the immutable tables)',
                    'API harness harness/impl_api.cpp']
    chk.assumptions += ['per-call state (Segment, SlotMap, Machine, FSM) is created inside gr_make_seg: its freshness is checked by the API leg, not proved',
                        'justification in histories only on segments shaped in the font direction (C19 known findings F15/F16 otherwise)']
    chk.partial = True
    chk.check_proofs()
    hexe = apiseq.build('asan')
    mexe = vlib.build_model_driver('Memo')
    thorough = chk.tier == 'thorough'
    rng = chk.rng
    ng, ndis = apiseq.glyph_leg(chk, hexe, mexe, S.FONTS, 60 if thorough else 8)
    cases, meta = [], []
    for k in range(3000 if thorough else 350):
        font = rng.choice(S.FONTS)
        opts = rng.randrange(8)
        src = rng.choice(('cb', 'cb', 'file'))
        probe = apiseq.probe_op(rng, font)
        usefont = rng.random() < 0.4
        pre = ['%s:0:%s' % (rng.choice(('font', 'font', 'hfont')), rng.choice(('12', '96.5')))] if usefont else []      # hfont: a font with an advance callback
        if usefont:
            a = probe.split(':'); a[4] = '0'; probe = ':'.join(a)
        hist = safe_history(rng, font, rng.choice((1, 3, 6, 12, 20)))
        if rng.random() < 0.3:
            hist.insert(rng.randrange(len(hist) + 1), probe.replace('seg:2:', 'seg:1:'))      # the same call earlier
        hist = [o for o in hist if not o.startswith('font:0') and not o.startswith('dfont:0')]
        sup = []
        if rng.random() < 0.4:
            # echo family: the history ends with the very character the probe starts with / asks about (last-lookup state)
            rep = S.repertoire(vlib.REPO, font)
            astral = [c for c in rep if c > 0xFFFF]
            x = rng.choice(([rng.choice(astral)] if astral else []) + [0x1F600, 0x10FFFF, 0xFFFF, 0x378, rng.choice(rep), rng.choice(rep)] + S.pseudos(vlib.REPO, font)[:2])
            y = rng.choice(rep)
            hist.append('seg:1:32:%d:-:-:%s' % (rng.randrange(2), ''.join('%08x' % c for c in (y, x))))
            a = probe.split(':'); a[2] = '32'; a[6] = ''.join('%08x' % c for c in (x, y, x)); probe = ':'.join(a)
            sup = ['sup:%x,%x,%x' % (x, y, x)]
        cases.append('r%d api %s %d %s - %s' % (k, font, opts, src, ' '.join(pre + ['info'] + sup + [probe] + sup + ['info'])))
        cases.append('h%d api %s %d %s - %s' % (k, font, opts, src, ' '.join(pre + ['info'] + sup + hist + [probe] + sup + ['info'])))
        meta.append((font, opts, len(hist)))
    # texts on which shaping gives up (a rule program dies): whatever the failed call leaves behind on the face must not change what the
    # same or another text gives afterwards
    dying = apiseq.dying_chars(hexe, S.FONTS)
    chk.notes.append('fonts with characters on which gr_make_seg gives up: %s' % {f: len(v) for f, v in dying.items()})
    for font, dcs in sorted(dying.items()):
        rep = S.repertoire(vlib.REPO, font)
        for k in range(12 if thorough else 4):
            dc = rng.choice(dcs)
            others = [rng.choice(rep) for _ in range(3)]
            ptxt = rng.choice(([dc], [others[0], dc], [dc, others[1]], others, [others[0]]))
            probe = 'seg:2:32:0:-:-:%s' % ''.join('%08x' % c for c in ptxt)
            hist = ['seg:1:32:0:-:-:%s' % ''.join('%08x' % c for c in rng.choice(([dc], [dc, others[2]], [others[1], dc]))) for _ in range(rng.choice((1, 3, 6, 10)))]       # several failures in a row: each may leave its own trace
            o, src = rng.randrange(8), rng.choice(('cb', 'file'))
            cases.append('r%sd.%d api %s %d %s - %s' % (font[:4], k, font, o, src, ' '.join(['info', probe, 'info'])))
            cases.append('h%sd.%d api %s %d %s - %s' % (font[:4], k, font, o, src, ' '.join(['info'] + hist + [probe, 'info'])))
            meta.append((font, o, len(hist)))
    # glyphs the lazy loader cannot read (an empty attribute block in Gloc): whatever it answers for such a glyph the first time, it has
    # to answer every time
    import struct as _st
    from props import fontkit as _K, cmapgen as _cg
    udir = os.path.join(vlib.BUILD, 'fuzzfonts', 'c08u-%s-%d' % (chk.tier, chk.seed)); os.makedirs(udir, exist_ok=True)
    for font in ('Padauk.ttf', 'charis_r_gr.ttf', 'Scheherazadegr.ttf'):
        fp = os.path.join(vlib.REPO, 'tests/fonts', font)
        data = open(fp, 'rb').read()
        cm = _cg.parse_font_cmap(fp)
        go, gl = _K.font_tables(data)[b'Gloc']
        flags = _st.unpack('>H', data[go + 4:go + 6])[0]
        w = 4 if flags & 1 else 2
        cands = [c for c in S.repertoire(vlib.REPO, font) if cm.get(c, 0) > 1][:200]
        for k in range(6 if thorough else 2):
            ch = rng.choice(cands); g = cm[ch]
            gloc = bytearray(data[go:go + gl])
            nxt = gloc[8 + w * (g + 1):8 + w * (g + 2)]
            gloc[8 + w * g:8 + w * (g + 1)] = nxt                      # block of glyph g is empty now
            p = os.path.join(udir, 'u%d_%s' % (k, font))
            open(p, 'wb').write(_K.replace_table(data, b'Gloc', bytes(gloc)))
            other = [rng.choice(cands) for _ in range(2)]
            probe = 'seg:2:32:0:-:-:%s' % ''.join('%08x' % c for c in (other[0], ch, other[1]))
            hist = ['seg:1:32:0:-:-:%s' % ''.join('%08x' % c for c in rng.choice(([ch], [ch, other[0]], [other[1], ch, ch]))) for _ in range(rng.choice((1, 2, 3)))]
            for o in (0, 4, 2):
                src = rng.choice(('cb', 'file'))
                cases.append('r%su.%d.%d api %s %d %s - %s' % (font[:4], k, o, p, o, src, ' '.join(['info', probe, 'info'])))
                cases.append('h%su.%d.%d api %s %d %s - %s' % (font[:4], k, o, p, o, src, ' '.join(['info'] + hist + [probe, 'info'])))
                meta.append((font, o, len(hist)))
    # hinted fonts: one gr_font with an advance callback shared by a history of the repository's own test lines (kerning, collision and
    # attachment contexts) and a probe line; whatever the font object remembers per glyph must not depend on the slot that asked first
    for font in ('Scheherazadegr.ttf', 'Awami_test.ttf', 'charis_r_gr.ttf', 'Padauk.ttf', 'Annapurnarc2.ttf'):
        _, hlines, _ = S.seeds(vlib.REPO, font)
        if len(hlines) < 4:
            continue
        rtl = 1 if font.startswith(('Awami', 'Schehera')) else 0
        for k in range(40 if thorough else 6):
            ppm = rng.choice(('12', '16', '96.5'))
            pl = rng.choice(hlines)
            probe = 'seg:2:32:%d:0:-:%s' % (rtl, ''.join('%08x' % c for c in pl[:40]))
            hist = ['seg:1:32:%d:0:-:%s' % (rtl, ''.join('%08x' % c for c in rng.choice(hlines)[:40])) for _ in range(rng.choice((1, 2, 4, 8)))]
            o, src = rng.randrange(8), rng.choice(('cb', 'file'))
            cases.append('r%s.%d api %s %d %s - %s' % (font[:4], k, font, o, src, ' '.join(['hfont:0:' + ppm, 'info', probe, 'info'])))
            cases.append('h%s.%d api %s %d %s - %s' % (font[:4], k, font, o, src, ' '.join(['hfont:0:' + ppm, 'info'] + hist + [probe, 'info'])))
            meta.append((font, o, len(hist)))
    # warm-cache family: the repository's own test lines on a fresh lazily loaded face, and again after every glyph of the font has been
    # loaded by shaping private-use characters that an added cmap group maps to glyph 0, 1, 2, ... (what the face has loaded so far is
    # the one piece of state that shaping can leave behind)
    import struct, shutil
    from props import c10, cmapgen
    wdir = os.path.join(vlib.BUILD, 'fuzzfonts', 'c08w-%s-%d' % (chk.tier, chk.seed))
    shutil.rmtree(wdir, ignore_errors=True); os.makedirs(wdir)
    wcases, wmeta = [], []
    for font in (S.FONTS if thorough else [f for f in S.FONTS if f.startswith('Awami')] + ['Padauk.ttf', 'Scheherazadegr.ttf']):
        data = open(os.path.join(vlib.REPO, 'tests/fonts', font), 'rb').read()
        try:
            tb = K_tables(data)
            co, cl = tb[b'cmap']; cm = data[co:co + cl]
            nrec = struct.unpack('>H', cm[2:4])[0]
            f4 = None
            for r in range(nrec):
                pid, eid, off = struct.unpack('>HHI', cm[4 + 8 * r:12 + 8 * r])
                if (pid, eid) in ((3, 1), (0, 3)) and struct.unpack('>H', cm[off:off + 2])[0] == 4:
                    f4 = cm[off:off + struct.unpack('>H', cm[off + 2:off + 4])[0]]; break
            mo, _ = tb[b'maxp']; nglyph = struct.unpack('>H', data[mo + 4:mo + 6])[0]
        except (KeyError, struct.error):
            continue
        if f4 is None or nglyph < 2:
            continue
        vf = os.path.join(wdir, 'w_' + font)
        open(vf, 'wb').write(c10.with_cmap(data, cmapgen.cmap_table([(3, 1, f4), (3, 10, cmapgen.fmt12([(0xF0000, 0xF0000 + nglyph - 1, 0)]))])))
        _, lines, _ = S.seeds(vlib.REPO, font)
        if not lines:
            continue
        take = lines if (font.startswith('Awami') or len(lines) <= 120) else rng.sample(lines, 120)
        rtl = 1 if font.startswith(('Awami', 'Schehera')) else 0
        warm = ['seg:1:32:%d:-:-:%s' % (rtl, ''.join('%08x' % (0xF0000 + g) for g in range(b, min(b + 64, nglyph)))) for b in range(0, nglyph, 64)]
        for b in range(0, len(take), 16):
            probes = ['seg:2:32:%d:-:-:%s' % (rtl, ''.join('%08x' % c for c in t[:48])) for t in take[b:b + 16]]
            for src in (('cb',) if not thorough else ('cb', 'file')):
                wcases.append('wr%d api %s 0 %s - %s' % (len(wcases), vf, src, ' '.join(probes)))
                wcases.append('wh%d api %s 0 %s - %s' % (len(wcases), vf, src, ' '.join(warm + probes)))
                wmeta.append((font, len(probes)))
    _, wl, _ = vlib.run_pair(None, hexe, wcases, timeout=3000)
    nwarm = 0
    for k, (font, npr) in enumerate(wmeta):
        ref, his = wl[2 * k], wl[2 * k + 1]
        rc, hc = wcases[2 * k], wcases[2 * k + 1]
        bad = False
        for c, l in ((rc, ref), (hc, his)):
            if l is None:
                chk.tie_break('harness', 'no result line', c[:300]); bad = True
            elif 'ABORT' in l.split()[1:3]:
                chk.violation('c08:warm-abort:%s' % font, 'shaping on a face whose glyphs were all loaded through private-use characters aborted: %s' % l[:300], dict(cases=[c], got=[l[:800]], font_gz_b64=c10.fontblob(c.split()[2]))); bad = True
        if bad:
            continue
        r1, r2 = apiseq.results(ref), apiseq.results(his)
        if not r1 or not r2 or r1[0] != 'face=ok' or r2[0] != 'face=ok':
            continue
        pr = [p for p in r1[1] if p.startswith('seg=')]; ph = [p for p in r2[1] if p.startswith('seg=')][-npr:]
        nwarm += len(pr)
        for j, (a, b) in enumerate(zip(pr, ph)):
            if a != b:
                probe = rc.split()[6 + j]
                chk.violation('c08:warm:%s:%s' % (font, probe[-64:]), 'the same gr_make_seg call returns a different segment once the face has loaded other glyphs (fresh face vs. after shaping every glyph through an added cmap group)',
                              dict(cases=[' '.join(rc.split()[:6] + [probe]), ' '.join(hc.split()[:6] + [o for o in hc.split()[6:] if o.startswith('seg:1:')] + [probe])], got=[a[:1500], b[:1500]], font_gz_b64=c10.fontblob(rc.split()[2])))
                break
        classes_w = (font, 'warm', npr)
        wmeta[k] = wmeta[k] + (classes_w,)
    shutil.rmtree(wdir, ignore_errors=True)
    _, il, _ = vlib.run_pair(None, hexe, cases, timeout=3000)
    classes, dist = set(), {}
    for wm in wmeta:
        if len(wm) > 2:
            classes.add(wm[2])
    dist['warm-cache probes'] = nwarm
    for k, (font, opts, nh) in enumerate(meta):
        ref, his = il[2 * k], il[2 * k + 1]
        rc, hc = cases[2 * k], cases[2 * k + 1]
        dist[font] = dist.get(font, 0) + 1
        for c, l in ((rc, ref), (hc, his)):
            if l is None:
                chk.tie_break('harness', 'no result line', c[:300])
            elif 'ABORT' in l.split()[1:3]:
                chk.violation('c08:abort:%s' % ' '.join(c.split()[2:5]), 'the call sequence aborted: %s' % l[:300], dict(cases=[c], got=[l[:800]]))
        r1, r2 = apiseq.results(ref), apiseq.results(his)
        if not r1 or not r2:
            continue
        if r1[0] != r2[0]:
            chk.violation('c08:face:%s %d' % (font, opts), 'gr_make_face gives different verdicts for the same arguments', dict(cases=[rc, hc], got=[ref[:300], his[:300]])); continue
        if r1[0] != 'face=ok':
            classes.add((font, 'noface')); continue
        pr = [p for p in r1[1] if p.startswith('seg=')]; ph = [p for p in r2[1] if p.startswith('seg=')]
        i1 = [p for p in r1[1] if p.startswith('info=') or p.startswith('sup=')]; i2 = [p for p in r2[1] if p.startswith('info=') or p.startswith('sup=')]
        classes.add((font, opts, min(nh, 8), pr[-1][:12] if pr else ''))
        if pr and ph and pr[-1] != ph[-1]:
            chk.violation('c08:probe:%s' % ' '.join(hc.split()[2:5] + hc.split()[-2:-1])[:160], 'the same gr_make_seg call returns a different segment after a history of other calls on the face', dict(cases=[rc, hc], got=[pr[-1][:1500], ph[-1][:1500]]))
        if len(set(p for p in i1 + i2 if p.startswith('info='))) > 1 or len(set(p for p in i1 + i2 if p.startswith('sup='))) > 1:
            chk.violation('c08:report:%s %d' % (font, opts), 'what the face reports about itself (glyphs, features, languages, character support, face info) changed with use', dict(cases=[rc, hc], got=[i1[0][:600], i1[-1][:600], i2[0][:600], i2[-1][:600]]))
    chk.cov.update(evaluations=ng + len(cases), distinct_nontrivial=len(classes), disagreements_checked=ndis, distribution=dist,
                   rule='glyph cache: lookup histories (1-20 gids incl. 0, n-1, n, 65535) before and after a shaping call on lazy / preloaded faces against the model; API: for each of the %d (font, option bits 0..7, '
                        'cb|file) a probe gr_make_seg (3 encodings, dir 0..7, with/without gr_font) + face report on a fresh face vs after 1-20 other calls (segments in other slots, destroys, fonts, feature values, '
                        'labels, info, linebreaks, justification in the font direction, the same call earlier); non-trivial = distinct (font, options, history length class, probe result class)' % len(meta),
                   samples=[cases[0][:200], cases[1][:200]], exhaustive=False)


def replay(chk, obj):
    cs = obj.get('replay', {}).get('cases') or [c for c in [(obj.get('broken') or [{}])[-1].get('case')] if c]
    if not cs:
        print('no case'); return 1
    blob = obj.get('replay', {}).get('font_gz_b64')
    if blob:
        import base64, zlib
        tmp = os.path.join(vlib.BUILD, 'fuzzfonts', 'replay'); os.makedirs(tmp, exist_ok=True)
        fp = os.path.join(tmp, 'replay.ttf')
        open(fp, 'wb').write(zlib.decompress(base64.b64decode(blob)))
        cs = [' '.join(c.split()[:2] + [fp] + c.split()[3:]) for c in cs]
    hexe = apiseq.build('asan')
    _, il, _ = vlib.run_pair(None, hexe, cs, shards=1)
    for c, l in zip(cs, il):
        print(c[:400]); print(' impl :', (l or '')[:1200])
    if len(cs) == 2 and all(il):
        r1, r2 = apiseq.results(il[0]), apiseq.results(il[1])
        if r1 and r2:
            p1 = [p for p in r1[1] if p.startswith('seg=')]; p2 = [p for p in r2[1] if p.startswith('seg=')]
            same = bool(p1 and p2 and p1[-1] == p2[-1])
            print(' probe equal:', same)
            return 0 if same else 1
    return 1 if any('ABORT' in (l or '') for l in il) else 0
