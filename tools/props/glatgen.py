"""Gloc / Glat table generator for the glyph-attribute reader correspondence (C01): mostly valid tables plus structured damage
aimed at the bounds logic of GlyphCache::Loader and the run iterators (odd block lengths, run counts that claim more values than the
block holds, blocks ending at the end of the table, offsets that decrease / overshoot, truncated tables, counts at their limits)."""
import struct


def gen(rng, ng):
    """returns (gloc bytes, glat bytes, description, interesting gids)"""
    wide = rng.random() < 0.4                        # Glat version 2: 16-bit attribute numbers and run lengths
    long_fmt = rng.random() < 0.3
    nattrs = rng.choice((8, 8, 9, 12, 40, 300))          # the compiled Silf names attributes 0..3 (pseudo, break weight, directionality, mirroring)
    nglyphs = ng + rng.choice((0, 0, 0, 1, 3))
    glat = struct.pack('>I', 0x00020000 if wide else 0x00010000)
    offs, hot = [], [0, 1, ng - 1]
    kind = rng.choice(('valid',) * 4 + ('odd', 'overclaim', 'tail', 'offsets', 'trunc', 'header', 'empty', 'order'))
    victim = rng.randrange(nglyphs)
    for g in range(nglyphs):
        offs.append(len(glat))
        runs, k = [], 0
        for _ in range(rng.choice((1, 1, 2, 3))):
            k += rng.randrange(0, 3)
            n = rng.randrange(1, 4)
            if k + n > nattrs:
                break
            runs.append((k, [rng.choice((0, 1, 7, 300, 0xFFFF, rng.randrange(65536))) for _ in range(n)]))
            k += n
        if not runs:
            runs = [(0, [rng.randrange(1, 9)])]
        blk = b''
        for k0, vals in runs:
            blk += (struct.pack('>HH', k0, len(vals)) if wide else bytes([k0, len(vals)])) + b''.join(struct.pack('>H', v) for v in vals)
        if g == victim:
            hot.append(g)
            if kind == 'odd':
                blk += bytes([rng.randrange(256)])                              # a stray byte: the block has an odd length
            elif kind == 'overclaim':
                k0, vals = runs[-1]
                hdr = struct.pack('>HH', k0, len(vals) + rng.choice((1, 1, 2, 200))) if wide else bytes([k0, min(255, len(vals) + rng.choice((1, 1, 2, 200)))])
                blk = blk[:len(blk) - (4 if wide else 2) - 2 * len(vals)] + hdr + b''.join(struct.pack('>H', v) for v in vals) + (bytes([7]) if rng.random() < 0.5 else b'')
            elif kind == 'empty':
                blk = b'' if rng.random() < 0.5 else blk[:rng.randrange(0, 4)]
            elif kind == 'order':
                blk = blk + (struct.pack('>HH', 0, 1) if wide else bytes([0, 1])) + struct.pack('>H', 5)      # keys go backwards: the sparse store refuses
        glat += blk
    if kind == 'tail':
        # the last block's last run claims one value more than the table holds, with or without a stray byte
        victim = nglyphs - 1; hot.append(victim)
        glat = glat[:offs[-1]] + (struct.pack('>HH', 0, 2) if wide else bytes([0, 2])) + struct.pack('>H', 1) + (bytes([0]) if rng.random() < 0.6 else b'')
    offs.append(len(glat))
    if kind == 'offsets':
        j = rng.randrange(len(offs)); hot += [min(j, nglyphs - 1), max(0, j - 1)]
        offs[j] = rng.choice((0, 3, len(glat) - 1, len(glat), len(glat) + 1, 0xFFFF, offs[j] + 1, max(0, offs[j] - 1), offs[max(0, j - 2)]))
    flags = (1 if long_fmt else 0) | (2 if rng.random() < 0.15 else 0)
    hdr_ver, hdr_nattrs = 0x00010000, nattrs
    if kind == 'header':
        what = rng.randrange(5)
        if what == 0: hdr_ver = rng.choice((0x00020000, 0x0001FFFF, 0))
        elif what == 1: hdr_nattrs = rng.choice((0, 0x3000, 0x3001, 0xFFFF))
        elif what == 2: glat = struct.pack('>I', rng.choice((0x00030000, 0x00040000, 0x0002FFFF, 0))) + glat[4:]
        elif what == 3: flags |= 2; hdr_nattrs = rng.choice((nattrs, 0x2FFF))
        else: offs = offs[:rng.randrange(1, len(offs))]
    gloc = struct.pack('>IHH', hdr_ver, flags, hdr_nattrs) + b''.join(struct.pack('>I' if long_fmt else '>H', min(o, 0xFFFFFFFF if long_fmt else 0xFFFF)) for o in offs)
    if flags & 2:
        gloc += b''.join(struct.pack('>H', 256 + i) for i in range(min(hdr_nattrs, 64))) if kind != 'header' else b'\x00' * rng.randrange(0, 9)
    if kind == 'trunc':
        if rng.random() < 0.5: glat = glat[:rng.randrange(0, len(glat))]
        else: gloc = gloc[:rng.randrange(0, len(gloc))]
        hot += [nglyphs - 1, nglyphs // 2]
    return gloc, glat, '%s %s %s nattrs=%d' % (kind, 'v2' if wide else 'v1', 'long' if long_fmt else 'short', nattrs), sorted(set(h for h in hot if 0 <= h < ng))
