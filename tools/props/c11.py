"""C11 — UTF-8/16/32 decoding and counting (DESIGN.md section 6/C11)."""
import os
import vlib
from props import utfgen as G


def build(chk):
    impl = vlib.build_impl('direct', 'asan')
    hexe = vlib.build_harness('impl_utf', impl)
    mexe = vlib.build_model_driver('Utf')
    wrapper = os.path.join(os.path.dirname(hexe), 'run_utf.sh')
    with open(wrapper, 'w') as f:
        f.write('#!/bin/sh\nexec %s %s\n' % (hexe, vlib.REPO))
    os.chmod(wrapper, 0o755)
    return mexe, wrapper


def oracle_count(chk, case, e, mode, u, ires, raw):
    """the property's clauses on gr_count_unicode_characters, evaluated on the implementation's answer"""
    if ires[:1] != ['C'] or len(ires) != 3:
        chk.violation('count:%d:%s:%s' % (e, mode, G.hexu(u, e)), 'gr_count_unicode_characters did not complete normally: %s' % raw,
                      dict(case=case, got=raw))
        return
    cnt, err = int(ires[1]), int(ires[2])
    text = u if mode == 'exact' else u + [0]
    nwf, status, where = G.ref_analyse(text, e)
    key = 'count:%d:%s:%s' % (e, mode, G.hexu(u, e))
    nbuf = len(text)
    if err >= 0:
        if not (0 <= err < nbuf):
            chk.violation(key, '*pError outside the buffer (%d, buffer has %d units)' % (err, nbuf), dict(case=case, got=raw))
        if cnt > nwf:
            chk.violation(key, 'count %d exceeds the %d well-formed characters preceding the first ill-formed sequence' % (cnt, nwf),
                          dict(case=case, got=raw))
    if status == 'ok' and not (mode == 'exact' and G.ends_truncated(u, e)):
        if cnt != nwf or err != -1:
            chk.violation(key, 'well-formed text: expected count %d and no error, got %d / %d' % (nwf, cnt, err), dict(case=case, got=raw))
    if status == 'ill' and err < 0:
        chk.violation(key, 'ill-formed text (at unit %d) but no error reported' % where, dict(case=case, got=raw))
    if status == 'trunc' and mode == 'null' and err < 0:
        chk.violation(key, 'sequence truncated by the NUL but no error reported', dict(case=case, got=raw))


def run(chk):
    chk.trusted += ['hand model Model/UtfModel.v of _utf_codec<8|16|32>::get/validate, count_unicode_chars, process_utf_data',
                    'regex extraction of sz_lut / mask_lut / limit (Gen/GenUtf.v)']
    chk.assumptions += ['well-formedness is structural (shortest form, <= U+10FFFF, paired surrogates in UTF-16) as the library checks it; '
                        'UTF-8 ED A0..BF xx and UTF-32 D800..DFFF decode as characters (DESIGN.md section 7, F9)',
                        'a memory region is modelled as the list of its code units; reading outside it is the trap value']
    chk.check_proofs()
    mexe, wrapper = build(chk)
    rng, thorough = chk.rng, chk.tier == 'thorough'
    cases, meta = [], []
    cp = os.path.join(vlib.VERIF, 'corpus', 'c11.txt')
    if os.path.exists(cp):
        for l in open(cp):
            f = l.split()
            if f and not l.startswith('#'):
                if f[0] == 'count':
                    e = int(f[1]); u = [int(f[3][k:k + G.W[e]], 16) for k in range(0, len(f[3]), G.W[e])] if f[3] != '-' else []
                    cases.append('k%d count %d %s %s' % (len(cases), e, f[2], f[3])); meta.append(('count', e, f[2], u))
    for e, mode, u in G.gen_count(rng, thorough):
        cases.append('c%d count %d %s %s' % (len(cases), e, mode, G.hexu(u, e))); meta.append(('count', e, mode, u))
    for e, nch, u in G.gen_decode(rng, thorough):
        cases.append('c%d decode %d %d %s' % (len(cases), e, nch, G.hexu(u, e))); meta.append(('decode', e, nch, u))
    # encoding equivalence at segment level + resync: well-formed scalars, Padauk repertoire and others
    rep = list(range(0x1000, 0x10A0)) + [0x20, 0x41, 0x61, 0x200B, 0x25CC, 0xFFFD, 0x1F600, 0x10FFFF, 0xE000]
    for _ in range(20000 if thorough else 1500):
        sc = [rng.choice(rep) if rng.random() < 0.9 else rng.choice(G.SCAL) for _ in range(rng.randrange(0, 12))]
        sc = [c for c in sc if not (0xD800 <= c <= 0xDFFF)]
        cases.append('c%d shape3 %d %s' % (len(cases), rng.randrange(0, 2), G.hexu(sc, 32))); meta.append(('shape3', sc))
    ml, il, ierr = vlib.run_pair(mexe, wrapper, cases)
    ndis, classes, dist = 0, set(), {}
    for c, mt, m, i in zip(cases, meta, ml, il):
        dist[mt[0]] = dist.get(mt[0], 0) + 1
        if i is None:
            chk.tie_break('harness', 'no result line', c); continue
        ires, mres = i.split()[1:], (m or '').split()[1:]
        if mt[0] == 'count':
            _, e, mode, u = mt
            oracle_count(chk, c, e, mode, u, ires, i)
            nwf, status, _ = G.ref_analyse(u if mode == 'exact' else u + [0], e)
            classes.add(('count', e, mode, min(len(u), 5), status, min(nwf, 3)))
        elif mt[0] == 'decode':
            _, e, nch, u = mt
            if ires[:1] != ['D'] or ires[1:2] == ['NULL']:
                chk.violation('decode:%d:%d:%s' % (e, nch, G.hexu(u, e)), 'gr_make_seg did not complete normally: %s' % i, dict(case=c, got=i))
            else:
                nwf, status, _ = G.ref_analyse(u, e)
                got = [x.split(':') for x in ires[2:]]
                if status == 'ok':
                    # well-formed text: exactly the scalars, in order, with strictly increasing unit offsets
                    exp, pos, j = [], 0, 0
                    while j < len(u):
                        s, l = G.ref_next(u, j, e); exp.append(('%x' % s, str(j))); j += l
                    exp = exp[:nch]
                    if [tuple(x) for x in got] != exp:
                        chk.violation('decode:%d:%d:%s' % (e, nch, G.hexu(u, e)), 'char-infos %s, expected %s' % (got, exp), dict(case=c, got=i))
                else:
                    bases = [int(x[1]) for x in got]
                    if any(b2 <= b1 for b1, b2 in zip(bases, bases[1:])) or any(b >= max(1, len(u)) for b in bases):
                        chk.violation('decode:%d:%d:%s' % (e, nch, G.hexu(u, e)), 'bases not strictly increasing inside the text: %s' % bases, dict(case=c, got=i))
                classes.add(('decode', e, status, min(len(u), 5), nch > len(u)))
        elif mt[0] == 'shape3':
            if ires != ['S', 'same']:
                chk.violation('shape3:%s' % G.hexu(mt[1], 32), 'the same scalars in UTF-8/16/32 gave different segments: %s' % i, dict(case=c, got=i))
            classes.add(('shape3', min(len(mt[1]), 6), any(x >= 0x10000 for x in mt[1])))
        if mres != ires:
            ndis += 1
            chk.tie_break('correspondence:utf', 'model %r vs implementation %r' % (m, i), c)
    chk.cov.update(evaluations=len(cases), distinct_nontrivial=len(classes), disagreements_checked=ndis, distribution=dist,
                   rule='count: all UTF-8 strings of <= %s bytes, all 3-byte strings over a 28-value boundary alphabet, boundary-structured 4..8 byte strings, '
                        'UTF-16/32 unit strings over boundary sets, well-formed text with injected over-long / out-of-range / truncated / lone-trail '
                        'sequences and NULs, in exact-size heap buffers, both end modes; decode: gr_make_seg char-infos; shape3: same scalars in three encodings. '
                        'non-trivial = distinct (operation, encoding, end mode, length class, reference status, wf-prefix length) classes'
                        % ('2 (256^n)' if not thorough else '2 (256^n) [3-byte exhaustive over the alphabet]'),
                   samples=[cases[0], cases[len(cases) // 4], cases[len(cases) // 2], cases[-1]], exhaustive=False)


def replay(chk, obj):
    mexe, wrapper = build(chk)
    case = obj.get('replay', {}).get('case') or (obj.get('broken') or [{}])[-1].get('case')
    if not case:
        print('no case in replay file'); return 1
    if ' @' in case:                       # a case of C12 run with another font
        fn = case.split(' @')[1].split()[0]
        wf = wrapper[:-3] + '_replay.sh'
        with open(wf, 'w') as fh:
            fh.write(open(wrapper).read().rstrip('\n') + ' ' + fn + '\n')
        os.chmod(wf, 0o755)
        wrapper = wf
    ml, il, err = vlib.run_pair(mexe, wrapper, [case], shards=1)
    print(case); print(' model:', ml[0]); print(' impl :', il[0]); print(err[-1500:])
    return 0 if ml[0] == il[0] else 1
