"""Case generators and the independent reference decoder for C11 / C12."""
import itertools

B8 = [0x00, 0x01, 0x41, 0x7F, 0x80, 0x8F, 0x90, 0x9F, 0xA0, 0xBF, 0xC0, 0xC1, 0xC2, 0xDF, 0xE0, 0xE1, 0xEC, 0xED, 0xEE,
      0xEF, 0xF0, 0xF1, 0xF3, 0xF4, 0xF5, 0xF7, 0xF8, 0xFF]
B16 = [0x0000, 0x0001, 0x0041, 0x07FF, 0xD7FF, 0xD800, 0xDBFF, 0xDC00, 0xDFFF, 0xE000, 0xFFFD, 0xFFFF]
B32 = [0x0, 0x1, 0x41, 0xD7FF, 0xD800, 0xDFFF, 0xFFFF, 0x10000, 0x10FFFF, 0x110000, 0x7FFFFFFF, 0x80000000, 0xFFFFFFFF]
SCAL = [0x1, 0x41, 0x7F, 0x80, 0x7FF, 0x800, 0x1000, 0x103A, 0xD7FF, 0xE000, 0xFFFD, 0xFFFF, 0x10000, 0x1F600, 0x10FFFF]
BAD8 = [[0xC0, 0x80], [0xC1, 0xBF], [0xE0, 0x80, 0x80], [0xE0, 0x9F, 0xBF], [0xF0, 0x80, 0x80, 0x80], [0xF0, 0x8F, 0xBF, 0xBF],
        [0xF4, 0x90, 0x80, 0x80], [0xF7, 0xBF, 0xBF, 0xBF], [0xFF, 0xBF, 0xBF, 0xBF], [0x80], [0xBF], [0xC2, 0x41], [0xE1, 0x80, 0x41],
        [0xF1, 0x80, 0x80, 0x41], [0xE1, 0x41], [0xF1, 0x41], [0xF1, 0x80, 0x41], [0xC2, 0xC2], [0xF8, 0x88, 0x80, 0x80],
        # leads F5..FD with continuation bytes that would make a scalar below 0x110000 if the lead's extra bits were dropped; surrogates
        [0xF5, 0x80, 0x80, 0x80], [0xF8, 0x90, 0x80, 0x80], [0xF9, 0x80, 0x80, 0x80], [0xFA, 0xA0, 0x80, 0x80], [0xFB, 0xBF, 0xBF, 0xBF],
        [0xFC, 0x8F, 0xBF, 0xBF], [0xFC, 0x90, 0x80, 0x80], [0xFD, 0x80, 0x80, 0x80], [0xFE, 0x80, 0x80, 0x80], [0xED, 0xA0, 0x80], [0xED, 0xBF, 0xBF]]
W = {8: 2, 16: 4, 32: 8}


def hexu(units, enc):
    return ''.join('%0*x' % (W[enc], u) for u in units) or '-'


def enc8(c):
    if c < 0x80: return [c]
    if c < 0x800: return [0xC0 | c >> 6, 0x80 | c & 63]
    if c < 0x10000: return [0xE0 | c >> 12, 0x80 | (c >> 6) & 63, 0x80 | c & 63]
    return [0xF0 | c >> 18, 0x80 | (c >> 12) & 63, 0x80 | (c >> 6) & 63, 0x80 | c & 63]


def enc16(c):
    return [c] if c < 0x10000 else [0xD7C0 + (c >> 10), 0xDC00 + (c & 0x3FF)]


def enc(c, e):
    return enc8(c) if e == 8 else enc16(c) if e == 16 else [c]


# ---- independent reference: well-formedness as table 3-7 of the Unicode standard defines it (shortest form, <= U+10FFFF, no
#      surrogate code points in UTF-8 or UTF-32; UTF-16 properly paired surrogates)
def ref_next(u, i, e):
    """returns (scalar, length) if a well-formed character starts at i, 'trunc' if the units run out inside a sequence
    that is well-formed so far, None if ill-formed"""
    n = len(u)
    if e == 32:
        return (u[i], 1) if u[i] < 0x110000 and not (0xD800 <= u[i] <= 0xDFFF) else None
    if e == 16:
        x = u[i]
        if x < 0xD800 or x > 0xDFFF: return (x, 1)
        if x > 0xDBFF: return None
        if i + 1 >= n: return 'trunc'
        y = u[i + 1]
        if 0xDC00 <= y <= 0xDFFF: return (0x10000 + ((x - 0xD800) << 10) + (y - 0xDC00), 2)
        return None
    b = u[i]
    if b < 0x80: return (b, 1)
    if 0xC2 <= b <= 0xDF: need, lo, hi, v = 1, 0x80, 0xBF, b & 0x1F
    elif b == 0xE0: need, lo, hi, v = 2, 0xA0, 0xBF, 0
    elif b == 0xED: need, lo, hi, v = 2, 0x80, 0x9F, 0x0D
    elif 0xE1 <= b <= 0xEF: need, lo, hi, v = 2, 0x80, 0xBF, b & 0x0F
    elif b == 0xF0: need, lo, hi, v = 3, 0x90, 0xBF, 0
    elif 0xF1 <= b <= 0xF3: need, lo, hi, v = 3, 0x80, 0xBF, b & 7
    elif b == 0xF4: need, lo, hi, v = 3, 0x80, 0x8F, 4
    else: return None
    for k in range(1, need + 1):
        if i + k >= n: return 'trunc'
        c = u[i + k]
        if not ((lo if k == 1 else 0x80) <= c <= (hi if k == 1 else 0xBF)): return None
        v = (v << 6) | (c & 63)
    return (v, need + 1)


def ref_analyse(units, e, stop_at_nul=True):
    """(n_wf_chars_before_first_problem, status) status in 'ok','ill','trunc'; scanning stops at the first NUL"""
    i, n = 0, 0
    while i < len(units):
        if units[i] == 0 and stop_at_nul:
            return n, 'ok', i
        r = ref_next(units, i, e)
        if r is None: return n, 'ill', i
        if r == 'trunc': return n, 'trunc', i
        n += 1
        i += r[1]
    return n, 'ok', i


def ends_truncated(units, e):
    """does the buffer end inside a multi-unit sequence (lead without all its trail units)?"""
    if not units: return False
    if e == 32: return False
    if e == 16: return 0xD800 <= units[-1] <= 0xDBFF
    for back in (1, 2, 3):
        if back > len(units): break
        b = units[-back]
        if 0x80 <= b <= 0xBF:
            continue
        need = 1 if b < 0x80 else 2 if b < 0xE0 else 3 if b < 0xF0 else 4
        return b >= 0xC0 and need > back
    return False


def gen_count(rng, thorough):
    """yield (enc, mode, units)"""
    out = []
    for mode in ('exact', 'null'):
        for n in range(0, 3):
            for t in itertools.product(range(256) if n < 2 or thorough else B8 + [0x42, 0xA5], repeat=n):
                out.append((8, mode, list(t)))
        for n in (3,):
            for t in itertools.product(B8, repeat=n):
                out.append((8, mode, list(t)))
        for n in range(0, 4 if thorough else 3):
            for t in itertools.product(B16, repeat=n):
                out.append((16, mode, list(t)))
        for n in range(0, 3):
            for t in itertools.product(B32, repeat=n):
                out.append((32, mode, list(t)))
    # boundary-structured 4..8 byte strings: lead-byte class x continuation boundaries
    for _ in range(200000 if thorough else 12000):
        n = rng.randrange(4, 9)
        out.append((8, rng.choice(('exact', 'null')), [rng.choice(B8) for _ in range(n)]))
    # structured: well-formed text with mutations
    for _ in range(150000 if thorough else 10000):
        e = rng.choice((8, 8, 16, 32))
        u = []
        for _ in range(rng.randrange(0, 6)):
            r = rng.random()
            if r < 0.7:
                u += enc(rng.choice(SCAL) if rng.random() < 0.7 else rng.randrange(1, 0x110000), e)
            elif r < 0.85:
                u += rng.choice(BAD8) if e == 8 else [rng.choice(B16)] if e == 16 else [rng.choice(B32)]
            elif r < 0.92:
                u += [0]
            else:
                u += enc(rng.choice(SCAL), e)[:-1]       # truncated sequence
        if rng.random() < 0.15 and u:
            u = u[:-1]
        out.append((e, rng.choice(('exact', 'null')), u))
    for _ in range(50000 if thorough else 3000):
        e = rng.choice((16, 32))
        out.append((e, rng.choice(('exact', 'null')), [rng.choice(B16 if e == 16 else B32) if rng.random() < 0.6 else
                                                        rng.getrandbits(16 if e == 16 else 32) for _ in range(rng.randrange(1, 7))]))
    return out


def gen_decode(rng, thorough, overestimate_only=False):
    """yield (enc, nchars, units) — units contain no NUL (the harness appends the terminator)"""
    out = []
    texts = []
    for e, alpha in ((8, [b for b in B8 if b]), (16, [b for b in B16 if b]), (32, [b for b in B32 if b])):
        for n in range(0, 4 if (thorough or e != 8) else 3):
            for t in itertools.product(alpha, repeat=n):
                texts.append((e, list(t)))
    for _ in range(60000 if thorough else 4000):
        e = rng.choice((8, 8, 16, 32))
        u = []
        for _ in range(rng.randrange(0, 7)):
            r = rng.random()
            if r < 0.75:
                u += enc(rng.choice(SCAL) if rng.random() < 0.6 else rng.randrange(1, 0x110000), e)
            elif r < 0.9:
                u += rng.choice(BAD8) if e == 8 else [rng.choice([b for b in (B16 if e == 16 else B32) if b])]
            else:
                u += enc(rng.choice(SCAL), e)[:-1]
        texts.append((e, u))
    for e, u in texts:
        L = len(u)
        choices = [L, L + 1, 2 * L + 3, 64] if overestimate_only else [L, L + 1, 2 * L + 3, 64, max(0, L - 1), 1, 0]
        for nch in set(choices if len(u) < 3 else [rng.choice(choices), L + 1]):
            out.append((e, nch, u))
    return out
