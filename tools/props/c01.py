"""C01 — font loading is total and memory-safe on arbitrary table bytes (DESIGN.md section 6/C01).

Legs: (1) theorems: the file face hands out only slices of the file (Model/SfntModel.v); cmap lookups, the LZ4 decoder and the
bytecode loader are safe on arbitrary bytes (models of C13 / C14 / C07); (2) correspondence: random and adversarial small sfnt
files through the real FileFace and the extracted container model, table by table; (3) the property's oracle: the historical
crashers of tests/fuzz-tests, byte-mutated, directory-mutated and truncated fonts x face options x {file, callbacks}: make the
face, run every gr_face_* / gr_fref_* / gr_featureval_* query, destroy — under ASan+UBSan, LeakSanitizer after every case and a
watchdog."""
import os, struct, shutil, glob
import vlib
from props import shapegen as S, apiseq, c02

QUERIES = 'info fv:0:0 fv:1:656e6720 setfv:0:0:1 setfv:0:1:200 setfv:1:3:65535 label:0:1033:8 label:1:1033:16 label:2:0:32 vlabel:0:0:1033:8 vlabel:1:1:1033:16 vlabel:3:0:0:32 gl:0,1,2,65535 info'


def tag(s):
    return struct.unpack('>I', s.encode('latin1'))[0]


def gen_sfnt(chk, n, tmpdir):
    """small synthetic containers: header, directory, a few tables; then edits of counts, offsets, lengths, truncation"""
    rng = chk.rng
    out = []
    for i in range(n):
        nt = rng.choice((0, 1, 2, 3, 5, 8, 40, 41))
        tags = [rng.choice(('TEST', 'Silf', 'cmap', 'head', 'AAAA', 'name')) for _ in range(nt)]
        body = bytes(rng.randrange(256) for _ in range(rng.choice((0, 4, 16, 64))))
        hdr = struct.pack('>IHHHH', 0x00010000 if rng.random() < 0.9 else rng.choice((0x4F54544F, 0, 0x00020000)), nt, 0, 0, 0)
        base = 12 + 16 * nt
        ents = b''
        for t in tags:
            k = rng.random()
            off = base + rng.randrange(0, len(body) + 1) if k < 0.7 else rng.choice((0, base + len(body), base + len(body) + 1, 0xFFFFFFFF, 0x7FFFFFFF, rng.randrange(0, 200)))
            ln = rng.choice((0, 1, 4, len(body), max(0, base + len(body) - off), max(0, base + len(body) - off) + 1, 0xFFFFFFFF, 0x80000000, rng.randrange(0, 80)))
            ents += struct.pack('>4sIII', t.encode(), 0, off & 0xFFFFFFFF, ln & 0xFFFFFFFF)
        f = bytearray(hdr + ents + body)
        k = rng.random()
        if k < 0.25 and f:
            f = f[:rng.randrange(0, len(f) + 1)]                       # truncated anywhere (inside header / directory / body)
        elif k < 0.35 and len(f) > 5:
            f[4:6] = struct.pack('>H', rng.choice((nt + 1, 39, 40, 41, 65535, 0)))   # table count that disagrees with the directory
        q = sorted(set(tags + ['TEST', 'Silf', 'zzzz']))
        out.append('s%d sfnt %s %s %s' % (i, bytes(f).hex() or '-', tmpdir, ' '.join('%08x' % tag(t) for t in q)))
    return out


def dir_mutate(rng, data):
    """edit the table directory of a real font: offsets / lengths / count"""
    d = bytearray(data)
    nt = struct.unpack('>H', d[4:6])[0]
    what = []
    for _ in range(rng.choice((1, 1, 2))):
        k = rng.random()
        if k < 0.1:
            d[4:6] = struct.pack('>H', rng.choice((0, 1, nt - 1, nt + 1, 40, 41, 65535))); what.append('count')
        else:
            e = 12 + 16 * rng.randrange(max(1, nt))
            fld = rng.choice((8, 12))
            old = struct.unpack('>I', d[e + fld:e + fld + 4])[0]
            new = rng.choice((0, 1, old + 1, old - 1, old + 4, len(d), len(d) - 1, len(d) - old if fld == 12 else old, 0xFFFFFFFF, 0x80000000, old // 2, old * 2)) & 0xFFFFFFFF
            d[e + fld:e + fld + 4] = struct.pack('>I', new); what.append('%s.%s' % (d[e:e + 4].decode('latin1'), 'off' if fld == 8 else 'len'))
    return bytes(d), ','.join(what)


def field_mutate(rng, data):
    """one or two aligned 16- / 32-bit fields in the first part of a Graphite (or glyph-metrics) table set to a boundary value: counts and
    offsets at, just past and far past what the table holds — the places where the parsers' bounds checks sit"""
    d = bytearray(data)
    n = struct.unpack('>H', d[4:6])[0]
    tabs = {}
    for i in range(n):
        e = 12 + 16 * i
        tabs[bytes(d[e:e + 4])] = struct.unpack('>II', d[e + 8:e + 16])
    what = []
    for _ in range(rng.choice((1, 1, 2))):
        cands = [t for t in (b'Silf', b'Silf', b'Silf', b'Silf', b'Feat', b'Sill', b'name', b'Gloc', b'Glat', b'hhea', b'maxp', b'loca', b'hmtx', b'head') if t in tabs and tabs[t][1] >= 8]
        if not cands:
            break
        t = rng.choice(cands)
        off, ln = tabs[t]
        if t == b'Silf' and rng.random() < 0.6 and ln > 40:
            # inside the first subtable: its header, the pass-offset array, pseudo map and class map headers
            try:
                so = struct.unpack('>I', d[off + (12 if struct.unpack('>I', d[off:off + 4])[0] >= 0x00030000 else 8):][:4])[0]
            except struct.error:
                so = 0
            lo, hi = (so if 0 < so < ln else 0), min(ln, (so if 0 < so < ln else 0) + 400)
        else:
            lo, hi = 0, min(ln, 160)
        w = rng.choice((2, 2, 4))
        if hi - lo < w:
            continue
        fo = lo + 2 * rng.randrange(0, (hi - lo - w) // 2 + 1)
        v = int.from_bytes(d[off + fo:off + fo + w], 'big')
        top = (1 << (8 * w)) - 1
        nv = rng.choice((0, 1, v + 1, v - 1, v + 2, v * 2, v // 2, top, top >> 1, (top >> 1) + 1, ln, ln - 1, ln + 1, ln - fo, v + ln, 0x100, 0xFF)) & top
        d[off + fo:off + fo + w] = nv.to_bytes(w, 'big')
        what.append('%s+%d:u%d %d->%d' % (t.decode(), fo, 8 * w, v, nv))
    return bytes(d), 'field ' + ' '.join(what)


def run(chk):
    chk.trusted += ['hand models Model/SfntModel.v (file face), CmapModel.v, Lz4Model.v, VmModel.v (loader); the Silf / Pass / Glat / Gloc / Sill / name parsers are not modelled',
                    'ASan/UBSan/LSan runtime and the per-case watchdog as the oracle for what is not modelled', 'API harness harness/impl_api.cpp']
    chk.assumptions += ['memory safety, absence of UB, termination and leak freedom of the unmodelled parsers are decided by sanitizers on the explored inputs (partial)',
                        'malloc(0) returns a non-null pointer (glibc), as FileFace relies on for an empty directory']
    chk.partial = True
    chk.check_proofs()
    thorough = chk.tier == 'thorough'
    rng = chk.rng
    hexe = apiseq.build('asan')
    mexe = vlib.build_model_driver('Sfnt')
    tmp = os.path.join(vlib.BUILD, 'fuzzfonts', 'c01-%s-%d' % (chk.tier, chk.seed))
    shutil.rmtree(tmp, ignore_errors=True)
    os.makedirs(tmp)
    classes, ndis, dist = set(), 0, {}
    # --- container correspondence
    scases = gen_sfnt(chk, 20000 if thorough else 2500, tmp)
    ml, il, _ = vlib.run_pair(mexe, hexe, scases, timeout=2400)
    for c, i, m in zip(scases, il, ml):
        if i is None or m is None:
            chk.tie_break('harness', 'no result line', c[:200]); continue
        if 'ABORT' in i.split()[1:3]:
            chk.violation('c01:sfnt-abort:%s' % c.split()[2][:80], 'the file face aborted on a small container: %s' % i[:300], dict(case=c, got=i[:600])); continue
        if i != m:
            ndis += 1
            chk.tie_break('correspondence:sfnt', 'FileFace and Model/SfntModel.v disagree: impl %s model %s' % (i[:200], m[:200]), c[:400])
        classes.add(('sfnt', i.split()[2], sum(1 for t in i.split()[3:] if t != 'NULL') > 0, min(len(c.split()[2]) // 64, 6)))
    # --- the glyph-attribute reader: Gloc / Glat pairs (valid and structurally damaged) grafted on a font with an inert compiled Silf;
    #     the real loader (tables served as exact-size heap copies) against Model/GlatModel.v: face verdict, read_glyph verdict and the
    #     attribute values per glyph; C01_glat_reads_in_bounds says the model never reads outside either table
    from props import fontkit as K, glatgen
    gexe = vlib.build_model_driver('Glat')
    gbase = K.enrich(open(os.path.join(vlib.REPO, 'tests/fonts/general.ttf'), 'rb').read())
    gng, _ = K.base_info(gbase)
    ginert = K.build_font(gbase, [dict(maxloop=1, rules=[dict(pre=0, pat=[{5}], acts=[[('G', 5)]])])])
    gcases, gmcases, gdesc = [], [], []
    for k in range(6000 if thorough else 600):
        gloc, glat, desc, hot = glatgen.gen(rng, gng)
        fp = os.path.join(tmp, 'gl%d.ttf' % k)
        open(fp, 'wb').write(K.replace_table(K.replace_table(ginert, b'Gloc', gloc), b'Glat', glat))
        gids = ','.join(map(str, hot))
        gcases.append('gl%d api %s %d cb - gat:%s' % (k, fp, rng.choice((0, 0, 2)), gids))
        gmcases.append('gl%d glat %d %s %s %s' % (k, gng, gloc.hex() or '-', glat.hex() or '-', gids))
        gdesc.append(desc)
    _, gil, _ = vlib.run_pair(None, hexe, gcases, timeout=2400)
    gml, _, _ = vlib.run_pair(gexe, None, gmcases, timeout=2400)
    gstats = {}
    for c, mc, i, m, desc in zip(gcases, gmcases, gil, gml, gdesc):
        if i is None or m is None:
            chk.tie_break('harness', 'no result line', c[:200]); continue
        rp = dict(case=c, model_case=mc[:4000], got=i[:800], tables=desc)
        if 'ABORT' in i.split()[1:3]:
            import base64, zlib
            rp['font_gz_b64'] = base64.b64encode(zlib.compress(open(c.split()[2], 'rb').read(), 9)).decode()
        if 'ABORT' in i.split()[1:3]:
            chk.violation('c01:glat-abort:%s' % desc, 'loading a font with a crafted Gloc / Glat pair aborted (sanitizer report or watchdog): %s' % i[:300], rp); continue
        mt = m.split()
        r = apiseq.results(i)
        if 'TRAP' in mt or ' T' in m.split(' GL ', 1)[-1]:
            # the model read outside a table where the theorem says it cannot: the model or the theorem's hypotheses are off
            chk.tie_break('correspondence:glat', 'Model/GlatModel.v reads outside a table: %s' % m[:200], c[:300]); continue
        if not r:
            chk.tie_break('harness', 'unparsable line %r' % i[:200], c[:300]); continue
        face_ok = r[0] == 'face=ok'
        mvals = mt[6:] if mt[2] == 'ok' else []
        preload = int(c.split()[3]) & 2
        model_ok = mt[2] == 'ok' and mvals[:1] != ['R'] and (not preload or mt[5] == 'ALL=ok')
        gstats[desc.split()[0] + (' loaded' if face_ok else ' refused')] = gstats.get(desc.split()[0] + (' loaded' if face_ok else ' refused'), 0) + 1
        classes.add(('glat', desc.split()[0], desc.split()[1], desc.split()[2], face_ok))
        if face_ok != model_ok:
            ndis += 1
            chk.tie_break('correspondence:glat', 'the loader %s a font that Model/GlatModel.v %s [%s]: impl %s model %s' % ('accepts' if face_ok else 'refuses', 'refuses' if face_ok else 'accepts', desc, i[:160], m[:160]), c[:300]); continue
        if not face_ok:
            continue
        got = [p for p in r[1] if p.startswith('gat=')]
        if not got:
            chk.tie_break('harness', 'no gat result %r' % i[:200], c[:300]); continue
        gv = got[0][4:].split()
        if gv[0].split(',')[0] != mt[3] or gv[1:] != [('0' if x == '-' else x) for x in mvals]:
            ndis += 1
            chk.tie_break('correspondence:glat', 'glyph attributes as read by the loader differ from Model/GlatModel.v [%s]: impl %s model %s' % (desc, ' '.join(gv)[:300], ' '.join(mt[3:5] + mvals)[:300]), c[:300])
    dist.update({'glat ' + k: v for k, v in gstats.items()})
    # --- the class map of a Silf subtable: Silf::readClassMap on exact-size heap copies against Model/ClassMapModel.v (verdict, counts, hashes of
    #     the offsets and of the class data); C01_class_map_reads_in_bounds says the model never reads outside the data_len bytes it is given
    cmexe = vlib.build_model_driver('ClassMap')
    ccases = []
    for k in range(8000 if thorough else 800):
        wide = rng.random() < 0.4
        w = 4 if wide else 2
        nlin = rng.choice((0, 1, 2, 5)); nlook = rng.choice((0, 1, 2, 4))
        ncls = nlin + nlook
        blocks = [[rng.randrange(1, 300) for _ in range(rng.randrange(0, 5))] for _ in range(nlin)]
        for _ in range(nlook):
            nid = rng.randrange(1, 6)
            sr = 1
            while sr * 2 <= nid: sr *= 2
            blocks.append([nid, sr, sr.bit_length() - 1, nid - sr] + [x for g in sorted(rng.sample(range(1, 400), nid)) for x in (g, rng.randrange(0, 50))])
        cls_off = 4 + w * (ncls + 1)
        offs, cur = [], cls_off
        for bl in blocks:
            offs.append(cur); cur += 2 * len(bl)
        offs.append(cur)
        body = b''.join(struct.pack('>H', x) for bl in blocks for x in bl)
        tbl = bytearray(struct.pack('>HH', ncls, nlin) + b''.join(struct.pack('>I' if wide else '>H', o & (0xFFFFFFFF if wide else 0xFFFF)) for o in offs) + body)
        kind = rng.choice(('valid', 'valid', 'field', 'field', 'byte', 'trunc', 'big', 'extend'))
        if kind == 'field' and len(tbl) >= 4:
            fo = 2 * rng.randrange(0, min(len(tbl), 4 + w * (ncls + 1) + 8) // 2)
            v = struct.unpack('>H', tbl[fo:fo + 2])[0] if fo + 2 <= len(tbl) else 0
            if fo + 2 <= len(tbl):
                tbl[fo:fo + 2] = struct.pack('>H', rng.choice((0, 1, v + 1, v - 1, v + 2, v * 2, 0x7FFF, 0x8000, 0xFFFF, len(tbl), len(tbl) // 2)) & 0xFFFF)
        elif kind == 'byte' and tbl:
            for _ in range(rng.randrange(1, 4)):
                tbl[rng.randrange(len(tbl))] = rng.randrange(256)
        elif kind == 'trunc':
            tbl = tbl[:rng.randrange(0, len(tbl) + 1)]
        elif kind == 'extend':
            tbl += bytes(rng.randrange(256) for _ in range(rng.randrange(1, 9)))
        elif kind == 'big' and k % 8 == 0:
            n2 = rng.choice((32765, 32766, 32766, 32767, 40000, 65535)); nl2 = rng.choice((n2, n2, 0, n2 - 1))
            co = 4 + w * (n2 + 1); st = rng.choice((0, 2))
            tbl = bytearray(struct.pack('>HH', n2, nl2) + b''.join(struct.pack('>I' if wide else '>H', (co + st * i) & (0xFFFFFFFF if wide else 0xFFFF)) for i in range(n2 + 1)) + struct.pack('>H', 3) * rng.choice((0, 5, n2)))
        ccases.append('cm%d classmap %s %s' % (k, rng.choice(('40000', '50000')) if wide else rng.choice(('20000', '30000')), bytes(tbl).hex() or '-'))
    cml, cil, _ = vlib.run_pair(cmexe, hexe, ccases, timeout=2400)
    cstats = {}
    for c, m, i in zip(ccases, cml, cil):
        if i is None or m is None:
            chk.tie_break('harness', 'no result line', c[:200]); continue
        if 'ABORT' in i.split()[1:3]:
            chk.violation('c01:classmap-abort:%s' % c.split()[3][:60], 'Silf::readClassMap aborted on a crafted class map (sanitizer report or watchdog): %s' % i[:300], dict(case=c[:6000], got=i[:600])); continue
        if ' TRAP' in m:
            chk.tie_break('correspondence:classmap', 'Model/ClassMapModel.v reads outside the class map: %s' % m[:200], c[:300]); continue
        cstats[i.split()[2]] = cstats.get(i.split()[2], 0) + 1
        classes.add(('classmap', i.split()[2], c.split()[2], min(len(c.split()[3]) // 40, 8)))
        if i.split()[1:] != m.split()[1:]:
            ndis += 1
            chk.tie_break('correspondence:classmap', 'Silf::readClassMap and Model/ClassMapModel.v disagree: impl %s model %s' % (i[:200], m[:200]), c[:400])
    dist.update({'classmap ' + k: v for k, v in cstats.items()})
    # --- cmap subtables whose length is odd and which end with the table (the family of C13): the last glyphIdArray entry starts at the
    # subtable's last byte; both lookup paths must refuse it rather than read past the table (tie to Model/CmapModel.v, whose lookups
    # C01_cmap*_safe are about)
    from props import c13 as _c13
    try:
        m13, w13 = _c13.build(chk)
        ocases = ['o%d tbl %s %s' % (k, _c13.hexs(tbl), ' '.join('%x' % p_ for p_ in pts)) for k, (tbl, pts) in enumerate(_c13.gen_oddlen(rng, 120 if thorough else 25))]
        oml, oil, _ = vlib.run_pair(m13, w13, ocases, timeout=1200)
        for c, m, i in zip(ocases, oml, oil):
            if i is None or m is None:
                chk.tie_break('harness', 'no result line', c[:200]); continue
            if ' ABORT ' in i:
                chk.violation('c01:cmap-oddlen:%s' % c.split()[2][:80], 'a cmap lookup read outside the table on a format 4 subtable of odd length ending with the table: %s' % i[:300], dict(case=c, got=i[:600])); continue
            classes.add(('cmap-oddlen', i.split()[2] if len(i.split()) > 2 else ''))
            if m.split()[1:] != i.split()[1:]:
                ndis += 1; chk.tie_break('correspondence:cmap', 'model %r vs implementation %r' % (m[:200], i[:200]), c[:300])
        dist['cmap odd-length subtables'] = len(ocases)
    except vlib.BuildError as e:
        chk.tie_break('build', 'cmap harness: %s' % str(e)[:300])
    # --- the Silf directory and subtable headers (Face::readGraphite / Silf::readGraphite) against Model/SilfModel.v: compiled GDL-lite
    # Silf tables laid out again under every table version with justification levels, critical features, script tags, pseudo glyphs and
    # several subtables, valid and damaged field by field.  Verdict, error code and every header field must agree; where the loader fails
    # inside a pass beyond what Model/PassModel.v covers (code loading, rules, states, ranges) the model may only have accepted that far.
    from props import c06 as _c06, cmapgen as _cmapgen, silfgen
    smexe = vlib.build_model_driver('Silf')
    sbase_path = os.path.join(vlib.REPO, 'tests/fonts', _c06.BASE)
    sbase = K.enrich(open(sbase_path, 'rb').read())      # glyph attributes 4..7 and two features, as the compiled programs expect
    scm = _cmapgen.parse_font_cmap(sbase_path)
    sfont = os.path.join(tmp, 'silfbase.ttf')
    open(sfont, 'wb').write(sbase)
    sinv = {}
    for c_, g_ in scm.items():
        if 0x21 <= c_ <= 0x7E and g_:
            sinv.setdefault(g_, c_)
    ng0 = K.base_info(sbase)[0]
    _go = K.font_tables(sbase)[b'Gloc'][0]
    na0 = struct.unpack('>H', sbase[_go + 6:_go + 8])[0]
    def fresh_silf():
        prog, nsub = _c06.gen_program(rng, sorted(sinv))
        return K.compile_silf(prog, ng0 - 1, nsub)
    scases, swhat = [], []
    for k in range(6000 if thorough else 700):
        tbl, what = silfgen.gen_case(rng, fresh_silf, ng0, na0)
        scases.append('sh%d silf %s %s' % (k, sfont, tbl.hex() or '-')); swhat.append(what)
    _, sil, _ = vlib.run_pair(None, hexe, scases, timeout=3000)
    smodel = []
    for c, l in zip(scases, sil):
        kv = dict(x.split('=', 1) for x in (l or '').split() if '=' in x)
        smodel.append('%s silf %s %s %s %s' % (c.split()[0], kv.get('ng', '0'), kv.get('na', '0'), kv.get('bx', '0'), c.split()[3]))
    sml, _, _ = vlib.run_pair(smexe, None, smodel, timeout=3000)
    HDR = set(range(5, 27)) | {34, 35, 53, 55}
    CMC = set(range(27, 34)) | {0xFFFFFFFF}
    PMC = set(range(36, 48)) | {54, 56, 57}
    sstat = {}
    for c, what, i, m in zip(scases, swhat, sil, sml):
        if i is None or m is None:
            chk.tie_break('harness', 'no result line', c[:200]); continue
        it, mt = i.split(), m.split()
        if 'ABORT' in it[1:3]:
            chk.violation('c01:silf-abort:%s' % what[:60], 'Face::readGraphite aborted on a crafted Silf table (%s): %s' % (what, i[:300]), dict(case=c[:8000], got=i[:600], mutation=what)); continue
        if 'NOTABLE' in it and len(c.split()[3]) < 8 and mt[2:4] in (['REJ', '7'], ['REJ', '5']):
            sstat['notable/REJ'] = sstat.get('notable/REJ', 0) + 1; continue          # Face::Table refuses a table shorter than 4 bytes before readGraphite sees it
        if 'NOGLYPHS' in it or 'NOTABLE' in it or len(mt) < 3 or mt[2] == 'BAD':
            chk.tie_break('harness', 'silf case not run: %s / %s' % (i[:100], m[:100]), c[:200]); continue
        if mt[2] == 'TRAP':
            ndis += 1; chk.tie_break('model:silf', 'Model/SilfModel.v reads outside the table (contradicts C01_silf_reads_in_bounds): %s' % m[:200], c[:300]); continue
        kv = dict(x.split('=', 1) for x in it if '=' in x)
        ok, err, ctx = kv['ok'] == '1', int(kv['err']), int(kv['ctx'], 16)
        mfields = [' '.join(x.split()[:-1]) for x in m.split(' | ')[1:]]          # without the pass types
        ifields = [x.strip() for x in i.split(' | ')[1:]]
        mv = mt[2]
        mkv = dict(x.split('=', 1) for x in mt[3:6] if '=' in x)
        good, why = True, ''
        if ok:
            good = mv == 'OK' and mfields == ifields
            why = 'the loader accepted the table; the model says %s' % ' '.join(mt[2:6]) if mv != 'OK' else 'the header fields differ'
        elif mv == 'NOPASS':
            good = err == 0; why = 'no subtable has passes: the loader must refuse without an error code'
        elif err in HDR:
            good = mv == 'REJ' and int(mt[3]) == err and (err in (34, 35) or (ctx & 0xFF) != 3 or int(mkv.get('s', 0)) == (ctx >> 8) & 0xFF)
            why = 'header test: loader error %d (context %x), model %s' % (err, ctx, ' '.join(mt[2:6]))
        elif err in CMC:
            good = mv == 'REJCM'; why = 'class map refused by the loader (error %d), model %s' % (err, ' '.join(mt[2:6]))
        elif err in PMC:
            good = mv == 'REJPASS' and ((ctx & 0xFF) != 3 or int(mkv.get('i', -1)) == ctx >> 16)
            why = 'pass test: loader error %d (context %x), model %s' % (err, ctx, ' '.join(mt[2:6]))
        else:                                                  # beyond the model: code loading, rules, states, ranges (or readRules' uncoded refusals)
            good = mv in ('OK', 'REJPASS') or (mv in ('REJ', 'REJCM') and (int(mkv.get('s', 0)) > 0 or (mv == 'REJ' and int(mt[3]) in (34, 35))))
            why = 'the loader failed inside a pass (error %d) but the model refuses the table earlier: %s' % (err, ' '.join(mt[2:6]))
        cls = ('ok' if ok else 'err%d' % (err if err < 100 else 99)) + '/' + mv
        sstat[cls] = sstat.get(cls, 0) + 1
        classes.add(('silf', cls, what.split()[0][:8]))
        if not good:
            ndis += 1
            chk.tie_break('correspondence:readGraphite', 'Face::readGraphite / Silf::readGraphite and Model/SilfModel.v disagree (%s): %s; impl %s; model %s' % (what, why, i[:260], m[:260]), c[:400])
    chk.notes.append('silf headers: %s' % sorted(sstat.items()))
    dist.update({'silf ' + k: v for k, v in sstat.items()})
    # --- oracle: load + query everything + destroy
    cases, keep = [], {}
    fz = os.path.join(vlib.REPO, 'tests', 'fuzz-tests')
    nhist = 0
    for ff in sorted(glob.glob(os.path.join(fz, '*', '*', '*.fuzz'))):
        font = os.path.basename(os.path.dirname(os.path.dirname(ff))) + '.ttf'
        src = os.path.join(vlib.REPO, 'tests', 'fonts', font)
        if not os.path.exists(src):
            continue
        data = open(src, 'rb').read()
        lines = [l for l in open(ff, errors='replace').read().splitlines() if l.count(',') >= 3]
        if not thorough:
            lines = lines[:6]
        for l in lines:
            a = l.split(',')
            try:
                off, val = int(a[1], 0), int(a[2], 0)
            except ValueError:
                continue
            if off >= len(data):
                continue
            d = bytearray(data)
            vb = val.to_bytes(max(1, (val.bit_length() + 7) // 8), 'big')
            d[off:off + len(vb)] = vb
            p = os.path.join(tmp, 'h%d.ttf' % nhist); nhist += 1
            open(p, 'wb').write(bytes(d)[:len(data)])
            keep[p] = 'historical crasher %s: %s' % (os.path.basename(ff), l[:60])
            cases.append('h%d api %s %d %s - %s' % (len(cases), p, rng.choice((0, 2, 4, 6, 7)), rng.choice(('cb', 'file')), QUERIES))
    srcs = [f for f in S.FONTS]
    datas = {f: open(os.path.join(vlib.REPO, 'tests/fonts', f), 'rb').read() for f in srcs}
    for k in range(9000 if thorough else 900):
        src = rng.choice(srcs)
        r = rng.random()
        if r < 0.3:
            md, what = field_mutate(rng, datas[src])
        elif r < 0.6:
            md, what = c02.mutate_font(rng, datas[src])
        elif r < 0.85:
            md, what = dir_mutate(rng, datas[src])
        else:
            cut = rng.choice((0, 3, 11, 12, 13, 100, len(datas[src]) // 2, len(datas[src]) - 1, rng.randrange(0, len(datas[src]))))
            md, what = datas[src][:cut], 'truncated at %d' % cut
        p = os.path.join(tmp, 'm%d.ttf' % k)
        open(p, 'wb').write(md)
        keep[p] = '%s: %s' % (src, what)
        for mode in (('cb', 'file') if k % 3 == 0 else (rng.choice(('cb', 'file')),)):
            cases.append('m%d api %s %d %s - %s' % (len(cases), p, rng.randrange(8), mode, QUERIES))
    # class maps whose size is at the limit of their 16-bit offsets (Silf version 2 / 3): 4 + 2 * (numClasses + 1) no longer fits 16 bits from
    # 32766 classes on; offsets written modulo 65536 by a naive compiler must not be taken at face value (F28)
    from props import fontkit as K2
    cbase = open(os.path.join(vlib.REPO, 'tests/fonts/general.ttf'), 'rb').read()
    for k in range(40 if thorough else 10):
        ncls = rng.choice((32764, 32765, 32766, 32766, 32767, 32768, 40000, 65534, 65535))
        nlin = rng.choice((ncls, ncls, ncls - 1, 0))
        ndata = rng.choice((0, 5, 5, 100, ncls, 2 * ncls))
        true_off = 4 + 2 * (ncls + 1)
        step = rng.choice((0, 2, 2))
        offs = [(true_off + step * i) & 0xFFFF for i in range(ncls + 1)]
        orig_table = K2.Classes.table
        K2.Classes.table = lambda self, a=ncls, b=nlin, o=offs, d=ndata: struct.pack('>HH', a, b) + b''.join(struct.pack('>H', x) for x in o) + struct.pack('>H', 5) * d
        try:
            fontd = K2.build_font(cbase, [dict(maxloop=1, rules=[dict(pre=0, pat=[{5}], acts=[[('G', 5)]])])])
        except (AssertionError, struct.error):
            fontd = None
        finally:
            K2.Classes.table = orig_table
        if fontd is None:
            continue
        p = os.path.join(tmp, 'cl%d.ttf' % k)
        open(p, 'wb').write(fontd)
        keep[p] = 'class map: %d classes (%d linear), %d data words, 16-bit offsets step %d written modulo 65536' % (ncls, nlin, ndata, step)
        cases.append('cl%d api %s %d %s - info' % (len(cases), p, rng.choice((0, 2)), 'cb'))
    # passes whose rule count and sort keys are at their 16-bit limits: sums and products of font-supplied counts must not overflow (F30)
    for k, (nr, sk) in enumerate(((40000, 0xFFFF), (65535, 0xFFFF), (32769, 0xFFFF), (65535, 63), (65535, 64), (20000, 0x8000), (1, 0xFFFF), (65535, 1))):
        if not thorough and k >= 5:
            break
        p = os.path.join(tmp, 'mr%d.ttf' % k)
        open(p, 'wb').write(K2.replace_table(cbase, b'Silf', K2.silf_many_rules(nr, sk)))
        keep[p] = 'one pass with %d rules, every sort key %#x, empty code' % (nr, sk)
        cases.append('mr%d api %s %d %s - info' % (len(cases), p, 0, 'cb'))
    # compressed tables: the LZ4 block families of the C14 check (valid, mutated, boundary blocks at every guard), wrapped as a compressed
    # Silf (version 5) or Glat (version 3) table of a real font and loaded through the whole face constructor
    from props import c14, fontkit as K
    class _Sub:                      # the C14 generator wants a check-like object; give it its own stream so the C01 draws stay as they are
        pass
    sub = _Sub(); sub.rng = __import__('random').Random(chk.seed * 7 + 1); sub.tier = 'quick'
    lz_cases, _lz_meta = c14.gen_cases(sub)
    small = open(os.path.join(vlib.REPO, 'tests/fonts', 'small.ttf'), 'rb').read()
    awami = open(os.path.join(vlib.REPO, 'tests/fonts', 'Awami_compressed_test.ttf'), 'rb').read()
    nlz = 0
    lz_cases = [lc for lc in lz_cases if len(lc.split()) == 3 and lc.split()[1].isdigit()]
    for lc in lz_cases:
        f = lc.split()
        osz = int(f[1]) & 0x07FFFFFF
        blk = bytes.fromhex(f[2]) if f[2] != '-' else b''
        if rng.random() < 0.7:
            tbl = struct.pack('>II', 0x00050000, (1 << 27) | osz) + blk; fontd = K.replace_table(small, b'Silf', tbl); what = 'compressed Silf'
        else:
            tbl = struct.pack('>II', 0x00030000, (1 << 27) | osz) + blk; fontd = K.replace_table(awami, b'Glat', tbl); what = 'compressed Glat'
        p = os.path.join(tmp, 'z%d.ttf' % nlz); nlz += 1
        open(p, 'wb').write(fontd)
        keep[p] = '%s: lz4 block %s osz %d' % (what, f[2][:40], osz)
        cases.append('z%d api %s %d %s - info' % (len(cases), p, rng.choice((0, 2, 6)), rng.choice(('cb', 'file'))))
    # pass headers: compiled GDL-lite fonts with field-level edits of one pass (counts, offsets, lengths, the pass boundaries in the
    # Silf header).  The loader must not accept a pass that the model of Pass::readPass rejects.
    from props import c06, cmapgen
    pmexe = vlib.build_model_driver('Pass')
    gbase = open(os.path.join(vlib.REPO, 'tests/fonts', c06.BASE), 'rb').read()
    gcm = cmapgen.parse_font_cmap(os.path.join(vlib.REPO, 'tests/fonts', c06.BASE))
    ginv = {}
    for c_, g_ in gcm.items():
        if 0x21 <= c_ <= 0x7E and g_:
            ginv.setdefault(g_, c_)
    pcases, pmodel, pidx = [], [], []
    for k in range(2500 if thorough else 300):
        prog, nsub = c06.gen_program(rng, sorted(ginv))
        silf = bytearray(K.compile_silf(prog, K.base_info(gbase)[0] - 1, nsub))
        sub = 12
        npass = silf[sub + 6]
        op = sub + 6 + 14 + 6 + 3 + 1 + 1 + 1 + 2                       # offset of oPasses[] (fixed header of compile_silf)
        offs = [struct.unpack('>I', silf[op + 4 * i:op + 4 * i + 4])[0] for i in range(npass + 1)]
        pi = rng.randrange(npass)
        ps = sub + offs[pi]
        what = 'none'
        if rng.random() < 0.9:
            kind = rng.random()
            if kind < 0.55:                                               # a 16-bit header field
                fo = rng.choice((4, 24, 26, 28, 30, 32))
                v = struct.unpack('>H', silf[ps + fo:ps + fo + 2])[0]
                nv = rng.choice((0, 1, v + 1, max(0, v - 1), v * 2, 0x7FFF, 0x8000, 0xFFFF, v + 2)) & 0xFFFF
                silf[ps + fo:ps + fo + 2] = struct.pack('>H', nv); what = 'u16@%d %d->%d' % (fo, v, nv)
            elif kind < 0.75:                                             # a code offset
                fo = rng.choice((8, 12, 16))
                v = struct.unpack('>I', silf[ps + fo:ps + fo + 4])[0]
                nv = rng.choice((0, v + 1, v - 1, v + 2, 0xFFFFFFFF, v // 2)) & 0xFFFFFFFF
                silf[ps + fo:ps + fo + 4] = struct.pack('>I', nv); what = 'u32@%d %d->%d' % (fo, v, nv)
            elif kind < 0.82:                                             # the pre-context bounds / pass-constraint length after the rule map
                nrg, nsu = struct.unpack('>H', silf[ps + 32:ps + 34])[0], struct.unpack('>H', silf[ps + 28:ps + 30])[0]
                o = 40 + 6 * nrg + 2 * nsu
                ne = struct.unpack('>H', silf[ps + o:ps + o + 2])[0]
                fo = o + 2 + 2 * ne + rng.choice((0, 1))
                nv = rng.choice((0, 1, 2, 3, 255))
                what = 'prectx@%d %d->%d' % (fo, silf[ps + fo], nv); silf[ps + fo] = nv
            elif kind < 0.9:                                              # any byte of the pass body (arrays, offsets, pre-context bounds)
                ln = offs[pi + 1] - offs[pi]
                fo = rng.randrange(40, ln)
                nv = rng.choice((0, 1, 255, silf[ps + fo] + 1 & 255, silf[ps + fo] - 1 & 255))
                what = 'u8@%d %d->%d' % (fo, silf[ps + fo], nv); silf[ps + fo] = nv
            else:                                                         # the pass boundaries
                j = rng.choice((pi, pi + 1))
                nv = (offs[j] + rng.choice((1, -1, 2, -2, 7, -40, 40))) & 0xFFFFFFFF
                silf[op + 4 * j:op + 4 * j + 4] = struct.pack('>I', nv); what = 'oPasses[%d] %d->%d' % (j, offs[j], nv)
        offs2 = [struct.unpack('>I', silf[op + 4 * i:op + 4 * i + 4])[0] for i in range(npass + 1)]
        p = os.path.join(tmp, 'ph%d.ttf' % k)
        open(p, 'wb').write(K.replace_table(gbase, b'Silf', bytes(silf)))
        keep[p] = 'compiled font, pass %d: %s' % (pi, what)
        pcases.append('ph%d api %s %d cb - info' % (k, p, rng.choice((0, 6))))
        lsub = len(silf) - sub
        for i in range(npass):
            a, b = offs2[i], offs2[i + 1]
            if a <= b and offs2[0] <= a and b <= lsub:
                body = bytes(silf[sub + a:sub + b])
                flags = body[0] if body else 0
                pmodel.append('ph%d.%d pass %d %d %s' % (k, i, a, 1 if (flags & 0x1f) == 0 else 0, body.hex() or '-'))
                pidx.append(k)
            else:
                pmodel.append('ph%d.%d pass 0 1 -' % (k, i)); pidx.append(k)     # the Silf header already refuses these boundaries
    _, phl, _ = vlib.run_pair(None, hexe, pcases, timeout=3000)
    pml, _, _ = vlib.run_pair(pmexe, None, pmodel, timeout=3000)
    verdicts = {}
    for k, m in zip(pidx, pml):
        v = (m or 'x P none').split()[2]
        verdicts.setdefault(k, []).append(v)
    pstat = {}
    for k, (c, l) in enumerate(zip(pcases, phl)):
        if l is None:
            chk.tie_break('harness', 'no result line', c[:300]); continue
        t = l.split()
        vs = verdicts.get(k, [])
        if 'ABORT' in t[1:3]:
            chk.violation('c01:pass-abort:%s' % keep[c.split()[2]][:100], 'loading a font with an edited pass aborted: %s' % l[:300], dict(case=c, got=l[:800], mutation=keep[c.split()[2]])); continue
        okf = 'face=ok' in t
        st = ('ok' if okf else 'null') + '/' + ('accept' if vs and all(v == 'accept' for v in vs) else 'reject' if 'reject' in vs else 'other')
        pstat[st] = pstat.get(st, 0) + 1
        if 'trap' in vs:
            ndis += 1; chk.tie_break('model:pass', 'the pass model traps (contradicts C01_read_pass_safe)', c[:200])
        if okf and 'reject' in vs:
            ndis += 1
            chk.tie_break('correspondence:readPass', 'the loader accepted a font whose pass the model of Pass::readPass rejects (%s): a bounds or consistency test is no longer made' % keep[c.split()[2]], c[:300])
        classes.add(('pass', st, keep[c.split()[2]].split(': ')[1].split(' ')[0][:10]))
    chk.notes.append('pass headers: %s' % sorted(pstat.items()))
    _, al, _ = vlib.run_pair(None, hexe, cases, timeout=3000)
    stats = {}
    for c, l in zip(cases, al):
        f = c.split()
        if l is None:
            chk.tie_break('harness', 'no result line', c[:300]); continue
        t = l.split()
        bad = None
        if 'ABORT' in t[1:3]:
            bad = 'loading / querying / destroying aborted (sanitizer report, crash or watchdog): %s' % l[:300]
        elif 'LEAK=1' in t:
            bad = 'memory is still allocated after the face was destroyed (LeakSanitizer)'
        elif 'MISUSE' in t:
            bad = 'release_table called with a pointer that is not outstanding'
        st = 'abort' if bad and 'ABORT' in t[1:3] else ('face_ok' if 'face=ok' in t else 'face_null')
        stats[st] = stats.get(st, 0) + 1
        classes.add(('load', keep.get(f[2], '?').split(':')[0][:24], f[3], f[4], st))
        dist[keep.get(f[2], '?').split(':')[0][:24]] = dist.get(keep.get(f[2], '?').split(':')[0][:24], 0) + 1
        if bad:
            rp = dict(case=c, got=l[:1200], mutation=keep.get(f[2], ''))
            try:
                import base64, zlib
                rp['font_gz_b64'] = base64.b64encode(zlib.compress(open(f[2], 'rb').read(), 9)).decode()
            except OSError:
                pass
            chk.violation('c01:%s:%s' % (t[2] if 'ABORT' in t[1:3] and len(t) > 2 else 'leak', keep.get(f[2], '?')[:100]), bad, rp)
    shutil.rmtree(tmp, ignore_errors=True)
    chk.notes.append('load oracle: %s; %d historical crashers replayed' % (sorted(stats.items()), nhist))
    chk.cov.update(evaluations=len(scases) + len(cases) + len(pcases) + len(gcases) + len(ccases), distinct_nontrivial=len(classes), disagreements_checked=ndis, distribution=dist,
                   rule='container: synthetic sfnt files (0..41 tables, offsets / lengths at, just past and far past the end, 32-bit extremes, wrong scaler, truncation anywhere, disagreeing table count) through FileFace '
                        'and the model, table by table; oracle: %d historical single-byte crashers from tests/fuzz-tests plus byte-mutated (30%%), field-mutated (30%%: aligned 16/32-bit fields of the Silf header and first subtable, Feat, Sill, name, Gloc, Glat, hhea, maxp, loca, hmtx, head set to boundary values), directory-mutated (25%%) and truncated (15%%) copies of the 16 shipped fonts x '
                        'option bits 0..7 x {callbacks, file}, plus the LZ4 block families of C14 wrapped as compressed Silf / Glat tables: make, all face / feature / label / feature-value queries, glyph lookups, destroy, LeakSanitizer; compiled GDL-lite fonts with field-level edits of one pass (16/32-bit header fields, body bytes, pass boundaries): loader verdict against the model of Pass::readPass; class maps (16- / 32-bit offsets, linear and lookup classes; valid, field / byte edits, truncation, trailing bytes, 32765..65535 classes with offsets written modulo 65536) through Silf::readClassMap against Model/ClassMapModel.v; Gloc / Glat pairs (versions 1 / 2, short / long offsets, attribute-id arrays; valid, and damaged: odd block lengths, run counts claiming more values than the block holds, a block ending at the end of the table, decreasing / overshooting offsets, truncation, header limits, keys out of order) against Model/GlatModel.v: face verdict, per-glyph verdict and attribute values; non-trivial = distinct (source, options, mode, verdict)' % nhist,
                   samples=[scases[0][:200], cases[0][:200]], exhaustive=False)


def replay(chk, obj):
    rp = obj.get('replay', {})
    case = rp.get('case') or (obj.get('broken') or [{}])[-1].get('case')
    if not case:
        print('no case'); return 1
    hexe = apiseq.build('asan')
    f = case.split()
    if f[1] == 'sfnt':
        mexe = vlib.build_model_driver('Sfnt')
        tmp = os.path.join(vlib.BUILD, 'fuzzfonts', 'replay'); os.makedirs(tmp, exist_ok=True)
        f[3] = tmp; case = ' '.join(f)
        ml, il, _ = vlib.run_pair(mexe, hexe, [case], shards=1)
        print(case[:300]); print(' impl :', il[0]); print(' model:', ml[0])
        return 0 if il[0] == ml[0] and il[0] and 'ABORT' not in il[0] else 1
    if rp.get('font_gz_b64'):
        import base64, zlib
        tmp = os.path.join(vlib.BUILD, 'fuzzfonts', 'replay'); os.makedirs(tmp, exist_ok=True)
        fp = os.path.join(tmp, 'replay.ttf')
        open(fp, 'wb').write(zlib.decompress(base64.b64decode(rp['font_gz_b64'])))
        f[2] = fp; case = ' '.join(f)
    _, il, err = vlib.run_pair(None, hexe, [case], shards=1)
    print(case[:300]); print(' impl :', (il[0] or '')[:1500]); print(err[-1500:])
    l = il[0] or ''
    return 1 if 'ABORT' in l or 'LEAK=1' in l or 'MISUSE' in l else 0
