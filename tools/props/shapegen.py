"""Text / case generators for the shaping harness (C02-C05, C08, C10, C15, C19)."""
import os, struct
from props import cmapgen, utfgen

FONTS = ['Padauk.ttf', 'Scheherazadegr.ttf', 'charis_r_gr.ttf', 'Annapurnarc2.ttf', 'Awami_test.ttf', 'MagyarLinLibertineG.ttf',
         'general.ttf', 'grtest1gr.ttf', 'PigLatinBenchmark_v3.ttf', 'Charis5_eursub.ttf', 'charis_fast.ttf', 'AwamiNastaliq-Regular.ttf',
         'Awami_compressed_test.ttf', 'Scheherazadegr_noglyfs.ttf', 'small.ttf', 'underflow.ttf']
_rep = {}


def repertoire(repo, font):
    if font not in _rep:
        m = cmapgen.parse_font_cmap(os.path.join(repo, 'tests/fonts', font))
        cps = sorted(c for c in m if c not in (0,))
        _rep[font] = cps or [0x41]
    return _rep[font]


_pseudo = {}


def pseudos(repo, font):
    """code points the font handles through the pseudo-glyph map of its first Silf subtable (they need not be in the cmap)"""
    if font in _pseudo:
        return _pseudo[font]
    out = []
    try:
        d = open(os.path.join(repo, 'tests/fonts', font), 'rb').read()
        n = struct.unpack('>H', d[4:6])[0]
        so = None
        for i in range(n):
            tag, _, off, ln = struct.unpack('>4sIII', d[12 + 16 * i:28 + 16 * i])
            if tag == b'Silf':
                so = off
        if so is not None:
            ver = struct.unpack('>I', d[so:so + 4])[0]
            p = so + (8 if ver >= 0x30000 else 4)
            p += 4                                              # numSub, reserved
            sub = so + struct.unpack('>I', d[p:p + 4])[0]
            q = sub + (8 if ver >= 0x30000 else 0)
            q += 6                                              # maxGlyph, extra ascent / descent
            npass = d[q]
            q += 13                                             # numPasses .. aPassBits
            nj = d[q]; q += 1 + 8 * nj
            q += 2 + 1 + 1 + 1 + 1 + 3                          # aLig, aUser, iMaxComp, dir, aCollision, reserved
            ncf = d[q]; q += 1 + 2 * ncf
            q += 1                                              # reserved
            nst = d[q]; q += 1 + 4 * nst
            q += 2                                              # lbGID
            q += 4 * (npass + 1)
            npseudo = struct.unpack('>H', d[q:q + 2])[0]; q += 8
            for k in range(min(npseudo, 4000)):
                uid, gid = struct.unpack('>IH', d[q + 6 * k:q + 6 * k + 6])
                if 0 < uid < 0x110000 and not 0xD800 <= uid <= 0xDFFF:
                    out.append(uid)
    except (OSError, struct.error, IndexError):
        pass
    _pseudo[font] = out
    return out


def gen_text(rng, rep, maxlen=24):
    n = rng.choice((0, 1, 1, 2, 3, 4, 5, 6, 8, 10, 12, 16, maxlen))
    out = []
    # locality: pick a window of the repertoire so that characters of one script meet
    if rng.random() < 0.7 and len(rep) > 40:
        s = rng.randrange(0, len(rep) - 30); win = rep[s:s + 30]
    else:
        win = rep
    for _ in range(n):
        k = rng.random()
        if k < 0.80: out.append(rng.choice(win))
        elif k < 0.88: out.append(rng.choice((0x20, 0x20, 0x0A, 0x200B, 0x200C, 0x200D, 0x25CC, 0x2D, 0x2E)))
        elif k < 0.94: out.append(rng.choice(rep))
        elif k < 0.97: out.append(rng.choice((0x10FFFF, 0x1F600, 0xFFFD, 0xFFFF, 0xE000, 0x10000, 0x378)))     # unmapped / astral
        else: out.append(rng.randrange(1, 0x110000))
    return [c for c in out if not (0xD800 <= c <= 0xDFFF)]


_seeds = {}
CORPORA = {'Padauk.ttf': 'my_HeadwordSyllables.txt', 'charis_r_gr.ttf': 'udhr_eng.txt', 'Charis5_eursub.ttf': 'udhr_yor.txt', 'charis_fast.ttf': 'udhr_eng.txt',
           'Annapurnarc2.ttf': 'udhr_nep.txt', 'Scheherazadegr.ttf': 'udhr_arb.txt', 'Scheherazadegr_noglyfs.ttf': 'udhr_arb.txt',
           'AwamiNastaliq-Regular.ttf': 'awami_tests.txt', 'Awami_test.ttf': 'awami_tests.txt', 'Awami_compressed_test.ttf': 'awami_tests.txt'}


def seeds(repo, font):
    """the strings the repository itself shapes with this font: fonttest lines of tests/CMakeLists.txt and the lines of its comparison corpus"""
    if font not in _seeds:
        import re
        out, alpha = [], set()
        try:
            for m in re.finditer(r'fonttest\(\w+\s+(\S+)\s+([0-9A-Fa-f ]+?)(?:\s+-|\))', open(os.path.join(repo, 'tests/CMakeLists.txt')).read()):
                if m.group(1) == font:
                    out.append([int(x, 16) for x in m.group(2).split()])
        except OSError:
            pass
        c = CORPORA.get(font)
        lines = []
        if c:
            try:
                for l in open(os.path.join(repo, 'tests/texts', c), encoding='utf-8', errors='ignore'):
                    l = l.strip()
                    if l:
                        lines.append([ord(ch) for ch in l])
            except OSError:
                pass
        for t in out + lines[:400]:
            alpha.update(t)
        _seeds[font] = (out, lines, sorted(alpha) or [0x41])
    return _seeds[font]


def gen_text_seeded(rng, repo, font, maxlen=16):
    """a text near the ones the repository tests: a fonttest string or a window of a corpus line, with up to three edits
    (drop, duplicate, swap, replace / insert / append from the same alphabet)"""
    tests, lines, alpha = seeds(repo, font)
    ps = pseudos(repo, font)
    if ps and rng.random() < 0.15:
        # characters that reach the font only through its pseudo-glyph map
        base = [rng.choice(alpha) for _ in range(rng.randrange(1, 4))]
        t = []
        for b in base:
            t.append(b)
            for _ in range(rng.randrange(1, 3)):
                t.append(rng.choice(ps))
        return t[:maxlen + 8]
    r = rng.random()
    if tests and (r < 0.5 or not lines):
        t = list(rng.choice(tests))
    elif lines:
        l = rng.choice(lines)
        n = rng.randrange(1, maxlen + 1)
        st = rng.randrange(0, max(1, len(l) - n + 1))
        t = l[st:st + n]
    else:
        return gen_text(rng, repertoire(repo, font), maxlen)
    for _ in range(rng.choice((0, 1, 1, 2, 2, 3))):
        k = rng.randrange(7)
        if k == 0 and t: del t[rng.choice((0, 0, len(t) - 1, rng.randrange(len(t))))]
        elif k == 1 and t: i = rng.randrange(len(t)); t.insert(i, t[i])
        elif k == 2 and len(t) > 1: i = rng.randrange(len(t) - 1); t[i], t[i + 1] = t[i + 1], t[i]
        elif k == 3 and t: t[rng.randrange(len(t))] = rng.choice(alpha)
        elif k == 4: t.insert(rng.randrange(len(t) + 1), rng.choice(alpha))
        else: t.append(rng.choice(alpha))
    return [c for c in t if c and not (0xD800 <= c <= 0xDFFF)][:maxlen + 8]


def encode(cps, enc):
    u = []
    for c in cps:
        u += utfgen.enc(c, enc)
    return u


def case_line(cid, font, units, enc, dir_=0, opts=0, src='file', ppm='-', feats='-', ops=('dump',)):
    return '%s shape %s %d %s %d %d %s %s %s %s' % (cid, font, opts, src, enc, dir_, ppm, feats, utfgen.hexu(units, enc), ' '.join(ops))


def parse_dump(d):
    """parse one dump (string) into dict(n, nc, adv, wf, slots=[tuple], cinfo=[tuple])"""
    tok = d.split()
    out = dict(n=int(tok[0][2:]), nc=int(tok[1][3:]), adv=tok[2][4:], wf=tok[3][3:], slots=[], cinfo=[])
    i = tok.index('S') + 1
    while i < len(tok) and tok[i] != 'C':
        out['slots'].append(tok[i].split(',')); i += 1
    i += 1
    while i < len(tok):
        out['cinfo'].append(tok[i].split(',')); i += 1
    return out
