"""C19 — line breaking and justification never corrupt the glyph stream (DESIGN.md section 6/C19)."""
import os
import vlib
from props import shapegen as S, engine


def known_class(dir_, fdir):
    """the recorded defects: Segment::justify reverses the stream (segment-globally) when the requested direction differs from
    the font's (F15), and passes the direction *flags* as a boolean to positionSlots so that dir 2/4/6 also reverse (F16)"""
    if (dir_ & 1) != fdir:
        return 'justify-reverses-when-direction-differs-from-font'
    if dir_ in (2, 4, 6):
        return 'justify-passes-direction-flags-as-bool'
    return None


def crafted_font(name):
    """<font>~just=a,b,c,d : the level-0 justification record of subtable 0 names these glyph attributes (stretch, shrink, step, weight);
    <font>~lineend : Silf flag 1 (line-end contextuals) set.  The file is (re)made under the build directory from the name alone."""
    import struct
    from props import fontkit as K
    base, edit = name.split('~', 1)
    out = os.path.join(vlib.BUILD, 'fuzzfonts', 'c19')
    os.makedirs(out, exist_ok=True)
    path = os.path.join(out, name.replace('~', '_').replace(',', '-').replace('=', '') + '.ttf')
    if os.path.exists(path):
        return path
    data = open(os.path.join(vlib.REPO, 'tests/fonts', base), 'rb').read()
    o, ln = K.font_tables(data)[b'Silf']
    silf = bytearray(data[o:o + ln])
    ver = struct.unpack('>I', silf[:4])[0]
    p = 8 if ver >= 0x30000 else 4
    sub = struct.unpack('>I', silf[p + 4:p + 8])[0]
    hdr = sub + (8 if ver >= 0x30000 else 0)
    if edit == 'lineend':
        silf[hdr + 11] |= 1
    elif edit.startswith('just='):
        vals = [int(x) for x in edit[5:].split(',')]
        if silf[hdr + 19] == 0:
            return None
        silf[hdr + 20:hdr + 24] = bytes(vals)
    open(path + '.tmp', 'wb').write(K.replace_table(data, b'Silf', bytes(silf)))
    os.rename(path + '.tmp', path)
    return path


def gen(chk, per_font):
    rng = chk.rng
    cases, meta = [], []
    cp = os.path.join(vlib.VERIF, 'corpus', 'c19.txt')
    if os.path.exists(cp):
        for l in open(cp):
            f = l.split()
            if f and not l.startswith('#'):
                cases.append('k%d shape %s' % (len(cases), ' '.join(f))); meta.append(dict(font=f[0], dir=int(f[4]), nb=sum(1 for x in f if x.startswith('break:'))))
    # systematic family: five plain characters, every set of cuts, every direction value, every line justified with default first/last
    import itertools
    for font, txt in (('Padauk.ttf', [0x61, 0x62, 0x63, 0x64, 0x65]), ('Scheherazadegr.ttf', [0x628, 0x62f, 0x631, 0x648, 0x627]), ('charis_r_gr.ttf', [0x61, 0x62, 0x63, 0x64, 0x65])):
        for r in range(0, 4):
            for breaks in itertools.combinations(range(1, 5), r):
                for d in range(8):
                    if per_font < 100 and rng.random() < 0.5:
                        continue
                    ops = ['dump', 'jtrace'] + ['break:%d' % b for b in breaks] + ['just:%d:%s:0:-:-' % (l, rng.choice(('3000', '-1', '600'))) for l in range(len(breaks) + 1)]
                    cases.append(S.case_line('s%d' % len(cases), font, S.encode(txt, 32), 32, dir_=d, ppm=rng.choice(('-', '12')), ops=ops))
                    meta.append(dict(font=font, dir=d, nb=len(breaks)))
    for font in S.FONTS:
        rep = S.repertoire(vlib.REPO, font)
        for i in range(per_font):
            cps = S.gen_text(rng, rep, 14)
            if len(cps) < 2:
                continue
            d = rng.randrange(8) if rng.random() < 0.6 else rng.choice((0, 1))
            n = len(cps)
            if n <= 6 and rng.random() < 0.5:
                breaks = [b for b in range(1, n) if rng.random() < 0.5]             # any subset of interior positions
            else:
                breaks = sorted(rng.sample(range(1, n), min(rng.randrange(0, 4), n - 1)))
            ops = ['dump', 'jtrace'] + ['break:%d' % b for b in breaks]
            for k in range(rng.randrange(1, 5)):
                ops.append('just:%d:%s:%d:%s:%s' % (rng.randrange(0, len(breaks) + 1), rng.choice(('-1', '0', '300', '1000', '3000', '1000000', '2500.5')),
                                                    rng.randrange(4), rng.choice(('-', '-', '0', '1', '3')), rng.choice(('-', '-', '2', '1', '0'))))
            cases.append(S.case_line('c%d' % len(cases), font, S.encode(cps, 32), 32, dir_=d, ppm=rng.choice(('-', '12', '96')), ops=ops))
            meta.append(dict(font=font, dir=d, nb=len(breaks)))
    # fonts whose justification level names other glyph attributes (weights, stretch and shrink of any sign and size) and widths at the
    # edge of what a float holds: every call still has to return, with finite results
    jf = 'charis_r_gr.ttf'
    rep = S.repertoire(vlib.REPO, jf)
    for i in range(per_font * 3):
        vals = (58, 42, 43, 58) if i == 0 else tuple(rng.choice((40, 42, 43, 44, 58, 58, rng.randrange(0, 80))) for _ in range(4))
        name = '%s~just=%s' % (jf, ','.join(map(str, vals)))
        path = crafted_font(name)
        if not path:
            break
        cps = [0x61, 0xB2, 0x30] if i == 0 else S.gen_text(rng, rep, 10)
        if len(cps) < 2:
            continue
        n = len(cps)
        breaks = sorted(rng.sample(range(1, n), min(rng.randrange(0, 3), n - 1)))
        ops = ['dump', 'jtrace'] + ['break:%d' % b for b in breaks]
        for k in range(rng.randrange(1, 4)):
            wd = '3670' if i == 0 else rng.choice(('300', '1000', '3000', '5000', '20000', '-1', '3e38', '-3e38', 'nan', 'inf', '-inf', '1e30', '2147483648', '1e12'))
            ops.append('just:%d:%s:%d:-:-' % (rng.randrange(0, len(breaks) + 1), wd, rng.randrange(4)))
        cases.append(S.case_line('j%d' % len(cases), path, S.encode(cps, 32), 32, dir_=0, ppm=rng.choice(('-', '12', '96')), ops=ops))
        meta.append(dict(font=name, dir=0, nb=len(breaks)))
    # fonts with line-end contextuals (Silf flag 1): justify brackets the line with two end-of-line slots (addLineEnd / delLineEnd)
    for base, txts in (('Scheherazadegr.ttf', ([0x20, 0x627], [0x628, 0x633, 0x645, 0x20, 0x627, 0x644, 0x644, 0x647])), ('Padauk.ttf', ([0x1000, 0x1001], [0x1000, 0x1031, 0x1001, 0x20, 0x1002, 0x1003])),
                       ('charis_r_gr.ttf', ([0x61, 0x62], [0x61, 0x62, 0x20, 0x63, 0x64, 0x65]))):
        name = base + '~lineend'
        path = crafted_font(name)
        rep = S.repertoire(vlib.REPO, base)
        for i in range(max(4, per_font // 3)):
            cps = list(txts[i]) if i < 2 else S.gen_text(rng, rep, 9)
            if len(cps) < 2:
                continue
            n = len(cps)
            # the font's own direction only: the calls of the recorded reversal defects (other directions) are the business of the families above
            d = rng.choice((1, 1, 3, 5, 7)) if base.startswith('Sch') else 0
            breaks = [] if i < 2 else sorted(rng.sample(range(1, n), min(rng.randrange(0, 3), n - 1)))
            ops = ['dump', 'jtrace'] + ['break:%d' % b for b in breaks]
            for k in range(1 if i < 2 else rng.randrange(1, 4)):
                ops.append('just:%d:%s:%d:%s:%s' % (rng.randrange(0, len(breaks) + 1), rng.choice(('2000', '6000', '-1', '300')), rng.randrange(4), '-', '1' if i == 1 else rng.choice(('-', '-', '1', '2'))))
            cases.append(S.case_line('e%d' % len(cases), path, S.encode(cps, 32), 32, dir_=d, ppm=rng.choice(('-', '12')), ops=ops))
            meta.append(dict(font=name, dir=d, nb=len(breaks)))
    return cases, meta


def run(chk):
    chk.trusted += ['hand model Model/LineModel.v (list-level) of gr_slot_linebreak_before, the segment-global reverseSlots and the first/last bracket of Segment::justify',
                    'GRAPHITE2_VERIF hooks (linebreak, reverse, setends events)']
    chk.assumptions += ['justification passes of the shipped fonts are positioning passes: they cannot insert or delete (loader rule), so the structural effects of a justify call are the '
                        'reversals and the first/last bracket; widths and positions are checked for finiteness only']
    chk.check_proofs()
    w = engine.build(chk)
    mexe = vlib.build_model_driver('Line')
    # the fonts' own direction (Silf dir), needed to classify a call that does not return
    pre = [S.case_line('p%d' % k, f, [0x41], 32) for k, f in enumerate(S.FONTS)]
    _, pl, _ = vlib.run_pair(None, w, pre, timeout=600, shards=4)
    for f, l in zip(S.FONTS, pl):
        for t in (l or '').split():
            if t.startswith('fdir='):
                run.fdirs[f] = int(t[5:])
    cases, meta = gen(chk, 300 if chk.tier == 'thorough' else 30)
    _, il, _ = vlib.run_pair(None, w, cases, timeout=2400)
    ml, _, _ = vlib.run_pair(mexe, None, [l or 'x' for l in il], timeout=2400)
    classes, ndis, dist, pstat = set(), 0, {}, {}
    pending = []
    for c, mt, i, m in zip(cases, meta, il, ml):
        dist[mt['font']] = dist.get(mt['font'], 0) + 1
        if i is None:
            chk.tie_break('harness', 'no result line', c[:300]); continue
        parts = i.split(' | ')
        head = parts[0].split()
        fdir = None
        for t in head:
            if t.startswith('fdir='):
                fdir = int(t[5:])
        if fdir is None:
            # aborted before the dump: the font's direction comes from an earlier case of the same font
            fdir = run.fdirs.get(mt['font'])
        else:
            run.fdirs[mt['font']] = fdir
        kc = known_class(mt['dir'], fdir) if fdir is not None else None
        # the recorded defect of right-to-left lines in fonts with line-end contextuals: linkClusters chains the bases of a right-to-left
        # segment backwards, justify takes pLast->nextSibling() for the slot after the line and links both end-of-line slots before one slot
        kle = 'justify-rtl-line-end-slots-linked-before-one-slot' if (kc is None and mt['font'].endswith('~lineend') and fdir == 1 and (mt['dir'] & 1) == 1) else None
        if 'ABORT' in head[1:3]:
            if kc is None and mt['font'].endswith('~lineend') and (mt['dir'] & 1) == 1 and run.fdirs.get(mt['font'].split('~')[0], fdir) in (1, None):
                pending.append((c, i, 'line breaking / justification did not return normally: %s' % parts[0][:200])); continue
            key = 'c19:' + kc if kc else 'c19:abort:%s' % ' '.join(c.split()[2:12])[:140]
            chk.violation(key, 'line breaking / justification did not return normally: %s' % parts[0][:200], dict(case=c, got=i[:500])); continue
        if head[1] in ('NOFACE', 'NULLSEG'):
            continue
        bad = [p for p in parts[1:] if p.startswith('just ') and p.split()[1] not in ('ok', 'skip')]
        # the pointer-level model (Model/LinePtrModel.v) replays the recorded events of this very run over the links: 'ok' means that every
        # snapshot of the real links is what the code AS RECORDED does to them (including its recorded defects)
        pm = (m or '').split(' | P ', 1)[1].split()[0] if ' | P ' in (m or '') else 'none'
        if bad:
            # damage is a known finding only when (1) the call lies in a recorded trigger class and (2) the faithful model of the recorded
            # code reproduces the damaged links exactly; damage it does not reproduce is a different defect, whatever the trigger
            expected = kc is not None and pm == 'ok'
            key = 'c19:' + kc if expected else 'c19:%s:%s' % (bad[0].split()[1].split('(')[0], ' '.join(c.split()[2:14])[:160])
            # ... attributed like the others: the trigger class AND the pointer-level transcription (addLineEnd / delLineEnd included) must
            # reproduce the damaged links exactly
            if kle and not expected and pm == 'ok' and all(b.split()[1].split(':')[-1].split('(')[0].split('@')[0] in ('prev-not-inverse', 'first-has-prev') for b in bad):
                key, expected = 'c19:' + kle, True
            elif kle and not expected and sum(1 for o in c.split() if o.startswith('just:')) > 1:
                # several justify calls: once the recorded defect has struck, the segment's free list runs through live slots and later calls
                # go wrong in any number of ways; the calls are judged one at a time below
                pending.append((c, i, 'after linebreak/justify a line is no longer the same well-formed chain: %s' % bad[0][:120])); continue
            chk.violation(key, 'after linebreak/justify a line is no longer the same well-formed chain: %s%s' % (bad[0][:120], '' if expected else
                          (' (the links differ from what the recorded code does to them: %s)' % (m or '').split(' | P ', 1)[-1][:300] if pm != 'ok' else ' (outside the recorded trigger classes)')),
                          dict(case=c, got=i[:1500]))
        elif pm not in ('ok', 'none'):
            ndis += 1
            chk.tie_break('correspondence:line-links', 'the slot links after linebreak / justify differ from Model/LinePtrModel.v although every line is intact: %s' % (m or '').split(' | P ', 1)[-1][:400], c[:300])
        pstat['%s %s %s' % ('damaged' if bad else 'intact', 'known-class' if kc else 'no-class', pm)] = pstat.get('%s %s %s' % ('damaged' if bad else 'intact', 'known-class' if kc else 'no-class', pm), 0) + 1
        mres = (m or '').split(' | P ')[0].split()
        if kc is None and kle is None and (len(mres) < 3 or mres[2] not in ('ok', 'none')):      # (the list-level model knows neither reversals nor end-of-line slots)
            ndis += 1
            chk.tie_break('correspondence:lines', 'replay through Model/LineModel.v diverges where no reversal is expected: %s' % (m or '')[:500], c[:300])
        classes.add((mt['font'], mt['dir'], min(mt['nb'], 3), bool(bad), kc is not None))
    # cases of the right-to-left line-end class with several justify calls (or one that did not return): the prefix of the case that ends
    # with its first failing call decides -- if that call shows exactly the recorded damage (reproduced link by link by the pointer-level
    # replay), everything after it is the consequence of a free list that runs through live slots
    if pending:
        pref, owner = [], []
        for k, (c, i, what) in enumerate(pending):
            f = c.split()
            jidx = [n for n, o in enumerate(f) if o.startswith('just:')]
            for m, j in enumerate(jidx):
                pref.append(' '.join(['q%d.%d' % (k, m)] + f[1:j + 1])); owner.append((k, m))
        _, pil, _ = vlib.run_pair(None, w, pref, timeout=2400)
        pml, _, _ = vlib.run_pair(mexe, None, [l or 'x' for l in pil], timeout=2400)
        verdict = {}
        for (k, m), pc, pi, pm_ in zip(owner, pref, pil, pml):
            if k in verdict:
                continue
            if pi is None or 'ABORT' in pi.split()[1:3]:
                verdict[k] = False; continue                      # the first call that goes wrong does not even return: not the recorded damage
            pb = [p_ for p_ in pi.split(' | ')[1:] if p_.startswith('just ') and p_.split()[1] not in ('ok', 'skip')]
            if not pb:
                continue                                          # this prefix is still intact
            ppm = (pm_ or '').split(' | P ', 1)[1].split()[0] if ' | P ' in (pm_ or '') else 'none'
            verdict[k] = ppm == 'ok' and all(b.split()[1].split(':')[-1].split('(')[0].split('@')[0] in ('prev-not-inverse', 'first-has-prev') for b in pb)
        for k, (c, i, what) in enumerate(pending):
            if verdict.get(k):
                chk.violation('c19:justify-rtl-line-end-slots-linked-before-one-slot', what + ' (a consequence of the recorded damage of an earlier call of the same case)', dict(case=c, got=i[:1500]))
            else:
                chk.violation('c19:%s' % ' '.join(c.split()[2:14])[:170], what + ' (right-to-left line with line-end slots, but the first failing call does not show the recorded damage)', dict(case=c, got=i[:1500]))
        pstat['judged call by call'] = len(pending)
    dist.update({'ptr-model: ' + k: v for k, v in pstat.items()})
    chk.cov.update(evaluations=len(cases), distinct_nontrivial=len(classes), disagreements_checked=ndis, distribution=dist,
                   rule='segments over the 16 shipped fonts (dir 0..7, with/without gr_font) cut at every subset of interior positions (short texts) or random positions, each line justified '
                        '1-4 times with widths {-1,0,300,1000,3000,1e6,2500.5}, flags 0..3, optional pFirst/pLast; per-line oracle (same slots, same order, prev inverse, finite) and replay of the '
                        'linebreak / reverse / set-ends trace through the extracted line model; non-trivial = distinct (font, dir, #breaks, verdict, known-class)',
                   samples=[cases[0][:200], cases[len(cases) // 2][:200]], exhaustive=False)


run.fdirs = {}


def replay(chk, obj):
    case = obj.get('replay', {}).get('case') or (obj.get('broken') or [{}])[-1].get('case')
    if not case:
        print('no case'); return 1
    w = engine.build(chk); mexe = vlib.build_model_driver('Line')
    _, il, err = vlib.run_pair(None, w, [case], shards=1)
    ml, _, _ = vlib.run_pair(mexe, None, [il[0] or 'x'], shards=1)
    print(case[:300]); print(' impl :', (il[0] or '')[:1200]); print(' model:', (ml[0] or '')[:600])
    return 1 if [p for p in (il[0] or '').split(' | ')[1:] if p.startswith('just ') and p.split()[1] not in ('ok', 'skip')] or 'ABORT' in (il[0] or '') else 0
