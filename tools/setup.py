#!/usr/bin/env python3
"""setup — run once after a fresh restore (MANIFEST.setup_cmd): regenerate Gen/, build the whole Coq
development from clean with a full .vo build, extract and compile every model driver."""
import os, sys, subprocess, glob
sys.path.insert(0, os.path.dirname(os.path.abspath(__file__)))
import vlib

def main():
    os.makedirs(vlib.BUILD, exist_ok=True)
    info = vlib.regen_gen()
    print('gen:', info)
    vlib.ensure_makefile()
    ok, log = vlib.coq_make([], timeout=3000)
    print(log[-3000:])
    if not ok:
        print('SETUP: coq build failed'); sys.exit(1)
    for ext in sorted(glob.glob(os.path.join(vlib.COQ, 'Extract', 'Extract*.v'))):
        comp = os.path.basename(ext)[len('Extract'):-2]
        print('driver', comp, vlib.build_model_driver(comp))
    bad = vlib.grep_forbidden()
    if bad:
        print('SETUP: forbidden constructs', bad); sys.exit(1)
    print('SETUP OK')

if __name__ == '__main__':
    main()
