#!/usr/bin/env python3
"""confirm_seed — confirm a seeded change independently, then store it under seeded/<name>/.
   usage: confirm_seed.py <name> <property> <seed_dir> <worktree> [checks to run ...]
   Confirms: patch applies to pristine HEAD; library builds (cmake) and the 87 baseline tests pass with it;
   the demonstration passes without the change and fails with it.  Then runs the named checks against it."""
import json, os, shutil, subprocess, sys, tempfile, re
name, prop, sdir, wt = sys.argv[1:5]
checks = sys.argv[5:]
V = os.path.dirname(os.path.dirname(os.path.abspath(__file__)))
base = json.load(open('/root/.vp/BASELINE.json'))['stable_pass']

def sh(cmd, **kw):
    return subprocess.run(cmd, shell=True, capture_output=True, text=True, **kw)

out = {}
pristine = tempfile.mkdtemp(prefix='seedchk_', dir='/tmp')
try:
    sh('git -C /repo archive HEAD | tar -x -C %s' % pristine)
    changed = tempfile.mkdtemp(prefix='seedchg_', dir='/tmp')
    sh('git -C /repo archive HEAD | tar -x -C %s' % changed)
    r = sh('cd %s && git init -q . && git apply %s/patch.diff' % (changed, sdir))
    out['patch_applies'] = r.returncode == 0
    r = sh('cd %s && cmake -G Ninja -B _build -DCMAKE_BUILD_TYPE=RelWithDebInfo >/dev/null 2>&1 && cmake --build _build 2>&1 | tail -2 && ctest --test-dir _build -j8 --timeout 900 2>&1' % changed)
    passed = set(re.findall(r'Test\s+#\d+:\s+(\S+)\s+\.+\s+Passed', r.stdout))
    need = set(b.split('::')[0] for b in base)
    out['suite_pass_87'] = need <= passed
    out['suite_missing'] = sorted(need - passed)
    demo = os.path.join(sdir, 'demo_cmd.sh')
    sh('cd %s && cmake -G Ninja -B _build -DCMAKE_BUILD_TYPE=RelWithDebInfo >/dev/null 2>&1 && cmake --build _build 2>&1 | tail -1' % pristine)
    r0 = sh('cd %s && sh %s %s' % (sdir, demo, pristine), timeout=900)
    r1 = sh('cd %s && sh %s %s' % (sdir, demo, changed), timeout=900)
    out['demo_unchanged_exit'] = r0.returncode
    out['demo_changed_exit'] = r1.returncode
    out['demo_changed_tail'] = (r1.stdout + r1.stderr)[-600:]
    ok = out['patch_applies'] and out['suite_pass_87'] and r0.returncode == 0 and r1.returncode != 0
    out['confirmed'] = ok
    shutil.rmtree(changed, ignore_errors=True)
finally:
    shutil.rmtree(pristine, ignore_errors=True)
print(json.dumps(out, indent=1))
if not out.get('confirmed'):
    sys.exit(1)
dst = os.path.join(V, 'seeded', name)
os.makedirs(dst, exist_ok=True)
for f in os.listdir(sdir):
    if os.path.isfile(os.path.join(sdir, f)) and os.path.getsize(os.path.join(sdir, f)) < 200000 and os.path.abspath(sdir) != os.path.abspath(dst):
        shutil.copy(os.path.join(sdir, f), dst)
caught = {}
if checks:
    subprocess.check_call(['git', '-C', '/repo', 'apply', os.path.join(sdir, 'patch.diff')])
    try:
        for c in checks:
            r = subprocess.run(['python3', os.path.join(V, 'tools/vcheck.py'), c], capture_output=True, text=True, cwd=V)
            v = [l for l in r.stdout.splitlines() if l.startswith('VIOLATION')]
            caught[c] = dict(exit=r.returncode, violation=v[0] if v else None,
                             kind=('no-failing-input-found' if v and 'no-failing-input-found' in v[0] else 'failing-input' if v else None))
    finally:
        subprocess.check_call(['git', '-C', '/repo', 'checkout', '--', '.'])
notes = open(os.path.join(sdir, 'notes.md')).read() if os.path.exists(os.path.join(sdir, 'notes.md')) else ''
meta = dict(name=name, breaks_property=prop, needs_to_manifest=notes[:1500], confirmed_by='tools/confirm_seed.py',
            ran=dict(patch_applies=out['patch_applies'], suite_87_pass=out['suite_pass_87'], demo_unchanged_exit=out['demo_unchanged_exit'],
                     demo_changed_exit=out['demo_changed_exit']), checks_result=caught)
json.dump(meta, open(os.path.join(dst, 'meta.json'), 'w'), indent=1)
print(json.dumps(caught, indent=1))
