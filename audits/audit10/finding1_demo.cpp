// Finding 1: PUT_COPY with a non-zero slot reference inside a POSITIONING pass copies the
// referenced slot's m_index into the current slot, so gr_slot_index is no longer a
// permutation of 0..n-1 in the returned segment.
//
// usage: finding1_demo <tree>/tests/fonts/small.ttf
//
// The font is tests/fonts/small.ttf with ONE byte of the Silf table changed:
//   Silf offset 0x13b (operand of the PUT_COPY in the only rule of pass 1, the positioning pass)
//   0x00 -> 0xff   i.e.  PUT_COPY 0   ->   PUT_COPY -1
// All tables are served through gr_make_face_with_ops from exact-size heap copies.
#include <graphite2/Segment.h>
#include <graphite2/Font.h>
#include <cstdio>
#include <cstdlib>
#include <cstring>
#include <cmath>
#include <vector>
#include <set>

typedef unsigned char u8;
static std::vector<u8> font;
static unsigned rd32(const u8*p){return (unsigned(p[0])<<24)|(p[1]<<16)|(p[2]<<8)|p[3];}
static unsigned rd16(const u8*p){return (p[0]<<8)|p[1];}
static bool patch = true;

static const void *get_table(const void *, unsigned int name, size_t *len)
{
    unsigned nt = rd16(&font[4]);
    for (unsigned i = 0; i < nt; ++i) {
        const u8 *r = &font[12 + 16*i];
        if (rd32(r) != name) continue;
        unsigned off = rd32(r+8), l = rd32(r+12);
        u8 *c = (u8*)malloc(l ? l : 1);            // exact-size heap copy
        memcpy(c, &font[off], l);
        if (patch && name == 0x53696c66u /*Silf*/) {
            if (l != 346 || c[0x13a] != 0x1e || c[0x13b] != 0x00) { fprintf(stderr, "unexpected Silf table\n"); exit(2); }
            c[0x13b] = 0xff;                         // PUT_COPY 0 -> PUT_COPY -1
        }
        *len = l;
        return c;
    }
    return 0;
}
static void rel_table(const void *, const void *buf) { free((void*)buf); }

static int shape(const char *text, int dir)
{
    gr_face_ops ops = { sizeof(gr_face_ops), get_table, rel_table };
    gr_face *face = gr_make_face_with_ops(0, &ops, gr_face_default);
    if (!face) { printf("face did not load\n"); return -1; }
    gr_segment *seg = gr_make_seg(0, face, 0, 0, gr_utf8, text, strlen(text), dir);
    if (!seg) { printf("no segment\n"); gr_face_destroy(face); return -1; }
    unsigned n = gr_seg_n_slots(seg);
    printf("  %s font, text \"%s\" dir %d: n_slots=%u  (gid:index) =", patch ? "patched " : "original", text, dir, n);
    std::set<unsigned> seen; int bad = 0; unsigned cnt = 0;
    for (const gr_slot *s = gr_seg_first_slot(seg); s; s = gr_slot_next_in_segment(s), ++cnt) {
        unsigned ix = gr_slot_index(s);
        printf(" %u:%u", gr_slot_gid(s), ix);
        if (ix >= n || !seen.insert(ix).second) bad = 1;
    }
    printf("   chain=%u  -> %s\n", cnt, bad ? "INDEX VALUES ARE NOT A PERMUTATION OF 0..n-1" : "ok");
    gr_seg_destroy(seg);
    gr_face_destroy(face);
    return bad;
}

int main(int argc, char **argv)
{
    if (argc < 2) return 2;
    FILE *fp = fopen(argv[1], "rb"); if (!fp) { perror(argv[1]); return 2; }
    fseek(fp, 0, SEEK_END); long sz = ftell(fp); fseek(fp, 0, SEEK_SET);
    font.resize(sz); if (fread(font.data(), 1, sz, fp) != (size_t)sz) return 2; fclose(fp);

    static const char *texts[] = { "ac", "aac", "acac", "cac", "ca", "bac" };
    int violations = 0;
    for (int p = 0; p < 2; ++p) {
        patch = (p == 1);
        for (unsigned t = 0; t < sizeof texts / sizeof *texts; ++t)
            for (int dir = 0; dir < 2; ++dir)
                if (shape(texts[t], dir) > 0 && patch) ++violations;
    }
    printf("%d violating segments with the patched font\n", violations);
    return violations ? 1 : 0;
}
