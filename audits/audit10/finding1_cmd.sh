#!/bin/sh
# usage: finding1_cmd.sh <graphite source tree root>
# exit status 1 and "NOT A PERMUTATION" lines = defect demonstrated
T=${1:-/tmp/wt_audit10}
D=$(cd "$(dirname "$0")" && pwd)
O=$(mktemp -d)
g++ -std=c++11 -g -O1 -fsanitize=address,undefined -fno-sanitize-recover=all \
    -DGRAPHITE2_NTRACING -DGRAPHITE2_STATIC -fno-rtti -fno-exceptions \
    -I"$T/include" -I"$T/src" \
    $(ls "$T"/src/*.cpp | grep -v -e json.cpp -e call_machine.cpp) \
    "$D/finding1_demo.cpp" -o "$O/finding1_demo" || exit 2
ASAN_OPTIONS=detect_leaks=0 "$O/finding1_demo" "$T/tests/fonts/small.ttf"
