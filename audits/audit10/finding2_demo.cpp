// Finding 2: glyph ids coming out of the cmap are never checked against the glyph count, so
// gr_slot_gid() >= gr_face_n_glyphs() in a returned segment although every Silf class and every
// pseudo-glyph attribute of the font names real glyphs only.
//
// usage: finding2_demo <tree>/tests/fonts/small.ttf
//
// The font is tests/fonts/small.ttf with TWO bytes of the cmap table changed: the idDelta of the
// format 4 segment U+0061..U+0063 (cmap offset 58) 0xffa2 (-94) -> 0x0387 (+903), so that
// 'a','b','c' map to glyphs 1000,1001,1002 (the font has 8 glyphs). Silf/Glat/Gloc are untouched.
// All tables are served through gr_make_face_with_ops from exact-size heap copies.
#include <graphite2/Segment.h>
#include <graphite2/Font.h>
#include <cstdio>
#include <cstdlib>
#include <cstring>
#include <cmath>
#include <vector>
#include <set>

typedef unsigned char u8;
static std::vector<u8> font;
static unsigned rd32(const u8*p){return (unsigned(p[0])<<24)|(p[1]<<16)|(p[2]<<8)|p[3];}
static unsigned rd16(const u8*p){return (p[0]<<8)|p[1];}
static bool patch = true;

static const void *get_table(const void *, unsigned int name, size_t *len)
{
    unsigned nt = rd16(&font[4]);
    for (unsigned i = 0; i < nt; ++i) {
        const u8 *r = &font[12 + 16*i];
        if (rd32(r) != name) continue;
        unsigned off = rd32(r+8), l = rd32(r+12);
        u8 *c = (u8*)malloc(l ? l : 1);            // exact-size heap copy
        memcpy(c, &font[off], l);
        if (patch && name == 0x636d6170u /*cmap*/) {
            if (l != 278 || c[58] != 0xff || c[59] != 0xa2) { fprintf(stderr, "unexpected cmap table\n"); exit(2); }
            c[58] = 0x03; c[59] = 0x87;              // idDelta -94 -> +903 : 'a' -> glyph 1000
        }
        *len = l;
        return c;
    }
    return 0;
}
static void rel_table(const void *, const void *buf) { free((void*)buf); }

static int shape(const char *text, int dir)
{
    gr_face_ops ops = { sizeof(gr_face_ops), get_table, rel_table };
    gr_face *face = gr_make_face_with_ops(0, &ops, gr_face_default);
    if (!face) { printf("face did not load\n"); return -1; }
    gr_segment *seg = gr_make_seg(0, face, 0, 0, gr_utf8, text, strlen(text), dir);
    if (!seg) { printf("no segment\n"); gr_face_destroy(face); return -1; }
    unsigned n = gr_seg_n_slots(seg);
    unsigned ng = gr_face_n_glyphs(face);
    printf("  %s font, n_glyphs=%u, text \"%s\" dir %d: n_slots=%u  (gid:index) =", patch ? "patched " : "original", ng, text, dir, n);
    std::set<unsigned> seen; int bad = 0; unsigned cnt = 0;
    for (const gr_slot *s = gr_seg_first_slot(seg); s; s = gr_slot_next_in_segment(s), ++cnt) {
        unsigned ix = gr_slot_index(s);
        printf(" %u:%u", gr_slot_gid(s), ix);
        if (ix >= n || !seen.insert(ix).second) bad = 1;
        if (gr_slot_gid(s) >= ng) bad = 1;
    }
    printf("   chain=%u  -> %s\n", cnt, bad ? "GLYPH ID >= gr_face_n_glyphs" : "ok");
    gr_seg_destroy(seg);
    gr_face_destroy(face);
    return bad;
}

int main(int argc, char **argv)
{
    if (argc < 2) return 2;
    FILE *fp = fopen(argv[1], "rb"); if (!fp) { perror(argv[1]); return 2; }
    fseek(fp, 0, SEEK_END); long sz = ftell(fp); fseek(fp, 0, SEEK_SET);
    font.resize(sz); if (fread(font.data(), 1, sz, fp) != (size_t)sz) return 2; fclose(fp);

    static const char *texts[] = { "a", "abc", "a c", " " };
    int violations = 0;
    for (int p = 0; p < 2; ++p) {
        patch = (p == 1);
        for (unsigned t = 0; t < sizeof texts / sizeof *texts; ++t)
            for (int dir = 0; dir < 2; ++dir)
                if (shape(texts[t], dir) > 0 && patch) ++violations;
    }
    printf("%d violating segments with the patched font\n", violations);
    return violations ? 1 : 0;
}
