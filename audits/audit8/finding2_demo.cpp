// Finding 2: lz4::decompress rejects every block shorter than 13 bytes (MINSRCSIZE, src/inc/Compression.h,
// tested in src/Decompressor.cpp:48) although valid LZ4 blocks that shrink their data can be 10, 11 or
// 12 bytes long (13 is the minimum *plaintext* size for a block that contains a match, not a minimum
// block size).  Decompressor.h documents the precondition as "in_size must be at least 4".
#include <cstdio>
#include <cstdlib>
#include <cstring>
#include <vector>
#include <stdint.h>
#include <string>
#include "graphite2/Font.h"
#include "graphite2/Segment.h"
#include "inc/Decompressor.h"
#ifdef HAVE_LIBLZ4
#include <lz4.h>
#endif

typedef std::vector<uint8_t> bytes;

// Plain reference LZ4 block decoder (block format description, 64 bit lengths).
static long ref_decode(const uint8_t *ip, size_t in_size, uint8_t *out, size_t cap)
{
    const uint8_t *const iend = ip + in_size;
    uint8_t *op = out, *const oend = out + cap;
    if (in_size == 0) return -1;
    for (;;)
    {
        if (ip >= iend) return -1;
        const unsigned token = *ip++;
        uint64_t ll = token >> 4;
        if (ll == 15) { uint8_t b; do { if (ip >= iend) return -1; b = *ip++; ll += b; } while (b == 255); }
        if (ll > uint64_t(iend - ip) || ll > uint64_t(oend - op)) return -1;
        memcpy(op, ip, size_t(ll)); op += ll; ip += ll;
        if (ip == iend) return long(op - out);
        if (iend - ip < 2) return -1;
        const unsigned off = ip[0] | ip[1] << 8; ip += 2;
        uint64_t ml = token & 15;
        if (ml == 15) { uint8_t b; do { if (ip >= iend) return -1; b = *ip++; ml += b; } while (b == 255); }
        ml += 4;
        if (off == 0 || off > size_t(op - out)) return -1;
        if (ml > uint64_t(oend - op)) return -1;
        for (uint64_t k = 0; k < ml; ++k, ++op) *op = *(op - off);
    }
}

static int lib_decode(const bytes &in, size_t out_size, bytes &out)
{
    uint8_t *i = (uint8_t *)malloc(in.size() < 8 ? 8 : in.size()); memcpy(i, in.data(), in.size());
    uint8_t *o = (uint8_t *)malloc(out_size);  memset(o, 0xAA, out_size);
    const int r = lz4::decompress(i, in.size(), o, out_size);
    out.assign(o, o + out_size);
    free(i); free(o);
    return r;
}

// plaintext: n bytes of value v (n >= 13): 1 literal, match offset 1 length n-6, 5 last literals
static bytes rle_block(size_t n, uint8_t v)
{
    bytes o; size_t ml = n - 6 - 4;          // stored match length
    o.push_back(uint8_t(0x10 | (ml >= 15 ? 15 : ml)));
    o.push_back(v); o.push_back(1); o.push_back(0);
    if (ml >= 15) { ml -= 15; while (ml >= 255) { o.push_back(255); ml -= 255; } o.push_back(uint8_t(ml)); }
    o.push_back(0x50); o.insert(o.end(), 5, v);
    return o;
}


// ---------------------------------------------------------------------------------------------
// minimal sfnt access: serve tables from exact-size heap copies, with some tables replaced
static uint32_t be32(const uint8_t *p) { return uint32_t(p[0]) << 24 | p[1] << 16 | p[2] << 8 | p[3]; }
struct FontFile
{
    bytes data;
    uint32_t repl_tag[2]; bytes repl[2];
    bool find(uint32_t tag, size_t &off, size_t &len) const
    {
        const unsigned n = data[4] << 8 | data[5];
        for (unsigned i = 0; i < n; ++i)
        {
            const uint8_t *r = &data[12 + 16 * i];
            if (be32(r) == tag) { off = be32(r + 8); len = be32(r + 12); return true; }
        }
        return false;
    }
};
static const void *get_table(const void *h, unsigned int name, size_t *len)
{
    const FontFile &f = *static_cast<const FontFile *>(h);
    const uint8_t *src = 0; size_t n = 0, off;
    for (int k = 0; k < 2; ++k) if (f.repl_tag[k] == name) { src = f.repl[k].data(); n = f.repl[k].size(); }
    if (!src) { if (f.find(name, off, n)) src = &f.data[off]; else return 0; }
    void *p = malloc(n ? n : 1); memcpy(p, src, n);
    *len = n; return p;
}
static void rel_table(const void *, const void *p) { free(const_cast<void *>(p)); }

static std::string shape(gr_face *face, const char *utf8)
{
    std::string res;
    gr_font *font = gr_make_font(24.0f, face);
    size_t n = gr_count_unicode_characters(gr_utf8, utf8, utf8 + strlen(utf8), 0);
    gr_segment *seg = gr_make_seg(font, face, 0, 0, gr_utf8, utf8, n, 0);
    if (!seg) { gr_font_destroy(font); return "<noseg>"; }
    char buf[96];
    for (const gr_slot *s = gr_seg_first_slot(seg); s; s = gr_slot_next_in_segment(s))
    {
        snprintf(buf, sizeof buf, "%u@%.2f,%.2f ", gr_slot_gid(s), gr_slot_origin_X(s), gr_slot_origin_Y(s));
        res += buf;
    }
    gr_seg_destroy(seg); gr_font_destroy(font);
    return res;
}

// Part B: tests/fonts/small.ttf with a synthesised version-3 Glat table (and matching Gloc) whose
// 280 bytes compress to a valid 12-byte LZ4 block.
static int font_part(const char *path)
{
    FILE *fp = fopen(path, "rb"); if (!fp) { perror(path); return -1; }
    FontFile ff; ff.repl_tag[0] = ff.repl_tag[1] = 0;
    fseek(fp, 0, SEEK_END); ff.data.resize(ftell(fp)); fseek(fp, 0, SEEK_SET);
    if (fread(ff.data.data(), 1, ff.data.size(), fp) != ff.data.size()) return -1;
    fclose(fp);
    const uint32_t GLAT = 0x476C6174, GLOC = 0x476C6F63;
    size_t off, len;
    if (!ff.find(GLOC, off, len)) return -1;
    const unsigned nattr = ff.data[off + 6] << 8 | ff.data[off + 7];
    const unsigned nglyph = unsigned((len - 8) / 2 - 1);       // short format, no attribute ids in small.ttf
    printf("B: %s: Gloc has %u attributed glyphs, %u attributes\n", path, nglyph, nattr);
    if (nglyph * 32 + 8 > 275 || nattr < 6) { printf("   font unsuitable\n"); return -1; }

    // Glat plaintext: (00 03) x 140.  Read at any even offset this is a glyph entry with
    // octabox bitmap 0x0003 (2 sub boxes -> 6 + 16 bytes) and one attribute run: first=3, count=3, values 3,3,3.
    bytes glat; for (int i = 0; i < 140; ++i) { glat.push_back(0); glat.push_back(3); }
    bytes gloc(ff.data.begin() + off, ff.data.begin() + off + 8);
    for (unsigned g = 0; g <= nglyph; ++g) { const unsigned o = 8 + 32 * g; gloc.push_back(o >> 8); gloc.push_back(o & 255); }
    // the 12-byte block: 2 literals, match offset 2 length 273, 5 last literals
    const uint8_t blk[12] = { 0x2F, 0x00, 0x03, 0x02, 0x00, 0xFE, 0x50, 0x03, 0x00, 0x03, 0x00, 0x03 };
    bytes ref(280);
    const long rr = ref_decode(blk, 12, ref.data(), 280);
    printf("   reference decoder on the 12-byte block -> %ld, equals the uncompressed table: %s\n", rr,
           rr == 280 && memcmp(ref.data(), glat.data(), 280) == 0 ? "yes" : "NO");
#ifdef HAVE_LIBLZ4
    { bytes o2(280); printf("   liblz4 LZ4_decompress_safe -> %d\n", LZ4_decompress_safe((const char *)blk, (char *)o2.data(), 12, 280)); }
#endif
    bytes cglat; const uint8_t h[8] = { 0x00, 0x03, 0x00, 0x03, 0x08, 0x00, 0x01, 0x18 };   // version, scheme 1 | size 280
    cglat.assign(h, h + 8); cglat.insert(cglat.end(), blk, blk + 12);

    const gr_face_ops ops = { sizeof(gr_face_ops), get_table, rel_table };
    const char *text = "abc  hello";
    ff.repl_tag[0] = GLOC; ff.repl[0] = gloc;
    ff.repl_tag[1] = GLAT; ff.repl[1] = glat;
    gr_face *f0 = gr_make_face_with_ops(&ff, &ops, gr_face_preloadAll);
    const std::string s0 = f0 ? shape(f0, text) : "<noface>";
    if (f0) gr_face_destroy(f0);
    ff.repl[1] = cglat;
    gr_face *f1 = gr_make_face_with_ops(&ff, &ops, gr_face_preloadAll);
    const std::string s1 = f1 ? shape(f1, text) : "<noface>";
    if (f1) gr_face_destroy(f1);
    // control: the same table padded to 600 bytes of the same pattern -> a 14-byte block, which is accepted
    {
        const uint8_t blk2[14] = { 0x2F, 0x00, 0x03, 0x02, 0x00, 0xFF, 0xFF, 0x40, 0x50, 0x03, 0x00, 0x03, 0x00, 0x03 };
        const uint8_t h2[8] = { 0x00, 0x03, 0x00, 0x03, 0x08, 0x00, 0x02, 0x58 };           // size 600
        bytes c2(h2, h2 + 8); c2.insert(c2.end(), blk2, blk2 + 14);
        ff.repl[1] = c2;
        gr_face *f2 = gr_make_face_with_ops(&ff, &ops, gr_face_preloadAll);
        const std::string s2 = f2 ? shape(f2, text) : "<noface>";
        if (f2) gr_face_destroy(f2);
        printf("   control, 600-byte table as a 14-byte block: face %s, shaping identical to uncompressed: %s\n",
               f2 ? "loads" : "does not load", s2 == s0 ? "yes" : "no");
    }
    printf("   Glat uncompressed (280 bytes): face %s, shaping: %s\n", f0 ? "loads" : "does not load", s0.c_str());
    printf("   Glat compressed   ( 20 bytes): face %s, shaping: %s\n", f1 ? "loads" : "does not load", s1.c_str());
    return (f0 && rr == 280 && s0 != s1) ? 1 : 0;
}

int main(int argc, char **argv)
{
    int bad = 0;
    const size_t sizes[] = { 13, 17, 24, 25, 100, 279, 280, 281, 1000 };
    for (size_t k = 0; k < sizeof sizes / sizeof *sizes; ++k)
    {
        const size_t n = sizes[k];
        const bytes blk = rle_block(n, 0x5A);
        bytes out, ref(n);
        const long rr = ref_decode(blk.data(), blk.size(), ref.data(), n);
        const int  r  = lib_decode(blk, n, out);
        bool ok = r == long(n) && memcmp(out.data(), ref.data(), n) == 0;
        printf("%4zu x 0x5A as a valid %2zu-byte block [", n, blk.size());
        for (size_t j = 0; j < blk.size(); ++j) printf("%02x%s", blk[j], j + 1 < blk.size() ? " " : "");
        printf("]: reference -> %ld, lz4::decompress -> %d%s\n", rr, r, ok ? "" : "   <-- valid shrinking encoding rejected");
        if (rr == long(n) && !ok) ++bad;
#ifdef HAVE_LIBLZ4
        {
            bytes plain(n, 0x5A), c(LZ4_compressBound(int(n)));
            const int cs = LZ4_compress_default((const char *)plain.data(), (char *)c.data(), int(n), int(c.size()));
            c.resize(cs);
            const int r2 = cs < int(n) ? lib_decode(c, n, out) : -2;
            printf("       liblz4's own compressor output: %d bytes, lz4::decompress -> %d%s\n", cs, r2,
                   r2 == -2 ? " (does not shrink, skipped)" : r2 == int(n) ? "" : "   <-- rejected");
        }
#endif
    }
    if (argc > 1)
    {
        const int fb = font_part(argv[1]);
        if (fb > 0) { printf("   VIOLATION: the compressed font does not behave like the uncompressed one\n"); ++bad; }
    }
    printf(bad ? "RESULT: defect demonstrated (%d violations)\n" : "RESULT: no defect (%d)\n", bad);
    return bad ? 1 : 0;
}
