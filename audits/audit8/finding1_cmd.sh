#!/bin/sh
# usage: finding1_cmd.sh <graphite source tree root>
set -e
R=${1:?source tree root}
D=$(cd "$(dirname "$0")" && pwd)
W=$(mktemp -d)
LZ=""
if [ -f /usr/include/lz4.h ]; then LZ="-DHAVE_LIBLZ4 -llz4"; fi
g++ -std=c++11 -g -O1 -fsanitize=address,undefined -fno-sanitize-recover=all \
    -DGRAPHITE2_NTRACING -DGRAPHITE2_STATIC -fno-rtti -fno-exceptions \
    -I"$R/include" -I"$R/src" \
    $(ls "$R"/src/*.cpp | grep -v -e json.cpp -e call_machine.cpp) \
    "$D/finding1_demo.cpp" -o "$W/finding1_demo" $LZ
"$W/finding1_demo" "$R/tests/fonts/Awami_compressed_test.ttf"
