// Finding 1: the length-extension accumulator in read_literal() (src/Decompressor.cpp) is a u32
// and wraps after 16843009 bytes of 0xff.  A block that announces a > 4 GiB literal (or match) run is
// therefore accepted and decoded as if the run were a handful of bytes long, although every
// conforming LZ4 block decoder rejects it.
//
// Part A drives lz4::decompress directly; part B serves the same kind of block as the Glat table
// of tests/fonts/Awami_compressed_test.ttf through gr_make_face_with_ops.
#include <cstdio>
#include <cstdlib>
#include <cstring>
#include <string>
#include <vector>
#include <stdint.h>
#include "graphite2/Font.h"
#include "graphite2/Segment.h"
#include "inc/Decompressor.h"
#ifdef HAVE_LIBLZ4
#include <lz4.h>
#endif

typedef std::vector<uint8_t> bytes;

// ---------------------------------------------------------------------------------------------
// Plain reference LZ4 block decoder, written from the block format description, lengths in 64 bit.
// Returns the number of bytes produced or -1.
static long ref_decode(const uint8_t *ip, size_t in_size, uint8_t *out, size_t cap)
{
    const uint8_t *const iend = ip + in_size;
    uint8_t *op = out, *const oend = out + cap;
    if (in_size == 0) return -1;
    for (;;)
    {
        if (ip >= iend) return -1;
        const unsigned token = *ip++;
        uint64_t ll = token >> 4;
        if (ll == 15) { uint8_t b; do { if (ip >= iend) return -1; b = *ip++; ll += b; } while (b == 255); }
        if (ll > uint64_t(iend - ip) || ll > uint64_t(oend - op)) return -1;   // literals run past input/output
        memcpy(op, ip, size_t(ll)); op += ll; ip += ll;
        if (ip == iend) return long(op - out);                                  // last sequence: literals only
        if (iend - ip < 2) return -1;
        const unsigned off = ip[0] | ip[1] << 8; ip += 2;
        uint64_t ml = token & 15;
        if (ml == 15) { uint8_t b; do { if (ip >= iend) return -1; b = *ip++; ml += b; } while (b == 255); }
        ml += 4;
        if (off == 0 || off > size_t(op - out)) return -1;
        if (ml > uint64_t(oend - op)) return -1;
        for (uint64_t k = 0; k < ml; ++k, ++op) *op = *(op - off);
    }
}

static void put_ext(bytes &o, uint64_t l) { while (l >= 255) { o.push_back(255); l -= 255; } o.push_back(uint8_t(l)); }

// Run the library decoder on exact-size heap copies so that ASan sees any over-read / over-write.
static int lib_decode(const bytes &in, size_t out_size, bytes &out)
{
    uint8_t *i = (uint8_t *)malloc(in.size()); memcpy(i, in.data(), in.size());
    uint8_t *o = (uint8_t *)malloc(out_size);  memset(o, 0xAA, out_size);
    const int r = lz4::decompress(i, in.size(), o, out_size);
    out.assign(o, o + out_size);
    free(i); free(o);
    return r;
}

static const uint32_t WRAP = 16843009u;   // 255 * 16843009 == 2^32 - 1

// A block whose plaintext (as the library sees it) is: head ++ zeros.
//   seq 1: literals = head + 4 zero bytes, match offset 1 length 4
//   seq 2: literal length 15 + 255*WRAP + 1  (== 2^32 + 15; the library sees 15), 15 zero literals,
//          match offset 1 length `fill`
//   seq 3: 5 literal zeros
static bytes make_block(const bytes &head, size_t fill, size_t &plain_size, bool wrap_match)
{
    bytes o;
    const size_t l1 = head.size() + 4;
    o.push_back(uint8_t((l1 >= 15 ? 15 : l1) << 4 | 0));
    if (l1 >= 15) put_ext(o, l1 - 15);
    o.insert(o.end(), head.begin(), head.end());
    o.insert(o.end(), 4, 0);
    o.push_back(1); o.push_back(0);                 // offset 1, match length 4
    if (!wrap_match)
    {
        o.push_back(0xFF);                              // literal 15+, match 15+
        o.insert(o.end(), WRAP, 0xFF); o.push_back(1);  // literal length 15 + (2^32-1) + 1  -> u32: 15
        o.insert(o.end(), 15, 0);                       // the 15 literals the library will take
        o.push_back(1); o.push_back(0);
        put_ext(o, fill - 4 - 15);
        plain_size = l1 + 4 + 15 + fill + 5;
    }
    else
    {
        o.push_back(0x1F);                              // 1 literal, match 15+
        o.push_back(0);
        o.push_back(1); o.push_back(0);
        o.insert(o.end(), WRAP, 0xFF); o.push_back(1);  // match length 15 + 2^32 (+4) -> u32: 19
        // now a genuine long match to get plaintext > block size
        o.push_back(0x1F); o.push_back(0); o.push_back(1); o.push_back(0);
        put_ext(o, fill - 4 - 15);
        plain_size = l1 + 4 + 1 + 19 + 1 + fill + 5;
    }
    o.push_back(0x50);
    o.insert(o.end(), 5, 0);
    return o;
}

// ---------------------------------------------------------------------------------------------
// minimal sfnt access
static uint32_t be32(const uint8_t *p) { return uint32_t(p[0]) << 24 | p[1] << 16 | p[2] << 8 | p[3]; }
struct FontFile
{
    bytes data;
    uint32_t repl_tag; bytes repl;              // one replaced table
    bool find(uint32_t tag, size_t &off, size_t &len) const
    {
        const unsigned n = data[4] << 8 | data[5];
        for (unsigned i = 0; i < n; ++i)
        {
            const uint8_t *r = &data[12 + 16 * i];
            if (be32(r) == tag) { off = be32(r + 8); len = be32(r + 12); return true; }
        }
        return false;
    }
};
static const void *get_table(const void *h, unsigned int name, size_t *len)
{
    const FontFile &f = *static_cast<const FontFile *>(h);
    const uint8_t *src; size_t n, off;
    if (f.repl_tag == name) { src = f.repl.data(); n = f.repl.size(); }
    else if (f.find(name, off, n)) src = &f.data[off];
    else return 0;
    void *p = malloc(n ? n : 1); memcpy(p, src, n);  // exact-size heap copy
    *len = n; return p;
}
static void rel_table(const void *, const void *p) { free(const_cast<void *>(p)); }

static std::string shape(gr_face *face, const char *utf8)
{
    std::string res;
    gr_font *font = gr_make_font(24.0f, face);
    size_t n = gr_count_unicode_characters(gr_utf8, utf8, utf8 + strlen(utf8), 0);
    gr_segment *seg = gr_make_seg(font, face, 0, 0, gr_utf8, utf8, n, 1);
    if (!seg) { gr_font_destroy(font); return "<noseg>"; }
    char buf[96];
    for (const gr_slot *s = gr_seg_first_slot(seg); s; s = gr_slot_next_in_segment(s))
    {
        snprintf(buf, sizeof buf, "%u@%.2f,%.2f ", gr_slot_gid(s), gr_slot_origin_X(s), gr_slot_origin_Y(s));
        res += buf;
    }
    gr_seg_destroy(seg); gr_font_destroy(font);
    return res;
}

int main(int argc, char **argv)
{
    int bad = 0;
    // ---------------- Part A: the decoder on its own
    for (int wm = 0; wm < 2; ++wm)
    {
        bytes head; for (int i = 0; i < 20; ++i) head.push_back(uint8_t('A' + i));
        size_t plain;
        const bytes blk = make_block(head, 17200000, plain, wm != 0);
        bytes out, refout(plain + 16);
        const int  r  = lib_decode(blk, plain, out);
        const long rr = ref_decode(blk.data(), blk.size(), refout.data(), plain);
        printf("A%d (%s length wraps): block %zu bytes, announced output %zu: lz4::decompress -> %d, reference decoder -> %ld\n",
               wm, wm ? "match" : "literal", blk.size(), plain, r, rr);
#ifdef HAVE_LIBLZ4
        printf("   liblz4 LZ4_decompress_safe -> %d\n", LZ4_decompress_safe((const char *)blk.data(), (char *)refout.data(), int(blk.size()), int(plain)));
#endif
        if (r >= 0 && rr < 0) { printf("   VIOLATION: the library decodes a block every conforming decoder rejects\n"); ++bad; }
    }

    // ---------------- Part B: as a compressed Glat table
    if (argc > 1)
    {
        FILE *fp = fopen(argv[1], "rb"); if (!fp) { perror(argv[1]); return 2; }
        FontFile ff; ff.repl_tag = 0;
        fseek(fp, 0, SEEK_END); ff.data.resize(ftell(fp)); fseek(fp, 0, SEEK_SET);
        if (fread(ff.data.data(), 1, ff.data.size(), fp) != ff.data.size()) return 2;
        fclose(fp);
        const uint32_t GLAT = 0x476C6174;
        size_t off, len;
        if (!ff.find(GLAT, off, len)) { printf("no Glat\n"); return 2; }
        const uint8_t *t = &ff.data[off];
        const uint32_t hdr = be32(t + 4);
        if (be32(t) < 0x00030000 || (hdr >> 27) != 1) { printf("Glat is not LZ4 compressed in this font\n"); return 2; }
        bytes glat(hdr & 0x07ffffff);
        if (ref_decode(t + 8, len - 8, glat.data(), glat.size()) != long(glat.size())) { printf("cannot decode shipped Glat\n"); return 2; }

        const gr_face_ops ops = { sizeof(gr_face_ops), get_table, rel_table };
        const char *text = "\xd8\xa7\xd8\xb1\xd8\xaf\xd9\x88 \xd9\x86\xd8\xb3\xd8\xaa\xd8\xb9\xd9\x84\xdb\x8c\xd9\x82";
        gr_face *f0 = gr_make_face_with_ops(&ff, &ops, gr_face_preloadAll);
        const std::string s0 = f0 ? shape(f0, text) : "<noface>";
        if (f0) gr_face_destroy(f0);

        size_t plain;
        const bytes blk = make_block(glat, 17200000, plain, false);
        ff.repl_tag = GLAT;
        ff.repl.assign(t, t + 4);
        const uint32_t nh = 1u << 27 | uint32_t(plain);
        ff.repl.push_back(nh >> 24); ff.repl.push_back(nh >> 16); ff.repl.push_back(nh >> 8); ff.repl.push_back(nh);
        ff.repl.insert(ff.repl.end(), blk.begin(), blk.end());
        bytes refout(plain);
        const long rr = ref_decode(blk.data(), blk.size(), refout.data(), plain);
        gr_face *f1 = gr_make_face_with_ops(&ff, &ops, gr_face_preloadAll);
        const std::string s1 = f1 ? shape(f1, text) : "<noface>";
        if (f1) gr_face_destroy(f1);
        printf("B: crafted Glat table %zu bytes (announces %zu): reference decoder -> %ld, face %s\n",
               ff.repl.size(), plain, rr, f1 ? "LOADED" : "rejected");
        printf("   shaping identical to the shipped font: %s\n", s0 == s1 ? "yes" : "no");
        if (f1 && rr < 0) { printf("   VIOLATION: the face loads from an invalid LZ4 block instead of failing cleanly\n"); ++bad; }
    }
    printf(bad ? "RESULT: defect demonstrated (%d)\n" : "RESULT: no defect (%d)\n", bad);
    return bad ? 1 : 0;
}
