// Finding 3: Face::Table::Table (src/Face.cpp:267) decides whether a table is in the compressed layout with
//     if (be::peek<uint32>(_p) >= version) decompress();
// and every table other than Silf / Glat is opened with the default version = 0xffffffff (src/inc/Face.h:160),
// which is meant as "never compressed".  Because the comparison is >=, a non-Graphite table whose first four
// bytes are ff ff ff ff (hmtx: glyph 0 advance 65535, lsb -1; glyf: glyph 0 composite with xMin -1; also loca,
// Gloc, Feat, Sill) is run through decompress(): its second long word is taken as scheme:5 / size:27.
// Scheme 0 leaves the table alone, scheme 1 LZ4-"decompresses" the sfnt table, any other scheme drops it,
// and the face then fails to load.
#include <cstdio>
#include <cstdlib>
#include <cstring>
#include <string>
#include <vector>
#include <stdint.h>
#include "graphite2/Font.h"
#include "graphite2/Segment.h"

typedef std::vector<uint8_t> bytes;
static uint32_t be32(const uint8_t *p) { return uint32_t(p[0]) << 24 | p[1] << 16 | p[2] << 8 | p[3]; }
struct FontFile
{
    bytes data;
    uint32_t repl_tag; bytes repl;
    bool find(uint32_t tag, size_t &off, size_t &len) const
    {
        const unsigned n = data[4] << 8 | data[5];
        for (unsigned i = 0; i < n; ++i)
        {
            const uint8_t *r = &data[12 + 16 * i];
            if (be32(r) == tag) { off = be32(r + 8); len = be32(r + 12); return true; }
        }
        return false;
    }
};
static const void *get_table(const void *h, unsigned int name, size_t *len)
{
    const FontFile &f = *static_cast<const FontFile *>(h);
    const uint8_t *src; size_t n, off;
    if (f.repl_tag == name) { src = f.repl.data(); n = f.repl.size(); }
    else if (f.find(name, off, n)) src = &f.data[off];
    else return 0;
    void *p = malloc(n ? n : 1); memcpy(p, src, n);      // exact-size heap copy
    *len = n; return p;
}
static void rel_table(const void *, const void *p) { free(const_cast<void *>(p)); }

static std::string shape(gr_face *face, const char *utf8)
{
    std::string res;
    gr_font *font = gr_make_font(24.0f, face);
    size_t n = gr_count_unicode_characters(gr_utf8, utf8, utf8 + strlen(utf8), 0);
    gr_segment *seg = gr_make_seg(font, face, 0, 0, gr_utf8, utf8, n, 0);
    if (!seg) { gr_font_destroy(font); return "<noseg>"; }
    char buf[96];
    for (const gr_slot *s = gr_seg_first_slot(seg); s; s = gr_slot_next_in_segment(s))
    {
        snprintf(buf, sizeof buf, "%u@%.1f,%.1f ", gr_slot_gid(s), gr_slot_origin_X(s), gr_slot_origin_Y(s));
        res += buf;
    }
    gr_seg_destroy(seg); gr_font_destroy(font);
    return res;
}

static const gr_face_ops ops = { sizeof(gr_face_ops), get_table, rel_table };
static const char *text = "\xe1\x80\x80\xe1\x80\xbc\xe1\x80\xae\xe1\x80\xb8 abc";

static bool try_font(FontFile &ff, const char *what)
{
    gr_face *f = gr_make_face_with_ops(&ff, &ops, gr_face_preloadAll);
    const std::string s = f ? shape(f, text) : "";
    printf("   %-58s: face %s %s\n", what, f ? "loads;" : "DOES NOT LOAD", s.substr(0, 60).c_str());
    if (f) gr_face_destroy(f);
    return f != 0;
}

int main(int argc, char **argv)
{
    if (argc < 2) return 2;
    FILE *fp = fopen(argv[1], "rb"); if (!fp) { perror(argv[1]); return 2; }
    FontFile ff; ff.repl_tag = 0;
    fseek(fp, 0, SEEK_END); ff.data.resize(ftell(fp)); fseek(fp, 0, SEEK_SET);
    if (fread(ff.data.data(), 1, ff.data.size(), fp) != ff.data.size()) return 2;
    fclose(fp);
    int bad = 0;
    size_t off, len;

    printf("hmtx (glyph 0 = .notdef metrics, glyph 1 advance 0x1000):\n");
    const uint32_t HMTX = 0x686D7478;
    if (!ff.find(HMTX, off, len)) return 2;
    ff.repl_tag = HMTX; ff.repl.assign(ff.data.begin() + off, ff.data.begin() + off + len);
    ff.repl[4] = 0x10; ff.repl[5] = 0x00;                       // glyph 1 advance 4096 in every variant
    try_font(ff, "shipped glyph 0 metrics");
    ff.repl[0] = 0xFF; ff.repl[1] = 0xFF; ff.repl[2] = 0xFF; ff.repl[3] = 0xFE;
    const bool a1 = try_font(ff, "glyph 0 advance 65535, lsb -2   (ff ff ff fe)");
    ff.repl[3] = 0xFF;
    const bool a2 = try_font(ff, "glyph 0 advance 65535, lsb -1   (ff ff ff ff)");
    if (a1 && !a2) ++bad;

    printf("glyf (glyph 0 header):\n");
    const uint32_t GLYF = 0x676C7966;
    if (!ff.find(GLYF, off, len)) return 2;
    ff.repl_tag = GLYF; ff.repl.assign(ff.data.begin() + off, ff.data.begin() + off + len);
    try_font(ff, "shipped glyph 0");
    // numberOfContours = -1 (composite), xMin = -2 / -1, yMin = -200; xMax, yMax as shipped
    ff.repl[0] = 0xFF; ff.repl[1] = 0xFF; ff.repl[2] = 0xFF; ff.repl[3] = 0xFE; ff.repl[4] = 0xFF; ff.repl[5] = 0x38;
    const bool b1 = try_font(ff, "glyph 0 composite, xMin -2, yMin -200 (ff ff ff fe ff 38)");
    ff.repl[3] = 0xFF;
    const bool b2 = try_font(ff, "glyph 0 composite, xMin -1, yMin -200 (ff ff ff ff ff 38)");
    if (b1 && !b2) ++bad;

    printf(bad ? "RESULT: defect demonstrated (%d): an uncompressible sfnt table starting ff ff ff ff is treated as a compressed table\n"
               : "RESULT: no defect (%d)\n", bad);
    return bad ? 1 : 0;
}
