// C05 finding 2: UTF-8 and UTF-32 input that encodes a surrogate code point (ill-formed in
// both encoding forms) is not replaced by U+FFFD: gr_cinfo_unicode_char returns U+D800..U+DFFF.
// UTF-16 input with the same lone surrogate does yield U+FFFD, so the three encodings of
// "the same" ill-formed text disagree.
//
// usage: demo <font.ttf>      (any bundled font, e.g. tests/fonts/Padauk.ttf)
#include <graphite2/Font.h>
#include <graphite2/Segment.h>
#include <cstdio>
#include <cstdlib>
#include <cstring>

static int run(gr_face *face, gr_encform enc, const void *text, size_t bytes, size_t n,
               const unsigned *want, const char *name)
{
    void *buf = malloc(bytes);              // exact-size heap copy
    memcpy(buf, text, bytes);
    gr_segment *seg = gr_make_seg(0, face, 0, 0, enc, buf, n, 0);
    int bad = 0;
    if (!seg) { printf("%s: no segment\n", name); free(buf); return 1; }
    printf("%s: n_cinfo=%u\n", name, gr_seg_n_cinfo(seg));
    if (gr_seg_n_cinfo(seg) != n) ++bad;
    for (unsigned i = 0; i < gr_seg_n_cinfo(seg); ++i)
    {
        const gr_char_info *c = gr_seg_cinfo(seg, i);
        const unsigned u = gr_cinfo_unicode_char(c);
        printf("  char %u: U+%04X base=%u   (expected U+%04X)%s\n", i, u, unsigned(gr_cinfo_base(c)), want[i],
               u == want[i] ? "" : "   <-- VIOLATION");
        if (u != want[i]) ++bad;
    }
    gr_seg_destroy(seg);
    free(buf);
    return bad;
}

int main(int argc, char **argv)
{
    if (argc < 2) { fprintf(stderr, "usage: %s font.ttf\n", argv[0]); return 2; }
    gr_face *face = gr_make_file_face(argv[1], gr_face_default);
    if (!face) { fprintf(stderr, "no face\n"); return 2; }
    int bad = 0;

    // 'a', <ED A0 80> (would be U+D800: ill-formed, Unicode table 3-7), 'b'
    // Whatever way the ill-formed bytes are split into U+FFFDs, no character may be a surrogate;
    // graphite consumes ED A0 80 as one character, so one U+FFFD is the expected result.
    const unsigned char u8[] = { 'a', 0xED, 0xA0, 0x80, 'b' };
    const unsigned want[] = { 'a', 0xFFFD, 'b' };
    bad += run(face, gr_utf8, u8, sizeof u8, 3, want, "utf8  61 ED A0 80 62");

    const unsigned char u8b[] = { 'a', 0xED, 0xBF, 0xBF, 'b' };   // U+DFFF
    bad += run(face, gr_utf8, u8b, sizeof u8b, 3, want, "utf8  61 ED BF BF 62");

    const unsigned int u32[] = { 'a', 0xD800, 'b' };
    bad += run(face, gr_utf32, u32, sizeof u32, 3, want, "utf32 61 D800 62");

    const unsigned int u32b[] = { 'a', 0xDFFF, 'b' };
    bad += run(face, gr_utf32, u32b, sizeof u32b, 3, want, "utf32 61 DFFF 62");

    // for comparison: the same lone surrogate in UTF-16 is replaced as the property says
    const unsigned short u16[] = { 'a', 0xD800, 'b' };
    bad += run(face, gr_utf16, u16, sizeof u16, 3, want, "utf16 61 D800 62");

    gr_face_destroy(face);
    printf(bad ? "RESULT: property C05 VIOLATED (%d wrong characters)\n" : "RESULT: ok\n", bad);
    return bad ? 1 : 0;
}
