// C05 finding 3: a text whose last character is a truncated (ill-formed) multi-unit sequence
// makes the decoder read past the end of the text buffer.
//
// usage: demo <font.ttf> <case>     case 8: UTF-8  "a" E0      (2 characters: 'a', U+FFFD)
//                                   case 16: UTF-16 "a" D800   (2 characters: 'a', U+FFFD)
#include <graphite2/Font.h>
#include <graphite2/Segment.h>
#include <cstdio>
#include <cstdlib>
#include <cstring>

int main(int argc, char **argv)
{
    if (argc < 3) { fprintf(stderr, "usage: %s font.ttf 8|16\n", argv[0]); return 2; }
    gr_face *face = gr_make_file_face(argv[1], gr_face_default);
    if (!face) { fprintf(stderr, "no face\n"); return 2; }
    gr_segment *seg = 0;
    void *buf = 0;
    if (atoi(argv[2]) == 8)
    {
        const unsigned char t[] = { 'a', 0xE0 };            // lead byte of a 3-byte sequence, then end of text
        buf = malloc(sizeof t); memcpy(buf, t, sizeof t);   // exact-size heap copy: 2 bytes
        seg = gr_make_seg(0, face, 0, 0, gr_utf8, buf, 2, 0);
    }
    else
    {
        const unsigned short t[] = { 'a', 0xD800 };         // high surrogate, then end of text
        buf = malloc(sizeof t); memcpy(buf, t, sizeof t);   // exact-size heap copy: 4 bytes
        seg = gr_make_seg(0, face, 0, 0, gr_utf16, buf, 2, 0);
    }
    if (seg)
    {
        for (unsigned i = 0; i < gr_seg_n_cinfo(seg); ++i)
            printf("char %u: U+%04X base=%u\n", i, gr_cinfo_unicode_char(gr_seg_cinfo(seg, i)),
                   unsigned(gr_cinfo_base(gr_seg_cinfo(seg, i))));
        gr_seg_destroy(seg);
    }
    free(buf);
    gr_face_destroy(face);
    printf("RESULT: no over-read reported\n");
    return 0;
}
