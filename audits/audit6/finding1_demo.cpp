// C05 finding 1: a character is left outside every slot's [before,after] range.
//
// The font is tests/fonts/grtest1gr.ttf with its Silf table replaced by a hand
// assembled one (two substitution passes, one rule each).  All tables are served
// through gr_make_face_with_ops from exact-size heap copies.
//
// usage: demo <font.ttf>
#include <graphite2/Font.h>
#include <graphite2/Segment.h>
#include <cstdio>
#include <cstdlib>
#include <cstring>
#include <vector>
#include <map>
#include <string>

typedef std::vector<unsigned char> bytes;

static void u8 (bytes &b, unsigned v) { b.push_back(v & 0xFF); }
static void u16(bytes &b, unsigned v) { u8(b, v >> 8); u8(b, v); }
static void u32(bytes &b, unsigned long v) { u16(b, v >> 16); u16(b, v & 0xFFFF); }
static void put32(bytes &b, size_t at, unsigned long v) { b[at]=v>>24; b[at+1]=v>>16; b[at+2]=v>>8; b[at+3]=v; }
static unsigned rd16(const unsigned char *p) { return (p[0] << 8) | p[1]; }
static unsigned long rd32(const unsigned char *p) { return ((unsigned long)rd16(p) << 16) | rd16(p+2); }

// ---- font served table by table from exact-size heap blocks -----------------
struct Font { std::map<unsigned long, bytes> tables; };

static const void *get_table(const void *h, unsigned int tag, size_t *len)
{
    const Font *f = static_cast<const Font *>(h);
    std::map<unsigned long, bytes>::const_iterator i = f->tables.find(tag);
    if (i == f->tables.end()) { *len = 0; return 0; }
    void *p = malloc(i->second.size());            // exact size: any over-read is reported
    memcpy(p, i->second.data(), i->second.size());
    *len = i->second.size();
    return p;
}
static void release_table(const void *, const void *p) { free(const_cast<void *>(p)); }

static bool load_font(const char *path, Font &f)
{
    FILE *fp = fopen(path, "rb");
    if (!fp) return false;
    bytes d; int c;
    while ((c = fgetc(fp)) != EOF) d.push_back(c);
    fclose(fp);
    const unsigned n = rd16(&d[4]);
    for (unsigned i = 0; i < n; ++i)
    {
        const unsigned char *e = &d[12 + 16*i];
        const unsigned long tag = rd32(e), off = rd32(e+8), len = rd32(e+12);
        f.tables[tag] = bytes(d.begin() + off, d.begin() + off + len);
    }
    return true;
}

// ---- opcodes ----------------------------------------------------------------
enum { NEXT = 25, PUT_COPY = 30, INSERT = 31, DELETE_ = 32, ASSOC = 33, RET_ZERO = 49 };

// One pass with one rule that matches any L consecutive glyphs (all glyphs 0..maxGlyph
// are in FSM column 0) and runs `action`.  `base` is the offset of the pass from the
// start of the Silf subtable (code offsets in a pass header are relative to that).
static bytes make_pass(unsigned L, unsigned maxGlyph, const bytes &action, size_t base)
{
    bytes p;
    u8(p, 0);           // flags
    u8(p, 1);           // maxRuleLoop
    u8(p, L);           // maxRuleContext
    u8(p, 0);           // maxBackup
    u16(p, 1);          // numRules
    u16(p, 0);          // fsmOffset (unused)
    const size_t o_codes = p.size();
    u32(p, 0); u32(p, 0); u32(p, 0);    // pcCode, rcCode, aCode: patched below
    u32(p, 0);          // oDebug
    u16(p, L + 1);      // numRows
    u16(p, L);          // numTransitional
    u16(p, 1);          // numSuccess
    u16(p, 1);          // numColumns
    u16(p, 1);          // numRange
    u16(p, 0); u16(p, 0); u16(p, 0);    // search header
    u16(p, 0); u16(p, maxGlyph); u16(p, 0);     // range: glyphs 0..maxGlyph -> column 0
    u16(p, 0); u16(p, 1);               // oRuleMap[numSuccess+1]
    u16(p, 0);                          // ruleMap[0] = rule 0
    u8(p, 0); u8(p, 0);                 // min/max rule pre-context
    u16(p, 0);                          // startStates[0]
    u16(p, L);                          // ruleSortKeys[0]
    u8(p, 0);                           // rulePreContext[0]
    u8(p, 0);                           // collision threshold
    u16(p, 0);                          // pass constraint length
    u16(p, 0); u16(p, 0);               // oConstraints[2]
    u16(p, 0); u16(p, action.size());   // oActions[2]
    for (unsigned s = 0; s < L; ++s) u16(p, s + 1);    // state s --col0--> s+1
    u8(p, 0);                           // reserved
    const size_t code = base + p.size();
    put32(p, o_codes, code); put32(p, o_codes + 4, code); put32(p, o_codes + 8, code);
    p.insert(p.end(), action.begin(), action.end());
    return p;
}

static bytes make_silf(const bytes &orig, const std::vector<std::pair<unsigned, bytes> > &passes)
{
    // take the glyph attribute numbers and maxGlyph from the font's own Silf (v3+ layout)
    const unsigned long ver = rd32(&orig[0]);
    const unsigned char *os = &orig[0] + rd32(&orig[ver >= 0x00030000 ? 12 : 8]);
    if (ver >= 0x00030000) os += 8;
    const unsigned maxGlyph = rd16(os);
    const unsigned aPseudo = os[14], aBreak = os[15], aBidi = os[16], aMirror = os[17];

    bytes s;                    // the subtable
    u32(s, 0x00030000);         // ruleVersion
    u16(s, 0); u16(s, 0);       // passOffset, pseudosOffset (unused)
    u16(s, maxGlyph);
    u16(s, 0); u16(s, 0);       // extra ascent/descent
    u8(s, passes.size());       // numPasses
    u8(s, 0);                   // iSubst
    u8(s, passes.size());       // iPos
    u8(s, passes.size());       // iJust
    u8(s, 0xFF);                // iBidi
    u8(s, 0);                   // flags
    u8(s, 0); u8(s, 0);         // max pre/post context
    u8(s, aPseudo); u8(s, aBreak); u8(s, aBidi); u8(s, aMirror);
    u8(s, 0);                   // attrSkipPasses
    u8(s, 0);                   // numJLevels
    u16(s, 0);                  // numLigComp
    u8(s, 0);                   // numUserDefn
    u8(s, 0);                   // maxCompPerLig
    u8(s, 1);                   // direction (1 => ltr)
    u8(s, 0);                   // attCollisions
    u8(s, 0); u8(s, 0); u8(s, 0);
    u8(s, 0);                   // numCritFeatures
    u8(s, 0);                   // reserved
    u8(s, 0);                   // numScriptTag
    u16(s, 0);                  // lbGID
    const size_t o_passes = s.size();
    for (size_t i = 0; i <= passes.size(); ++i) u32(s, 0);
    u16(s, 0); u16(s, 0); u16(s, 0); u16(s, 0);     // no pseudo glyphs
    u16(s, 1); u16(s, 1);       // numClass, numLinear
    u16(s, 8); u16(s, 10);      // oClass[2]
    u16(s, 0);                  // class 0 = { glyph 0 }
    u16(s, 0);                  // padding so that the passes do not start at the class map's end
    for (size_t i = 0; i < passes.size(); ++i)
    {
        put32(s, o_passes + 4*i, s.size());
        const bytes p = make_pass(passes[i].first, maxGlyph, passes[i].second, s.size());
        s.insert(s.end(), p.begin(), p.end());
    }
    put32(s, o_passes + 4*passes.size(), s.size());

    bytes t;
    u32(t, 0x00030000); u32(t, 0x00050000);     // version, compilerVersion
    u16(t, 1); u16(t, 0);                       // numSub, reserved
    u32(t, 16);                                 // offset[0]
    t.insert(t.end(), s.begin(), s.end());
    return t;
}

int main(int argc, char **argv)
{
    if (argc < 2) { fprintf(stderr, "usage: %s font.ttf\n", argv[0]); return 2; }
    Font font;
    if (!load_font(argv[1], font)) { fprintf(stderr, "cannot read %s\n", argv[1]); return 2; }

    std::vector<std::pair<unsigned, bytes> > passes;
    {   // pass 1, rule over 4 slots  A B C D:
        //   B: assoc(D)                     -> B = [3,3]   (character 1 loses its slot's association)
        //   D: assoc(A); insert before D    -> new slot Y: before = C.after = 2, after = D.before = 0
        const unsigned char a[] = { NEXT,
                                    ASSOC, 1, 2, NEXT,
                                    NEXT,
                                    ASSOC, 1, (unsigned char)-3, INSERT, NEXT, NEXT,
                                    RET_ZERO };
        passes.push_back(std::make_pair(4u, bytes(a, a + sizeof a)));
    }
    {   // pass 2, rule over 5 slots  A[0,0] B[3,3] C[2,2] Y[2,0] D[0,0]:
        //   slot0 := copy of B [3,3]
        //   slot1 := copy of A [0,0]; insert before it -> X: before = slot0.after = 3, after = slot1.before = 0
        //   slot2 := copy of Y [2,0]
        //   slot3 := copy of C [2,2]
        const unsigned char a[] = { PUT_COPY, 1, NEXT,
                                    PUT_COPY, (unsigned char)-1, INSERT, NEXT, NEXT,
                                    PUT_COPY, 1, NEXT,
                                    PUT_COPY, (unsigned char)-1, NEXT,
                                    NEXT,
                                    RET_ZERO };
        passes.push_back(std::make_pair(5u, bytes(a, a + sizeof a)));
    }
    font.tables[0x53696C66 /*Silf*/] = make_silf(font.tables[0x53696C66], passes);

    const gr_face_ops ops = { sizeof(gr_face_ops), get_table, release_table };
    gr_face *face = gr_make_face_with_ops(&font, &ops, gr_face_default);
    if (!face) { fprintf(stderr, "face rejected\n"); return 2; }

    const char text[] = "abcd";
    const size_t n = 4;
    gr_segment *seg = gr_make_seg(0, face, 0, 0, gr_utf8, text, n, 0);
    if (!seg) { fprintf(stderr, "no segment\n"); return 2; }

    const unsigned ncinfo = gr_seg_n_cinfo(seg), nslots = gr_seg_n_slots(seg);
    printf("n_cinfo=%u n_slots=%u\n", ncinfo, nslots);
    int bad = 0;
    std::vector<int> covered(ncinfo, 0);
    unsigned k = 0;
    for (const gr_slot *s = gr_seg_first_slot(seg); s; s = gr_slot_next_in_segment(s), ++k)
    {
        const int b = gr_slot_before(s), a = gr_slot_after(s), o = gr_slot_original(s);
        printf("slot %u: gid=%u before=%d after=%d original=%d\n", k, gr_slot_gid(s), b, a, o);
        if (b < 0 || b >= int(ncinfo) || a < 0 || a >= int(ncinfo) || o < 0 || o >= int(ncinfo))
        { printf("  VIOLATION: slot association outside [0,%u)\n", ncinfo); ++bad; }
        for (int j = b; j <= a && j < int(ncinfo); ++j) if (j >= 0) covered[j] = 1;
    }
    if (k != nslots) { printf("VIOLATION: %u slots in the list, gr_seg_n_slots=%u\n", k, nslots); ++bad; }
    if (ncinfo != n) { printf("VIOLATION: n_cinfo=%u for %u characters\n", ncinfo, unsigned(n)); ++bad; }
    for (unsigned i = 0; i < ncinfo; ++i)
    {
        const gr_char_info *c = gr_seg_cinfo(seg, i);
        printf("char %u: U+%04X base=%u before=%d after=%d\n", i, gr_cinfo_unicode_char(c),
               unsigned(gr_cinfo_base(c)), gr_cinfo_before(c), gr_cinfo_after(c));
        if (gr_cinfo_unicode_char(c) != (unsigned char)text[i] || gr_cinfo_base(c) != i)
        { printf("  VIOLATION: wrong character or base\n"); ++bad; }
        if (nslots && (gr_cinfo_before(c) < 0 || gr_cinfo_before(c) >= int(nslots)
                    || gr_cinfo_after(c) < 0 || gr_cinfo_after(c) >= int(nslots)))
        { printf("  VIOLATION: char before/after outside [0,%u)\n", nslots); ++bad; }
        if (nslots && !covered[i])
        { printf("  VIOLATION: character %u lies in no slot's [before,after] range\n", i); ++bad; }
    }
    gr_seg_destroy(seg);
    gr_face_destroy(face);
    printf(bad ? "RESULT: property C05 VIOLATED (%d)\n" : "RESULT: ok\n", bad);
    return bad ? 1 : 0;
}
