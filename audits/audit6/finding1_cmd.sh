#!/bin/sh
# usage: finding1_cmd.sh <graphite source tree root>
# Builds the unchanged library sources together with finding1_demo.cpp (ASan+UBSan) and runs the demo.
ROOT=${1:?usage: $0 <source tree root>}
HERE=$(cd "$(dirname "$0")" && pwd)
OUT=$(mktemp -d /tmp/c05_f1.XXXXXX)
g++ -std=c++11 -g -O1 -fsanitize=address,undefined -fno-sanitize-recover=all \
    -DGRAPHITE2_NTRACING -DGRAPHITE2_STATIC -fno-rtti -fno-exceptions \
    -I"$ROOT/include" -I"$ROOT/src" \
    $(ls "$ROOT"/src/*.cpp | grep -v -e json.cpp -e call_machine.cpp) \
    "$HERE/finding1_demo.cpp" -o "$OUT/demo" || exit 2
"$OUT/demo" "$ROOT/tests/fonts/grtest1gr.ttf"
