// Finding 1: surrogate code points are accepted as well-formed in UTF-8 and UTF-32.
#include <graphite2/Segment.h>
#include <graphite2/Font.h>
#include <cstdio>
#include <cstdlib>
#include <cstring>
#include <cstdint>
#include <string>

static int bad = 0;
static void count(const char *what, gr_encform enc, const void *data, size_t bytes, size_t expect_max)
{
    unsigned char *buf = (unsigned char *)malloc(bytes); memcpy(buf, data, bytes);      // exact-size heap copy
    const void *err = (const void *)1;
    size_t n = gr_count_unicode_characters(enc, buf, buf + bytes, &err);
    bool violation = (err == 0) || n > expect_max;
    printf("%-34s count=%zu pError=%s  expected: error reported, count<=%zu  %s\n", what, n,
           err ? "set" : "NULL", expect_max, violation ? "** VIOLATION **" : "ok");
    if (violation) ++bad;
    free(buf);
}
static void shape(gr_face *f, const char *what, gr_encform enc, const void *data, size_t bytes, size_t nchars, unsigned fffd_gid)
{
    unsigned char *buf = (unsigned char *)malloc(bytes); memcpy(buf, data, bytes);
    gr_segment *s = gr_make_seg(0, f, 0, 0, enc, buf, nchars, 0);
    printf("%-34s chars:", what);
    bool violation = false;
    for (unsigned i = 0; i < gr_seg_n_cinfo(s); ++i) { unsigned c = gr_cinfo_unicode_char(gr_seg_cinfo(s, i)); printf(" %04X", c); if (c >= 0xD800 && c <= 0xDFFF) violation = true; }
    printf("  gids:");
    unsigned k = 0;
    for (const gr_slot *sl = gr_seg_first_slot(s); sl; sl = gr_slot_next_in_segment(sl), ++k) { printf(" %u", gr_slot_gid(sl)); if (k == 1 && gr_slot_gid(sl) != fffd_gid) violation = true; }
    printf("  %s\n", violation ? "** VIOLATION (not U+FFFD) **" : "ok");
    if (violation) ++bad;
    gr_seg_destroy(s); free(buf);
}
int main(int, char **argv)
{
    const uint8_t  u8a[] = {0xED,0xA0,0x80};                 // U+D800 "encoded" in UTF-8: ill-formed (Table 3-7: ED 80..9F)
    const uint8_t  u8b[] = {0x41,0xED,0xBF,0xBF,0x42};       // A, U+DFFF, B
    const uint8_t  u8c[] = {0xED,0xA0,0x80,0xED,0xB0,0x80};  // CESU-8 pair
    const uint32_t u32a[] = {0xD800};
    const uint32_t u32b[] = {0x41,0xDFFF,0x42};
    const uint16_t u16a[] = {0xDC00,0x41};                   // control: UTF-16 lone surrogate is rejected
    count("UTF-8  ED A0 80",          gr_utf8,  u8a, sizeof u8a, 0);
    count("UTF-8  41 ED BF BF 42",    gr_utf8,  u8b, sizeof u8b, 1);
    count("UTF-8  ED A0 80 ED B0 80", gr_utf8,  u8c, sizeof u8c, 0);
    count("UTF-32 0000D800",          gr_utf32, u32a, sizeof u32a, 0);
    count("UTF-32 41 DFFF 42",        gr_utf32, u32b, sizeof u32b, 1);
    count("UTF-16 DC00 0041 (control)", gr_utf16, u16a, sizeof u16a, 0);

    gr_face *f = gr_make_file_face((std::string(argv[1]) + "/tests/fonts/charis_r_gr.ttf").c_str(), 0);
    if (!f) { printf("cannot load font\n"); return 2; }
    const uint32_t ref[] = {0xFFFD};
    gr_segment *s = gr_make_seg(0, f, 0, 0, gr_utf32, ref, 1, 0);
    unsigned fffd = gr_slot_gid(gr_seg_first_slot(s)); gr_seg_destroy(s);
    printf("charis_r_gr.ttf maps U+FFFD to glyph %u; text is A <lone surrogate D800> B in each encoding\n", fffd);
    const uint16_t s16[] = {0x41,0xD800,0x42,0};
    const uint8_t  s8[]  = {0x41,0xED,0xA0,0x80,0x42,0};
    const uint32_t s32[] = {0x41,0xD800,0x42,0};
    shape(f, "UTF-16 0041 D800 0042 (control)", gr_utf16, s16, sizeof s16, 3, fffd);
    shape(f, "UTF-8  41 ED A0 80 42",           gr_utf8,  s8,  sizeof s8,  3, fffd);
    shape(f, "UTF-32 41 D800 42",               gr_utf32, s32, sizeof s32, 3, fffd);
    gr_face_destroy(f);
    printf("%d violations\n", bad);
    return bad ? 1 : 0;
}
