#!/bin/sh
# usage: finding3_cmd.sh <graphite source tree root>
HERE=$(cd $(dirname $0) && pwd)
ROOT=${1:?source tree root}
sh $HERE/common_build.sh $ROOT $HERE/finding3_demo.cpp /tmp/finding3_audit18_demo || exit 2
/tmp/finding3_audit18_demo $ROOT
echo "exit status $?"
