// Finding 3: bytes AFTER the terminating NUL make gr_count_unicode_characters discard a well-formed text.
#include <graphite2/Segment.h>
#include <cstdio>
#include <cstdlib>
#include <cstring>
#include <cstdint>
static int bad = 0;
static void count(const char *what, const uint8_t *data, size_t bytes, size_t expect)
{
    uint8_t *buf = (uint8_t *)malloc(bytes); memcpy(buf, data, bytes);
    const void *err = (const void *)1;
    size_t n = gr_count_unicode_characters(gr_utf8, buf, buf + bytes, &err);
    bool v = err != 0 || n != expect;
    printf("%-28s count=%zu pError=%s", what, n, err ? "buf+" : "NULL");
    if (err) printf("%ld", (long)((const uint8_t *)err - buf));
    printf("   expected count=%zu pError=NULL  %s\n", expect, v ? "** VIOLATION **" : "ok");
    if (v) ++bad; free(buf);
}
int main()
{
    // text before the first NUL is the well-formed "AB"; the buffer does not end in a truncated multi-unit
    // sequence, because C0, C1, F5..FF never start a sequence and E0 80 / F0 80 / ED A0 are not prefixes of one (Table 3-7)
    const uint8_t a[] = {0x41,0x42,0x00,0xFF};            count("41 42 00 FF", a, sizeof a, 2);
    const uint8_t b[] = {0x41,0x42,0x00,0xC0};            count("41 42 00 C0", b, sizeof b, 2);
    const uint8_t c[] = {0x41,0x42,0x00,0xF5};            count("41 42 00 F5", c, sizeof c, 2);
    const uint8_t d[] = {0x41,0x42,0x00,0xE0,0x80};       count("41 42 00 E0 80", d, sizeof d, 2);
    const uint8_t e[] = {0x41,0x42,0x00,0xF8,0x80,0x80};  count("41 42 00 F8 80 80", e, sizeof e, 2);
    const uint8_t g[] = {0x41,0x42,0x00,0x41,0xFF};       count("41 42 00 41 FF", g, sizeof g, 2);
    // controls: the same garbage not at the very end is ignored, as it should be
    const uint8_t h[] = {0x41,0x42,0x00,0xFF,0x41};       count("41 42 00 FF 41 (control)", h, sizeof h, 2);
    const uint8_t i[] = {0x41,0x42,0x00,0xE0,0x80,0x41};  count("41 42 00 E0 80 41 (control)", i, sizeof i, 2);
    printf("%d violations\n", bad);
    return bad ? 1 : 0;
}
