#!/bin/sh
# usage: finding1_cmd.sh <graphite source tree root>
HERE=$(cd $(dirname $0) && pwd)
ROOT=${1:?source tree root}
sh $HERE/common_build.sh $ROOT $HERE/finding1_demo.cpp /tmp/finding1_audit18_demo || exit 2
/tmp/finding1_audit18_demo $ROOT
echo "exit status $?"
