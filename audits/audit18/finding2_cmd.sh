#!/bin/sh
# usage: finding2_cmd.sh <graphite source tree root>
HERE=$(cd $(dirname $0) && pwd)
ROOT=${1:?source tree root}
sh $HERE/common_build.sh $ROOT $HERE/finding2_demo.cpp /tmp/finding2_audit18_demo || exit 2
for c in 0 1 2 3; do
  /tmp/finding2_audit18_demo $ROOT $c 2>&1 | grep -E "^case|ERROR: AddressSanitizer|READ of size|#[0-3] |located|no sanitizer"
  echo "---"
done
