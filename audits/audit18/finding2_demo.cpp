// Finding 2: gr_make_seg reads past the end of the text when the last of the nChars characters
// is a truncated multi-unit sequence (UTF-8 lead byte(s) / UTF-16 high surrogate at the very end).
// argv[2] selects the case: 0 = UTF-16 "0041 D800", 1 = UTF-8 "41 E1 80", 2 = UTF-8 "41 F0 90 80", 3 = UTF-8 "C2"
#include <graphite2/Segment.h>
#include <graphite2/Font.h>
#include <cstdio>
#include <cstdlib>
#include <cstring>
#include <cstdint>
#include <string>
int main(int argc, char **argv)
{
    int which = argc > 2 ? atoi(argv[2]) : 0;
    gr_face *f = gr_make_file_face((std::string(argv[1]) + "/tests/fonts/Padauk.ttf").c_str(), 0);
    if (!f) { printf("cannot load font\n"); return 2; }
    const uint16_t t0[] = {0x41, 0xD800};            const uint8_t t1[] = {0x41, 0xE1, 0x80};
    const uint8_t  t2[] = {0x41, 0xF0, 0x90, 0x80};  const uint8_t t3[] = {0xC2};
    const void *src[] = {t0, t1, t2, t3}; size_t sz[] = {sizeof t0, sizeof t1, sizeof t2, sizeof t3};
    size_t nch[] = {2, 2, 2, 1}; gr_encform enc[] = {gr_utf16, gr_utf8, gr_utf8, gr_utf8};
    void *buf = malloc(sz[which]); memcpy(buf, src[which], sz[which]);      // exact-size heap buffer, no terminator
    printf("case %d: %zu-byte buffer, nChars=%zu (the text holds exactly that many characters: the last one is an ill-formed, truncated sequence)\n", which, sz[which], nch[which]);
    fflush(stdout);
    gr_segment *s = gr_make_seg(0, f, 0, 0, enc[which], buf, nch[which], 0);
    printf("no sanitizer report; n_cinfo=%u\n", s ? gr_seg_n_cinfo(s) : 0);
    if (s) gr_seg_destroy(s);
    free(buf); gr_face_destroy(f);
    return 0;
}
