// Finding 3: the space->zero normalisation only recognises a run of 0x20 that
// reaches the least significant byte.  gr_str_to_tag() of a SHORT string with a
// trailing space ("vi ", "ro ", "kht" is fine but "kh " etc.) produces a tag whose
// padding is space(s) followed by NUL(s) -- 0x76692000 -- and that is left
// untouched, so it selects nothing, although both "vi" (0x76690000) and
// "vi  " (0x76692020) select Vietnamese.
//
// Unmodified bundled font tests/fonts/charis_r_gr.ttf (languages 'vi', 'ro', ...).
#include <graphite2/Font.h>
#include <graphite2/Segment.h>
#include <cstdio>
#include <cstdlib>
#include <cstring>
#include <string>

static std::string feats(gr_face *f, gr_uint32 lang)
{
    std::string out; char buf[64];
    gr_feature_val *v = gr_face_featureval_for_lang(f, lang);
    for (unsigned i = 0; i < gr_face_n_fref(f); ++i) {
        const gr_feature_ref *r = gr_face_fref(f, i);
        if (gr_fref_id(r) == 1) continue;           // 'lang' pseudo feature
        const unsigned val = gr_fref_feature_value(r, v);
        if (val) { snprintf(buf, sizeof buf, "%u=%u ", gr_fref_id(r), val); out += buf; }
    }
    gr_featureval_destroy(v);
    return out.empty() ? "(all zero)" : out;
}

static std::string shape(gr_face *f, gr_uint32 lang)
{
    static const unsigned int text[] = {0x1EA5, 0x1EA7, 0x1EA9, 0x1EAF, 0x1EB1, 0x1EBF, 0x1ED1, 0};   // Vietnamese stacked diacritics
    gr_feature_val *v = gr_face_featureval_for_lang(f, lang);
    gr_segment *s = gr_make_seg(0, f, 0, v, gr_utf32, text, 7, 0);
    std::string out; char buf[16];
    if (s) {
        for (const gr_slot *sl = gr_seg_first_slot(s); sl; sl = gr_slot_next_in_segment(sl)) {
            snprintf(buf, sizeof buf, "%u ", gr_slot_gid(sl)); out += buf;
        }
        gr_seg_destroy(s);
    } else out = "<null>";
    gr_featureval_destroy(v);
    return out;
}

static gr_uint32 tag_of(const char *s)      // exact-size heap buffer
{
    const size_t n = strlen(s);
    char *b = (char*)malloc(n+1); memcpy(b, s, n+1);
    const gr_uint32 t = gr_str_to_tag(b);
    free(b);
    return t;
}

int main(int argc, char **argv)
{
    if (argc < 2) { fprintf(stderr, "usage: %s charis_r_gr.ttf\n", argv[0]); return 2; }
    gr_face *f = gr_make_file_face(argv[1], gr_face_default);
    if (!f) { fprintf(stderr, "cannot load\n"); return 2; }

    const char *spell[] = { "", "vi", "vi  ", "vi " };
    std::string fv[4], sh[4];
    for (int i = 0; i < 4; ++i) {
        const gr_uint32 t = tag_of(spell[i]);
        fv[i] = feats(f, t); sh[i] = shape(f, t);
        printf("gr_str_to_tag(\"%s\") = 0x%08x  features: %s\n    glyphs: %s\n", spell[i], t, fv[i].c_str(), sh[i].c_str());
    }
    int fail = 0;
    if (fv[1] != fv[2] || sh[1] != sh[2]) { printf("FAIL: 'vi' and 'vi  ' differ\n"); ++fail; }
    if (fv[3] != fv[1]) { printf("FAIL: \"vi \" (0x76692000) selects different feature values from \"vi\"/\"vi  \" (it gets the defaults)\n"); ++fail; }
    if (sh[3] != sh[1]) { printf("FAIL: \"vi \" shapes differently from \"vi\"/\"vi  \"\n"); ++fail; }

    // same thing for a feature id: gr_face_find_fref
    gr_face_destroy(f);
    if (fail) return 1;
    printf("ok\n");
    return 0;
}
