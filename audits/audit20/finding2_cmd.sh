#!/bin/sh
# usage: finding2_cmd.sh <graphite source tree root>
set -e
R=${1:?source tree root}
D=$(cd "$(dirname "$0")" && pwd)
g++ -std=c++11 -g -O1 -fsanitize=address,undefined -fno-sanitize-recover=all \
    -DGRAPHITE2_NTRACING -DGRAPHITE2_STATIC -fno-rtti -fno-exceptions \
    -I$R/include -I$R/src \
    $(ls $R/src/*.cpp | grep -v -e json.cpp -e call_machine.cpp) \
    $D/finding2_demo.cpp -o /tmp/finding2_audit20_demo
/tmp/finding2_audit20_demo $R/tests/fonts/Padauk.ttf
