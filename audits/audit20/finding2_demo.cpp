// Finding 2: tags stored in the font (Sill language codes, Feat feature ids,
// feature ids inside Sill settings) are never normalised, while every tag that
// comes in through the API is forced to the zero-padded form.  A font whose
// Sill language code / Feat id is space padded ('kht ' instead of 'kht\0')
// therefore advertises (gr_face_lang_by_index / gr_fref_id) a tag that selects
// nothing: neither the space-padded tag, nor the zero-padded tag, nor the very
// value the library has just returned picks the language / feature.
//
// Base font: tests/fonts/Padauk.ttf (unmodified except for ONE table at a time,
// served through gr_make_face_with_ops from exact-size heap copies).
#include <graphite2/Font.h>
#include <graphite2/Segment.h>
#include <cstdio>
#include <cstdlib>
#include <cstring>
#include <vector>
#include <map>
#include <string>

typedef unsigned char u8;
typedef unsigned int u32;

static std::vector<u8> filedata;
static std::map<u32, std::vector<u8> > overrides;

static u32 rd32(const u8 *p) { return (u32(p[0])<<24)|(u32(p[1])<<16)|(u32(p[2])<<8)|p[3]; }
static u32 rd16(const u8 *p) { return (u32(p[0])<<8)|p[1]; }
static void wr32(u8 *p, u32 v) { p[0]=u8(v>>24); p[1]=u8(v>>16); p[2]=u8(v>>8); p[3]=u8(v); }
#define TAG(a,b,c,d) ((u32(u8(a))<<24)|(u32(u8(b))<<16)|(u32(u8(c))<<8)|u32(u8(d)))

static bool raw_table(u32 tag, const u8 *&p, size_t &n)
{
    const u8 *d = filedata.data();
    unsigned nt = rd16(d+4);
    for (unsigned i = 0; i < nt; ++i) {
        const u8 *r = d + 12 + 16*i;
        if (rd32(r) == tag) { p = d + rd32(r+8); n = rd32(r+12); return true; }
    }
    return false;
}
static const void *get_table(const void *, unsigned int name, size_t *len)
{
    std::map<u32, std::vector<u8> >::iterator it = overrides.find(name);
    const u8 *p; size_t n;
    if (it != overrides.end()) { p = it->second.data(); n = it->second.size(); }
    else if (!raw_table(name, p, n)) return 0;
    u8 *c = (u8*)malloc(n ? n : 1);          // exact-size heap copy
    memcpy(c, p, n);
    *len = n;
    return c;
}
static void rel_table(const void *, const void *buf) { free((void*)buf); }
static const gr_face_ops ops = { sizeof(gr_face_ops), get_table, rel_table };

static std::string feats(gr_face *f, gr_uint32 lang)
{
    std::string out; char buf[64];
    gr_feature_val *v = gr_face_featureval_for_lang(f, lang);
    for (unsigned i = 0; i < gr_face_n_fref(f); ++i) {
        const gr_feature_ref *r = gr_face_fref(f, i);
        char t[5] = {0}; gr_tag_to_str(gr_fref_id(r), t);
        if (gr_fref_id(r) == 1) continue;       // the 'lang' pseudo feature: always differs
        snprintf(buf, sizeof buf, "%s=%u ", t, gr_fref_feature_value(r, v));
        out += buf;
    }
    gr_featureval_destroy(v);
    return out;
}

static std::string shape(gr_face *f, gr_uint32 lang)
{
    // Myanmar text that Padauk shapes differently for kht/ksw/kyu
    static const unsigned int text[] = {0x1000,0x103B,0x103D,0x102F,0x1036,0x1039,0x1010,0x1004,0x103A,0x1039,0x1000,0x102C,0x1038,
                                        0x101B,0x103E,0x1030, 0x1014,0x102F, 0x100A,0x103A,0};
    gr_feature_val *v = gr_face_featureval_for_lang(f, lang);
    gr_segment *s = gr_make_seg(0, f, 0, v, gr_utf32, text, sizeof text/sizeof text[0] - 1, 0);
    std::string out; char buf[16];
    if (s) {
        for (const gr_slot *sl = gr_seg_first_slot(s); sl; sl = gr_slot_next_in_segment(sl)) {
            snprintf(buf, sizeof buf, "%u ", gr_slot_gid(sl)); out += buf;
        }
        gr_seg_destroy(s);
    } else out = "<null>";
    gr_featureval_destroy(v);
    return out;
}

int main(int argc, char **argv)
{
    if (argc < 2) { fprintf(stderr, "usage: %s Padauk.ttf\n", argv[0]); return 2; }
    FILE *fp = fopen(argv[1], "rb"); if (!fp) { perror("open"); return 2; }
    fseek(fp,0,SEEK_END); long sz = ftell(fp); fseek(fp,0,SEEK_SET);
    filedata.resize(sz); if (fread(filedata.data(),1,sz,fp) != size_t(sz)) return 2; fclose(fp);
    int failures = 0;

    // ---------- reference: unmodified font -------------------------------------------------
    gr_face *f = gr_make_face_with_ops(0, &ops, gr_face_default);
    if (!f) { printf("face load failed\n"); return 2; }
    const std::string ref_def   = feats(f, 0),
                      ref_kht   = feats(f, TAG('k','h','t',0)),
                      ref_kht_s = feats(f, TAG('k','h','t',' ')),
                      ref_shape_def = shape(f, 0),
                      ref_shape_kht = shape(f, TAG('k','h','t',0));
    printf("[original font]  default : %s\n", ref_def.c_str());
    printf("[original font]  'kht\\0' : %s\n", ref_kht.c_str());
    printf("[original font]  'kht '  : %s\n", ref_kht_s.c_str());
    printf("[original font]  shaping differs default vs kht: %d\n", ref_shape_def != ref_shape_kht);
    gr_face_destroy(f);

    // ---------- A: Sill language code 'kht\0' -> 'kht ' ------------------------------------
    {
        const u8 *p; size_t n; raw_table(TAG('S','i','l','l'), p, n);
        std::vector<u8> sill(p, p+n);
        bool patched = false;
        for (unsigned i = 0; i < rd16(&sill[4]); ++i)
            if (rd32(&sill[12+8*i]) == TAG('k','h','t',0)) { wr32(&sill[12+8*i], TAG('k','h','t',' ')); patched = true; }
        if (!patched) { printf("no kht entry?\n"); return 2; }
        overrides[TAG('S','i','l','l')] = sill;
        f = gr_make_face_with_ops(0, &ops, gr_face_default);
        if (!f) { printf("face load failed (A)\n"); return 2; }
        gr_uint32 listed = 0;
        for (unsigned i = 0; i < gr_face_n_languages(f); ++i)
            if ((gr_face_lang_by_index(f, i) >> 8) == (TAG('k','h','t',0) >> 8)) listed = gr_face_lang_by_index(f, i);
        printf("\n[A: Sill code space padded] gr_face_lang_by_index reports 0x%08x\n", listed);
        const std::string a_listed = feats(f, listed), a_z = feats(f, TAG('k','h','t',0)), a_s = feats(f, TAG('k','h','t',' '));
        printf("  featureval_for_lang(listed tag) : %s\n", a_listed.c_str());
        printf("  featureval_for_lang('kht\\0')    : %s\n", a_z.c_str());
        printf("  featureval_for_lang('kht ')     : %s\n", a_s.c_str());
        if (a_listed == ref_def && a_listed != ref_kht) {
            printf("  FAIL: the language the font lists is unselectable: all three spellings give the DEFAULT features\n");
            ++failures;
        }
        if (shape(f, listed) != ref_shape_kht) {
            printf("  FAIL: shaped result for the listed language tag differs from the kht shaping of the original font\n");
            ++failures;
        }
        gr_face_destroy(f);
        overrides.clear();
    }

    // ---------- B: Feat feature id 'hsln' -> 'hsl ' -----------------------------------------
    {
        const u8 *p; size_t n; raw_table(TAG('F','e','a','t'), p, n);
        std::vector<u8> feat(p, p+n);
        const u32 ver = rd32(&feat[0]);
        bool patched = false;
        if (ver >= 0x00020000)
            for (unsigned i = 0; i < rd16(&feat[4]); ++i)
                if (rd32(&feat[12+16*i]) == TAG('h','s','l','n')) { wr32(&feat[12+16*i], TAG('h','s','l',' ')); patched = true; }
        if (!patched) { printf("no hsln feature?\n"); return 2; }
        overrides[TAG('F','e','a','t')] = feat;
        f = gr_make_face_with_ops(0, &ops, gr_face_default);
        if (!f) { printf("face load failed (B)\n"); return 2; }
        printf("\n[B: Feat id space padded]\n");
        for (unsigned i = 0; i < gr_face_n_fref(f); ++i) {
            const gr_feature_ref *r = gr_face_fref(f, i);
            const gr_uint32 id = gr_fref_id(r);
            if (id != TAG('h','s','l',' ')) continue;
            const gr_feature_ref *q1 = gr_face_find_fref(f, id),
                                 *q2 = gr_face_find_fref(f, TAG('h','s','l',0)),
                                 *q3 = gr_face_find_fref(f, gr_str_to_tag("hsl ")),
                                 *q4 = gr_face_find_fref(f, gr_str_to_tag("hsl"));
            printf("  gr_fref_id = 0x%08x; find_fref(that id)=%p find_fref('hsl\\0')=%p find_fref(str_to_tag(\"hsl \"))=%p find_fref(str_to_tag(\"hsl\"))=%p (feature is %p)\n",
                   id, (void*)q1, (void*)q2, (void*)q3, (void*)q4, (void*)r);
            if (q1 != r && q2 != r && q3 != r && q4 != r) {
                printf("  FAIL: the feature cannot be found under any spelling of its id\n");
                ++failures;
            }
        }
        gr_face_destroy(f);
        overrides.clear();
    }

    if (failures) { printf("\nFAIL (%d)\n", failures); return 1; }
    printf("\nok\n");
    return 0;
}
