// Finding 1: gr_face_find_fref() applies the "space padding -> zero padding"
// normalisation to *numeric* feature ids, so a feature whose id has 0x20 in
// its low byte(s) (32, 288, 1056, 0x2020, ...) cannot be found by the id that
// gr_fref_id() reports; a different feature (or NULL) is returned instead.
//
// Demonstrated on the UNMODIFIED bundled font tests/fonts/charis_r_gr.ttf,
// which has a feature with id 1056 (0x00000420) and one with id 1024 (0x400).
#include <graphite2/Font.h>
#include <cstdio>

int main(int argc, char **argv)
{
    if (argc < 2) { fprintf(stderr, "usage: %s charis_r_gr.ttf\n", argv[0]); return 2; }
    gr_face *face = gr_make_file_face(argv[1], gr_face_default);
    if (!face) { fprintf(stderr, "cannot load %s\n", argv[1]); return 2; }

    int failures = 0;
    const unsigned n = gr_face_n_fref(face);
    for (unsigned i = 0; i < n; ++i)
    {
        const gr_feature_ref *r  = gr_face_fref(face, i);
        const gr_uint32       id = gr_fref_id(r);
        const gr_feature_ref *q  = gr_face_find_fref(face, id);
        if (q != r)
        {
            ++failures;
            printf("feature #%u has id %u (0x%08x): gr_face_find_fref(face, %u) returned ",
                   i, id, id, id);
            if (q)  printf("a DIFFERENT feature, id %u (0x%08x), %u settings (wanted %u settings)\n",
                           gr_fref_id(q), gr_fref_id(q), gr_fref_n_values(q), gr_fref_n_values(r));
            else    printf("NULL\n");

            // Consequence: a client that sets the feature by id changes the wrong feature.
            if (q)
            {
                gr_feature_val *fv = gr_face_featureval_for_lang(face, 0);
                const unsigned before_r = gr_fref_feature_value(r, fv),
                               before_q = gr_fref_feature_value(q, fv);
                gr_fref_set_feature_value(gr_face_find_fref(face, id), 1, fv);
                printf("  after set(find_fref(%u), 1): feature %u value %u -> %u, feature %u value %u -> %u\n",
                       id, id, before_r, gr_fref_feature_value(r, fv),
                       gr_fref_id(q), before_q, gr_fref_feature_value(q, fv));
                gr_featureval_destroy(fv);
            }
        }
    }
    gr_face_destroy(face);
    if (failures) { printf("FAIL: %d feature(s) not reachable through their own id\n", failures); return 1; }
    printf("ok\n");
    return 0;
}
