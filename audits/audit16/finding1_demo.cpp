// finding1: gr_seg_justify never returns for an LTR segment made with gr_nobidi (dir=2)
// (or gr_nomirror, dir=4) whose last cluster ends in a diacritic.  Bundled font Padauk.ttf,
// face made with gr_face_preloadAll, font made with gr_make_font (no callbacks).
#include <graphite2/Font.h>
#include <graphite2/Segment.h>
#include <stdio.h>
#include <stdlib.h>
#include <signal.h>
#include <unistd.h>

static volatile int g_dir = 0;
static void on_alarm(int) {
    char msg[96];
    int n = snprintf(msg, sizeof msg, "HANG: gr_seg_justify did not return within 20 s (dir=%d)\n", g_dir);
    if (write(2, msg, n)) {}
    _exit(1);
}

int main(int argc, char **argv)
{
    if (argc < 2) { fprintf(stderr, "usage: %s Padauk.ttf\n", argv[0]); return 2; }
    gr_face *face = gr_make_file_face(argv[1], gr_face_preloadAll);
    if (!face) { fprintf(stderr, "no face\n"); return 2; }
    gr_font *font = gr_make_font(12.5f, face);
    // Myanmar text; the last two code points are a consonant and a vowel sign (a diacritic).
    const unsigned text[] = {0x103e,0x1046,0x1025,0x20,0x100f,0x1020,0x102d,0x1031,0x104d,0x1075,0x20,0x1018,0x1035};
    const size_t n = sizeof text / sizeof text[0];
    signal(SIGALRM, on_alarm);
    const int dirs[] = {0, gr_rtl, gr_rtl|gr_nobidi, gr_nobidi};   // the last one hangs
    for (unsigned i = 0; i < 4; ++i)
    {
        g_dir = dirs[i];
        gr_segment *seg = gr_make_seg(font, face, 0, 0, gr_utf32, text, n, dirs[i]);
        if (!seg) { fprintf(stderr, "no seg\n"); return 2; }
        printf("dir=%d: %u slots, advance %g; justifying to 150 ... ", dirs[i], gr_seg_n_slots(seg), gr_seg_advance_X(seg));
        fflush(stdout);
        alarm(20);
        float w = gr_seg_justify(seg, gr_seg_first_slot(seg), font, 150.f, gr_justFlags(0), 0, 0);
        alarm(0);
        printf("returned %g\n", w);
        gr_seg_destroy(seg);
    }
    gr_font_destroy(font);
    gr_face_destroy(face);
    printf("no hang\n");
    return 0;
}
