#!/bin/sh
# usage: finding1_cmd.sh <graphite source tree root>
set -e
ROOT=${1:?source tree root}
HERE=$(cd "$(dirname "$0")" && pwd)
OUT=${TMPDIR:-/tmp}/finding1_audit16
mkdir -p "$OUT"
g++ -std=c++11 -g -O1 -fsanitize=address,undefined -fno-sanitize-recover=all \
    -DGRAPHITE2_NTRACING -DGRAPHITE2_STATIC -fno-rtti -fno-exceptions \
    -I"$ROOT/include" -I"$ROOT/src" \
    $(ls "$ROOT"/src/*.cpp | grep -v -e json.cpp -e call_machine.cpp) \
    "$HERE/finding1_demo.cpp" -o "$OUT/finding1_demo"
set +e
"$OUT/finding1_demo" "$ROOT/tests/fonts/Padauk.ttf"
rc=$?
echo "exit code $rc (1 = hang demonstrated, 0 = no hang)"
exit $rc
