// ---------------------------------------------------------------------------
// Minimal Silf (version 2.0) table builder + font loader used by the demos.
// The base font is tests/fonts/small.ttf (cmap: ' '->2, 'a'->3, 'b'->4, 'c'->5);
// only its Silf table is replaced.  Every table is served to the engine from an
// exact-size heap copy through gr_make_face_with_ops.
// ---------------------------------------------------------------------------
#include <graphite2/Font.h>
#include <graphite2/Segment.h>
#include <cstdio>
#include <cstdlib>
#include <cstring>
#include <string>
#include <vector>
#include <map>

typedef std::vector<unsigned char> Bytes;
static void u8 (Bytes &b, unsigned v) { b.push_back((unsigned char)v); }
static void u16(Bytes &b, unsigned v) { u8(b, v >> 8); u8(b, v); }
static void u32(Bytes &b, unsigned long v) { u16(b, (unsigned)(v >> 16)); u16(b, (unsigned)(v & 0xFFFF)); }
static void put32(Bytes &b, size_t at, unsigned long v) { b[at]=v>>24; b[at+1]=v>>16; b[at+2]=v>>8; b[at+3]=v; }

// stack machine opcodes (doc/OpCodes.adoc)
enum { NOP=0x00, PUSH_BYTE=0x01, PUSH_SHORT=0x03, ADD=0x06, NEXT=0x19, PUT_GLYPH_8=0x1C, PUT_SUBS_8=0x1D,
       PUT_COPY=0x1E, INSERT=0x1F, DELETE_=0x20, ASSOC=0x21, CNTXT_ITEM=0x22, ATTR_SET=0x23, ATTR_ADD=0x24,
       PUSH_SLOT_ATTR=0x28, POP_RET=0x30, RET_ZERO=0x31, RET_TRUE=0x32, IATTR_SET=0x33, IATTR_ADD=0x34 };
enum { slatAdvX = 0, slatShiftX = 20, slatUserDefn = 55 };

struct RuleSpec  { unsigned sort, pre; Bytes constraint, action; };
struct RangeSpec { unsigned first, last, col; };
struct PassSpec
{
    unsigned flags, maxLoop;
    std::vector<RangeSpec> ranges;
    unsigned numRows, numTrans, numSuccess, numCols;
    std::vector<unsigned> trans;            // numTrans * numCols
    std::vector<unsigned> oRuleMap;         // numSuccess + 1
    std::vector<unsigned> ruleMap;
    unsigned minPre, maxPre;
    std::vector<unsigned> startStates;      // maxPre - minPre + 1
    std::vector<RuleSpec> rules;
    Bytes passConstraint;
    PassSpec() : flags(0), maxLoop(5), numRows(0), numTrans(0), numSuccess(0), numCols(0), minPre(0), maxPre(0) {}
};
struct SilfSpec
{
    unsigned sPass, pPass, jPass, bPass, numUser;
    std::vector<std::vector<unsigned> > classes;   // linear (output) classes only
    std::vector<PassSpec> passes;
    SilfSpec() : sPass(0), pPass(0), jPass(0), bPass(0xFF), numUser(0) {}
};

static Bytes buildPass(const PassSpec &ps, size_t subtable_off)
{
    Bytes b;
    const size_t nr = ps.rules.size();
    u8(b, ps.flags); u8(b, ps.maxLoop); u8(b, 8); u8(b, 8);
    u16(b, nr); u16(b, 0);
    const size_t at_pc = b.size(); u32(b, 0); u32(b, 0); u32(b, 0); u32(b, 0);
    u16(b, ps.numRows); u16(b, ps.numTrans); u16(b, ps.numSuccess); u16(b, ps.numCols);
    u16(b, ps.ranges.size()); u16(b, 0); u16(b, 0); u16(b, 0);
    for (size_t i = 0; i < ps.ranges.size(); ++i) { u16(b, ps.ranges[i].first); u16(b, ps.ranges[i].last); u16(b, ps.ranges[i].col); }
    for (size_t i = 0; i < ps.oRuleMap.size(); ++i) u16(b, ps.oRuleMap[i]);
    for (size_t i = 0; i < ps.ruleMap.size(); ++i)  u16(b, ps.ruleMap[i]);
    u8(b, ps.minPre); u8(b, ps.maxPre);
    for (size_t i = 0; i < ps.startStates.size(); ++i) u16(b, ps.startStates[i]);
    for (size_t i = 0; i < nr; ++i) u16(b, ps.rules[i].sort);
    for (size_t i = 0; i < nr; ++i) u8(b, ps.rules[i].pre);
    u8(b, 0); u16(b, ps.passConstraint.size());
    // rule constraints: offset 0 means "none", so the block starts with a pad byte when one exists
    Bytes rc, ac; std::vector<unsigned> oc, oa;
    bool anyc = false; for (size_t i = 0; i < nr; ++i) anyc |= !ps.rules[i].constraint.empty();
    if (anyc) rc.push_back(0);
    for (size_t i = 0; i < nr; ++i)
    {
        oc.push_back(ps.rules[i].constraint.empty() ? 0 : rc.size());
        rc.insert(rc.end(), ps.rules[i].constraint.begin(), ps.rules[i].constraint.end());
        oa.push_back(ac.size());
        ac.insert(ac.end(), ps.rules[i].action.begin(), ps.rules[i].action.end());
    }
    oc.push_back(rc.size()); oa.push_back(ac.size());
    for (size_t i = 0; i < oc.size(); ++i) u16(b, oc[i]);
    for (size_t i = 0; i < oa.size(); ++i) u16(b, oa[i]);
    for (size_t i = 0; i < ps.trans.size(); ++i) u16(b, ps.trans[i]);
    u8(b, 0);
    put32(b, at_pc,     subtable_off + b.size()); b.insert(b.end(), ps.passConstraint.begin(), ps.passConstraint.end());
    put32(b, at_pc + 4, subtable_off + b.size()); b.insert(b.end(), rc.begin(), rc.end());
    put32(b, at_pc + 8, subtable_off + b.size()); b.insert(b.end(), ac.begin(), ac.end());
    return b;
}

static Bytes buildSilf(const SilfSpec &s)
{
    Bytes t;                                    // the sub-table
    const size_t np = s.passes.size();
    u16(t, 7); u16(t, 0); u16(t, 0);            // maxGlyphID, extraAscent, extraDescent
    u8(t, np); u8(t, s.sPass); u8(t, s.pPass); u8(t, s.jPass); u8(t, s.bPass);
    u8(t, 0);                                   // flags
    u8(t, 0); u8(t, 0);                         // maxPre/PostContext
    u8(t, 0); u8(t, 2); u8(t, 3); u8(t, 4);     // attrPseudo, attrBreakWeight, attrDirectionality, attrMirroring
    u8(t, 0);                                   // attrSkipPasses: none
    u8(t, 0);                                   // numJLevels
    u16(t, 0); u8(t, s.numUser); u8(t, 0);      // numLigComp, numUserDefn, maxCompPerLig
    u8(t, 1);                                   // direction (stored +1): LTR
    u8(t, 0); u8(t, 0); u8(t, 0); u8(t, 0);     // attCollisions, reserved x3
    u8(t, 0); u8(t, 0); u8(t, 0);               // numCritFeatures, reserved, numScriptTag
    u16(t, 6);                                  // lbGID
    const size_t at_opass = t.size();
    for (size_t i = 0; i <= np; ++i) u32(t, 0);
    u16(t, 0); u16(t, 0); u16(t, 0); u16(t, 0); // numPseudo ...
    // class map, version < 4: 16-bit offsets
    const size_t nc = s.classes.size();
    u16(t, nc); u16(t, nc);
    unsigned off = 4 + 2 * (nc + 1);
    for (size_t i = 0; i < nc; ++i) { u16(t, off); off += 2 * s.classes[i].size(); }
    u16(t, off);
    for (size_t i = 0; i < nc; ++i) for (size_t j = 0; j < s.classes[i].size(); ++j) u16(t, s.classes[i][j]);
    for (size_t i = 0; i < np; ++i)
    {
        put32(t, at_opass + 4 * i, t.size());
        const Bytes p = buildPass(s.passes[i], t.size());
        t.insert(t.end(), p.begin(), p.end());
    }
    put32(t, at_opass + 4 * np, t.size());
    Bytes silf;
    u32(silf, 0x00020000); u16(silf, 1); u16(silf, 0); u32(silf, 12);
    silf.insert(silf.end(), t.begin(), t.end());
    return silf;
}

struct FontTables { std::map<unsigned, Bytes> tables; };

static bool loadFont(const char *path, FontTables &f)
{
    FILE *fp = fopen(path, "rb"); if (!fp) { perror(path); return false; }
    Bytes d; int c; while ((c = fgetc(fp)) != EOF) d.push_back((unsigned char)c); fclose(fp);
    const unsigned n = (d[4] << 8) | d[5];
    for (unsigned i = 0; i < n; ++i)
    {
        const unsigned char *e = &d[12 + 16 * i];
        const unsigned tag = (e[0] << 24) | (e[1] << 16) | (e[2] << 8) | e[3];
        const unsigned long o = ((unsigned long)e[8] << 24) | (e[9] << 16) | (e[10] << 8) | e[11];
        const unsigned long l = ((unsigned long)e[12] << 24) | (e[13] << 16) | (e[14] << 8) | e[15];
        f.tables[tag] = Bytes(d.begin() + o, d.begin() + o + l);
    }
    return true;
}

static const void *get_table(const void *h, unsigned int name, size_t *len)
{
    const FontTables *f = static_cast<const FontTables *>(h);
    std::map<unsigned, Bytes>::const_iterator i = f->tables.find(name);
    if (i == f->tables.end()) { *len = 0; return 0; }
    *len = i->second.size();
    void *p = malloc(i->second.size() ? i->second.size() : 1);      // exact-size heap copy
    memcpy(p, &i->second[0], i->second.size());
    return p;
}
static void release_table(const void *, const void *p) { free(const_cast<void *>(p)); }

static gr_face *makeFace(FontTables &f, const SilfSpec &s)
{
    f.tables[0x53696C66] = buildSilf(s);        // 'Silf'
    gr_face_ops ops = { sizeof(gr_face_ops), get_table, release_table };
    return gr_make_face_with_ops(&f, &ops, gr_face_default);
}

// shapes text and returns e.g. "3@0 5@462 5@984 |adv=1446"  (gid@origin.x)
static std::string shape(gr_face *face, const char *text, int rtl = 0)
{
    gr_font *font = gr_make_font(1000.0f * 1, face);   // small.ttf has upem 1000? scale printed values anyway
    (void)font;
    gr_segment *seg = gr_make_seg(0, face, 0, 0, gr_utf8, text, strlen(text), rtl);
    if (font) gr_font_destroy(font);
    if (!seg) return "<gr_make_seg failed>";
    std::string out; char buf[64];
    for (const gr_slot *sl = gr_seg_first_slot(seg); sl; sl = gr_slot_next_in_segment(sl))
    {
        snprintf(buf, sizeof buf, "%u@%g ", gr_slot_gid(sl), gr_slot_origin_X(sl));
        out += buf;
    }
    snprintf(buf, sizeof buf, "|adv=%g", gr_seg_advance_X(seg));
    out += buf;
    gr_seg_destroy(seg);
    return out;
}
// ---------------------------------------------------------------------------

// one substitution rule over "a b c":
//   slot 1: <pad> times { shift.x = 0 }    (2 instructions each, no visible effect)
//   slot 2: PUT_GLYPH class0 (= 'c')       (b -> c)
//   slot 3: PUT_COPY -1                    (copy of "the glyph that was in the input" in slot 2, i.e. 'b')
// documented result: a c b   whatever the amount of padding
static PassSpec pass(unsigned pad)
{
    PassSpec p;
    RangeSpec r0 = {3,3,0}, r1 = {4,4,1}, r2 = {5,5,2};
    p.ranges.push_back(r0); p.ranges.push_back(r1); p.ranges.push_back(r2);
    p.numRows = 4; p.numTrans = 3; p.numSuccess = 1; p.numCols = 3;
    const unsigned tr[] = { 1,0,0,  0,2,0,  0,0,3 };
    p.trans.assign(tr, tr + 9);
    p.oRuleMap.push_back(0); p.oRuleMap.push_back(1); p.ruleMap.push_back(0);
    p.startStates.push_back(0);
    RuleSpec ru; ru.sort = 3; ru.pre = 0;
    for (unsigned i = 0; i < pad; ++i) { u8(ru.action, PUSH_BYTE); u8(ru.action, 0); u8(ru.action, ATTR_SET); u8(ru.action, slatShiftX); }
    u8(ru.action, NEXT);
    u8(ru.action, PUT_GLYPH_8); u8(ru.action, 0); u8(ru.action, NEXT);
    u8(ru.action, PUT_COPY); u8(ru.action, 0xFF); u8(ru.action, NEXT);
    u8(ru.action, RET_ZERO);
    p.rules.push_back(ru);
    return p;
}

int main(int argc, char **argv)
{
    const std::string root = argc > 1 ? argv[1] : ".";
    FontTables f; if (!loadFont((root + "/tests/fonts/small.ttf").c_str(), f)) return 2;
    const unsigned pads[] = { 0, 100, 127, 128, 200 };
    int bad = 0;
    for (unsigned i = 0; i < sizeof pads / sizeof *pads; ++i)
    {
        SilfSpec s; s.sPass = 0; s.pPass = 1; s.jPass = 1; s.bPass = 0xFF;
        s.classes.push_back(std::vector<unsigned>(1, 5));      // class 0 = { c }
        s.passes.push_back(pass(pads[i]));
        gr_face *face = makeFace(f, s);
        if (!face) { printf("face refused\n"); return 2; }
        const std::string r = shape(face, "abc");
        const bool ok = r == "3@0 5@462 4@924 |adv=1444";
        printf("%3u attribute assignments (%3u instructions) on slot 1: %s   %s\n", pads[i], 2 * pads[i], r.c_str(), ok ? "(a c b: as documented)" : "(a c c: WRONG)");
        bad |= !ok;
        gr_face_destroy(face);
    }
    if (bad) printf("DEFECT: PUT_COPY read the already substituted glyph once the action exceeds 255 instructions\n");
    return bad;
}
