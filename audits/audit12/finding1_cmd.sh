#!/bin/sh
# usage: finding1_cmd.sh <graphite source tree root>
# builds the unchanged library sources with ASan+UBSan together with the demo and runs it;
# exit status 1 and a line starting with DEFECT mean the defect was reproduced.
R=${1:-/tmp/wt_audit12}
D=$(cd "$(dirname "$0")" && pwd)
O=$(mktemp -d)
g++ -std=c++11 -g -O1 -fsanitize=address,undefined -fno-sanitize-recover=all -DGRAPHITE2_NTRACING -DGRAPHITE2_STATIC -fno-rtti -fno-exceptions \
    -I"$R/include" -I"$R/src" $(ls "$R"/src/*.cpp | grep -v -e json.cpp -e call_machine.cpp) "$D/finding1_demo.cpp" -o "$O/demo" || exit 2
"$O/demo" "$R"
rc=$?
rm -rf "$O"
exit $rc
