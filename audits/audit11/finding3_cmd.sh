#!/bin/sh
# usage: finding3_cmd.sh <graphite source tree root>
set -e
ROOT=${1:?source tree root}
HERE=$(cd "$(dirname "$0")" && pwd)
OUT=${TMPDIR:-/tmp}/c04_finding3
g++ -std=c++11 -g -O1 -fsanitize=address,undefined -fno-sanitize-recover=all -DGRAPHITE2_NTRACING -DGRAPHITE2_STATIC \
    -fno-rtti -fno-exceptions -I"$ROOT/include" -I"$ROOT/src" -I"$HERE" \
    $(ls "$ROOT"/src/*.cpp | grep -v -e json.cpp -e call_machine.cpp) "$HERE/finding3_demo.cpp" -o "$OUT"
"$OUT" "$ROOT"
