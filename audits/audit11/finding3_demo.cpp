// Finding 3: gr_slot_linebreak_before(p) clears the m_sibling of p->prev() whatever that slot is. When the
// slot before the break is an attached glyph that clears a link of its parent's CHILD chain (its later siblings
// vanish from the chain), while the base chain, which it was meant to cut, still runs across the line break.
#include "silfbuild.h"

int main(int argc, char **argv)
{
    const char *root = argc > 1 ? argv[1] : ".";
    std::vector<PassD> passes(2);
    // pass 0: rule "a b c": c attaches to a
    RuleD r0; r0.glyphs = {3, 4, 5};
    r0.action = act({NEXT, NEXT, PUSH_BYTE, 0xfe, ATTR_SET_SLOT, slatAttTo, NEXT, RET_ZERO});
    passes[0].rules.push_back(r0);
    // pass 1: rule "a b": b attaches to a   (child chain of a is now c -> b, slot order is a b c)
    RuleD r1; r1.glyphs = {3, 4};
    r1.action = act({NEXT, PUSH_BYTE, 0xff, ATTR_SET_SLOT, slatAttTo, NEXT, RET_ZERO});
    passes[1].rules.push_back(r1);

    FontSrc fs; fs.silf = build_silf(passes, 0, 2, 2);
    gr_face *face = load_face(fs, root);
    gr_segment *seg = gr_make_seg(0, face, 0, 0, gr_utf8, "abc ", 4, 0);
    if (!seg) { printf("no segment\n"); return 2; }
    printf("after gr_make_seg:\n");
    int before = check_c04(seg);
    const gr_slot *line1 = gr_seg_first_slot(seg);
    const gr_slot *line2 = gr_seg_last_slot(seg);          // the space: a base, an ordinary place to break
    gr_slot_linebreak_before(const_cast<gr_slot *>(line2));
    printf("after gr_slot_linebreak_before(slot#3), first line:\n");
    int after = check_c04(seg, line1);
    gr_seg_destroy(seg); gr_face_destroy(face);
    return (before == 0 && after != 0) ? 1 : 0;
}
