// Helper shared by the finding demos: builds a hand-assembled Silf table, serves a font with that Silf
// through gr_make_face_with_ops from exact-size heap copies, and checks the C04 invariants through the
// public API only.
#pragma once
#include <graphite2/Font.h>
#include <graphite2/Segment.h>
#include <cstdio>
#include <cstdlib>
#include <cstring>
#include <cstdint>
#include <vector>
#include <map>
#include <set>
#include <string>
#include <algorithm>

typedef std::vector<uint8_t> Bytes;
static void u8(Bytes &b, unsigned v)  { b.push_back(uint8_t(v)); }
static void u16(Bytes &b, unsigned v) { b.push_back(uint8_t(v >> 8)); b.push_back(uint8_t(v)); }
static void u32(Bytes &b, unsigned v) { u16(b, v >> 16); u16(b, v & 0xffff); }
static void put32(Bytes &b, size_t at, unsigned v) { b[at]=uint8_t(v>>24); b[at+1]=uint8_t(v>>16); b[at+2]=uint8_t(v>>8); b[at+3]=uint8_t(v); }

// opcodes (src/inc/Machine.h)
enum { PUSH_BYTE=1, MUL=8, NEXT=25, PUT_COPY=30, INSERT=31, DELETE_=32, ATTR_SET_SLOT=38, PUSH_SLOT_ATTR=40,
       RET_ZERO=49 };
enum { slatAttTo = 2 };

struct RuleD { std::vector<uint16_t> glyphs; Bytes action; };   // pre-context 0, one glyph per position
struct PassD  { std::vector<RuleD> rules; unsigned maxLoop; PassD() : maxLoop(3) {} };

// Serialise one pass. 'base' = offset of the pass inside the Silf subtable.
static Bytes build_pass(const PassD &pd, unsigned base)
{
    // columns
    std::set<uint16_t> gs;
    for (size_t r = 0; r < pd.rules.size(); ++r) for (size_t i = 0; i < pd.rules[r].glyphs.size(); ++i) gs.insert(pd.rules[r].glyphs[i]);
    std::map<uint16_t,unsigned> col; unsigned nc = 0;
    for (std::set<uint16_t>::iterator i = gs.begin(); i != gs.end(); ++i) col[*i] = nc++;
    // trie
    struct Node { std::map<unsigned,int> kid; std::vector<unsigned> rules; };
    std::vector<Node> tn(1);
    for (size_t r = 0; r < pd.rules.size(); ++r) {
        int n = 0;
        for (size_t i = 0; i < pd.rules[r].glyphs.size(); ++i) {
            unsigned c = col[pd.rules[r].glyphs[i]];
            if (!tn[n].kid.count(c)) { tn[n].kid[c] = int(tn.size()); tn.push_back(Node()); }
            n = tn[n].kid[c];
        }
        tn[n].rules.push_back(unsigned(r));
    }
    // order: transition-only, both, success-only
    std::vector<int> order; std::vector<int> newid(tn.size());
    for (int k = 0; k < 3; ++k) for (size_t n = 0; n < tn.size(); ++n) {
        bool t = !tn[n].kid.empty() || n == 0, s = !tn[n].rules.empty();
        int cls = (t && !s) ? 0 : (t && s) ? 1 : 2;
        if (cls == k) { newid[n] = int(order.size()); order.push_back(int(n)); }
    }
    unsigned numStates = unsigned(tn.size()), numTrans = 0, numSucc = 0;
    for (size_t n = 0; n < tn.size(); ++n) { if (!tn[n].kid.empty() || n == 0) ++numTrans; if (!tn[n].rules.empty()) ++numSucc; }

    Bytes b;
    u8(b, 0); u8(b, pd.maxLoop); u8(b, 8); u8(b, 0); u16(b, unsigned(pd.rules.size())); u16(b, 0);
    size_t fix = b.size(); u32(b, 0); u32(b, 0); u32(b, 0); u32(b, 0);
    u16(b, numStates); u16(b, numTrans); u16(b, numSucc); u16(b, nc); u16(b, nc); u16(b, 0); u16(b, 0); u16(b, 0);
    for (std::map<uint16_t,unsigned>::iterator i = col.begin(); i != col.end(); ++i) { u16(b, i->first); u16(b, i->first); u16(b, i->second); }
    // rule map
    Bytes rmap; unsigned ent = 0;
    for (size_t k = numStates - numSucc; k < numStates; ++k) { u16(b, ent); const Node &n = tn[order[k]]; for (size_t j = 0; j < n.rules.size(); ++j) { u16(rmap, n.rules[j]); ++ent; } }
    u16(b, ent);
    b.insert(b.end(), rmap.begin(), rmap.end());
    u8(b, 0); u8(b, 0);          // min/max pre-context
    u16(b, 0);                   // start state
    for (size_t r = 0; r < pd.rules.size(); ++r) u16(b, unsigned(pd.rules[r].glyphs.size()));   // sort keys
    for (size_t r = 0; r < pd.rules.size(); ++r) u8(b, 0);                                       // pre-contexts
    u8(b, 0); u16(b, 0);         // collision threshold, pass constraint length
    for (size_t r = 0; r <= pd.rules.size(); ++r) u16(b, 0);                                     // no rule constraints
    unsigned off = 0;
    for (size_t r = 0; r < pd.rules.size(); ++r) { u16(b, off); off += unsigned(pd.rules[r].action.size()); }
    u16(b, off);
    for (unsigned k = 0; k < numTrans; ++k) {
        const Node &n = tn[order[k]];
        for (unsigned c = 0; c < nc; ++c) u16(b, n.kid.count(c) ? unsigned(newid[n.kid.find(c)->second]) : 0);
    }
    u8(b, 0);
    unsigned code = base + unsigned(b.size());
    put32(b, fix, code); put32(b, fix + 4, code); put32(b, fix + 8, code);
    for (size_t r = 0; r < pd.rules.size(); ++r) b.insert(b.end(), pd.rules[r].action.begin(), pd.rules[r].action.end());
    return b;
}

// Whole Silf table (version 3.0, one subtable). dirByte: 1 = LTR font, 2 = RTL font.
static Bytes build_silf(const std::vector<PassD> &passes, unsigned sPass, unsigned pPass, unsigned jPass, unsigned dirByte = 1, unsigned maxGlyph = 5)
{
    Bytes s;
    u32(s, 0x00030000); u16(s, 0); u16(s, 0);
    u16(s, maxGlyph); u16(s, 0); u16(s, 0);
    u8(s, unsigned(passes.size())); u8(s, sPass); u8(s, pPass); u8(s, jPass); u8(s, 0xff); u8(s, 0);
    u8(s, 0); u8(s, 8);          // max pre/post context
    u8(s, 0); u8(s, 2); u8(s, 3); u8(s, 4); u8(s, 0);   // aPseudo aBreak aBidi aMirror aPassBits
    u8(s, 0);                    // numJusts
    u16(s, 0); u8(s, 0); u8(s, 1); u8(s, dirByte); u8(s, 0); u8(s, 0); u8(s, 0); u8(s, 0);
    u8(s, 0); u8(s, 0); u8(s, 0); // crit features, reserved, script tags
    u16(s, 2);                   // line break glyph
    size_t offs = s.size();
    for (size_t i = 0; i <= passes.size(); ++i) u32(s, 0);
    u16(s, 0); u16(s, 0); u16(s, 0); u16(s, 0);          // pseudos
    u16(s, 1); u16(s, 1); u16(s, 8); u16(s, 10); u16(s, 3);  // class map: one linear class {3}
    for (size_t i = 0; i < passes.size(); ++i) {
        put32(s, offs + 4*i, unsigned(s.size()));
        Bytes p = build_pass(passes[i], unsigned(s.size()));
        s.insert(s.end(), p.begin(), p.end());
    }
    put32(s, offs + 4*passes.size(), unsigned(s.size()));
    Bytes t;
    u32(t, 0x00030000); u32(t, 0x00050000); u16(t, 1); u16(t, 0); u32(t, 16);
    t.insert(t.end(), s.begin(), s.end());
    return t;
}

// ---- font serving -------------------------------------------------------------------------------
struct FontSrc { Bytes file; Bytes silf; };
static const void *get_table(const void *h, unsigned int name, size_t *len)
{
    const FontSrc *f = static_cast<const FontSrc *>(h);
    const uint8_t *d = f->file.data(); const uint8_t *src = 0; size_t n = 0;
    if (name == 0x53696c66u) { src = f->silf.data(); n = f->silf.size(); }
    else {
        unsigned nt = (d[4] << 8) | d[5];
        for (unsigned i = 0; i < nt; ++i) {
            const uint8_t *e = d + 12 + 16*i;
            unsigned tag = (e[0]<<24)|(e[1]<<16)|(e[2]<<8)|e[3];
            if (tag == name) { unsigned o = (e[8]<<24)|(e[9]<<16)|(e[10]<<8)|e[11], l = (e[12]<<24)|(e[13]<<16)|(e[14]<<8)|e[15]; src = d + o; n = l; }
        }
    }
    if (!src) { *len = 0; return 0; }
    void *copy = malloc(n ? n : 1);           // exact-size heap copy
    memcpy(copy, src, n); *len = n; return copy;
}
static void release_table(const void *, const void *p) { free(const_cast<void *>(p)); }

static gr_face *load_face(FontSrc &fs, const char *root)
{
    std::string path = std::string(root) + "/tests/fonts/small.ttf";
    FILE *fp = fopen(path.c_str(), "rb"); if (!fp) { perror(path.c_str()); exit(2); }
    fseek(fp, 0, SEEK_END); long n = ftell(fp); fseek(fp, 0, SEEK_SET);
    fs.file.resize(size_t(n)); if (fread(fs.file.data(), 1, size_t(n), fp) != size_t(n)) exit(2); fclose(fp);
    static const gr_face_ops ops = { sizeof(gr_face_ops), get_table, release_table };
    gr_face *face = gr_make_face_with_ops(&fs, &ops, gr_face_preloadAll);
    if (!face) { printf("face did not load\n"); exit(2); }
    return face;
}

// ---- C04 checker (public API only) --------------------------------------------------------------
static int check_c04(const gr_segment *seg, const gr_slot *first = 0)
{
    int bad = 0;
    std::vector<const gr_slot *> slots; std::map<const gr_slot *, int> id;
    for (const gr_slot *s = first ? first : gr_seg_first_slot(const_cast<gr_segment *>(seg)); s; s = gr_slot_next_in_segment(s)) { id[s] = int(slots.size()); slots.push_back(s); }
    const size_t n = slots.size();
    printf("  segment has %u slots (gr_seg_n_slots = %u)\n", unsigned(n), gr_seg_n_slots(seg));
    for (size_t i = 0; i < n; ++i) {
        const gr_slot *s = slots[i], *p = gr_slot_attached_to(s);
        printf("  slot#%u gid=%u parent=%s", unsigned(i), gr_slot_gid(s), p ? (id.count(p) ? "" : "OUTSIDE-SEGMENT") : "none");
        if (p && id.count(p)) printf("#%d", id[p]);
        printf(" children:");
        size_t steps = 0;
        for (const gr_slot *c = gr_slot_first_attachment(s); c && steps <= n + 2; c = gr_slot_next_sibling_attachment(c), ++steps)
            if (id.count(c)) printf(" #%d", id[c]); else printf(" <%p not in segment, gid %u>", (const void *)c, gr_slot_gid(c));
        printf("\n");
    }
    for (size_t i = 0; i < n; ++i) {
        const gr_slot *s = slots[i];
        // parent chain
        size_t steps = 0; const gr_slot *p = s;
        while ((p = gr_slot_attached_to(p))) {
            if (!id.count(p)) { printf("  VIOLATION: parent chain of slot#%u leaves the segment (%p)\n", unsigned(i), (const void *)p); ++bad; break; }
            if (++steps > n) { printf("  VIOLATION: parent cycle from slot#%u\n", unsigned(i)); ++bad; break; }
        }
        // child chain of s
        steps = 0; std::map<const gr_slot *, int> seen;
        for (const gr_slot *c = gr_slot_first_attachment(s); c; c = gr_slot_next_sibling_attachment(c)) {
            if (++steps > n + 2) { printf("  VIOLATION: child chain of slot#%u does not terminate\n", unsigned(i)); ++bad; break; }
            if (!id.count(c)) { printf("  VIOLATION: child chain of slot#%u contains %p which is not a slot of the segment\n", unsigned(i), (const void *)c); ++bad; break; }
            if (gr_slot_attached_to(c) != s) { printf("  VIOLATION: slot#%d is in the child chain of slot#%u but does not name it as parent\n", id[c], unsigned(i)); ++bad; }
            ++seen[c];
        }
        p = gr_slot_attached_to(s);
        if (p && id.count(p)) {
            int cnt = 0; steps = 0;
            for (const gr_slot *c = gr_slot_first_attachment(p); c && steps <= n + 2; c = gr_slot_next_sibling_attachment(c), ++steps) if (c == s) ++cnt;
            if (cnt != 1) { printf("  VIOLATION: slot#%u has parent slot#%d but occurs %d times in its child chain\n", unsigned(i), id[p], cnt); ++bad; }
        }
    }
    // base chain
    std::vector<const gr_slot *> bases; std::set<const gr_slot *> pointed;
    for (size_t i = 0; i < n; ++i) if (!gr_slot_attached_to(slots[i])) bases.push_back(slots[i]);
    for (size_t i = 0; i < bases.size(); ++i) if (gr_slot_next_sibling_attachment(bases[i])) pointed.insert(gr_slot_next_sibling_attachment(bases[i]));
    std::vector<const gr_slot *> heads;
    for (size_t i = 0; i < bases.size(); ++i) if (!pointed.count(bases[i])) heads.push_back(bases[i]);
    if (bases.size() && heads.size() != 1) { printf("  VIOLATION: %u bases but %u base-chain heads\n", unsigned(bases.size()), unsigned(heads.size())); ++bad; }
    if (heads.size() >= 1) {
        std::set<const gr_slot *> got; size_t steps = 0;
        for (const gr_slot *b = heads[0]; b; b = gr_slot_next_sibling_attachment(b)) {
            if (++steps > n + 2) { printf("  VIOLATION: base chain does not terminate\n"); ++bad; break; }
            if (!id.count(b)) { printf("  VIOLATION: base chain reaches %p (gid %u) which is not a slot of the segment\n", (const void *)b, gr_slot_gid(b)); ++bad; break; }
            if (gr_slot_attached_to(b)) { printf("  VIOLATION: base chain contains slot#%d which is not a base\n", id[b]); ++bad; }
            if (!got.insert(b).second) { printf("  VIOLATION: base chain visits slot#%d twice\n", id[b]); ++bad; break; }
        }
        for (size_t i = 0; i < bases.size(); ++i) if (!got.count(bases[i])) { printf("  VIOLATION: base slot#%d is not in the base chain\n", id[bases[i]]); ++bad; }
    }
    printf("  => %d violation(s)\n", bad);
    return bad;
}

static Bytes act(std::initializer_list<int> l) { Bytes b; for (int v : l) b.push_back(uint8_t(v)); return b; }
