// Finding 1: a slot deleted by the LAST slot operation of a rule action (DELETE directly followed by the return, or
// DELETE of the slot one past the rule followed by INSERT) is never garbage-collected: it leaves the slot list but
// keeps its place in the attachment structure (stays in its parent's child chain / stays the parent of its children).
#include "silfbuild.h"

enum Mode { LAST_OP_CHILD, LAST_OP_PARENT, PAST_END_THEN_INSERT, CONTROL };

static int run(const char *root, Mode mode)
{
    std::vector<PassD> passes(2);
    // pass 0: rule "a b c" (glyphs 3 4 5): build the cluster
    RuleD r0; r0.glyphs = {3, 4, 5};
    if (mode != LAST_OP_PARENT)   // b and c become children of a
        r0.action = act({NEXT, PUSH_BYTE, 0xff, ATTR_SET_SLOT, slatAttTo, NEXT, PUSH_BYTE, 0xfe, ATTR_SET_SLOT, slatAttTo, NEXT, RET_ZERO});
    else                          // a and b become children of c
        r0.action = act({PUSH_BYTE, 2, ATTR_SET_SLOT, slatAttTo, NEXT, PUSH_BYTE, 1, ATTR_SET_SLOT, slatAttTo, NEXT, NEXT, RET_ZERO});
    passes[0].rules.push_back(r0);
    // pass 1: delete c
    RuleD r1;
    switch (mode) {
    case LAST_OP_CHILD: case LAST_OP_PARENT:    // rule "a b c": c is an ordinary member of the rule; DELETE is the last operation
        r1.glyphs = {3, 4, 5}; r1.action = act({NEXT, NEXT, DELETE_, RET_ZERO}); break;
    case PAST_END_THEN_INSERT:                  // rule "a b": c is the slot one past the rule = the last slot-map entry
        r1.glyphs = {3, 4};    r1.action = act({NEXT, NEXT, DELETE_, INSERT, RET_ZERO}); break;
    case CONTROL:                               // what a compiler emits: DELETE is followed by NEXT
        r1.glyphs = {3, 4, 5}; r1.action = act({NEXT, NEXT, DELETE_, NEXT, RET_ZERO}); break;
    }
    passes[1].rules.push_back(r1);

    FontSrc fs; fs.silf = build_silf(passes, 0, 2, 2);
    gr_face *face = load_face(fs, root);
    gr_segment *seg = gr_make_seg(0, face, 0, 0, gr_utf8, "abc", 3, 0);
    if (!seg) { printf("no segment\n"); return -1; }
    int bad = check_c04(seg);
    gr_seg_destroy(seg); gr_face_destroy(face);
    return bad;
}

int main(int argc, char **argv)
{
    const char *root = argc > 1 ? argv[1] : ".";
    printf("variant A: 'NEXT NEXT DELETE RET_ZERO' in rule a b c; deleted slot c was a child of a\n");
    int a = run(root, LAST_OP_CHILD);
    printf("variant B: same, deleted slot c was the parent of a and b\n");
    int b = run(root, LAST_OP_PARENT);
    printf("variant C: 'NEXT NEXT DELETE INSERT RET_ZERO' in rule a b; c (child of a) is the slot after the rule\n");
    int c = run(root, PAST_END_THEN_INSERT);
    printf("control: 'NEXT NEXT DELETE NEXT RET_ZERO' in rule a b c (c child of a): collected normally\n");
    int d = run(root, CONTROL);
    return (a > 0 && b > 0 && c > 0 && d == 0) ? 1 : 0;
}
