// Finding 2: gr_seg_justify re-runs rule passes on a segment whose bases have already been linked through
// m_sibling by Segment::linkClusters. Attaching such a base drags the base chain into the new parent's child chain.
#include "silfbuild.h"

int main(int argc, char **argv)
{
    const char *root = argc > 1 ? argv[1] : ".";
    std::vector<PassD> passes(2);
    // pass 0 (positioning): a rule that does nothing (a pass needs at least one rule)
    RuleD r0; r0.glyphs = {2}; r0.action = act({NEXT, RET_ZERO});
    passes[0].rules.push_back(r0);
    // pass 1 (the justification pass, iJust = 1): rule "a b c"
    //   a: attach to (b is attached ? c : itself-which-is-a-no-op)
    //   b: attach to a
    // 1st run (inside gr_make_seg): b -> a.  2nd run (inside gr_seg_justify): a -> c.
    RuleD r1; r1.glyphs = {3, 4, 5};
    r1.action = act({PUSH_SLOT_ATTR, slatAttTo, 1, PUSH_BYTE, 2, MUL, ATTR_SET_SLOT, slatAttTo, NEXT,
                     PUSH_BYTE, 0xff, ATTR_SET_SLOT, slatAttTo, NEXT, NEXT, RET_ZERO});
    passes[1].rules.push_back(r1);

    FontSrc fs; fs.silf = build_silf(passes, 0, 0, 1);
    gr_face *face = load_face(fs, root);
    gr_segment *seg = gr_make_seg(0, face, 0, 0, gr_utf8, "abc", 3, 0);
    if (!seg) { printf("no segment\n"); return 2; }
    printf("after gr_make_seg:\n");
    int before = check_c04(seg);
    float w = gr_seg_justify(seg, gr_seg_first_slot(seg), 0, 5000., gr_justFlags(0), 0, 0);
    printf("after gr_seg_justify (returned %g):\n", w);
    int after = check_c04(seg);
    gr_seg_destroy(seg); gr_face_destroy(face);
    return (before == 0 && after != 0) ? 1 : 0;
}
