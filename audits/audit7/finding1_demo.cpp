// Shared harness: serve a font's tables from exact-size heap copies, with the cmap replaced.
#include <graphite2/Font.h>
#include <graphite2/Segment.h>
#include <cstdio>
#include <cstdlib>
#include <cstring>
#include <cstdint>
#include <vector>
#include <string>

typedef std::vector<uint8_t> Bytes;

static void p16(Bytes &b, unsigned v) { b.push_back(uint8_t(v >> 8)); b.push_back(uint8_t(v)); }
static void p32(Bytes &b, uint32_t v) { p16(b, v >> 16); p16(b, v & 0xFFFF); }
static unsigned g16(const uint8_t *p) { return (p[0] << 8) | p[1]; }
static uint32_t g32(const uint8_t *p) { return (uint32_t(g16(p)) << 16) | g16(p + 2); }

struct FontFile {
    Bytes data;
    Bytes cmap;          // replacement cmap
    bool  replace;
    FontFile() : replace(false) {}
    bool load(const char *path) {
        FILE *f = fopen(path, "rb");
        if (!f) { perror(path); return false; }
        fseek(f, 0, SEEK_END); long n = ftell(f); fseek(f, 0, SEEK_SET);
        data.resize(n);
        bool ok = fread(data.data(), 1, n, f) == size_t(n);
        fclose(f);
        return ok;
    }
};

static const void *get_table(const void *h, unsigned int tag, size_t *len)
{
    const FontFile *ff = static_cast<const FontFile *>(h);
    if (ff->replace && tag == 0x636D6170u /*cmap*/) {
        *len = ff->cmap.size();
        void *p = malloc(ff->cmap.size() ? ff->cmap.size() : 1);
        memcpy(p, ff->cmap.data(), ff->cmap.size());
        return p;
    }
    const uint8_t *d = ff->data.data();
    unsigned n = g16(d + 4);
    for (unsigned i = 0; i < n; ++i) {
        const uint8_t *r = d + 12 + 16 * i;
        if (g32(r) == tag) {
            uint32_t off = g32(r + 8), l = g32(r + 12);
            *len = l;
            void *p = malloc(l ? l : 1);
            memcpy(p, d + off, l);
            return p;
        }
    }
    *len = 0;
    return 0;
}
static void release_table(const void *, const void *p) { free(const_cast<void *>(p)); }
static const gr_face_ops OPS = { sizeof(gr_face_ops), get_table, release_table };

// ---- cmap builders -------------------------------------------------------------------------
struct Seg4 { unsigned start, end, delta, rangeOffset; };
// format 4 subtable; glyphIdArray appended verbatim; rangeOffset is used as given.
static Bytes fmt4(const std::vector<Seg4> &s, const std::vector<unsigned> &gia = std::vector<unsigned>(), int lengthOverride = -1)
{
    Bytes b; unsigned n = s.size();
    unsigned len = 16 + 8 * n + 2 * gia.size();
    p16(b, 4); p16(b, lengthOverride >= 0 ? lengthOverride : len); p16(b, 0);
    p16(b, 2 * n);
    unsigned sr = 1, es = 0; while (sr * 2 <= n) { sr *= 2; ++es; }
    p16(b, sr * 2); p16(b, es); p16(b, 2 * n - sr * 2);
    for (unsigned i = 0; i < n; ++i) p16(b, s[i].end);
    p16(b, 0);
    for (unsigned i = 0; i < n; ++i) p16(b, s[i].start);
    for (unsigned i = 0; i < n; ++i) p16(b, s[i].delta);
    for (unsigned i = 0; i < n; ++i) p16(b, s[i].rangeOffset);
    for (unsigned i = 0; i < gia.size(); ++i) p16(b, gia[i]);
    return b;
}
struct Grp12 { uint32_t start, end, gid; };
static Bytes fmt12(const std::vector<Grp12> &g)
{
    Bytes b;
    p16(b, 12); p16(b, 0); p32(b, 16 + 12 * g.size()); p32(b, 0); p32(b, g.size());
    for (size_t i = 0; i < g.size(); ++i) { p32(b, g[i].start); p32(b, g[i].end); p32(b, g[i].gid); }
    return b;
}
struct Rec { unsigned plat, enc; int sub; };   // sub = index into the list of subtable blobs
// Lay the blobs out in the order given by 'order' (indices into subs).
static Bytes make_cmap(const std::vector<Rec> &recs, const std::vector<Bytes> &subs, const std::vector<int> &order)
{
    std::vector<uint32_t> off(subs.size(), 0);
    uint32_t o = 4 + 8 * recs.size();
    for (size_t k = 0; k < order.size(); ++k) { off[order[k]] = o; o += subs[order[k]].size(); }
    Bytes b; p16(b, 0); p16(b, recs.size());
    for (size_t i = 0; i < recs.size(); ++i) { p16(b, recs[i].plat); p16(b, recs[i].enc); p32(b, off[recs[i].sub]); }
    for (size_t k = 0; k < order.size(); ++k) b.insert(b.end(), subs[order[k]].begin(), subs[order[k]].end());
    return b;
}

// first glyph of the slot a single character produces
static int first_gid(gr_face *face, uint32_t usv)
{
    uint32_t txt[2] = { usv, 0 };
    gr_segment *seg = gr_make_seg(0, face, 0, 0, gr_utf32, txt, 1, 0);
    if (!seg) return -1;
    const gr_slot *s = gr_seg_first_slot(seg);
    int g = s ? gr_slot_gid(s) : -2;
    gr_seg_destroy(seg);
    return g;
}

// ---- finding 1 -----------------------------------------------------------------------------
// A VALID cmap: records (3,1)->format 4 and (3,10)->format 12, sorted by platform/encoding as
// OpenType requires.  Only the order of the subtable *data* differs between the two variants.
static FontFile ff;

static void run(const char *name, const std::vector<int> &order, int *fails)
{
    std::vector<Seg4> s4;
    Seg4 a = { 0x41, 0x5A, (3 - 0x41) & 0xFFFF, 0 }, b = { 0x61, 0x62, (40 - 0x61) & 0xFFFF, 0 }, z = { 0xFFFF, 0xFFFF, 1, 0 };
    s4.push_back(a); s4.push_back(b); s4.push_back(z);          // A..Z -> 3..28, a,b -> 40,41
    std::vector<Grp12> g12;
    Grp12 g0 = { 0x41, 0x5A, 30 }, g1 = { 0x10000, 0x10003, 5 };   // (BMP part must be ignored), U+10000.. -> 5..8
    g12.push_back(g0); g12.push_back(g1);
    std::vector<Rec> recs; Rec r0 = { 3, 1, 0 }, r1 = { 3, 10, 1 }; recs.push_back(r0); recs.push_back(r1);
    std::vector<Bytes> subs; subs.push_back(fmt4(s4)); subs.push_back(fmt12(g12));
    ff.cmap = make_cmap(recs, subs, order); ff.replace = true;

    gr_face *d = gr_make_face_with_ops(&ff, &OPS, gr_face_default);
    gr_face *c = gr_make_face_with_ops(&ff, &OPS, gr_face_cacheCmap);
    printf("== %s: direct face %s, cached face %s\n", name, d ? "loaded" : "NULL (rejected)", c ? "loaded" : "NULL (rejected)");
    const uint32_t probe[] = { 0x41, 0x5A, 0x61, 0x62, 0x10000, 0x10003 };
    const int      want[]  = { 3,    28,   40,   41,   5,       8 };
    for (unsigned i = 0; i < 6; ++i) {
        int gd = d ? first_gid(d, probe[i]) : -1, gc = c ? first_gid(c, probe[i]) : -1;
        int sd = d ? gr_face_is_char_supported(d, probe[i], 0) : -1, sc = c ? gr_face_is_char_supported(c, probe[i], 0) : -1;
        bool ok = gd == want[i] && gc == want[i] && sd == 1 && sc == 1;
        if (!ok) ++*fails;
        printf("   U+%05X expected gid %2d | direct: supported=%2d gid=%2d | cached: supported=%2d gid=%2d %s\n",
               probe[i], want[i], sd, gd, sc, gc, ok ? "" : "  <-- WRONG");
    }
    if (d) gr_face_destroy(d);
    if (c) gr_face_destroy(c);
}

int main(int argc, char **argv)
{
    if (argc < 2 || !ff.load(argv[1])) return 2;
    int f_ctrl = 0, f_bug = 0;
    std::vector<int> o01; o01.push_back(0); o01.push_back(1);
    std::vector<int> o10; o10.push_back(1); o10.push_back(0);
    run("control: data laid out format 4 first, then format 12", o01, &f_ctrl);
    run("same records and subtables, data laid out format 12 first, then format 4", o10, &f_bug);
    printf("control wrong answers: %d, reordered wrong answers: %d\n", f_ctrl, f_bug);
    if (f_ctrl == 0 && f_bug) { printf("DEFECT DEMONSTRATED\n"); return 1; }
    return 0;
}
