#!/bin/sh
# usage: finding1_cmd.sh <graphite source tree root>
set -e
ROOT=${1:-/tmp/wt_audit7}
OUT=$(mktemp -d)
g++ -std=c++11 -g -O1 -fsanitize=address,undefined -fno-sanitize-recover=all -DGRAPHITE2_NTRACING -DGRAPHITE2_STATIC -fno-rtti -fno-exceptions \
    -I$ROOT/include -I$ROOT/src $(ls $ROOT/src/*.cpp | grep -v -e json.cpp -e call_machine.cpp) "$(dirname "$0")/finding1_demo.cpp" -o $OUT/demo1
set +e
$OUT/demo1 $ROOT/tests/fonts/general.ttf
echo "exit status: $? (1 = defect demonstrated)"
