// Shared harness: serve a font's tables from exact-size heap copies, with the cmap replaced.
#include <graphite2/Font.h>
#include <graphite2/Segment.h>
#include <cstdio>
#include <cstdlib>
#include <cstring>
#include <cstdint>
#include <vector>
#include <string>

typedef std::vector<uint8_t> Bytes;

static void p16(Bytes &b, unsigned v) { b.push_back(uint8_t(v >> 8)); b.push_back(uint8_t(v)); }
static void p32(Bytes &b, uint32_t v) { p16(b, v >> 16); p16(b, v & 0xFFFF); }
static unsigned g16(const uint8_t *p) { return (p[0] << 8) | p[1]; }
static uint32_t g32(const uint8_t *p) { return (uint32_t(g16(p)) << 16) | g16(p + 2); }

struct FontFile {
    Bytes data;
    Bytes cmap;          // replacement cmap
    bool  replace;
    FontFile() : replace(false) {}
    bool load(const char *path) {
        FILE *f = fopen(path, "rb");
        if (!f) { perror(path); return false; }
        fseek(f, 0, SEEK_END); long n = ftell(f); fseek(f, 0, SEEK_SET);
        data.resize(n);
        bool ok = fread(data.data(), 1, n, f) == size_t(n);
        fclose(f);
        return ok;
    }
};

static const void *get_table(const void *h, unsigned int tag, size_t *len)
{
    const FontFile *ff = static_cast<const FontFile *>(h);
    if (ff->replace && tag == 0x636D6170u /*cmap*/) {
        *len = ff->cmap.size();
        void *p = malloc(ff->cmap.size() ? ff->cmap.size() : 1);
        memcpy(p, ff->cmap.data(), ff->cmap.size());
        return p;
    }
    const uint8_t *d = ff->data.data();
    unsigned n = g16(d + 4);
    for (unsigned i = 0; i < n; ++i) {
        const uint8_t *r = d + 12 + 16 * i;
        if (g32(r) == tag) {
            uint32_t off = g32(r + 8), l = g32(r + 12);
            *len = l;
            void *p = malloc(l ? l : 1);
            memcpy(p, d + off, l);
            return p;
        }
    }
    *len = 0;
    return 0;
}
static void release_table(const void *, const void *p) { free(const_cast<void *>(p)); }
static const gr_face_ops OPS = { sizeof(gr_face_ops), get_table, release_table };

// ---- cmap builders -------------------------------------------------------------------------
struct Seg4 { unsigned start, end, delta, rangeOffset; };
// format 4 subtable; glyphIdArray appended verbatim; rangeOffset is used as given.
static Bytes fmt4(const std::vector<Seg4> &s, const std::vector<unsigned> &gia = std::vector<unsigned>(), int lengthOverride = -1)
{
    Bytes b; unsigned n = s.size();
    unsigned len = 16 + 8 * n + 2 * gia.size();
    p16(b, 4); p16(b, lengthOverride >= 0 ? lengthOverride : len); p16(b, 0);
    p16(b, 2 * n);
    unsigned sr = 1, es = 0; while (sr * 2 <= n) { sr *= 2; ++es; }
    p16(b, sr * 2); p16(b, es); p16(b, 2 * n - sr * 2);
    for (unsigned i = 0; i < n; ++i) p16(b, s[i].end);
    p16(b, 0);
    for (unsigned i = 0; i < n; ++i) p16(b, s[i].start);
    for (unsigned i = 0; i < n; ++i) p16(b, s[i].delta);
    for (unsigned i = 0; i < n; ++i) p16(b, s[i].rangeOffset);
    for (unsigned i = 0; i < gia.size(); ++i) p16(b, gia[i]);
    return b;
}
struct Grp12 { uint32_t start, end, gid; };
static Bytes fmt12(const std::vector<Grp12> &g)
{
    Bytes b;
    p16(b, 12); p16(b, 0); p32(b, 16 + 12 * g.size()); p32(b, 0); p32(b, g.size());
    for (size_t i = 0; i < g.size(); ++i) { p32(b, g[i].start); p32(b, g[i].end); p32(b, g[i].gid); }
    return b;
}
struct Rec { unsigned plat, enc; int sub; };   // sub = index into the list of subtable blobs
// Lay the blobs out in the order given by 'order' (indices into subs).
static Bytes make_cmap(const std::vector<Rec> &recs, const std::vector<Bytes> &subs, const std::vector<int> &order)
{
    std::vector<uint32_t> off(subs.size(), 0);
    uint32_t o = 4 + 8 * recs.size();
    for (size_t k = 0; k < order.size(); ++k) { off[order[k]] = o; o += subs[order[k]].size(); }
    Bytes b; p16(b, 0); p16(b, recs.size());
    for (size_t i = 0; i < recs.size(); ++i) { p16(b, recs[i].plat); p16(b, recs[i].enc); p32(b, off[recs[i].sub]); }
    for (size_t k = 0; k < order.size(); ++k) b.insert(b.end(), subs[order[k]].begin(), subs[order[k]].end());
    return b;
}

// first glyph of the slot a single character produces
static int first_gid(gr_face *face, uint32_t usv)
{
    uint32_t txt[2] = { usv, 0 };
    gr_segment *seg = gr_make_seg(0, face, 0, 0, gr_utf32, txt, 1, 0);
    if (!seg) return -1;
    const gr_slot *s = gr_seg_first_slot(seg);
    int g = s ? gr_slot_gid(s) : -2;
    gr_seg_destroy(seg);
    return g;
}

// ---- finding 3 -----------------------------------------------------------------------------
// CheckCmapSubtable4/12 accept subtables whose segments/groups are unsorted or overlap.  The
// direct lookup (binary search for format 4, first-match linear scan for format 12) and the
// cache builder (one forward walk with NextCodepoint) then give different answers, and the
// builder's "restart from range 0" recovery makes the walk quadratic in the number of groups.
#include <ctime>
static FontFile ff;

static unsigned long diff(const char *name, const Bytes &cmap)
{
    ff.cmap = cmap; ff.replace = true;
    gr_face *d = gr_make_face_with_ops(&ff, &OPS, gr_face_default);
    gr_face *c = gr_make_face_with_ops(&ff, &OPS, gr_face_cacheCmap);
    printf("== %s: direct face %s, cached face %s\n", name, d ? "loaded" : "NULL", c ? "loaded" : "NULL");
    unsigned long n = 0;
    if (d && c) for (uint32_t u = 0; u < 0x110000; ++u) {
        int sd = gr_face_is_char_supported(d, u, 0), sc = gr_face_is_char_supported(c, u, 0);
        if (sd != sc) { if (n++ < 3) printf("   U+%04X direct: supported=%d gid=%d | cached: supported=%d gid=%d\n", u, sd, first_gid(d, u), sc, first_gid(c, u)); }
    }
    printf("   code points on which the two lookups disagree: %lu\n", n);
    if (d) gr_face_destroy(d);
    if (c) gr_face_destroy(c);
    return n;
}

int main(int argc, char **argv)
{
    if (argc < 2 || !ff.load(argv[1])) return 2;
    std::vector<Rec> recs; Rec r0 = { 3, 1, 0 }, r1 = { 3, 10, 1 }; recs.push_back(r0); recs.push_back(r1);
    std::vector<int> o; o.push_back(0); o.push_back(1);
    std::vector<Seg4> ok4; { Seg4 a = { 0x41, 0x5A, (3 - 0x41) & 0xFFFF, 0 }, z = { 0xFFFF, 0xFFFF, 1, 0 }; ok4.push_back(a); ok4.push_back(z); }
    std::vector<Grp12> ok12; { Grp12 g = { 0x10000, 0x10003, 5 }; ok12.push_back(g); }

    if (argc > 2 && !strcmp(argv[2], "hang"))
    {
        // M overlapping groups [U+10000, U+10000+i]: 12*M bytes of cmap.
        unsigned M = argc > 3 ? atoi(argv[3]) : 250000;
        std::vector<Grp12> g(M);
        for (unsigned i = 0; i < M; ++i) { g[i].start = 0x10000; g[i].end = 0x10000 + i; g[i].gid = 5; }
        std::vector<Bytes> s; s.push_back(fmt4(ok4)); s.push_back(fmt12(g));
        ff.cmap = make_cmap(recs, s, o); ff.replace = true;
        printf("cmap table of %zu bytes with %u format 12 groups; building the cached face...\n", ff.cmap.size(), M); fflush(stdout);
        time_t t0 = time(0);
        gr_face *c = gr_make_face_with_ops(&ff, &OPS, gr_face_cacheCmap);
        printf("gr_make_face_with_ops(gr_face_cacheCmap) returned %s after %ld s\n", c ? "a face" : "NULL", long(time(0) - t0));
        if (c) gr_face_destroy(c);
        return 0;
    }

    unsigned long n = 0;
    {   // format 12 groups in descending order
        std::vector<Grp12> g; Grp12 g0 = { 0x20000, 0x20010, 7 }, g1 = { 0x10000, 0x10010, 5 }; g.push_back(g0); g.push_back(g1);
        std::vector<Bytes> s; s.push_back(fmt4(ok4)); s.push_back(fmt12(g));
        n += diff("format 12, groups [20000-20010] then [10000-10010]", make_cmap(recs, s, o));
    }
    {   // format 4 with one segment out of order
        Seg4 ss[] = { {0,0x0F,1,0}, {0x100,0x1FF,1,0}, {0x10,0x20,1,0}, {0x300,0x3FF,1,0}, {0xFFFF,0xFFFF,1,0} };
        std::vector<Seg4> s4(ss, ss + 5);
        std::vector<Bytes> s; s.push_back(fmt4(s4)); s.push_back(fmt12(ok12));
        n += diff("format 4, segments [0-F] [100-1FF] [10-20] [300-3FF] [FFFF]", make_cmap(recs, s, o));
    }
    if (n) { printf("DEFECT DEMONSTRATED\n"); return 1; }
    return 0;
}
