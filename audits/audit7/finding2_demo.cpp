// Shared harness: serve a font's tables from exact-size heap copies, with the cmap replaced.
#include <graphite2/Font.h>
#include <graphite2/Segment.h>
#include <cstdio>
#include <cstdlib>
#include <cstring>
#include <cstdint>
#include <vector>
#include <string>

typedef std::vector<uint8_t> Bytes;

static void p16(Bytes &b, unsigned v) { b.push_back(uint8_t(v >> 8)); b.push_back(uint8_t(v)); }
static void p32(Bytes &b, uint32_t v) { p16(b, v >> 16); p16(b, v & 0xFFFF); }
static unsigned g16(const uint8_t *p) { return (p[0] << 8) | p[1]; }
static uint32_t g32(const uint8_t *p) { return (uint32_t(g16(p)) << 16) | g16(p + 2); }

struct FontFile {
    Bytes data;
    Bytes cmap;          // replacement cmap
    bool  replace;
    FontFile() : replace(false) {}
    bool load(const char *path) {
        FILE *f = fopen(path, "rb");
        if (!f) { perror(path); return false; }
        fseek(f, 0, SEEK_END); long n = ftell(f); fseek(f, 0, SEEK_SET);
        data.resize(n);
        bool ok = fread(data.data(), 1, n, f) == size_t(n);
        fclose(f);
        return ok;
    }
};

static const void *get_table(const void *h, unsigned int tag, size_t *len)
{
    const FontFile *ff = static_cast<const FontFile *>(h);
    if (ff->replace && tag == 0x636D6170u /*cmap*/) {
        *len = ff->cmap.size();
        void *p = malloc(ff->cmap.size() ? ff->cmap.size() : 1);
        memcpy(p, ff->cmap.data(), ff->cmap.size());
        return p;
    }
    const uint8_t *d = ff->data.data();
    unsigned n = g16(d + 4);
    for (unsigned i = 0; i < n; ++i) {
        const uint8_t *r = d + 12 + 16 * i;
        if (g32(r) == tag) {
            uint32_t off = g32(r + 8), l = g32(r + 12);
            *len = l;
            void *p = malloc(l ? l : 1);
            memcpy(p, d + off, l);
            return p;
        }
    }
    *len = 0;
    return 0;
}
static void release_table(const void *, const void *p) { free(const_cast<void *>(p)); }
static const gr_face_ops OPS = { sizeof(gr_face_ops), get_table, release_table };

// ---- cmap builders -------------------------------------------------------------------------
struct Seg4 { unsigned start, end, delta, rangeOffset; };
// format 4 subtable; glyphIdArray appended verbatim; rangeOffset is used as given.
static Bytes fmt4(const std::vector<Seg4> &s, const std::vector<unsigned> &gia = std::vector<unsigned>(), int lengthOverride = -1)
{
    Bytes b; unsigned n = s.size();
    unsigned len = 16 + 8 * n + 2 * gia.size();
    p16(b, 4); p16(b, lengthOverride >= 0 ? lengthOverride : len); p16(b, 0);
    p16(b, 2 * n);
    unsigned sr = 1, es = 0; while (sr * 2 <= n) { sr *= 2; ++es; }
    p16(b, sr * 2); p16(b, es); p16(b, 2 * n - sr * 2);
    for (unsigned i = 0; i < n; ++i) p16(b, s[i].end);
    p16(b, 0);
    for (unsigned i = 0; i < n; ++i) p16(b, s[i].start);
    for (unsigned i = 0; i < n; ++i) p16(b, s[i].delta);
    for (unsigned i = 0; i < n; ++i) p16(b, s[i].rangeOffset);
    for (unsigned i = 0; i < gia.size(); ++i) p16(b, gia[i]);
    return b;
}
struct Grp12 { uint32_t start, end, gid; };
static Bytes fmt12(const std::vector<Grp12> &g)
{
    Bytes b;
    p16(b, 12); p16(b, 0); p32(b, 16 + 12 * g.size()); p32(b, 0); p32(b, g.size());
    for (size_t i = 0; i < g.size(); ++i) { p32(b, g[i].start); p32(b, g[i].end); p32(b, g[i].gid); }
    return b;
}
struct Rec { unsigned plat, enc; int sub; };   // sub = index into the list of subtable blobs
// Lay the blobs out in the order given by 'order' (indices into subs).
static Bytes make_cmap(const std::vector<Rec> &recs, const std::vector<Bytes> &subs, const std::vector<int> &order)
{
    std::vector<uint32_t> off(subs.size(), 0);
    uint32_t o = 4 + 8 * recs.size();
    for (size_t k = 0; k < order.size(); ++k) { off[order[k]] = o; o += subs[order[k]].size(); }
    Bytes b; p16(b, 0); p16(b, recs.size());
    for (size_t i = 0; i < recs.size(); ++i) { p16(b, recs[i].plat); p16(b, recs[i].enc); p32(b, off[recs[i].sub]); }
    for (size_t k = 0; k < order.size(); ++k) b.insert(b.end(), subs[order[k]].begin(), subs[order[k]].end());
    return b;
}

// first glyph of the slot a single character produces
static int first_gid(gr_face *face, uint32_t usv)
{
    uint32_t txt[2] = { usv, 0 };
    gr_segment *seg = gr_make_seg(0, face, 0, 0, gr_utf32, txt, 1, 0);
    if (!seg) return -1;
    const gr_slot *s = gr_seg_first_slot(seg);
    int g = s ? gr_slot_gid(s) : -2;
    gr_seg_destroy(seg);
    return g;
}

// ---- finding 2 -----------------------------------------------------------------------------
// The cached cmap accepts a face that has no usable BMP (format 4) subtable - the direct cmap
// refuses it (E_BADCMAP) - and then fills the BMP from the format 12 subtable.
static FontFile ff;

static int run(const char *name, const Bytes &cmap, uint32_t probe)
{
    ff.cmap = cmap; ff.replace = true;
    gr_face *d = gr_make_face_with_ops(&ff, &OPS, gr_face_default);
    gr_face *c = gr_make_face_with_ops(&ff, &OPS, gr_face_cacheCmap);
    printf("== %s\n   direct face: %s   cached face: %s\n", name, d ? "loaded" : "NULL (rejected)", c ? "loaded" : "NULL (rejected)");
    unsigned long nsup = 0;
    if (c) for (uint32_t u = 0; u < 0x10000; ++u) if (u != 0x0E01 /* pseudo glyph of the host font */ && gr_face_is_char_supported(c, u, 0)) ++nsup;
    if (c) printf("   cached: BMP code points reported supported: %lu; U+%04X -> supported=%d first slot gid=%d\n",
                  nsup, probe, gr_face_is_char_supported(c, probe, 0), first_gid(c, probe));
    int bad = (!d) != (!c);
    if (d) gr_face_destroy(d);
    if (c) gr_face_destroy(c);
    return bad;
}

int main(int argc, char **argv)
{
    if (argc < 2 || !ff.load(argv[1])) return 2;
    int bad = 0;
    std::vector<int> o; o.push_back(0);
    {   // only a (3,10) format 12 subtable
        std::vector<Grp12> g; Grp12 g0 = { 0x41, 0x5A, 30 }, g1 = { 0x10000, 0x10003, 5 }; g.push_back(g0); g.push_back(g1);
        std::vector<Rec> r; Rec x = { 3, 10, 0 }; r.push_back(x);
        std::vector<Bytes> s; s.push_back(fmt12(g));
        bad += run("cmap with a single (3,10) format 12 subtable", make_cmap(r, s, o), 0x41);
    }
    {   // only a (3,0) symbol format 4 subtable: no Unicode subtable at all
        std::vector<Seg4> s4; Seg4 a = { 0xF041, 0xF05A, (3 - 0xF041) & 0xFFFF, 0 }, z = { 0xFFFF, 0xFFFF, 1, 0 }; s4.push_back(a); s4.push_back(z);
        std::vector<Rec> r; Rec x = { 3, 0, 0 }; r.push_back(x);
        std::vector<Bytes> s; s.push_back(fmt4(s4));
        bad += run("cmap with a single (3,0) symbol subtable (no Unicode subtable)", make_cmap(r, s, o), 0xF041);
    }
    {   // an empty cmap: header only, no encoding records
        Bytes b; p16(b, 0); p16(b, 0); for (int i = 0; i < 8; ++i) b.push_back(0);
        bad += run("cmap with no encoding records", b, 0x41);
    }
    if (bad) { printf("DEFECT DEMONSTRATED: direct and cached faces disagree in %d of 3 fonts\n", bad); return 1; }
    return 0;
}
