#!/bin/sh
# usage: finding3_cmd.sh <graphite source tree root>
set -e
ROOT=${1:-/tmp/wt_audit7}
OUT=$(mktemp -d)
g++ -std=c++11 -g -O1 -fsanitize=address,undefined -fno-sanitize-recover=all -DGRAPHITE2_NTRACING -DGRAPHITE2_STATIC -fno-rtti -fno-exceptions \
    -I$ROOT/include -I$ROOT/src $(ls $ROOT/src/*.cpp | grep -v -e json.cpp -e call_machine.cpp) "$(dirname "$0")/finding3_demo.cpp" -o $OUT/demo3
set +e
$OUT/demo3 $ROOT/tests/fonts/general.ttf
echo "exit status: $? (1 = defect demonstrated)"
echo "--- quadratic cache build (same root cause): time for M overlapping groups, 12*M bytes of cmap"
for M in 10000 20000 40000; do /usr/bin/time -f "M=$M: %e s" $OUT/demo3 $ROOT/tests/fonts/general.ttf hang $M | tail -1; done
echo "--- M=150000 (1.8 MB cmap) under a 30 s limit:"
timeout 30 $OUT/demo3 $ROOT/tests/fonts/general.ttf hang 150000
echo "exit status: $? (124 = still running after 30 s, killed)"
