#!/bin/sh
# usage: finding1_cmd.sh <graphite source tree root>
set -e
ROOT=${1:?source tree root}
HERE=$(cd "$(dirname "$0")" && pwd)
OUT=${TMPDIR:-/tmp}/finding1_build.$$
mkdir -p "$OUT"
g++ -std=c++11 -g -O1 -fsanitize=address,undefined -fno-sanitize-recover=all \
    -DGRAPHITE2_NTRACING -DGRAPHITE2_STATIC -fno-rtti -fno-exceptions \
    -I"$ROOT/include" -I"$ROOT/src" \
    $(ls "$ROOT"/src/*.cpp | grep -v -e json.cpp -e call_machine.cpp) \
    "$HERE/finding1_demo.cpp" -o "$OUT/finding1_demo"
echo "== control: 62 NEXT opcodes (cursor stays inside the slot map) =="
"$OUT/finding1_demo" "$ROOT/tests/fonts/Padauk.ttf" 62
echo "== 63 NEXT opcodes (accepted by the loader for a 63 slot rule) =="
"$OUT/finding1_demo" "$ROOT/tests/fonts/Padauk.ttf" 63
