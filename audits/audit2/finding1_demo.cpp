// Finding 1: the NEXT opcode lets the slot-map cursor reach SlotMap::m_slot_map[MAX_SLOTS+1] (one past the array);
// the machine epilogue then stores the current slot there, overwriting SlotMap::m_size / m_precontext.
//
// usage: finding1_demo <path to tests/fonts/Padauk.ttf> [number of NEXT opcodes in the action, default 63; 62 is the harmless control]
#include <graphite2/Font.h>
#include <graphite2/Segment.h>
#include <cstdio>
#include <cstdlib>
#include <cstring>
#include <stdint.h>
#include <vector>
#include <map>

typedef std::vector<unsigned char> Buf;
static std::map<uint32_t, Buf> g_tables;
static uint32_t be32(const unsigned char *p) { return (uint32_t(p[0])<<24)|(p[1]<<16)|(p[2]<<8)|p[3]; }
#define TAG(a,b,c,d) ((uint32_t(a)<<24)|((b)<<16)|((c)<<8)|(d))

// every table is handed to the library as an exact-size heap copy
static const void *get_table(const void *, unsigned int name, size_t *len)
{
    std::map<uint32_t,Buf>::iterator it = g_tables.find(name);
    if (it == g_tables.end()) { *len = 0; return 0; }
    void *p = malloc(it->second.size() ? it->second.size() : 1);
    memcpy(p, it->second.data(), it->second.size());
    *len = it->second.size();
    return p;
}
static void rel_table(const void *, const void *p) { free(const_cast<void *>(p)); }

static bool loadfont(const char *fn)
{
    FILE *f = fopen(fn, "rb"); if (!f) return false;
    Buf d; unsigned char b[65536]; size_t n;
    while ((n = fread(b, 1, sizeof b, f)) > 0) d.insert(d.end(), b, b+n);
    fclose(f);
    unsigned nt = (d[4]<<8)|d[5];
    for (unsigned i = 0; i < nt; i++) {
        const unsigned char *e = &d[12+16*i];
        uint32_t tag = be32(e), off = be32(e+8), len = be32(e+12);
        if (off+len > d.size()) continue;
        g_tables[tag] = Buf(d.begin()+off, d.begin()+off+len);
    }
    return true;
}

struct W {
    Buf b;
    void u8(unsigned v)  { b.push_back(v & 0xff); }
    void u16(unsigned v) { u8(v>>8); u8(v); }
    void u32(uint32_t v) { u16(v>>16); u16(v); }
    void at32(size_t pos, uint32_t v) { b[pos]=v>>24; b[pos+1]=v>>16; b[pos+2]=v>>8; b[pos+3]=v; }
    size_t size() const { return b.size(); }
};

enum { NEXT = 25, DELETE = 32, RET_ZERO = 49 };

// One Silf sub-table with a single substitution pass holding a single rule.
//  rule: sort key (length) 63, pre-context 0; pass: minRulePreContext 0, maxRulePreContext 1
//  FSM : column 0 = { gidA }.  state 0 (start when one slot of context is available) -0-> 2, state 1 (start with no context) -0-> 1,
//        state 2 (success, rule 0) -0-> 2
//  action: DELETE, then 63 x NEXT, RET_ZERO        (accepted by the loader: 63 NEXTs for a 63 slot rule)
static Buf make_silf(unsigned gidA, unsigned maxGlyph, unsigned nNext)
{
    W w;
    w.u32(0x00020000); w.u16(1); w.u16(0); w.u32(12);         // table header, one sub-table at offset 12
    const size_t sub = w.size();
    w.u16(maxGlyph); w.u16(0); w.u16(0);                      // maxGlyphID, extraAscent, extraDescent
    w.u8(1); w.u8(0); w.u8(1); w.u8(1); w.u8(0xFF);           // numPasses, iSubst, iPos, iJust, iBidi
    w.u8(0); w.u8(1); w.u8(63);                               // flags, maxPreContext, maxPostContext
    w.u8(0); w.u8(1); w.u8(2); w.u8(0); w.u8(0);              // attrPseudo, attrBreakWeight, attrDirectionality, attrMirroring, attrSkipPasses
    w.u8(0);                                                  // numJLevels
    w.u16(0); w.u8(0); w.u8(0); w.u8(1); w.u8(0);             // numLigComp, numUserDefn, maxCompPerLig, direction, attCollisions
    w.u8(0); w.u8(0); w.u8(0);                                // reserved
    w.u8(0); w.u8(0); w.u8(0);                                // numCritFeatures, reserved, numScriptTag
    w.u16(0);                                                 // lbGID
    const size_t oPasses = w.size();
    w.u32(0); w.u32(0);                                       // oPasses[2] (patched below)
    w.u16(0); w.u16(0); w.u16(0); w.u16(0);                   // numPseudo, searchPseudo, pseudoSelector, pseudoShift
    w.u16(1); w.u16(1);                                       // numClass, numLinear
    w.u16(8); w.u16(10);                                      // oClass[2]
    w.u16(gidA);                                              // class 0 = { gidA }
    const size_t pass = w.size();
    w.at32(oPasses, uint32_t(pass - sub));

    Buf action; action.push_back(DELETE); for (unsigned i = 0; i < nNext; ++i) action.push_back(NEXT); action.push_back(RET_ZERO);

    w.u8(0); w.u8(4); w.u8(64); w.u8(0); w.u16(1);            // flags, maxRuleLoop, maxRuleContext, maxBackup, numRules
    w.u16(0);                                                 // fsmOffset
    const size_t codeOffs = w.size();
    w.u32(0); w.u32(0); w.u32(0); w.u32(0);                   // pcCode, rcCode, aCode, oDebug
    w.u16(3); w.u16(3); w.u16(1); w.u16(1);                   // numRows, numTransitional, numSuccess, numColumns
    w.u16(1); w.u16(0); w.u16(0); w.u16(0);                   // numRange, searchRange, entrySelector, rangeShift
    w.u16(gidA); w.u16(gidA); w.u16(0);                       // range: gidA..gidA -> column 0
    w.u16(0); w.u16(1);                                       // oRuleMap[numSuccess+1]
    w.u16(0);                                                 // ruleMap[1] = rule 0
    w.u8(0); w.u8(1);                                         // minRulePreContext, maxRulePreContext
    w.u16(0); w.u16(1);                                       // startStates: [context 1] -> state 0, [context 0] -> state 1
    w.u16(63);                                                // ruleSortKeys[0]
    w.u8(0);                                                  // rulePreContext[0]
    w.u8(0); w.u16(0);                                        // collisionThreshold, pConstraint length
    w.u16(0); w.u16(0);                                       // oConstraints[2]
    w.u16(0); w.u16(action.size());                           // oActions[2]
    w.u16(2); w.u16(1); w.u16(2);                             // stateTrans[3][1]
    w.u8(0);                                                  // reserved
    const uint32_t code = uint32_t(w.size() - sub);
    w.at32(codeOffs, code); w.at32(codeOffs+4, code); w.at32(codeOffs+8, code);
    w.b.insert(w.b.end(), action.begin(), action.end());
    w.at32(oPasses+4, uint32_t(w.size() - sub));
    return w.b;
}

int main(int argc, char **argv)
{
    if (argc < 2 || !loadfont(argv[1])) { fprintf(stderr, "usage: %s Padauk.ttf\n", argv[0]); return 2; }
    setvbuf(stdout, 0, _IONBF, 0);
    const unsigned nNext = argc > 2 ? atoi(argv[2]) : 63;
    gr_face_ops ops = { sizeof(gr_face_ops), get_table, rel_table };

    // glyph ids of 'a' and 'b' and the number of glyphs, from the unmodified font without Graphite processing
    gr_face *dumb = gr_make_face_with_ops(0, &ops, gr_face_dumbRendering);
    if (!dumb) { fprintf(stderr, "cannot load the font\n"); return 2; }
    gr_segment *ds = gr_make_seg(0, dumb, 0, 0, gr_utf8, "ab", 2, 0);
    const unsigned gidA = gr_slot_gid(gr_seg_first_slot(ds)), gidB = gr_slot_gid(gr_seg_last_slot(ds));
    gr_seg_destroy(ds);
    gr_face_destroy(dumb);
    printf("gid('a')=%u gid('b')=%u\n", gidA, gidB);

    g_tables[TAG('S','i','l','f')] = make_silf(gidA, gidA > gidB ? gidA : gidB, nNext);
    gr_face *face = gr_make_face_with_ops(0, &ops, gr_face_default);
    if (!face) { fprintf(stderr, "the crafted font was refused\n"); return 3; }
    printf("crafted font accepted (action: DELETE, %u x NEXT, RET_ZERO)\n", nNext);

    // 63 x 'a', then 'b' (which has no FSM column), then a few more characters
    char text[80]; memset(text, 'a', 63); strcpy(text + 63, "baaaa");
    gr_segment *seg = gr_make_seg(0, face, 0, 0, gr_utf8, text, strlen(text), 0);
    printf("gr_make_seg returned %p, %u slots\n", (void *)seg, seg ? gr_seg_n_slots(seg) : 0);
    if (seg) gr_seg_destroy(seg);
    gr_face_destroy(face);
    return 0;
}
