// Finding 1 demo: a face destroyed while its log is active never closes the log FILE.
// After every gr_face / gr_font / gr_segment has been destroyed the library still holds one
// FILE (heap buffer + descriptor) per face that was logging; with a modest RLIMIT_NOFILE
// gr_start_logging starts failing although no face is alive.
// Needs a tracing-enabled build (the CMake default): no -DGRAPHITE2_NTRACING, json.cpp included.
#include <graphite2/Font.h>
#include <graphite2/Segment.h>
#include <graphite2/Log.h>
#include <cstdio>
#include <cstdlib>
#include <cstring>
#include <dirent.h>
#include <sys/resource.h>
#include <string>

static int open_fds()
{
    int n = 0; DIR *d = opendir("/proc/self/fd");
    while (readdir(d)) ++n;
    closedir(d);
    return n - 3;   // ".", "..", and the DIR's own descriptor
}

int main(int argc, char **argv)
{
    if (argc < 3) { fprintf(stderr, "usage: demo font.ttf logdir\n"); return 2; }
    struct rlimit rl = { 64, 64 };
    setrlimit(RLIMIT_NOFILE, &rl);

    const int base = open_fds();
    int first_failure = -1;
    for (int i = 0; i < 100; ++i)
    {
        gr_face *face = gr_make_file_face(argv[1], gr_face_preloadAll);
        if (!face) { fprintf(stderr, "face %d could not be made (descriptors exhausted)\n", i); if (first_failure < 0) first_failure = i; continue; }
        std::string log = std::string(argv[2]) + "/log" + std::to_string(i) + ".json";
        bool ok = gr_start_logging(face, log.c_str());
        if (!ok && first_failure < 0) first_failure = i;
        gr_font *font = gr_make_font(12, face);
        gr_segment *seg = gr_make_seg(font, face, 0, 0, gr_utf8, "hello", 5, 0);
        if (seg) gr_seg_destroy(seg);
        gr_font_destroy(font);
        gr_face_destroy(face);          // logging still active: ~Face deletes the json object, nobody closes the FILE
        if (i < 5 || i % 10 == 0)
            printf("after destroying face %2d: start_logging=%d, descriptors still open beyond baseline = %d\n", i, ok, open_fds() - base);
    }
    const int leaked = open_fds() - base;
    printf("all faces, fonts and segments destroyed; descriptors still held by the library: %d\n", leaked);
    printf("first iteration at which gr_start_logging/gr_make_file_face failed: %d\n", first_failure);
    if (leaked > 0) { printf("DEFECT DEMONSTRATED: log FILEs leaked by gr_face_destroy\n"); return 1; }
    printf("no leak\n");
    return 0;
}
