#!/bin/sh
# usage: finding1_cmd.sh <graphite source tree root>
set -e
ROOT=${1:?source tree root}
HERE=$(cd "$(dirname "$0")" && pwd)
OUT=$(mktemp -d)
# tracing-enabled build (the CMake default): GRAPHITE2_NTRACING is NOT defined and json.cpp is compiled in
g++ -std=c++11 -g -O1 -fsanitize=address,undefined -fno-sanitize-recover=all -DGRAPHITE2_STATIC -fno-rtti -fno-exceptions \
    -I"$ROOT/include" -I"$ROOT/src" $(ls "$ROOT"/src/*.cpp | grep -v -e call_machine.cpp) "$HERE/finding1_demo.cpp" -o "$OUT/demo1"
mkdir -p "$OUT/logs"
"$OUT/demo1" "$ROOT/tests/fonts/Padauk.ttf" "$OUT/logs"
