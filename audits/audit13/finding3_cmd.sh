#!/bin/sh
# usage: finding3_cmd.sh <graphite source tree root>
R=${1:?source tree root}
D=$(cd "$(dirname "$0")" && pwd)
T=$(mktemp -d)
FL="-std=c++11 -g -O1 -fsanitize=address,undefined -fno-sanitize-recover=all -DGRAPHITE2_NTRACING -DGRAPHITE2_STATIC -fno-rtti -fno-exceptions -I$R/include -I$R/src"
for vm in direct call; do
  other=$([ $vm = direct ] && echo call || echo direct)
  g++ $FL $(ls $R/src/*.cpp | grep -v -e json.cpp -e ${other}_machine.cpp) $D/finding3_demo.cpp -o $T/f3_$vm || exit 9
  echo "== $vm machine"; $T/f3_$vm $R/tests/fonts/Padauk.ttf; echo "exit=$?"
done
