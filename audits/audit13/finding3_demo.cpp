// finding3: the loader accepts programs whose stack depth reaches STACK_MAX (1024) although the
// interpreter aborts as soon as 1024 entries are live; no static bound is applied to _stack_depth.
// Program: N x PUSH_BYTE 1 ; (N-1) x ADD ; POP_RET   -> specification value N.
// Usage: finding3_demo <any graphite font>
#include <cstdio>
#include <vector>
#include <graphite2/Segment.h>
#include "inc/Code.h"
#include "inc/Rule.h"
#include "inc/Silf.h"
#include "inc/Face.h"
#include "inc/Segment.h"
using namespace graphite2; using namespace vm;
int main(int, char **argv)
{
    gr_face *face = gr_make_file_face(argv[1], gr_face_dumbRendering);
    if (!face) return 2;
    gr_font *font = gr_make_font(12, face);
    gr_segment *gseg = gr_make_seg(font, face, 0, 0, gr_utf8, "a", 1, 0);
    Segment *seg = static_cast<Segment*>(gseg);
    int bad = 0;
    for (int N = 1022; N <= 1025; ++N) {
        std::vector<byte> p;
        for (int i = 0; i < N; ++i) { p.push_back(PUSH_BYTE); p.push_back(1); }
        for (int i = 1; i < N; ++i) p.push_back(ADD);
        p.push_back(POP_RET);
        Silf silf;
        Machine::Code prog(true, &p[0], &p[0] + p.size(), 0, 1, silf, *face, PASS_TYPE_SUBSTITUTE);
        if (!prog) { printf("N=%d rejected by the loader (status %d)\n", N, prog.status()); continue; }
        SlotMap smap(*seg, 0, 100);
        smap.reset(*seg->first(), 0);
        smap.pushSlot(seg->first());
        Machine m(smap);
        slotref *map = smap.begin();
        int32 r = prog.run(m, map);
        printf("N=%d accepted by the loader; run -> %d, machine status %d (%s); specification value %d\n",
               N, r, m.status(), m.status() == Machine::stack_overflow ? "stack_overflow" : m.status() == Machine::finished ? "finished" : "other", N);
        if (r != N) ++bad;
    }
    printf("Machine::STACK_MAX = %u\n", unsigned(Machine::STACK_MAX));
    gr_seg_destroy(gseg); gr_font_destroy(font); gr_face_destroy(face);
    return bad ? 1 : 0;
}
