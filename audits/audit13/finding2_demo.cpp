// finding2: doc/OpCodes.adoc describes PushShortU (0x04) as pushing a *signed* 16-bit number,
// the engine (both interpreters) pushes it unsigned.
// Runs a 4-byte program through the library's loader + interpreter (same route as tests/vm/basic_test.cpp).
// Usage: finding2_demo <any graphite font>
#include <cstdio>
#include <graphite2/Segment.h>
#include "inc/Code.h"
#include "inc/Rule.h"
#include "inc/Silf.h"
#include "inc/Face.h"
#include "inc/Segment.h"
using namespace graphite2; using namespace vm;
static int32 run(gr_face *face, Segment *seg, const byte *b, size_t n, int *st)
{
    Silf silf;
    Machine::Code prog(true, b, b + n, 0, 1, silf, *face, PASS_TYPE_SUBSTITUTE);
    if (!prog) { *st = -1 - int(prog.status()); return 0; }
    SlotMap smap(*seg, 0, 100);
    smap.reset(*seg->first(), 0);
    smap.pushSlot(seg->first());
    Machine m(smap);
    slotref *map = smap.begin();
    int32 r = prog.run(m, map);
    *st = m.status();
    return r;
}
int main(int, char **argv)
{
    gr_face *face = gr_make_file_face(argv[1], gr_face_dumbRendering);
    if (!face) return 2;
    gr_font *font = gr_make_font(12, face);
    gr_segment *gseg = gr_make_seg(font, face, 0, 0, gr_utf8, "a", 1, 0);
    Segment *seg = static_cast<Segment*>(gseg);
    int st;
    const byte p1[] = { PUSH_SHORT,  0xff, 0xff, POP_RET };
    const byte p2[] = { PUSH_SHORTU, 0xff, 0xff, POP_RET };
    int32 r1 = run(face, seg, p1, sizeof p1, &st); printf("PUSH_SHORT  ff ff ; POP_RET -> %d (status %d)\n", r1, st);
    int32 r2 = run(face, seg, p2, sizeof p2, &st); printf("PUSH_SHORTU ff ff ; POP_RET -> %d (status %d)\n", r2, st);
    printf("doc/OpCodes.adoc, row 04: \"Push the 16-bit signed number onto the stack.\" => -1 expected by the document, engine gives %d : %s\n",
           r2, r2 == -1 ? "agrees" : "DISAGREES");
    gr_seg_destroy(gseg); gr_font_destroy(font); gr_face_destroy(face);
    return r2 == -1 ? 0 : 1;
}
