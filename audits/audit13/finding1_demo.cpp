// finding1: signed integer overflow (UB) in the ATTR_SET_SLOT opcode (src/inc/opcodes.h, attr_set_slot)
//
// Usage: finding1_demo <tree>/tests/fonts/small.ttf [nopatch]
//
// Loads small.ttf, replaces (same length, in place) the action code of the single positioning rule in
// the Silf table and serves all tables through gr_make_face_with_ops from exact-size heap copies.
// Then shapes the text "ac", which fires that rule.
#include <cstdio>
#include <cstdlib>
#include <cstring>
#include <vector>
#include <stdint.h>
#include <graphite2/Font.h>
#include <graphite2/Segment.h>

static std::vector<unsigned char> file;
static bool do_patch = true;

// original action of pass 1 / rule 0 of small.ttf (33 bytes, the last 33 bytes of the Silf table):
//   COPY_NEXT; PUT_COPY 0; PUSH_BYTE -1; ATTR_SET_SLOT attach.to; PUSH_BYTE 0; ATTR_SET 0x11; ... NEXT; RET_ZERO
static const unsigned char orig_action[33] = {
    0x1b, 0x1e,0x00, 0x01,0xff, 0x26,0x02, 0x01,0x00, 0x23,0x11, 0x29,0x06,0x00, 0x23,0x08, 0x29,0x07,0x00,
    0x23,0x09, 0x2c,0x06,0x00, 0x23,0x03, 0x2c,0x07,0x00, 0x23,0x04, 0x19, 0x31 };
// crafted action (same length):
//   COPY_NEXT; PUT_COPY 0; PUSH_LONG 0x7fffffff; ATTR_SET_SLOT attach.to; NOP x21; NEXT; RET_ZERO
static const unsigned char new_action[33] = {
    0x1b, 0x1e,0x00, 0x05,0x7f,0xff,0xff,0xff, 0x26,0x02,
    0,0,0,0,0,0,0,0,0,0,0,0,0,0,0,0,0,0,0,0,0, 0x19, 0x31 };

static uint32_t be32(const unsigned char *p) { return (uint32_t(p[0])<<24)|(p[1]<<16)|(p[2]<<8)|p[3]; }

static const void *get_table(const void *, unsigned int name, size_t *len)
{
    const unsigned n = (file[4] << 8) | file[5];
    for (unsigned i = 0; i < n; ++i) {
        const unsigned char *e = &file[12 + 16*i];
        if (be32(e) != name) continue;
        const uint32_t off = be32(e+8), l = be32(e+12);
        unsigned char *copy = static_cast<unsigned char *>(malloc(l));     // exact size
        memcpy(copy, &file[off], l);
        if (name == 0x53696c66 /*Silf*/ && do_patch) {
            if (l < 33 || memcmp(copy + l - 33, orig_action, 33) != 0) { fprintf(stderr, "unexpected Silf contents\n"); exit(3); }
            memcpy(copy + l - 33, new_action, 33);
        }
        *len = l;
        return copy;
    }
    *len = 0;
    return 0;
}
static void release_table(const void *, const void *buf) { free(const_cast<void *>(buf)); }

int main(int argc, char **argv)
{
    if (argc < 2) { fprintf(stderr, "usage: %s small.ttf [nopatch]\n", argv[0]); return 2; }
    if (argc > 2) do_patch = false;
    FILE *f = fopen(argv[1], "rb"); if (!f) { perror(argv[1]); return 2; }
    int c; while ((c = fgetc(f)) != EOF) file.push_back((unsigned char)c); fclose(f);

    gr_face_ops ops = { sizeof(gr_face_ops), get_table, release_table };
    gr_face *face = gr_make_face_with_ops(0, &ops, gr_face_default);
    if (!face) { printf("face rejected\n"); return 1; }
    printf("face loaded (%s)\n", do_patch ? "crafted action code" : "original font");
    gr_font *font = gr_make_font(20, face);
    const char *text = "ac";
    gr_segment *seg = gr_make_seg(font, face, 0, 0, gr_utf8, text, 2, 0);
    for (const gr_slot *s = gr_seg_first_slot(seg); s; s = gr_slot_next_in_segment(s))
        printf("gid %u attached_to %s\n", gr_slot_gid(s), gr_slot_attached_to(s) ? "yes" : "no");
    gr_seg_destroy(seg); gr_font_destroy(font); gr_face_destroy(face);
    printf("done\n");
    return 0;
}
