// Finding 1 demo: signed integer overflow (UB) in Pass::readRules while summing the
// rules' sort keys into "int totalSlots" BEFORE any sort key has been validated.
// Usage: finding1_demo <path to tests/fonts/general.ttf>
#include <graphite2/Font.h>
#include <stdint.h>
#include <stdio.h>
#include <stdlib.h>
#include <string.h>
#include <map>
#include <vector>
typedef std::vector<uint8_t> Buf;
static std::map<uint32_t, Buf> g_tables;

static const void *get_table(const void *, unsigned int name, size_t *len) {
    std::map<uint32_t, Buf>::iterator it = g_tables.find(name);
    if (it == g_tables.end() || it->second.empty()) { *len = 0; return 0; }
    void *r = malloc(it->second.size());            // exact-size heap copy
    memcpy(r, &it->second[0], it->second.size());
    *len = it->second.size();
    return r;
}
static void rel_table(const void *, const void *p) { free(const_cast<void *>(p)); }
static uint32_t be32(const uint8_t *p) { return (uint32_t(p[0])<<24)|(p[1]<<16)|(p[2]<<8)|p[3]; }
static void load_font(const char *fn) {
    FILE *f = fopen(fn, "rb"); if (!f) { perror(fn); exit(2); }
    fseek(f, 0, SEEK_END); long n = ftell(f); fseek(f, 0, SEEK_SET);
    Buf d(n); if (fread(&d[0], 1, n, f) != size_t(n)) exit(2); fclose(f);
    int nt = (d[4]<<8)|d[5];
    for (int i = 0; i < nt; ++i) {
        const uint8_t *e = &d[12+16*i]; uint32_t tag = be32(e), off = be32(e+8), ln = be32(e+12);
        g_tables[tag] = Buf(d.begin()+off, d.begin()+off+ln);
    }
}
struct W { Buf b;
    void u8(unsigned v)  { b.push_back(uint8_t(v)); }
    void u16(unsigned v) { u8(v>>8); u8(v); }
    void u32(uint32_t v) { u16(v>>16); u16(v); }
    void set32(size_t at, uint32_t v) { b[at]=v>>24; b[at+1]=v>>16; b[at+2]=v>>8; b[at+3]=v; }
};

int main(int argc, char **argv) {
    if (argc < 2) { fprintf(stderr, "usage: %s general.ttf\n", argv[0]); return 2; }
    load_font(argv[1]);
    const unsigned R = 40000;                       // number of rules (uint16 in the font)

    // ---- one pass, offsets relative to the start of the Silf subtable ----
    W p;
    p.u8(0); p.u8(1); p.u8(1); p.u8(0);             // flags, maxRuleLoop, maxRuleContext, maxBackup
    p.u16(R);                                       // numRules
    p.u16(0);                                       // fsmOffset
    size_t at_pc = p.b.size(); p.u32(0); p.u32(0); p.u32(0);   // pcCode, rcCode, aCode (patched below)
    p.u32(0);                                       // oDebug
    p.u16(1); p.u16(0); p.u16(1); p.u16(1);         // numStates, numTransition(al), numSuccess, numColumns
    p.u16(1); p.u16(0); p.u16(0); p.u16(0);         // numRanges, searchRange, entrySelector, rangeShift
    p.u16(0); p.u16(0); p.u16(0);                   // range: glyph 0..0 -> column 0
    p.u16(0); p.u16(0);                             // oRuleMap[numSuccess+1]  (=> 0 rule map entries)
    p.u8(0); p.u8(0);                               // minRulePreContext, maxRulePreContext
    p.u16(0);                                       // startStates[1]
    for (unsigned i = 0; i < R; ++i) p.u16(0xFFFF); // ruleSortKeys  <-- summed into an int, unchecked
    for (unsigned i = 0; i < R; ++i) p.u8(0);       // rulePreContext
    p.u8(0);                                        // collisionThreshold / reserved
    p.u16(0);                                       // passConstraintLen
    for (unsigned i = 0; i <= R; ++i) p.u16(0);     // oConstraints[R+1]
    for (unsigned i = 0; i <= R; ++i) p.u16(0);     // oActions[R+1]
    /* state transitions: numTransitional*numColumns == 0 entries */
    p.u8(0);                                        // reserved byte before the code blocks
    const size_t code_off_in_pass = p.b.size();     // pass constraint / rule constraints / actions all empty

    // ---- Silf subtable (version 2.0 layout) ----
    W s;
    s.u16(0); s.u16(0); s.u16(0);                   // maxGlyphID, extraAscent, extraDescent
    s.u8(1); s.u8(0); s.u8(1); s.u8(1); s.u8(0xFF); // numPasses, iSubst, iPos, iJust, iBidi
    s.u8(0); s.u8(0); s.u8(0);                      // flags, maxPreContext, maxPostContext
    s.u8(0); s.u8(0); s.u8(0); s.u8(0); s.u8(0);    // attrPseudo, attrBreakWeight, attrDirectionality, attrMirroring, attrSkipPasses
    s.u8(0);                                        // numJLevels
    s.u16(0);                                       // numLigComp
    s.u8(0); s.u8(0); s.u8(1); s.u8(0);             // numUserDefn, maxCompPerLig, direction, attrCollisions
    s.u8(0); s.u8(0); s.u8(0);                      // reserved
    s.u8(0);                                        // numCritFeatures
    s.u8(0);                                        // reserved
    s.u8(0);                                        // numScriptTag
    s.u16(0);                                       // lbGID
    size_t at_po = s.b.size(); s.u32(0); s.u32(0);  // oPasses[numPasses+1] (patched below)
    s.u16(0); s.u16(0); s.u16(0); s.u16(0);         // numPseudo, searchPseudo, pseudoSelector, pseudoShift
    s.u16(0); s.u16(0); s.u16(6);                   // class map: numClass=0, numLinear=0, oClass[1]={6}
    s.u16(0);                                       // padding so that the class map is followed by something
    const uint32_t pass_start = uint32_t(s.b.size());
    s.set32(at_po, pass_start);
    s.set32(at_po + 4, pass_start + uint32_t(p.b.size()));
    p.set32(at_pc,     pass_start + uint32_t(code_off_in_pass));
    p.set32(at_pc + 4, pass_start + uint32_t(code_off_in_pass));
    p.set32(at_pc + 8, pass_start + uint32_t(code_off_in_pass));
    s.b.insert(s.b.end(), p.b.begin(), p.b.end());

    // ---- Silf table ----
    W t;
    t.u32(0x00020000); t.u16(1); t.u16(0); t.u32(12);
    t.b.insert(t.b.end(), s.b.begin(), s.b.end());
    g_tables[0x53696C66 /*Silf*/] = t.b;
    fprintf(stderr, "crafted Silf table: %zu bytes, one pass with %u rules, every sort key 0xFFFF\n", t.b.size(), R);

    gr_face_ops ops = { sizeof(gr_face_ops), get_table, rel_table };
    gr_face *face = gr_make_face_with_ops(&ops, &ops, gr_face_default);
    fprintf(stderr, "gr_make_face_with_ops returned %p (no sanitizer report => not reproduced)\n", (void *)face);
    if (face) gr_face_destroy(face);
    return 0;
}
