#!/bin/bash
# usage: finding1_cmd.sh <graphite source tree root>
# Expected: UBSan aborts with
#   src/Pass.cpp:217:20: runtime error: signed integer overflow: 2147450880 + 65535 cannot be represented in type 'int'
T=${1:?usage: $0 <tree root>}
HERE=$(cd "$(dirname "$0")" && pwd)
OUT=$(mktemp -d)
SRCS=$(ls $T/src/*.cpp | grep -v -e json.cpp -e call_machine.cpp)
g++ -std=c++11 -g -O1 -fsanitize=address,undefined -fno-sanitize-recover=all -DGRAPHITE2_NTRACING -DGRAPHITE2_STATIC \
    -fno-rtti -fno-exceptions -I$T/include -I$T/src $SRCS $HERE/finding1_demo.cpp -o $OUT/finding1_demo || exit 2
$OUT/finding1_demo $T/tests/fonts/general.ttf
echo "exit status: $?"
