// Finding 2 demo: loading time is cubic in font-controlled 16-bit counts
// (Sill languages x Sill settings x Feat features); a ~200 KB font keeps gr_make_face busy for
// many minutes, a ~1.6 MB font for days.  SillMap::readSill + FeatureMap::findFeatureRef.
// Usage: finding2_demo <path to tests/fonts/general.ttf> [n]
#include <graphite2/Font.h>
#include <stdint.h>
#include <stdio.h>
#include <stdlib.h>
#include <string.h>
#include <signal.h>
#include <time.h>
#include <unistd.h>
#include <map>
#include <vector>
typedef std::vector<uint8_t> Buf;
static std::map<uint32_t, Buf> g_tables;

static const void *get_table(const void *, unsigned int name, size_t *len) {
    std::map<uint32_t, Buf>::iterator it = g_tables.find(name);
    if (it == g_tables.end() || it->second.empty()) { *len = 0; return 0; }
    void *r = malloc(it->second.size());            // exact-size heap copy
    memcpy(r, &it->second[0], it->second.size());
    *len = it->second.size();
    return r;
}
static void rel_table(const void *, const void *p) { free(const_cast<void *>(p)); }
static uint32_t be32(const uint8_t *p) { return (uint32_t(p[0])<<24)|(p[1]<<16)|(p[2]<<8)|p[3]; }
static void load_font(const char *fn) {
    FILE *f = fopen(fn, "rb"); if (!f) { perror(fn); exit(2); }
    fseek(f, 0, SEEK_END); long n = ftell(f); fseek(f, 0, SEEK_SET);
    Buf d(n); if (fread(&d[0], 1, n, f) != size_t(n)) exit(2); fclose(f);
    int nt = (d[4]<<8)|d[5];
    for (int i = 0; i < nt; ++i) {
        const uint8_t *e = &d[12+16*i]; uint32_t tag = be32(e), off = be32(e+8), ln = be32(e+12);
        g_tables[tag] = Buf(d.begin()+off, d.begin()+off+ln);
    }
}
struct W { Buf b;
    void u8(unsigned v)  { b.push_back(uint8_t(v)); }
    void u16(unsigned v) { u8(v>>8); u8(v); }
    void u32(uint32_t v) { u16(v>>16); u16(v); }
};

// n features (each needs 0 bits of feature storage), n languages, each language with n settings
static void craft(unsigned n) {
    W f;                                            // Feat, version 2.0
    f.u32(0x00020000); f.u16(n); f.u16(0); f.u32(0);
    const uint32_t settings_at = 12 + 16*n;
    for (unsigned i = 0; i < n; ++i) {
        f.u32(0x7F000000u + i);                     // feature id, never asked for by the Sill table
        f.u16(1); f.u16(0);                         // one setting
        f.u32(settings_at);                         // all features share the same settings array
        f.u16(0); f.u16(256);                       // flags, name id
    }
    f.u16(0); f.u16(256);                           // the single setting: value 0 (=> max 0 => 0 bits)
    g_tables[0x46656174 /*Feat*/] = f.b;

    W s;                                            // Sill
    s.u32(0x00010000); s.u16(n); s.u16(0); s.u16(0); s.u16(0);
    for (unsigned i = 0; i < n; ++i) {
        s.u32(0x61000000u + i);                     // language id
        s.u16(n);                                   // numSettings
        s.u16(12);                                  // offset: the language records double as the settings
    }
    g_tables[0x53696C6C /*Sill*/] = s.b;
    fprintf(stderr, "n=%u: Feat %zu bytes, Sill %zu bytes\n", n, f.b.size(), s.b.size());
}
static double now() { timespec ts; clock_gettime(CLOCK_MONOTONIC, &ts); return ts.tv_sec + ts.tv_nsec*1e-9; }
static double load_once() {
    gr_face_ops ops = { sizeof(gr_face_ops), get_table, rel_table };
    double t0 = now();
    gr_face *face = gr_make_face_with_ops(&ops, &ops, gr_face_default);
    double t1 = now();
    fprintf(stderr, "   gr_make_face_with_ops -> %p after %.2f s\n", (void *)face, t1 - t0);
    if (face) gr_face_destroy(face);
    return t1 - t0;
}
static const int WATCHDOG = 30;
static void on_alarm(int) {
    static const char msg[] = "HANG: gr_make_face_with_ops still has not returned after 30 s\n";
    if (write(2, msg, sizeof msg - 1)) {}
    _exit(1);
}
int main(int argc, char **argv) {
    if (argc < 2) { fprintf(stderr, "usage: %s general.ttf [n]\n", argv[0]); return 2; }
    load_font(argv[1]);
    if (argc > 2) { craft(atoi(argv[2])); load_once(); return 0; }
    const unsigned small[] = { 250, 500, 1000 };
    for (unsigned i = 0; i < 3; ++i) { craft(small[i]); load_once(); }   // time grows 8x per doubling
    craft(8000);
    signal(SIGALRM, on_alarm); alarm(WATCHDOG);
    load_once();
    return 0;
}
