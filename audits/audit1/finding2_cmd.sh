#!/bin/bash
# usage: finding2_cmd.sh <graphite source tree root>
# Expected: load time grows ~8x per doubling of n (250, 500, 1000), then for n=8000 (Feat 128 KB + Sill 64 KB)
#   "HANG: gr_make_face_with_ops still has not returned after 30 s", exit status 1.
T=${1:?usage: $0 <tree root>}
HERE=$(cd "$(dirname "$0")" && pwd)
OUT=$(mktemp -d)
SRCS=$(ls $T/src/*.cpp | grep -v -e json.cpp -e call_machine.cpp)
g++ -std=c++11 -g -O1 -fsanitize=address,undefined -fno-sanitize-recover=all -DGRAPHITE2_NTRACING -DGRAPHITE2_STATIC \
    -fno-rtti -fno-exceptions -I$T/include -I$T/src $SRCS $HERE/finding2_demo.cpp -o $OUT/finding2_demo || exit 2
$OUT/finding2_demo $T/tests/fonts/general.ttf
echo "exit status: $?"
