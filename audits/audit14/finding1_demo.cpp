// Finding 1: gr_seg_justify never returns (infinite loop in Segment::justify) when the
// font's level-0 justification weight attribute is positive for some glyphs and negative for others.
//
// usage: finding1_demo <path to tests/fonts/charis_r_gr.ttf> [stretch shrink step weight width]
// The font is served through gr_make_face_with_ops from exact-size heap copies; only the
// Silf table is modified: the four glyph-attribute ids of justification level 0
// (stretch, shrink, step, weight) are re-pointed at other, existing glyph attributes.
#include <graphite2/Font.h>
#include <graphite2/Segment.h>
#include <cstdio>
#include <cstdlib>
#include <cstring>
#include <csignal>
#include <unistd.h>
#include <vector>
#include <cmath>

static std::vector<unsigned char> g_font;
static unsigned g_patch[4] = {58, 42, 43, 58};   // stretch, shrink, step, weight attribute ids

static unsigned be16(const unsigned char *p) { return (p[0] << 8) | p[1]; }
static unsigned be32(const unsigned char *p) { return ((unsigned)p[0] << 24) | (p[1] << 16) | (p[2] << 8) | p[3]; }

static const void *get_table(const void *, unsigned int name, size_t *len)
{
    const unsigned char *d = g_font.data();
    unsigned n = be16(d + 4);
    for (unsigned i = 0; i < n; ++i)
    {
        const unsigned char *e = d + 12 + 16 * i;
        if (be32(e) != name) continue;
        unsigned off = be32(e + 8), l = be32(e + 12);
        unsigned char *copy = (unsigned char *)malloc(l);      // exact-size heap copy
        memcpy(copy, d + off, l);
        if (name == 0x53696C66 /* 'Silf' */)
        {
            unsigned ver = be32(copy);
            unsigned p = 4 + (ver >= 0x00030000 ? 4 : 0);
            unsigned sub = be32(copy + p + 4);                  // offset of sub-table 0
            unsigned q = sub + (ver >= 0x00030000 ? 8 : 0);
            unsigned numJust = copy[q + 19];
            if (numJust < 1) { fprintf(stderr, "font has no justification level\n"); exit(2); }
            fprintf(stderr, "Silf: level-0 justification attrs were %u,%u,%u,%u -> now %u,%u,%u,%u\n",
                    copy[q+20], copy[q+21], copy[q+22], copy[q+23], g_patch[0], g_patch[1], g_patch[2], g_patch[3]);
            for (int k = 0; k < 4; ++k) copy[q + 20 + k] = (unsigned char)g_patch[k];
        }
        *len = l;
        return copy;
    }
    *len = 0;
    return 0;
}
static void release_table(const void *, const void *buf) { free(const_cast<void *>(buf)); }

static void onalarm(int)
{
    static const char m[] = "HANG: gr_seg_justify has not returned after 25 seconds\n";
    if (write(1, m, sizeof m - 1)) {}
    _exit(42);
}

int main(int argc, char **argv)
{
    if (argc < 2) { fprintf(stderr, "usage: %s charis_r_gr.ttf\n", argv[0]); return 2; }
    FILE *fp = fopen(argv[1], "rb");
    if (!fp) { perror("font"); return 2; }
    fseek(fp, 0, SEEK_END); long sz = ftell(fp); fseek(fp, 0, SEEK_SET);
    g_font.resize(sz);
    if (fread(g_font.data(), 1, sz, fp) != (size_t)sz) return 2;
    fclose(fp);
    double width = 3670;
    if (argc >= 6) for (int k = 0; k < 4; ++k) g_patch[k] = atoi(argv[2 + k]);
    if (argc >= 7) width = atof(argv[6]);

    gr_face_ops ops = { sizeof(gr_face_ops), get_table, release_table };
    gr_face *face = gr_make_face_with_ops(0, &ops, gr_face_preloadAll);
    if (!face) { fprintf(stderr, "face rejected\n"); return 2; }

    // "a", SUPERSCRIPT TWO, "0": three base glyphs, left-to-right font, direction flag 0.
    const unsigned text[] = { 'a', 0xB2, '0' };
    gr_segment *seg = gr_make_seg(0, face, 0, 0, gr_utf32, text, 3, 0 /* ltr == font direction */);
    if (!seg) { fprintf(stderr, "no segment\n"); return 2; }
    printf("slots=%u natural width=%g, justifying to %g\n", gr_seg_n_slots(seg), gr_seg_advance_X(seg), width);
    fflush(stdout);

    signal(SIGALRM, onalarm);
    alarm(25);
    float res = gr_seg_justify(seg, gr_seg_first_slot(seg), 0, width, gr_justCompleteLine, 0, 0);
    alarm(0);
    printf("returned %g\n", res);
    for (const gr_slot *s = gr_seg_first_slot(seg); s; s = gr_slot_next_in_segment(s))
        printf(" gid %u x=%g\n", gr_slot_gid(s), gr_slot_origin_X(s));
    gr_seg_destroy(seg);
    gr_face_destroy(face);
    return 0;
}
