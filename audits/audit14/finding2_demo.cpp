// Finding 2: right-to-left segment (direction flag 1 on a right-to-left font, i.e. text direction == font
// direction) + font with the line-end flag (Silf flags & 1): gr_seg_justify leaves the first slot of the line
// with a prev pointer to a *freed* line-end slot, splices the live slots into the segment's free-slot list,
// positions nothing and returns width 0.
//
// usage: finding2_demo <path to tests/fonts/Scheherazadegr.ttf>
// The font is served through gr_make_face_with_ops from exact-size heap copies; the only modification is
// Silf sub-table flags |= 1 (line-end contextuals present).
#include <graphite2/Font.h>
#include <graphite2/Segment.h>
#include <cstdio>
#include <cstdlib>
#include <cstring>
#include <vector>
#include <cmath>

static std::vector<unsigned char> g_font;
static unsigned be16(const unsigned char *p) { return (p[0] << 8) | p[1]; }
static unsigned be32(const unsigned char *p) { return ((unsigned)p[0] << 24) | (p[1] << 16) | (p[2] << 8) | p[3]; }

static const void *get_table(const void *, unsigned int name, size_t *len)
{
    const unsigned char *d = g_font.data();
    unsigned n = be16(d + 4);
    for (unsigned i = 0; i < n; ++i)
    {
        const unsigned char *e = d + 12 + 16 * i;
        if (be32(e) != name) continue;
        unsigned off = be32(e + 8), l = be32(e + 12);
        unsigned char *copy = (unsigned char *)malloc(l);      // exact-size heap copy
        memcpy(copy, d + off, l);
        if (name == 0x53696C66 /* 'Silf' */)
        {
            unsigned ver = be32(copy);
            unsigned p = 4 + (ver >= 0x00030000 ? 4 : 0);
            unsigned sub = be32(copy + p + 4);                  // offset of sub-table 0
            unsigned q = sub + (ver >= 0x00030000 ? 8 : 0);
            unsigned nj = copy[q + 19];
            fprintf(stderr, "Silf: flags %u -> %u, font direction byte %d (1 = rtl)\n", copy[q + 11], copy[q + 11] | 1, copy[q + 20 + nj * 8 + 4] - 1);
            copy[q + 11] |= 1;                                  // flags: line-end contextuals
        }
        *len = l;
        return copy;
    }
    *len = 0;
    return 0;
}
static void release_table(const void *, const void *buf) { free(const_cast<void *>(buf)); }

static void show(const char *t, gr_segment *seg)
{
    printf("%s:\n", t);
    for (const gr_slot *s = gr_seg_first_slot(seg); s; s = gr_slot_next_in_segment(s))
        printf("  %p gid %4u prev %p next %p x=%g\n", (const void *)s, gr_slot_gid(s),
               (const void *)gr_slot_prev_in_segment(s), (const void *)gr_slot_next_in_segment(s), gr_slot_origin_X(s));
}

static int run(gr_face *face, const unsigned *text, size_t n, int plast_index, const char *what)
{
    printf("---- %s\n", what);
    gr_segment *seg = gr_make_seg(0, face, 0, 0, gr_utf32, text, n, 1 /* rtl == font direction */);
    if (!seg) { fprintf(stderr, "no segment\n"); return 2; }
    std::vector<const gr_slot *> before;
    for (const gr_slot *s = gr_seg_first_slot(seg); s; s = gr_slot_next_in_segment(s)) before.push_back(s);
    show("before", seg);
    const gr_slot *first = before[0];
    const gr_slot *plast = plast_index >= 0 ? before[plast_index] : 0;
    float r = gr_seg_justify(seg, first, 0, gr_seg_advance_X(seg) + 500, gr_justCompleteLine, 0, plast);
    printf("gr_seg_justify returned %g\n", r);
    show("after", seg);

    int bad = 0;
    if (gr_slot_prev_in_segment(first) != 0)
    {
        printf("VIOLATION: first slot of the line now has prev = %p (gid %u), which is not a slot of the line\n",
               (const void *)gr_slot_prev_in_segment(first), gr_slot_gid(gr_slot_prev_in_segment(first)));
        bad = 1;
    }
    // backwards walk from the last slot must give exactly the same slots
    size_t k = before.size();
    for (const gr_slot *s = before.back(); s; s = gr_slot_prev_in_segment(s))
    {
        if (k == 0) { printf("VIOLATION: backwards walk finds an extra slot %p\n", (const void *)s); bad = 1; break; }
        if (before[--k] != s) { printf("VIOLATION: backwards walk mismatch\n"); bad = 1; break; }
    }
    gr_seg_destroy(seg);
    return bad;
}

int main(int argc, char **argv)
{
    if (argc < 2) { fprintf(stderr, "usage: %s Scheherazadegr.ttf\n", argv[0]); return 2; }
    FILE *fp = fopen(argv[1], "rb");
    if (!fp) { perror("font"); return 2; }
    fseek(fp, 0, SEEK_END); long sz = ftell(fp); fseek(fp, 0, SEEK_SET);
    g_font.resize(sz);
    if (fread(g_font.data(), 1, sz, fp) != (size_t)sz) return 2;
    fclose(fp);

    gr_face_ops ops = { sizeof(gr_face_ops), get_table, release_table };
    gr_face *face = gr_make_face_with_ops(0, &ops, gr_face_preloadAll);
    if (!face) { fprintf(stderr, "face rejected\n"); return 2; }

    int bad = 0;
    const unsigned t1[] = { 0x20, 0x627 };                                   // space, alef: a line of two clusters
    bad |= run(face, t1, 2, -1, "two-cluster line, pFirst = pLast = NULL");
    const unsigned t2[] = { 0x628, 0x633, 0x645, 0x20, 0x627, 0x644, 0x644, 0x647 };
    bad |= run(face, t2, 8, 1, "eight-slot line, pLast = second slot of the line");
    gr_face_destroy(face);
    printf(bad ? "RESULT: property violated\n" : "RESULT: ok\n");
    return bad;
}
