// C17 finding 1: ShiftCollider::mergeSlot's reach test (Collider.cpp:271) compares the neighbour's
// position, which is relative to the target's UN-OFFSET anchor (_origin = origin - currOffset), with
// _limit, which initSlot has already translated by -currOffset.  With a non-zero accumulated collision
// offset the reach window is displaced by -currOffset and a neighbour lying squarely inside the limit
// rectangle is never looked at; the target is reported resolved while still on top of it.
#include "common_demo.h"
int main(int, char **argv)
{
    Slot *slots[4];
    Segment *seg = setup(argv[1], slots, 3);
    const uint16 T = 986;      // x[-193,194] y[-191,191]  roundish, centred on its anchor
    const uint16 R = 107;      // x[100,1200] y[0,1380]    plain rectangle, no sub-boxes
    Rect limit(Position(-600, -600), Position(600, 600));
    // neighbour 0 ("A"): its bottom-left corner is at (560,560) from the anchor -- inside the limit rectangle.
    // neighbour 1 ("B"): occupies x[-700,400] y[-900,480], i.e. the region round the anchor.
    Nbor nb[2] = { { R, Position(460, 560) }, { R, Position(-800, -900) } };
    printf("RTL run (dir=1), limit (-600,-600)-(600,600), margin 10, target gid %u, neighbours gid %u\n\n", T, R);
    printf("Case 1: accumulated offset (500,500) from an earlier pass, shift (0,0)\n");
    Result a = fix(seg, slots, T, limit, 10, 5, Position(500, 500), Position(0, 0), 1, nb, 2, true);
    printf("\nCase 2 (control): the very same geometry and the same limit, but offset (0,0), shift (500,500)\n");
    Result b = fix(seg, slots, T, limit, 10, 5, Position(0, 0), Position(500, 500), 1, nb, 2, true);
    bool bad = a.called && !a.isCol && a.overlap[0];
    bool ctl = b.isCol || !b.overlap[0];
    printf("\nVERDICT: case 1 reported resolved while overlapping neighbour 0: %s; control behaves correctly: %s\n",
           bad ? "YES (property violated)" : "no", ctl ? "yes" : "no");
    return bad ? 1 : 0;
}
