// Shared scaffolding for the C17 demos: drives the real ShiftCollider of the
// unchanged library on a segment made from tests/fonts/Awami_test.ttf and
// checks the outcome with an independent octabox-overlap test.
#include <cstdio>
#include <cstdlib>
#include <cmath>
#include <graphite2/Segment.h>
#include <graphite2/Font.h>
#include "inc/Main.h"
#include "inc/Face.h"
#include "inc/Segment.h"
#include "inc/Slot.h"
#include "inc/Collider.h"
#include "inc/GlyphCache.h"
using namespace graphite2;

struct Octa { float xi,xa,yi,ya,si,sa,di,da; };
static Octa mk(const BBox &b, const SlantBox &s, float px, float py) {
    Octa o = { b.xi+px, b.xa+px, b.yi+py, b.ya+py, s.si+px+py, s.sa+px+py, s.di+px-py, s.da+px-py };
    return o;
}
// strict overlap by more than e in every one of the four directions
static bool ov(const Octa &a, const Octa &b, float e) {
    return a.xi < b.xa - e && b.xi < a.xa - e && a.yi < b.ya - e && b.yi < a.ya - e
        && a.si < b.sa - e && b.si < a.sa - e && a.di < b.da - e && b.di < a.da - e;
}
static void pocta(const char *n, const Octa &o) {
    printf("    %-10s x[%g,%g] y[%g,%g] s[%g,%g] d[%g,%g]\n", n, o.xi,o.xa,o.yi,o.ya,o.si,o.sa,o.di,o.da);
}

struct Nbor { uint16 gid; Position rel; };   // rel = neighbour origin relative to the target's un-offset anchor

struct Result { bool called; bool isCol; Position shift; Position total; bool inLimit; bool overlap[4]; };

// One fixing step exactly as Pass::resolveCollisions performs it (initSlot, mergeSlot per neighbour,
// resolve when something collided or the current shift is non-zero).
static Result fix(Segment *seg, Slot **slots, uint16 tg, const Rect &limit, uint16 margin, uint16 marginWt,
                  Position off, Position sh, int dir, const Nbor *nb, int k, bool verbose)
{
    const GlyphCache &gc = seg->getFace()->glyphs();
    Result r; r.called = false; r.isCol = false;
    Slot *t = slots[0];
    t->setGlyph(seg, tg);
    Position anchor(1000.f, 1000.f);                 // un-offset anchor of the target
    t->origin(anchor + off);                         // slot origins carry the accumulated collision offset
    anchor = t->origin() - off;
    ::new (seg->collisionInfo(t)) SlotCollision(seg, t);
    SlotCollision *ct = seg->collisionInfo(t);
    ct->setLimit(limit); ct->setMargin(margin); ct->setMarginWt(marginWt); ct->setShift(sh); ct->setOffset(off);
    ShiftCollider coll(0);
    if (!coll.initSlot(seg, t, ct->limit(), ct->margin(), ct->marginWt(), ct->shift(), ct->offset(), dir, 0))
    { printf("initSlot failed\n"); exit(2); }
    bool collides = false;
    for (int j = 0; j < k; ++j) {
        Slot *n = slots[j + 1];
        n->setGlyph(seg, nb[j].gid);
        n->origin(anchor + nb[j].rel);
        ::new (seg->collisionInfo(n)) SlotCollision(seg, n);
        seg->collisionInfo(n)->setShift(Position(0, 0));
        coll.mergeSlot(seg, n, seg->collisionInfo(n), Position(0, 0), true, false, collides, false, 0);
    }
    r.shift = sh;
    if (collides || sh.x != 0.f || sh.y != 0.f) { r.called = true; r.shift = coll.resolve(seg, r.isCol, 0); }
    r.total = off + r.shift;
    r.inLimit = r.total.x >= limit.bl.x - 0.01f && r.total.x <= limit.tr.x + 0.01f
             && r.total.y >= limit.bl.y - 0.01f && r.total.y <= limit.tr.y + 0.01f;
    Position tabs = anchor + r.total;
    Octa to = mk(gc.getBoundingBBox(tg), gc.getBoundingSlantBox(tg), tabs.x - anchor.x, tabs.y - anchor.y);
    if (verbose) { printf("  shift computed: %s   new shift=(%g,%g)  accumulated offset=(%g,%g)  inside limit: %s  collision-remains flag: %d\n",
                     r.called ? "yes" : "no", r.shift.x, r.shift.y, r.total.x, r.total.y, r.inLimit ? "yes" : "NO", (int)r.isCol);
                   pocta("target", to); }
    for (int j = 0; j < k; ++j) {
        uint16 g = nb[j].gid;
        Octa no = mk(gc.getBoundingBBox(g), gc.getBoundingSlantBox(g), nb[j].rel.x, nb[j].rel.y);
        bool hit = ov(to, no, 0.5f);
        int ns = gc.numSubBounds(g);
        if (hit && ns > 0) { hit = false;
            for (int q = 0; q < ns && !hit; ++q)
                hit = ov(to, mk(gc.getSubBoundingBBox(g, q), gc.getSubBoundingSlantBox(g, q), nb[j].rel.x, nb[j].rel.y), 0.5f); }
        r.overlap[j] = hit;
        if (verbose) { char nm[32]; snprintf(nm, sizeof nm, "nbor %d", j); pocta(nm, no);
                       printf("      -> target at its shifted position %s neighbour %d (sub-boxes: %d)\n", hit ? "OVERLAPS" : "is clear of", j, ns); }
    }
    return r;
}

static Segment *setup(const char *fontfile, Slot **slots, int want)
{
    gr_face *face = gr_make_file_face(fontfile, gr_face_default);
    if (!face) { printf("cannot load %s\n", fontfile); exit(2); }
    const char *txt = "\xD8\xA8\xD8\xA8\xD8\xA8\xD8\xA8\xD8\xA8\xD8\xA8";
    gr_segment *gseg = gr_make_seg(NULL, face, 0, NULL, gr_utf8, txt, 6, 1);
    Segment *seg = gseg;
    if (!seg || !seg->hasCollisionInfo()) { printf("segment has no collision info\n"); exit(2); }
    int n = 0;
    for (Slot *s = seg->first(); s && n < want; s = s->next()) slots[n++] = s;
    if (n < want) { printf("too few slots\n"); exit(2); }
    return seg;
}
