#!/bin/sh
# usage: finding1_cmd.sh <graphite source tree root>
set -e
W=${1:?source tree root}
D=$(cd "$(dirname "$0")" && pwd)
O=${TMPDIR:-/tmp}/c17_finding1_demo
g++ -std=c++11 -g -O1 -fsanitize=address,undefined -fno-sanitize-recover=all -DGRAPHITE2_NTRACING -DGRAPHITE2_STATIC \
    -fno-rtti -fno-exceptions -w -I"$W/include" -I"$W/src" -I"$D" \
    $(ls "$W"/src/*.cpp | grep -v -e json.cpp -e call_machine.cpp) "$D/finding1_demo.cpp" -o "$O"
ASAN_OPTIONS=detect_leaks=0 "$O" "$W/tests/fonts/Awami_test.ttf" && echo "exit 0: not reproduced" || echo "exit $?: reproduced (1 = property violated)"
