// C17 finding 3: when a face is made with gr_face_preloadGlyphs, GlyphCache::GlyphCache only reads the
// glyph octaboxes if at least one glyph in the font has a sub-box (GlyphCache.cpp:132,
// "else if (numsubs > 0 && _boxes)").  For a Glat 3 font whose glyphs carry bounding octaboxes but no
// sub-boxes, _boxes[] stays all-NULL, GlyphCache::check() still says the glyph is fine, and every
// getBoundingSlantBox() answers SlantBox::empty {0,0,0,0}.  ShiftCollider then computes empty exclusion
// intervals (vmin > vmax), removes nothing, and reports colliding glyphs as resolved.  The same font
// loaded WITHOUT preloading reads each octabox on demand and fixes the collision.
//
// The crafted font is tests/fonts/Awami_test.ttf with Glat and Gloc rewritten so that every glyph keeps
// its bounding octabox (the 4 diagonal bytes) and all its attributes but has an empty sub-box bitmap.
#include "common_demo.h"
#include <cstring>
#include <vector>
#include <string>
#include <map>

typedef std::vector<unsigned char> Bytes;
static std::map<unsigned, Bytes> g_tables;
static unsigned be32(const unsigned char *p) { return (unsigned(p[0]) << 24) | (p[1] << 16) | (p[2] << 8) | p[3]; }
static unsigned be16(const unsigned char *p) { return (p[0] << 8) | p[1]; }
static void put32(Bytes &b, unsigned v) { b.push_back(v >> 24); b.push_back(v >> 16); b.push_back(v >> 8); b.push_back(v); }

static const void *get_table(const void *, unsigned int name, size_t *len)
{
    std::map<unsigned, Bytes>::iterator i = g_tables.find(name);
    if (i == g_tables.end()) { *len = 0; return 0; }
    *len = i->second.size();
    void *p = malloc(i->second.size());          // exact-size heap copy
    memcpy(p, &i->second[0], i->second.size());
    return p;
}
static void release_table(const void *, const void *buf) { free(const_cast<void *>(buf)); }

static int popcount16(unsigned v) { int n = 0; while (v) { n += v & 1; v >>= 1; } return n; }

int main(int, char **argv)
{
    FILE *f = fopen(argv[1], "rb"); if (!f) { printf("cannot open font\n"); return 2; }
    Bytes font; { unsigned char buf[65536]; size_t n; while ((n = fread(buf, 1, sizeof buf, f)) > 0) font.insert(font.end(), buf, buf + n); } fclose(f);
    unsigned nt = be16(&font[4]);
    for (unsigned i = 0; i < nt; ++i) { const unsigned char *e = &font[12 + 16 * i];
        unsigned tag = be32(e), off = be32(e + 8), len = be32(e + 12);
        g_tables[tag] = Bytes(font.begin() + off, font.begin() + off + len); }
    const unsigned GLAT = 0x476C6174, GLOC = 0x476C6F63;
    Bytes glat = g_tables[GLAT], gloc = g_tables[GLOC];
    if (be32(&glat[0]) != 0x00030000 || !(be16(&gloc[4]) & 1) || (be16(&gloc[4]) & 2)) { printf("unexpected Glat/Gloc layout\n"); return 2; }
    unsigned nglyphs = (gloc.size() - 8) / 4 - 1;
    Bytes nglat(glat.begin(), glat.begin() + 8), ngloc(gloc.begin(), gloc.begin() + 8);
    unsigned hadsubs = 0;
    for (unsigned g = 0; g < nglyphs; ++g) {
        unsigned s = be32(&gloc[8 + 4 * g]), e = be32(&gloc[12 + 4 * g]);
        put32(ngloc, nglat.size());
        if (e <= s) continue;
        int num = popcount16(be16(&glat[s])); if (num) ++hadsubs;
        nglat.push_back(0); nglat.push_back(0);                                     // empty sub-box bitmap
        nglat.insert(nglat.end(), glat.begin() + s + 2, glat.begin() + s + 6);      // bounding diagonal octabox bytes kept
        nglat.insert(nglat.end(), glat.begin() + s + 6 + 8 * num, glat.begin() + e);// attributes kept
    }
    put32(ngloc, nglat.size());
    g_tables[GLAT] = nglat; g_tables[GLOC] = ngloc;
    printf("crafted font: %u glyphs, %u of them had sub-boxes removed; Glat %zu -> %zu bytes\n", nglyphs, hadsubs, glat.size(), nglat.size());

    gr_face_ops ops = { sizeof(gr_face_ops), get_table, release_table };
    gr_face *lazy = gr_make_face_with_ops(0, &ops, gr_face_default);
    gr_face *pre  = gr_make_face_with_ops(0, &ops, gr_face_preloadGlyphs);
    if (!lazy || !pre) { printf("face rejected (lazy %p preload %p)\n", (void *)lazy, (void *)pre); return 2; }

    // 1. the octaboxes themselves
    unsigned differ = 0, shown = 0;
    for (unsigned g = 0; g < nglyphs; ++g) {
        const GlyphCache &a = lazy->glyphs(), &b = pre->glyphs();
        if (!a.check(g) || !b.check(g)) continue;
        a.getBoundingBBox(g); b.getBoundingBBox(g);        // forces the on-demand load
        const SlantBox &sa = a.getBoundingSlantBox(g), &sb = b.getBoundingSlantBox(g);
        if (sa.si != sb.si || sa.sa != sb.sa || sa.di != sb.di || sa.da != sb.da) {
            ++differ;
            if (shown++ < 3) printf("  gid %u  on-demand face: s[%g,%g] d[%g,%g]   preloaded face: s[%g,%g] d[%g,%g]\n",
                                    g, sa.si, sa.sa, sa.di, sa.da, sb.si, sb.sa, sb.di, sb.da);
        }
    }
    printf("bounding slant boxes that differ between the two faces of the SAME font: %u\n\n", differ);

    // 2. the collision fixer on both faces: target 986 sitting on top of rectangle glyph 107
    bool verdict[2], over[2];
    for (int pass = 0; pass < 2; ++pass) {
        gr_face *face = pass ? pre : lazy;
        const char *txt = "\xD8\xA8\xD8\xA8\xD8\xA8\xD8\xA8\xD8\xA8\xD8\xA8";
        gr_segment *gseg = gr_make_seg(NULL, face, 0, NULL, gr_utf8, txt, 6, 1);
        Segment *seg = gseg;
        if (!seg || !seg->hasCollisionInfo()) { printf("no collision info\n"); return 2; }
        Slot *slots[4]; int n = 0; for (Slot *s = seg->first(); s && n < 3; s = s->next()) slots[n++] = s;
        Rect limit(Position(-600, -600), Position(600, 600));
        Nbor nb[1] = { { 107, Position(-300, -300) } };      // x[-200,900] y[-300,1080]
        printf("%s face: target gid 986 at offset (0,0), shift (40,40), neighbour gid 107 covering x[-200,900] y[-300,1080]\n", pass ? "PRELOADED" : "on-demand");
        Result r = fix(seg, slots, 986, limit, 10, 5, Position(0, 0), Position(40, 40), 1, nb, 1, false);
        // judge the overlap with the TRUE octaboxes (taken from the on-demand face)
        const GlyphCache &gc = lazy->glyphs();
        Octa to = mk(gc.getBoundingBBox(986), gc.getBoundingSlantBox(986), r.total.x, r.total.y);
        Octa no = mk(gc.getBoundingBBox(107), gc.getBoundingSlantBox(107), -300, -300);
        over[pass] = ov(to, no, 0.5f); verdict[pass] = r.isCol;
        printf("  new shift (%g,%g), collision-remains flag %d, target at shifted position %s the neighbour\n\n",
               r.shift.x, r.shift.y, (int)r.isCol, over[pass] ? "OVERLAPS" : "is clear of");
    }
    // 3. public API only: shape the library's own Awami test text with both faces and compare glyph positions
    if (argv[2]) {
        FILE *t = fopen(argv[2], "rb"); char line[4096]; unsigned nlines = 0, ndiff = 0;
        while (t && fgets(line, sizeof line, t)) {
            size_t len = strlen(line); while (len && (line[len-1] == '\n' || line[len-1] == '\r')) line[--len] = 0;
            if (!len) continue;
            const void *err = 0; size_t nch = gr_count_unicode_characters(gr_utf8, line, line + len, &err); if (err) continue;
            gr_segment *a = gr_make_seg(NULL, lazy, 0, NULL, gr_utf8, line, nch, 1), *b = gr_make_seg(NULL, pre, 0, NULL, gr_utf8, line, nch, 1);
            if (!a || !b) continue;
            ++nlines; bool d = false;
            const gr_slot *sa = gr_seg_first_slot(a), *sb = gr_seg_first_slot(b);
            for (; sa && sb && !d; sa = gr_slot_next_in_segment(sa), sb = gr_slot_next_in_segment(sb))
                if (gr_slot_origin_X(sa) != gr_slot_origin_X(sb) || gr_slot_origin_Y(sa) != gr_slot_origin_Y(sb)) {
                    d = true;
                    if (!ndiff) printf("public API: line %u of the test text, glyph %u: on-demand face puts it at (%g,%g), preloaded face at (%g,%g)\n",
                                       nlines, gr_slot_gid(sa), gr_slot_origin_X(sa), gr_slot_origin_Y(sa), gr_slot_origin_X(sb), gr_slot_origin_Y(sb));
                }
            ndiff += d; gr_seg_destroy(a); gr_seg_destroy(b);
        }
        if (t) fclose(t);
        printf("public API: %u of %u test lines are laid out differently by the two faces of the same font\n\n", ndiff, nlines);
    }
    bool bad = !verdict[1] && over[1];
    bool ctl = verdict[0] || !over[0];
    printf("VERDICT: preloaded face reports resolved while overlapping: %s; on-demand face of the same font is correct: %s\n",
           bad ? "YES (property violated)" : "no", ctl ? "yes" : "no");
    return bad ? 1 : 0;
}
