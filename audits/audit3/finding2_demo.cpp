// C17 finding 2: for a left-to-right run ShiftCollider::initSlot overwrites _limit.bl.x with -limit.tr.x
// (Collider.cpp:89) AFTER _limit had been translated by -currOffset, so the translation of the lower x
// bound is lost.  Even with x-symmetric limits (bl.x == -tr.x) _limit.bl.x is then too large by
// currOffset.x, and every "cmin" derived from it in mergeSlot (Collider.cpp:313, 338, 351) is too large:
// a neighbour whose overlap interval lies in the lower part of the limit rectangle is dropped by the
// per-axis range check (Collider.cpp:455) and the target is shifted onto it and reported resolved.
#include "common_demo.h"
int main(int, char **argv)
{
    Slot *slots[4];
    Segment *seg = setup(argv[1], slots, 3);
    const uint16 T = 986;      // x[-193,194] y[-191,191]
    const uint16 R = 107;      // x[100,1200] y[0,1380]  plain rectangle, no sub-boxes
    Rect limit(Position(-600, -600), Position(600, 600));     // x-symmetric
    // neighbour 0 ("A"): x[-1550,-450] y[-690,690]  -> overlaps the target for accumulated x offsets in [-1744,-257]
    // neighbour 1 ("B"): x[-350,750]  y[-690,690]   -> overlaps the target for accumulated x offsets in [-544,943]
    Nbor nb[2] = { { R, Position(-1650, -690) }, { R, Position(-450, -690) } };
    printf("limit (-600,-600)-(600,600) (x-symmetric), margin 10, accumulated offset (500,0), shift (0,0), target gid %u\n\n", T);
    printf("Case 1: left-to-right run (dir=0)\n");
    Result a = fix(seg, slots, T, limit, 10, 5, Position(500, 0), Position(0, 0), 0, nb, 2, true);
    printf("\nCase 2 (control): identical input, right-to-left run (dir=1)\n");
    Result b = fix(seg, slots, T, limit, 10, 5, Position(500, 0), Position(0, 0), 1, nb, 2, true);
    printf("\nCase 3 (control): left-to-right, same geometry, but offset (0,0) and shift (500,0)\n");
    Result c = fix(seg, slots, T, limit, 10, 5, Position(0, 0), Position(500, 0), 0, nb, 2, true);
    bool bad = a.called && !a.isCol && a.overlap[0];
    bool ctl = (b.isCol || !(b.overlap[0] || b.overlap[1])) && (c.isCol || !(c.overlap[0] || c.overlap[1]));
    printf("\nVERDICT: LTR case reported resolved while overlapping neighbour 0: %s; controls behave correctly: %s\n",
           bad ? "YES (property violated)" : "no", ctl ? "yes" : "no");
    return bad ? 1 : 0;
}
