// Minimal font harness: load an sfnt, replace tables, serve exact-size heap copies.
#pragma once
#include <cstdio>
#include <cstdlib>
#include <cstring>
#include <map>
#include <string>
#include <vector>
#include <stdint.h>
#include "graphite2/Font.h"
#include "graphite2/Segment.h"

typedef std::vector<uint8_t> Bytes;

struct FontData {
    std::map<uint32_t, Bytes> tables;
    bool load(const char *path) {
        FILE *f = fopen(path, "rb");
        if (!f) return false;
        Bytes d; uint8_t buf[65536]; size_t n;
        while ((n = fread(buf, 1, sizeof buf, f)) > 0) d.insert(d.end(), buf, buf + n);
        fclose(f);
        if (d.size() < 12) return false;
        unsigned nt = (d[4] << 8) | d[5];
        for (unsigned i = 0; i < nt; ++i) {
            const uint8_t *r = &d[12 + 16 * i];
            uint32_t tag = (r[0] << 24) | (r[1] << 16) | (r[2] << 8) | r[3];
            uint32_t off = ((uint32_t)r[8] << 24) | (r[9] << 16) | (r[10] << 8) | r[11];
            uint32_t len = ((uint32_t)r[12] << 24) | (r[13] << 16) | (r[14] << 8) | r[15];
            if ((size_t)off + len > d.size()) return false;
            tables[tag] = Bytes(d.begin() + off, d.begin() + off + len);
        }
        return true;
    }
};

static const void *ht_get(const void *h, unsigned int name, size_t *len) {
    const FontData *fd = static_cast<const FontData *>(h);
    std::map<uint32_t, Bytes>::const_iterator it = fd->tables.find(name);
    if (it == fd->tables.end()) { *len = 0; return 0; }
    *len = it->second.size();
    uint8_t *p = (uint8_t *)malloc(it->second.size() ? it->second.size() : 1);
    memcpy(p, it->second.data(), it->second.size());
    return p;
}
static void ht_rel(const void *, const void *buf) { free(const_cast<void *>(buf)); }
static const gr_face_ops HT_OPS = { sizeof(gr_face_ops), ht_get, ht_rel };

#define TAG(a,b,c,d) ((uint32_t(a)<<24)|(uint32_t(b)<<16)|(uint32_t(c)<<8)|uint32_t(d))

static inline void p16(Bytes &b, unsigned v) { b.push_back(v >> 8); b.push_back(v & 0xff); }
static inline void p32(Bytes &b, uint32_t v) { p16(b, v >> 16); p16(b, v & 0xffff); }
