// Finding 2: NameTable::setPlatformEncoding() never records the end of the Windows/Unicode (3,1) record
// range when that range consists of exactly one record that is not record 0 (m_platformLastRecord stays 0
// while m_platformOffset = k > 0), so NameTable::getName() scans an empty range and every feature /
// setting label comes back NULL although the name table holds the string.
#include "audit_harness.h"

struct Rec { uint16_t plat, enc, lang, id; std::string utf16be; };
static std::string u16(const char *s) { std::string r; for (; *s; ++s) { r.push_back(0); r.push_back(*s); } return r; }
static Bytes buildName(const std::vector<Rec> &rs) {
    Bytes b; p16(b, 0); p16(b, rs.size()); p16(b, 6 + 12 * rs.size());
    size_t off = 0;
    for (size_t i = 0; i < rs.size(); ++i) { p16(b, rs[i].plat); p16(b, rs[i].enc); p16(b, rs[i].lang); p16(b, rs[i].id); p16(b, rs[i].utf16be.size()); p16(b, off); off += rs[i].utf16be.size(); }
    for (size_t i = 0; i < rs.size(); ++i) b.insert(b.end(), rs[i].utf16be.begin(), rs[i].utf16be.end());
    return b;
}
static Bytes buildFeat() {           // one feature, id 'test', name id 256, settings 0/1 with labels 256
    Bytes b; p32(b, 0x00020000); p16(b, 1); p16(b, 0); p32(b, 0);
    p32(b, TAG('t','e','s','t')); p16(b, 2); p16(b, 0); p32(b, 28); p16(b, 0); p16(b, 256);
    p16(b, 0); p16(b, 256); p16(b, 1); p16(b, 256);
    return b;
}
static int run(const FontData &base, const std::vector<Rec> &rs, const char *what) {
    FontData fd = base;
    fd.tables[TAG('F','e','a','t')] = buildFeat();
    fd.tables.erase(TAG('S','i','l','l'));
    fd.tables[TAG('n','a','m','e')] = buildName(rs);
    gr_face *face = gr_make_face_with_ops(&fd, &HT_OPS, 0);
    if (!face) { puts("no face"); exit(2); }
    const gr_feature_ref *r = gr_face_find_fref(face, TAG('t','e','s','t'));
    if (!r) { puts("no feature"); exit(2); }
    uint16_t lang = 0x409; uint32_t len = 99;
    char *s = (char *)gr_fref_label(r, &lang, gr_utf8, &len);
    printf("%-58s -> label = %s%s%s (len %u, lang 0x%x)\n", what, s ? "\"" : "", s ? s : "NULL", s ? "\"" : "", len, lang);
    int bad = !s || strcmp(s, "Windows");
    gr_label_destroy(s);
    gr_face_destroy(face);
    return bad;
}
int main(int argc, char **argv) {
    FontData base; if (!base.load(argv[1])) { puts("cannot read font"); return 2; }
    Rec mac = { 1, 0, 0, 256, "Mac" }, win = { 3, 1, 0x409, 256, u16("Windows") }, win2 = { 3, 1, 0x409, 257, u16("Other") };
    std::vector<Rec> a, b, c;
    a.push_back(win);                                  // control: the only record, at index 0
    b.push_back(mac); b.push_back(win); b.push_back(win2);   // control: two (3,1) records after a Mac one
    c.push_back(mac); c.push_back(win);                // defect: exactly one (3,1) record, at index 1
    int ra = run(base, a, "name = [ (3,1,0x409,#256) ]");
    int rb = run(base, b, "name = [ (1,0,0,#256), (3,1,0x409,#256), (3,1,0x409,#257) ]");
    int rc = run(base, c, "name = [ (1,0,0,#256), (3,1,0x409,#256) ]");
    if (!ra && !rb && rc) { puts("VIOLATION: the label exists in the name table but gr_fref_label returns NULL"); return 1; }
    puts(ra || rb ? "unexpected control failure" : "ok");
    return 0;
}
