// Finding 3: SillMap::readSill() bounds neither numLanguages nor the per-language numSettings by
// anything but the table size, and the 16-bit settings offset may point back at the start of the table,
// so every one of N language entries can claim N "settings" that alias the language array itself.
// Each setting costs a linear FeatureMap::findFeatureRef() scan: loading is O(N^2 * numFeats).
// A 512 KB Sill table (N = 65535) keeps gr_make_face busy for minutes to hours (no allocation growth).
#include "audit_harness.h"
#include <time.h>
#include <unistd.h>
#include <signal.h>

static Bytes buildSill(unsigned n) {
    Bytes b; p32(b, 0x00010000); p16(b, n); p16(b, 0); p16(b, 0); p16(b, 0);
    for (unsigned i = 0; i < n; ++i) { p32(b, TAG('a' + i % 26, 'a' + (i / 26) % 26, 'a' + (i / 676) % 26, 'a' + i / 17576)); p16(b, n); p16(b, 0); }  // n settings at offset 0
    p32(b, 0x80808080); p16(b, 0); p16(b, 0);
    return b;
}
static double now() { timespec t; clock_gettime(CLOCK_MONOTONIC, &t); return t.tv_sec + t.tv_nsec * 1e-9; }
static void on_alarm(int) { const char m[] = "VIOLATION: gr_make_face still running after 30 s on a 512 KB Sill table (hang)\n"; write(1, m, sizeof m - 1); _exit(1); }

int main(int argc, char **argv) {
    FontData base; if (!base.load(argv[1])) { puts("cannot read font"); return 2; }
    const unsigned ns[] = { 500, 1000, 2000, 4000, 65535 };
    for (unsigned k = 0; k < 5; ++k) {
        FontData fd = base;
        fd.tables[TAG('S','i','l','l')] = buildSill(ns[k]);
        printf("Sill with %5u languages (%6zu bytes): ", ns[k], fd.tables[TAG('S','i','l','l')].size()); fflush(stdout);
        if (ns[k] == 65535) { signal(SIGALRM, on_alarm); alarm(30); }
        double t0 = now();
        gr_face *face = gr_make_face_with_ops(&fd, &HT_OPS, 0);
        printf("gr_make_face %s after %.2f s\n", face ? "succeeded" : "failed", now() - t0);
        gr_face_destroy(face);
    }
    return 0;
}
