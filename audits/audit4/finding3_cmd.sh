#!/bin/sh
# usage: finding3_cmd.sh <graphite source tree root>     (plain -O2 build: the hang does not depend on sanitizers)
set -e
R=${1:-/tmp/wt_audit4}
D=$(cd "$(dirname "$0")" && pwd)
g++ -std=c++11 -g -O2 -DGRAPHITE2_NTRACING -DGRAPHITE2_STATIC -fno-rtti -fno-exceptions \
  -I$R/include -I$R/src -I$D $(ls $R/src/*.cpp | grep -v -e json.cpp -e call_machine.cpp) $D/finding3_demo.cpp -o /tmp/finding3_demo
/tmp/finding3_demo $R/tests/fonts/charis_r_gr.ttf
