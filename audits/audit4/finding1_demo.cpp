// Finding 1: gr_face_find_fref() space-strips numeric feature ids, so a feature whose id has a
// low byte of 0x20 (e.g. 1056 = 0x420 in the shipped charis_r_gr.ttf) cannot be found; the call
// returns a DIFFERENT feature (id 0x400) and a set through it changes the wrong feature.
#include "audit_harness.h"
int main(int argc, char **argv) {
    FontData fd; if (!fd.load(argv[1])) { puts("cannot read font"); return 2; }
    gr_face *face = gr_make_face_with_ops(&fd, &HT_OPS, 0);
    if (!face) { puts("no face"); return 2; }
    int bad = 0;
    for (unsigned i = 0; i < gr_face_n_fref(face); ++i) {
        const gr_feature_ref *r = gr_face_fref(face, i);
        uint32_t id = gr_fref_id(r);
        const gr_feature_ref *q = gr_face_find_fref(face, id);
        if (q == r) continue;
        ++bad;
        printf("feature #%u has id %u (0x%x); gr_face_find_fref(face, %u) returns %s", i, id, id, id, q ? "a different feature" : "NULL");
        if (q) printf(" with id %u (0x%x)", gr_fref_id(q), gr_fref_id(q));
        puts("");
        if (!q) continue;
        gr_feature_val *fv = gr_face_featureval_for_lang(face, 0);
        unsigned before_r = gr_fref_feature_value(r, fv), before_q = gr_fref_feature_value(q, fv);
        // pick a value allowed for feature `id` (its last setting) and set "feature id" through the looked-up ref
        unsigned v = gr_fref_n_values(r) ? (uint16_t)gr_fref_value(r, gr_fref_n_values(r) - 1) : 1;
        if (v == before_r) v = (uint16_t)gr_fref_value(r, 0);
        int ok = gr_fref_set_feature_value(gr_face_find_fref(face, id), v, fv);
        printf("  set feature %u := %u via find_fref -> ok=%d; feature %u value %u -> %u (expected %u); feature %u value %u -> %u (expected unchanged)\n",
               id, v, ok, id, before_r, gr_fref_feature_value(r, fv), v, gr_fref_id(q), before_q, gr_fref_feature_value(q, fv));
        gr_featureval_destroy(fv);
    }
    gr_face_destroy(face);
    printf(bad ? "VIOLATION: %d feature(s) unreachable by id\n" : "ok (%d)\n", bad);
    return bad ? 1 : 0;
}
