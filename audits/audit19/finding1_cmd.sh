#!/bin/sh
# usage: finding1_cmd.sh <graphite source tree root>
ROOT=${1:-/tmp/wt_audit19}
HERE=$(cd "$(dirname "$0")" && pwd)
OUT=$(mktemp -d)
SRCS=$(ls $ROOT/src/*.cpp | grep -v -e json.cpp -e call_machine.cpp)
FONT=$ROOT/tests/fonts/Padauk.ttf
set -x
# 1) sanitizer build
g++ -std=c++11 -g -O1 -fsanitize=address,undefined -fno-sanitize-recover=all -DGRAPHITE2_NTRACING -DGRAPHITE2_STATIC \
    -fno-rtti -fno-exceptions -I$ROOT/include -I$ROOT/src $SRCS $HERE/finding1_demo.cpp -o $OUT/demo_san || exit 2
# 2) plain build (no sanitizers) to show the raw crash
g++ -std=c++11 -g -O2 -DGRAPHITE2_NTRACING -DGRAPHITE2_STATIC \
    -fno-rtti -fno-exceptions -I$ROOT/include -I$ROOT/src $SRCS $HERE/finding1_demo.cpp -o $OUT/demo_plain || exit 2
export ASAN_OPTIONS=allocator_may_return_null=1:detect_leaks=0
for enc in 1 2 4; do
  $OUT/demo_san $FONT 3 $enc                      # control: ok, n_cinfo=3
  $OUT/demo_san $FONT 0x80000000 $enc             # 2^31 : UBSan "constructor call on null pointer" at Segment.cpp:26
  $OUT/demo_san $FONT 0x100000000 $enc            # 2^32 : same
  $OUT/demo_san $FONT 0xffffffffffffffff $enc     # SIZE_MAX : NULL segment for a valid string
done
$OUT/demo_plain $FONT 3 1                         # control
$OUT/demo_plain $FONT 0x100000000 1               # SIGSEGV (write through NULL in CharInfo ctor loop)
$OUT/demo_plain $FONT 0x1000000000000000 1        # SIGSEGV
$OUT/demo_plain $FONT 0xffffffffffffffff 1        # NULL segment
time $OUT/demo_plain $FONT 0x1000000 1            # 2^24: succeeds but ~1.3 s and >2 GB touched for "abc"
