#include <graphite2/Segment.h>
#include <graphite2/Font.h>
#include <cstdio>
#include <cstdlib>
#include <cstring>
#include <cstdint>

int main(int argc, char **argv) {
    gr_face *face = gr_make_file_face(argv[1], gr_face_default);
    if (!face) { fprintf(stderr, "no face\n"); return 2; }
    gr_font *font = gr_make_font(12, face);
    size_t nChars = strtoull(argv[2], 0, 0);
    int enc = argc > 3 ? atoi(argv[3]) : 1;
    void *buf;
    if (enc == 1) { char *b = (char *)malloc(4); memcpy(b, "abc", 4); buf = b; }
    else if (enc == 2) { uint16_t *b = (uint16_t *)malloc(8); b[0]='a'; b[1]='b'; b[2]='c'; b[3]=0; buf = b; }
    else { uint32_t *b = (uint32_t *)malloc(16); b[0]='a'; b[1]='b'; b[2]='c'; b[3]=0; buf = b; }
    fprintf(stderr, "gr_make_seg(\"abc\", nChars=%zu)\n", nChars);
    gr_segment *seg = gr_make_seg(font, face, 0, 0, (gr_encform)enc, buf, nChars, 0);
    if (!seg) { fprintf(stderr, "FAIL: NULL segment for a valid 3-character NUL-terminated string\n"); return 1; }
    fprintf(stderr, "n_cinfo=%u n_slots=%u\n", gr_seg_n_cinfo(seg), gr_seg_n_slots(seg));
    int rc = gr_seg_n_cinfo(seg) == 3 ? 0 : 1;
    gr_seg_destroy(seg);
    free(buf);
    gr_font_destroy(font);
    gr_face_destroy(face);
    return rc;
}
