// finding 2: a font made with gr_font_ops { size, glyph_advance_x = NULL, glyph_advance_y = fn }
// (explicitly allowed by include/graphite2/Font.h: "This can be NULL to signify no horizontal
// hinted metrics are necessary") makes gr_make_seg call a null function pointer.
// usage: finding2_demo <font.ttf>
#include <graphite2/Font.h>
#include <graphite2/Segment.h>
#include <cstdio>

static float adv_y(const void *, gr_uint16) { return 0.f; }

int main(int argc, char **argv)
{
    if (argc < 2) return 2;
    gr_face *face = gr_make_file_face(argv[1], gr_face_default);
    if (!face) { fprintf(stderr, "cannot load %s\n", argv[1]); return 2; }
    int handle = 0;
    const gr_font_ops ops = { sizeof(gr_font_ops), NULL, &adv_y };
    gr_font *font = gr_make_font_with_ops(20.f, &handle, &ops, face);
    printf("font %p; shaping ...\n", (void *)font); fflush(stdout);
    gr_segment *seg = gr_make_seg(font, face, 0, 0, gr_utf8, "abc", 3, 0);
    printf("segment %p advance %g\n", (void *)seg, seg ? gr_seg_advance_X(seg) : 0.f);
    if (seg) gr_seg_destroy(seg);
    gr_font_destroy(font);
    gr_face_destroy(face);
    return 0;
}
