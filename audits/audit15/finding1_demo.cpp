// finding 1: gr_seg_justify never returns for a left-to-right segment made with
// gr_nobidi (2) or gr_nomirror (4) in the direction argument.
// usage: finding1_demo <font.ttf> [dir]      (font: tests/fonts/Padauk.ttf)
#include <graphite2/Font.h>
#include <graphite2/Segment.h>
#include <cstdio>
#include <cstdlib>
#include <unistd.h>

int main(int argc, char **argv)
{
    if (argc < 2) return 2;
    const int dir = argc > 2 ? atoi(argv[2]) : 2;       // 2 == gr_nobidi
    gr_face *face = gr_make_file_face(argv[1], gr_face_default);
    if (!face) { fprintf(stderr, "cannot load %s\n", argv[1]); return 2; }
    gr_font *font = gr_make_font(21.f, face);
    // U+100A U+103E U+1000 U+103A : the last slot is a mark attached to the base before it
    static const unsigned text[] = { 0x100A, 0x103E, 0x1000, 0x103A, 0 };
    gr_segment *seg = gr_make_seg(font, face, 0, 0, gr_utf32, text, 4, dir);
    if (!seg) { fprintf(stderr, "no segment\n"); return 2; }
    printf("segment: %u slots, advance %g; calling gr_seg_justify (dir=%d) ...\n",
           gr_seg_n_slots(seg), gr_seg_advance_X(seg), dir);
    fflush(stdout);
    alarm(25);                                          // a hang is reported as SIGALRM after 25 s
    float w = gr_seg_justify(seg, gr_seg_first_slot(seg), font, 2.0 * gr_seg_advance_X(seg), gr_justCompleteLine, 0, 0);
    alarm(0);
    printf("gr_seg_justify returned %g\n", w);
    gr_seg_destroy(seg);
    gr_font_destroy(font);
    gr_face_destroy(face);
    return 0;
}
