// finding 3: Slot::setGlyph accepts a pseudo-glyph attribute equal to the number of glyphs
// (test is '>' instead of '>='), so gr_slot_gid() hands the client a glyph id that is
// outside the font: gr_slot_gid(slot) == gr_face_n_glyphs(face).
// The demo takes tests/fonts/Padauk.ttf, and patches, in memory, (a) one glyph-attribute value of
// the glyph for U+1000 in Glat to numGlyphs and (b) the attrPseudo byte of the Silf subtable to
// that attribute's number.  Tables are served from exact-size heap copies.
// usage: finding3_demo <Padauk.ttf>
#include <graphite2/Font.h>
#include <graphite2/Segment.h>
#include <cstdio>
#include <cstdlib>
#include <cstring>

typedef unsigned char byte;
struct Tab { unsigned tag; byte *d; size_t len; };
struct FontFile { Tab t[64]; unsigned nt; FontFile() : nt(0) {} 
    Tab *find(unsigned tag) { for (unsigned i = 0; i < nt; ++i) if (t[i].tag == tag) return &t[i]; return 0; } };
static unsigned be32(const byte *p) { return (unsigned(p[0]) << 24) | (p[1] << 16) | (p[2] << 8) | p[3]; }
static unsigned be16(const byte *p) { return (p[0] << 8) | p[1]; }
#define TAG(a,b,c,d) ((unsigned(a)<<24)|((b)<<16)|((c)<<8)|(d))

static bool load(const char *fn, FontFile &ff)
{
    FILE *f = fopen(fn, "rb"); if (!f) return false;
    fseek(f, 0, SEEK_END); long sz = ftell(f); fseek(f, 0, SEEK_SET);
    byte *d = (byte *)malloc(sz); if (fread(d, 1, sz, f) != (size_t)sz) return false; fclose(f);
    unsigned nt = be16(d + 4);
    for (unsigned i = 0; i < nt && ff.nt < 64; ++i) {
        const byte *r = d + 12 + 16 * i;
        unsigned off = be32(r + 8), len = be32(r + 12);
        if (off + len > (size_t)sz) continue;
        Tab &t = ff.t[ff.nt++]; t.tag = be32(r); t.len = len; t.d = (byte *)malloc(len ? len : 1); memcpy(t.d, d + off, len);
    }
    free(d); return true;
}
static const void *get_table(const void *h, unsigned int name, size_t *len)
{
    Tab *t = ((FontFile *)h)->find(name);
    if (!t) { *len = 0; return 0; }
    *len = t->len; byte *p = (byte *)malloc(t->len ? t->len : 1); memcpy(p, t->d, t->len); return p;
}
static void rel_table(const void *, const void *p) { free((void *)p); }
static const gr_face_ops ops = { sizeof(gr_face_ops), get_table, rel_table };

static unsigned shape_first_gid(FontFile &ff, unsigned ch, unsigned *nglyphs, unsigned faceopts)
{
    gr_face *face = gr_make_face_with_ops(&ff, &ops, faceopts);
    if (!face) { fprintf(stderr, "face failed to load\n"); exit(2); }
    gr_font *font = gr_make_font(20.f, face);
    unsigned text[2] = { ch, 0 };
    gr_segment *seg = gr_make_seg(font, face, 0, 0, gr_utf32, text, 1, 0);
    if (!seg) { fprintf(stderr, "no segment\n"); exit(2); }
    unsigned gid = gr_slot_gid(gr_seg_first_slot(seg));
    *nglyphs = gr_face_n_glyphs(face);
    gr_seg_destroy(seg); gr_font_destroy(font); gr_face_destroy(face);
    return gid;
}

int main(int argc, char **argv)
{
    if (argc < 2) return 2;
    FontFile ff; if (!load(argv[1], ff)) { fprintf(stderr, "cannot read %s\n", argv[1]); return 2; }
    unsigned n = 0;
    const unsigned ch = 0x1000;
    const unsigned G = shape_first_gid(ff, ch, &n, gr_face_default);
    printf("unpatched: U+%04X -> glyph %u, face has %u glyphs\n", ch, G, n);

    Tab *gloc = ff.find(TAG('G','l','o','c')), *glat = ff.find(TAG('G','l','a','t')), *silf = ff.find(TAG('S','i','l','f'));
    const unsigned flags = be16(gloc->d + 4);
    const size_t start = (flags & 1) ? be32(gloc->d + 8 + 4 * G) : be16(gloc->d + 8 + 2 * G);
    const unsigned glatv = be32(glat->d);
    printf("Glat version %08x, glyph %u attributes at Glat+%zu\n", glatv, G, start);
    if (glatv >= 0x00030000) { fprintf(stderr, "demo handles Glat v1/v2 only\n"); return 2; }
    byte *e = glat->d + start, *val; unsigned key;
    if (glatv < 0x00020000) { key = e[0]; val = e + 2; } else { key = be16(e); val = e + 4; }
    printf("first attribute run starts at attribute %u, old value %u -> %u\n", key, be16(val), n);
    if (key > 255) { fprintf(stderr, "attribute number does not fit attrPseudo\n"); return 2; }
    val[0] = byte(n >> 8); val[1] = byte(n);

    const unsigned silfv = be32(silf->d);
    const byte *offs = silf->d + (silfv >= 0x00030000 ? 12 : 8);
    byte *sub = silf->d + be32(offs);
    byte *aPseudo = sub + (silfv >= 0x00030000 ? 22 : 14);
    printf("Silf version %08x attrPseudo %u -> %u\n", silfv, *aPseudo, key);
    *aPseudo = byte(key);

    int bad = 0;
    for (unsigned fo = 0; fo < 2; ++fo) {
        unsigned n2 = 0;
        const unsigned g2 = shape_first_gid(ff, ch, &n2, fo ? gr_face_preloadGlyphs : gr_face_default);
        printf("patched (%s): gr_slot_gid = %u, gr_face_n_glyphs = %u  %s\n", fo ? "preloaded" : "lazy", g2, n2,
               g2 >= n2 ? "<-- glyph id outside the font" : "ok");
        if (g2 >= n2) bad = 1;
    }
    for (unsigned i = 0; i < ff.nt; ++i) free(ff.t[i].d);
    return bad;
}
