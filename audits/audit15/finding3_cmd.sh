#!/bin/sh
# usage: finding3_cmd.sh <graphite source tree root>
R=${1:-/tmp/wt_audit15}
D=$(dirname "$0")
set -e
g++ -std=c++11 -g -O1 -fsanitize=address,undefined -fno-sanitize-recover=all -DGRAPHITE2_NTRACING -DGRAPHITE2_STATIC -fno-rtti -fno-exceptions \
    -I$R/include -I$R/src $(ls $R/src/*.cpp | grep -v -e json.cpp -e call_machine.cpp) $D/finding3_demo.cpp -o /tmp/finding3_demo
set +e
/tmp/finding3_demo $R/tests/fonts/Padauk.ttf; echo "exit status $? (1 = out-of-range glyph id returned)"
