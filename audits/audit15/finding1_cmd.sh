#!/bin/sh
# usage: finding1_cmd.sh <graphite source tree root>
R=${1:-/tmp/wt_audit15}
D=$(dirname "$0")
set -e
g++ -std=c++11 -g -O1 -fsanitize=address,undefined -fno-sanitize-recover=all -DGRAPHITE2_NTRACING -DGRAPHITE2_STATIC -fno-rtti -fno-exceptions \
    -I$R/include -I$R/src $(ls $R/src/*.cpp | grep -v -e json.cpp -e call_machine.cpp) $D/finding1_demo.cpp -o /tmp/finding1_demo
set +e
echo "== control: dir=0 (plain ltr) =="
/tmp/finding1_demo $R/tests/fonts/Padauk.ttf 0; echo "exit status $?"
echo "== dir=2 (gr_nobidi): hangs, killed by alarm(25) =="
/tmp/finding1_demo $R/tests/fonts/Padauk.ttf 2; echo "exit status $? (142 = SIGALRM = hang)"
echo "== dir=4 (gr_nomirror) =="
/tmp/finding1_demo $R/tests/fonts/Padauk.ttf 4; echo "exit status $? (142 = SIGALRM = hang)"
