// C15 demo: a slot that Slot::finalise() refuses to visit (recursion guard depth > 100)
// keeps a stale DESIGN-UNIT position, so with a gr_font its origin is not scaled by ppm/upem.
//
// Base font: tests/fonts/grtest1gr.ttf, with ONLY the Silf table replaced by a small crafted one
// (1 positioning pass, 2 rules).  All tables are served through gr_make_face_with_ops from
// exact-size heap copies.
#include <graphite2/Segment.h>
#include <graphite2/Font.h>
#include <cstdio>
#include <cstdlib>
#include <cstring>
#include <cmath>
#include <string>
#include <vector>
#include <map>

typedef std::vector<unsigned char> bytes;
static void u8(bytes &b, unsigned v)  { b.push_back((unsigned char)v); }
static void u16(bytes &b, unsigned v) { u8(b, v >> 8); u8(b, v); }
static void u32(bytes &b, unsigned v) { u16(b, v >> 16); u16(b, v & 0xffff); }
static void cat(bytes &b, const bytes &o) { b.insert(b.end(), o.begin(), o.end()); }

static std::map<unsigned, bytes> g_tables;

static const void *get_table(const void *, unsigned int name, size_t *len)
{
    std::map<unsigned, bytes>::const_iterator i = g_tables.find(name);
    if (i == g_tables.end()) { *len = 0; return 0; }
    *len = i->second.size();
    void *p = malloc(i->second.size());            // exact-size heap copy
    memcpy(p, i->second.data(), i->second.size());
    return p;
}
static void release_table(const void *, const void *p) { free(const_cast<void *>(p)); }

static unsigned rd16(const bytes &d, size_t o) { return (d[o] << 8) | d[o+1]; }
static unsigned rd32(const bytes &d, size_t o) { return (rd16(d, o) << 16) | rd16(d, o+2); }

// glyph ids of 'a' and 't' in grtest1gr.ttf (checked at run time against the shaped output)
enum { GID_A = 67, GID_T = 86 };

static bytes make_silf()
{
    // opcodes (src/inc/Machine.h)
    enum { PUSH_BYTE = 1, NEXT = 25, ATTR_SET = 35, ATTR_SET_SLOT = 38, PUSH_SLOT_ATTR = 40, RET_ZERO = 49 };
    // Rule 0:  (a) a      : slot 2 attaches to the previous slot                      -> chain a<-a<-a...
    const unsigned char act0[] = { PUSH_BYTE, 0xFF, ATTR_SET_SLOT, gr_slatAttTo, NEXT, RET_ZERO };
    // Rule 1:  (a) t t t  : read position.x (forces positionSlots over the rule's slots while the
    //                       three t are still bases), then attach all three t to the context a
    const unsigned char act1[] = { PUSH_SLOT_ATTR, gr_slatPosX, 0, ATTR_SET, gr_slatMeasureSol /* a no-op attr */,
                                   PUSH_BYTE, 0xFF, ATTR_SET_SLOT, gr_slatAttTo, NEXT,
                                   PUSH_BYTE, 0xFE, ATTR_SET_SLOT, gr_slatAttTo, NEXT,
                                   PUSH_BYTE, 0xFD, ATTR_SET_SLOT, gr_slatAttTo, NEXT, RET_ZERO };
    const unsigned PASS_OFF = 60;
    bytes body;
    u16(body, GID_A); u16(body, GID_A); u16(body, 0);       // range: 'a' -> column 0
    u16(body, GID_T); u16(body, GID_T); u16(body, 1);       // range: 't' -> column 1
    u16(body, 0); u16(body, 1); u16(body, 2);               // oRuleMap (2 success states)
    u16(body, 0); u16(body, 1);                             // ruleMap
    u8(body, 1); u8(body, 1);                               // min/max rule pre-context
    u16(body, 0);                                           // start state
    u16(body, 2); u16(body, 4);                             // rule sort keys (= rule lengths)
    u8(body, 1); u8(body, 1);                               // rule pre-contexts
    u8(body, 0); u16(body, 0);                              // collision threshold, pass constraint length
    u16(body, 0); u16(body, 0); u16(body, 0);               // constraint offsets (none)
    u16(body, 0); u16(body, sizeof act0); u16(body, sizeof act0 + sizeof act1);   // action offsets
    // transitions: states 0..3 x columns (a, t); states 4,5 are the success states of rule 0, 1
    const unsigned trans[4][2] = { {1,0}, {4,2}, {0,3}, {0,5} };
    for (int i = 0; i < 4; ++i) { u16(body, trans[i][0]); u16(body, trans[i][1]); }
    u8(body, 0);
    const unsigned code = PASS_OFF + 40 + body.size();
    bytes pass;
    u8(pass, 0); u8(pass, 5); u8(pass, 4); u8(pass, 1);     // flags, maxRuleLoop, maxRuleContext, maxBackup
    u16(pass, 2); u16(pass, 0);                             // numRules, fsmOffset
    u32(pass, code); u32(pass, code); u32(pass, code); u32(pass, 0);  // pcCode, rcCode, aCode, oDebug
    u16(pass, 6); u16(pass, 4); u16(pass, 2); u16(pass, 2); u16(pass, 2);   // states, trans, success, cols, ranges
    u16(pass, 0); u16(pass, 0); u16(pass, 0);
    cat(pass, body);
    pass.insert(pass.end(), act0, act0 + sizeof act0);
    pass.insert(pass.end(), act1, act1 + sizeof act1);

    bytes sub;                                              // Silf sub-table, version 2 layout; header
    u16(sub, 0xda); u16(sub, 0); u16(sub, 0);               // values copied from the original font
    u8(sub, 1); u8(sub, 0); u8(sub, 0); u8(sub, 1); u8(sub, 0xff);   // numPasses=1 iSubst=0 iPos=0 iJust=1 iBidi=ff
    u8(sub, 0); u8(sub, 1); u8(sub, 3);                     // flags, maxPre, maxPost
    u8(sub, 0); u8(sub, 1); u8(sub, 2); u8(sub, 3); u8(sub, 0);      // aPseudo aBreak aBidi aMirror aPassBits
    u8(sub, 0);                                             // numJLevels
    u16(sub, 0); u8(sub, 0); u8(sub, 0); u8(sub, 1); u8(sub, 0);     // aLig aUser maxComp dir(ltr) aCollision
    u8(sub, 0); u8(sub, 0); u8(sub, 0); u8(sub, 0); u8(sub, 0); u8(sub, 0);
    u16(sub, 0xd9);                                         // lbGID
    u32(sub, PASS_OFF); u32(sub, PASS_OFF + pass.size());   // pass offsets
    u16(sub, 0); u16(sub, 0); u16(sub, 0); u16(sub, 0);     // no pseudo glyphs
    u16(sub, 1); u16(sub, 1); u16(sub, 8); u16(sub, 10); u16(sub, GID_A);   // class map: one linear class
    if (sub.size() != PASS_OFF) abort();
    cat(sub, pass);

    bytes silf;
    u32(silf, 0x00020000); u16(silf, 1); u16(silf, 0); u32(silf, 12);
    cat(silf, sub);
    return silf;
}

int main(int argc, char **argv)
{
    if (argc < 2) { fprintf(stderr, "usage: %s path/to/grtest1gr.ttf\n", argv[0]); return 2; }
    FILE *f = fopen(argv[1], "rb"); if (!f) { perror(argv[1]); return 2; }
    bytes d; int c; while ((c = fgetc(f)) != EOF) d.push_back((unsigned char)c); fclose(f);
    const unsigned n = rd16(d, 4);
    for (unsigned i = 0; i < n; ++i)
    {
        const size_t r = 12 + 16*i; const unsigned off = rd32(d, r+8), len = rd32(d, r+12);
        g_tables[rd32(d, r)] = bytes(d.begin() + off, d.begin() + off + len);
    }
    g_tables[0x53696C66 /*Silf*/] = make_silf();
    const unsigned upem = rd16(g_tables[0x68656164 /*head*/], 18);

    const gr_face_ops ops = { sizeof(gr_face_ops), get_table, release_table };
    gr_face *face = gr_make_face_with_ops(0, &ops, gr_face_preloadAll);
    if (!face) { printf("face rejected\n"); return 2; }

    std::string text(99, 'a'); text += "ttta";              // 99 x a, 3 x t, a
    gr_segment *s0 = gr_make_seg(0, face, 0, 0, gr_utf8, text.c_str(), text.size(), 0);
    if (!s0) { printf("no segment\n"); return 2; }

    int bad = 0;
    const float ppms[] = { 10.f, 100.f, 2000.f };
    for (unsigned k = 0; k < 3; ++k)
    {
        const float ppm = ppms[k], scale = ppm / upem;
        gr_font *font = gr_make_font(ppm, face);
        gr_segment *s1 = gr_make_seg(font, face, 0, 0, gr_utf8, text.c_str(), text.size(), 0);
        printf("ppm %g upem %u: segment advance design %g, scaled font %g (expected %g)\n",
               ppm, upem, gr_seg_advance_X(s0), gr_seg_advance_X(s1), gr_seg_advance_X(s0) * scale);
        const gr_slot *a = gr_seg_first_slot(s0), *b = gr_seg_first_slot(s1);
        for (int i = 0; a && b; a = gr_slot_next_in_segment(a), b = gr_slot_next_in_segment(b), ++i)
        {
            if ((i < 99 || i == 102 ? GID_A : GID_T) != gr_slot_gid(a) || gr_slot_gid(a) != gr_slot_gid(b))
            { printf("unexpected glyph ids\n"); return 2; }
            const gr_slot *pa = gr_slot_attached_to(a);
            const float want = gr_slot_origin_X(a) * scale, got = gr_slot_origin_X(b);
            const bool wrong = fabsf(got - want) > 1e-4f * (fabsf(want) + gr_seg_advance_X(s0) * scale);
            if (wrong) ++bad;
            if (i >= 97 || wrong)
                printf("  slot %3d gid %2d attached to %3d: origin.x font=NULL %8g  font(ppm %g) %8g  expected %8g %s\n",
                       i, gr_slot_gid(a), pa ? (int)gr_slot_index(pa) : -1, gr_slot_origin_X(a), ppm, got, want,
                       wrong ? "<-- NOT SCALED" : "");
        }
        gr_seg_destroy(s1);
        gr_font_destroy(font);
    }
    gr_seg_destroy(s0);
    gr_face_destroy(face);
    if (bad) { printf("C15 VIOLATED: %d slot origins are not the design-unit value times ppm/upem\n", bad); return 1; }
    printf("no violation\n");
    return 0;
}
