(* Model/StreamModel.v — list-level executable model of the primitive operations that edit a segment's glyph stream,
   attachment trees and character associations:
     Segment::appendSlot, the INSERT / DELETE / PUT_COPY / TEMP_COPY / ASSOC opcodes (src/inc/opcodes.h), Segment::freeSlot,
     Slot::setAttr(gr_slatAttTo) with Slot::child / sibling / removeChild, Segment::reverseSlots, Segment::associateChars,
     Segment::linkClusters, gr_slot_linebreak_before.
   A slot is an identity [sid]; the stream is the list of identities in next-order (the harness obtains it by walking the
   real links and checking prev/last consistency); a parent's children are the list in sibling order.  The operations are
   replayed from the event trace the instrumented library emits (GRAPHITE2_VERIF).  No proofs here. *)
From GR Require Import Base.Bytes.
From Coq Require Import ZArith.
Local Open Scope Z_scope.

Definition sid := N.

Record sattr := mkattr {
  a_before : Z; a_after : Z; a_orig : Z; a_index : Z;
  a_par : option sid; a_kids : list sid;          (* children in sibling order *)
  a_copied : bool; a_deleted : bool }.

Definition fresh_attr (ci : Z) : sattr := mkattr ci ci ci 0 None [] false false.

Definition amap := sid -> option sattr.
Definition aget (m : amap) (s : sid) : option sattr := m s.
Definition aset (m : amap) (s : sid) (a : sattr) : amap := fun t => if (t =? s)%N then Some a else m t.
Definition adel (m : amap) (s : sid) : amap := fun t => if (t =? s)%N then None else m t.

Record cinfo := mkci { c_before : Z; c_after : Z }.

Record sstate := mkst {
  st_stream : list sid;
  st_attr : amap;
  st_nchars : Z;
  st_deforig : Z;
  st_rtl : bool;                    (* m_dir & 1 *)
  st_cinfo : list cinfo;
  st_lines : list (list sid) }.     (* lines cut off the main stream by linebreak (C19) *)

Definition st0 (nchars : Z) (rtl : bool) : sstate := mkst [] (fun _ => None) nchars 0 rtl [] [].

Inductive op :=
| OAppend (s : sid) (ci : Z)
| OInsert (nw : sid) (at_ : option sid)
| ODelete (s : sid)
| OPutCopy (s ref : sid)
| OTempCopy (nw s : sid)
| OFree (s : sid)
| ODetach (s : sid)
| OAttach (s other : sid) (accepted : bool)
| OAssoc (s : sid) (refs : list (option sid))
| OReverse (marks : list bool)
| OAssocChars
| OLinkClusters.

Inductive err := EUnknownSlot (s : sid) | ENotFresh (s : sid) | ENotInStream (s : sid) | EAttachDecision (s : sid) (model : bool) | EMarks.
Inductive res (A : Type) := Ok (a : A) | Err (e : err).
Arguments Ok {A} a. Arguments Err {A} e.

Definition with_attr (st : sstate) (s : sid) (k : sattr -> res sstate) : res sstate :=
  match aget (st_attr st) s with Some a => k a | None => Err (EUnknownSlot s) end.
Definition upd_attr (st : sstate) (s : sid) (a : sattr) : sstate :=
  mkst (st_stream st) (aset (st_attr st) s a) (st_nchars st) (st_deforig st) (st_rtl st) (st_cinfo st) (st_lines st).
Definition set_stream (st : sstate) (l : list sid) : sstate :=
  mkst l (st_attr st) (st_nchars st) (st_deforig st) (st_rtl st) (st_cinfo st) (st_lines st).

Definition mem (s : sid) (l : list sid) : bool := existsb (fun t => (t =? s)%N) l.
Fixpoint insert_before (nw : sid) (at_ : sid) (l : list sid) : list sid :=
  match l with
  | [] => [nw]
  | x :: r => if (x =? at_)%N then nw :: x :: r else x :: insert_before nw at_ r
  end.
Definition remove (s : sid) (l : list sid) : list sid := filter (fun t => negb (t =? s)%N) l.
Fixpoint prev_of (s : sid) (l : list sid) (p : option sid) : option sid :=
  match l with
  | [] => None
  | x :: r => if (x =? s)%N then p else prev_of s r (Some x)
  end.

(* Slot::child: append to the child chain unless already there *)
Definition add_kid (kids : list sid) (s : sid) : list sid := if mem s kids then kids else kids ++ [s].

(* ---- INSERT *)
Definition do_insert (st : sstate) (nw : sid) (at_ : option sid) : res sstate :=
  match aget (st_attr st) nw with
  | Some _ => Err (ENotFresh nw)
  | None =>
      if mem nw (st_stream st) then Err (ENotFresh nw) else
      let l := st_stream st in
      match at_ with
      | None =>
          (* append after last *)
          let a := match last (map Some l) None with
                   | Some lst => match aget (st_attr st) lst with
                                 | Some la => mkattr (a_before la) (a_after la) (a_orig la) 0 None [] false false
                                 | None => fresh_attr (st_deforig st) end
                   | None => mkattr 0 0 (st_deforig st) 0 None [] false false
                   end in
          Ok (upd_attr (set_stream st (l ++ [nw])) nw a)
      | Some iss =>
          if negb (mem iss l) then Err (ENotInStream iss) else
          with_attr st iss (fun ia =>
            let bef := match prev_of iss l None with
                       | Some p => match aget (st_attr st) p with Some pa => a_after pa | None => a_before ia end
                       | None => a_before ia
                       end in
            Ok (upd_attr (set_stream st (insert_before nw iss l)) nw (mkattr (Z.min bef (a_before ia)) (Z.max bef (a_before ia)) (a_orig ia) 0 None [] false false)))     (* kept in order when the neighbours are associated out of order *)
      end
  end.

(* ---- DELETE *)
Definition do_delete (st : sstate) (s : sid) : res sstate :=
  if negb (mem s (st_stream st)) then Err (ENotInStream s) else
  with_attr st s (fun a =>
    Ok (upd_attr (set_stream st (remove s (st_stream st))) s
          (mkattr (a_before a) (a_after a) (a_orig a) (a_index a) (a_par a) (a_kids a) (a_copied a) true))).

(* ---- PUT_COPY: is := copy of ref, keeping its place in the stream; no children; joins ref's parent's chain *)
Definition do_putcopy (st : sstate) (s ref : sid) : res sstate :=
  with_attr st s (fun sa => with_attr st ref (fun ra =>
    (* a stale temp copy of a slot that was once attached to s still names s as its parent: the copy is then left unattached *)
    let par := match a_par ra with Some p => if (p =? s)%N then None else Some p | None => None end in
    (* the copy keeps its own slot index (positioning passes run after the indices are assigned) *)
    let st1 := upd_attr st s (mkattr (a_before ra) (a_after ra) (a_orig ra) (a_index sa) par [] false false) in
    match par with
    | Some p => with_attr st1 p (fun pa =>
                  Ok (upd_attr st1 p (mkattr (a_before pa) (a_after pa) (a_orig pa) (a_index pa) (a_par pa) (add_kid (a_kids pa) s) (a_copied pa) (a_deleted pa))))
    | None => Ok st1
    end)).

(* ---- TEMP_COPY: a detached copy (keeps the original's parent / child pointers, is in nobody's chain) *)
Definition do_tempcopy (st : sstate) (nw s : sid) : res sstate :=
  match aget (st_attr st) nw with
  | Some _ => Err (ENotFresh nw)
  | None => with_attr st s (fun a =>
      Ok (upd_attr st nw (mkattr (a_before a) (a_after a) (a_orig a) (a_index a) (a_par a) (a_kids a) true (a_deleted a))))
  end.

(* Slot::removeChild *)
Definition remove_kid (st : sstate) (p s : sid) : sstate :=
  match aget (st_attr st) p with
  | Some pa => upd_attr st p (mkattr (a_before pa) (a_after pa) (a_orig pa) (a_index pa) (a_par pa) (remove s (a_kids pa)) (a_copied pa) (a_deleted pa))
  | None => st
  end.
Definition set_par (st : sstate) (s : sid) (p : option sid) : sstate :=
  match aget (st_attr st) s with
  | Some a => upd_attr st s (mkattr (a_before a) (a_after a) (a_orig a) (a_index a) p (a_kids a) (a_copied a) (a_deleted a))
  | None => st
  end.

(* ---- Segment::freeSlot *)
Fixpoint free_kids (fuel : nat) (st : sstate) (s : sid) : sstate :=
  match fuel with
  | O => st
  | S fuel' =>
      match aget (st_attr st) s with
      | Some a =>
          match a_kids a with
          | [] => st
          | k :: _ =>
              match aget (st_attr st) k with
              | Some ka => if match a_par ka with Some p => (p =? s)%N | None => false end
                           then free_kids fuel' (remove_kid (set_par st k None) s k) s
                           else upd_attr st s (mkattr (a_before a) (a_after a) (a_orig a) (a_index a) (a_par a) [] (a_copied a) (a_deleted a))
              | None => upd_attr st s (mkattr (a_before a) (a_after a) (a_orig a) (a_index a) (a_par a) [] (a_copied a) (a_deleted a))
              end
          end
      | None => st
      end
  end.
Definition do_free (st : sstate) (s : sid) : res sstate :=
  match aget (st_attr st) s with
  | None => Ok st                                  (* freeing a slot the trace never introduced (the initial spare slot) *)
  | Some a =>
      let st1 := match a_par a with Some p => remove_kid st p s | None => st end in
      let st2 := free_kids (S (length (a_kids a))) st1 s in
      Ok (mkst (remove s (st_stream st2)) (adel (st_attr st2) s) (st_nchars st2) (st_deforig st2) (st_rtl st2) (st_cinfo st2) (st_lines st2))
  end.

(* ---- attach *)
Fixpoint chain_up (fuel : nat) (m : amap) (s : sid) : list sid :=      (* s, parent s, ... *)
  match fuel with
  | O => []
  | S fuel' => s :: match m s with Some a => match a_par a with Some p => chain_up fuel' m p | None => [] end | None => [] end
  end.
Fixpoint first_child_depth (fuel : nat) (m : amap) (s : sid) : nat :=
  match fuel with
  | O => O
  | S fuel' => match m s with Some a => match a_kids a with k :: _ => S (first_child_depth fuel' m k) | [] => O end | None => O end
  end.
Definition do_detach (st : sstate) (s : sid) : res sstate :=
  with_attr st s (fun a => match a_par a with
                           | Some p => Ok (set_par (remove_kid st p s) s None)
                           | None => Ok st end).
Definition do_attach (st : sstate) (s other : sid) (accepted : bool) : res sstate :=
  with_attr st s (fun a => with_attr st other (fun oa =>
    let up := chain_up 200 (st_attr st) other in
    let found := mem s up in
    let count := (length up + first_child_depth 200 (st_attr st) s)%nat in
    let acc := (count <? 100)%nat && negb found in
    if negb (Bool.eqb acc accepted) then Err (EAttachDecision s acc)
    else if negb acc then Ok st
    else
      let st1 := upd_attr st other (mkattr (a_before oa) (a_after oa) (a_orig oa) (a_index oa) (a_par oa) (add_kid (a_kids oa) s) (a_copied oa) (a_deleted oa)) in
      Ok (set_par st1 s (Some other)))).

(* ---- ASSOC *)
Definition do_assoc (st : sstate) (s : sid) (refs : list (option sid)) : res sstate :=
  with_attr st s (fun a =>
    let step (mm : Z * Z) (r : option sid) :=
      match r with
      | None => mm
      | Some t => match aget (st_attr st) t with
                  | Some ta => (if (fst mm =? -1) || (a_before ta <? fst mm) then a_before ta else fst mm,
                                if snd mm <? a_after ta then a_after ta else snd mm)
                  | None => mm
                  end
      end in
    let '(mn, mx) := fold_left step refs (-1, -1) in
    if -1 <? mn then Ok (upd_attr st s (mkattr mn mx (a_orig a) (a_index a) (a_par a) (a_kids a) (a_copied a) (a_deleted a)))
    else Ok st).

(* ---- reverseSlots: leading marks stay; then the clusters (a non-mark and the marks that follow it) in reverse order *)
Fixpoint take_marks (l : list (sid * bool)) : list (sid * bool) * list (sid * bool) :=
  match l with
  | (s, true) :: r => let '(m, rest) := take_marks r in ((s, true) :: m, rest)
  | _ => ([], l)
  end.
Fixpoint clusters (fuel : nat) (l : list (sid * bool)) : list (list sid) :=
  match fuel with
  | O => []
  | S fuel' =>
      match l with
      | [] => []
      | (s, _) :: r => let '(m, rest) := take_marks r in (s :: map fst m) :: clusters fuel' rest
      end
  end.
Definition rev_keep_marks (l : list sid) (marks : list bool) : list sid :=
  let lm := combine l marks in
  let '(lead, rest) := take_marks lm in
  map fst lead ++ concat (rev (clusters (S (length rest)) rest)).
Definition do_reverse (st : sstate) (marks : list bool) : res sstate :=
  if negb (length marks =? length (st_stream st))%nat then Err EMarks
  else match st_stream st with
       | [] | [_] => Ok st                                  (* if (m_first == m_last) return; *)
       | l => Ok (set_stream st (rev_keep_marks l marks))
       end.

(* ---- associateChars(0, nchars) *)
Fixpoint set_indices (m : amap) (l : list sid) (i : Z) : amap :=
  match l with
  | [] => m
  | s :: r => let m' := match m s with
                        | Some a => aset m s (mkattr (a_before a) (a_after a) (a_orig a) i (a_par a) (a_kids a) (a_copied a) (a_deleted a))
                        | None => m end in
              set_indices m' r (i + 1)
  end.
Definition ci_upd (cs : list cinfo) (j : Z) (f : cinfo -> cinfo) : list cinfo :=
  if j <? 0 then cs else
  (fix go (l : list cinfo) (k : nat) : list cinfo :=
     match l, k with
     | [], _ => []
     | c :: r, O => f c :: r
     | c :: r, S k' => c :: go r k'
     end) cs (Z.to_nat j).
Definition ci_get (cs : list cinfo) (j : Z) : option cinfo := if j <? 0 then None else nth_error cs (Z.to_nat j).
(* first loop: for each slot (index i) and each char j in [before, after]: widen the char's slot range *)
Fixpoint span (fuel : nat) (cs : list cinfo) (j hi i : Z) : list cinfo :=
  match fuel with
  | O => cs
  | S fuel' => if hi <? j then cs
               else span fuel' (ci_upd cs j (fun c => mkci (if (c_before c =? -1) || (i <? c_before c) then i else c_before c)
                                                         (if c_after c <? i then i else c_after c))) (j + 1) hi i
  end.
Fixpoint assoc_pass1 (m : amap) (l : list sid) (i : Z) (cs : list cinfo) : list cinfo :=
  match l with
  | [] => cs
  | s :: r => let cs' := match m s with
                         | Some a => if a_before a <? 0 then cs
                                     else span (S (Z.to_nat (a_after a - a_before a + 1))) cs (a_before a) (a_after a) i
                         | None => cs end in
              assoc_pass1 m r (i + 1) cs'
  end.
(* second loop: extend each slot's range over the characters nobody claimed (forward for after, backward for before) *)
Fixpoint ext_after (fuel : nat) (cs : list cinfo) (a n idx : Z) : list cinfo * Z :=
  match fuel with
  | O => (cs, a - 1)
  | S fuel' => if (a <? n) && (match ci_get cs a with Some c => c_after c <? 0 | None => false end)
               then ext_after fuel' (ci_upd cs a (fun c => mkci (c_before c) idx)) (a + 1) n idx
               else (cs, a - 1)
  end.
Fixpoint ext_before (fuel : nat) (cs : list cinfo) (a idx : Z) : list cinfo * Z :=
  match fuel with
  | O => (cs, a + 1)
  | S fuel' => if (0 <=? a) && (match ci_get cs a with Some c => c_before c <? 0 | None => false end)
               then ext_before fuel' (ci_upd cs a (fun c => mkci idx (c_after c))) (a - 1) idx
               else (cs, a + 1)
  end.
Fixpoint assoc_pass2 (m : amap) (l : list sid) (n : Z) (cs : list cinfo) : amap * list cinfo :=
  match l with
  | [] => (m, cs)
  | s :: r =>
      match m s with
      | Some a =>
          let '(cs1, na) := ext_after (S (Z.to_nat n)) cs (a_after a + 1) n (a_index a) in
          let '(cs2, nb) := ext_before (S (Z.to_nat n)) cs1 (a_before a - 1) (a_index a) in
          assoc_pass2 (aset m s (mkattr nb na (a_orig a) (a_index a) (a_par a) (a_kids a) (a_copied a) (a_deleted a))) r n cs2
      | None => assoc_pass2 m r n cs
      end
  end.
(* third loop: a character reached from one side only (its slot was deleted and nothing re-associated it) gets both sides *)
Definition ci_both_sides (c : cinfo) : cinfo :=
  if c_before c <? 0 then mkci (c_after c) (c_after c) else if c_after c <? 0 then mkci (c_before c) (c_before c) else c.
Definition do_assocchars (st : sstate) : res sstate :=
  let n := st_nchars st in
  let m1 := set_indices (st_attr st) (st_stream st) 0 in
  let cs0 := repeat (mkci (-1) (-1)) (Z.to_nat n) in
  let cs1 := assoc_pass1 (st_attr st) (st_stream st) 0 cs0 in         (* pass 1 reads before/after; indices are being assigned *)
  let '(m2, cs2) := assoc_pass2 m1 (st_stream st) n cs1 in
  Ok (mkst (st_stream st) m2 n (st_deforig st) (st_rtl st) (map ci_both_sides cs2) (st_lines st)).

Definition do_append (st : sstate) (s : sid) (ci : Z) : res sstate :=
  match aget (st_attr st) s with
  | Some _ => Err (ENotFresh s)
  | None => if mem s (st_stream st) then Err (ENotFresh s)
            else Ok (upd_attr (set_stream st (st_stream st ++ [s])) s (fresh_attr ci))
  end.

Definition apply_op (st : sstate) (o : op) : res sstate :=
  match o with
  | OAppend s ci => do_append st s ci
  | OInsert nw at_ => do_insert st nw at_
  | ODelete s => do_delete st s
  | OPutCopy s ref => do_putcopy st s ref
  | OTempCopy nw s => do_tempcopy st nw s
  | OFree s => do_free st s
  | ODetach s => do_detach st s
  | OAttach s other acc => do_attach st s other acc
  | OAssoc s refs => do_assoc st s refs
  | OReverse marks => do_reverse st marks
  | OAssocChars => do_assocchars st
  | OLinkClusters => Ok st
  end.

Fixpoint run_ops (st : sstate) (ops : list op) : res sstate :=
  match ops with
  | [] => Ok st
  | o :: r => match apply_op st o with Ok st' => run_ops st' r | Err e => Err e end
  end.
