(* Model/TableModel.v — (1) the life cycle of Face::Table (src/Face.cpp, src/inc/Face.h): construction through get_table with
   the CheckTable / decompress paths, move construction, move assignment, destruction; (2) the ledger an application sees:
   an acceptor of get / release / milestone traces.  No proofs here. *)
From GR Require Import Base.Bytes.
From Coq Require Import NArith Bool.
Local Open Scope N_scope.

(* ------------------------------------------------------------------ (1) Face::Table *)
Inductive owner := App (h : N) | Heap (b : N).                    (* a buffer lent by the application, or allocated by decompress *)
Record tvar := mktvar { t_p : option owner; t_comp : bool }.       (* _p (None = null) and _compressed *)
Definition tnull : tvar := mktvar None false.

(* the world outside the variables: buffers currently lent by the application, buffers on the library's heap, and a flag that
   turns true on any misuse (release of something not lent, free of something not allocated, a buffer of the wrong kind) *)
Record world := mkworld { w_lent : list N; w_heap : list N; w_bad : bool; w_next : N }.
Definition winit : world := mkworld [] [] false 0.

Fixpoint remove_first (x : N) (l : list N) : option (list N) :=
  match l with
  | [] => None
  | y :: r => if x =? y then Some r else match remove_first x r with Some r' => Some (y :: r') | None => None end
  end.

(* Face::Table::release(): if (_compressed) free(_p); else if (_p && release_table) release_table(_p);  _p = 0 *)
Definition release (has_rel : bool) (w : world) (t : tvar) : world * tvar :=
  let w' :=
    if t_comp t then
      match t_p t with
      | None => w                                                    (* free(NULL) *)
      | Some (Heap b) => match remove_first b (w_heap w) with Some hp => mkworld (w_lent w) hp (w_bad w) (w_next w) | None => mkworld (w_lent w) (w_heap w) true (w_next w) end
      | Some (App _) => mkworld (w_lent w) (w_heap w) true (w_next w)   (* free() of an application buffer *)
      end
    else
      match t_p t with
      | None => w
      | Some (App h) => if has_rel then
                          match remove_first h (w_lent w) with Some l => mkworld l (w_heap w) (w_bad w) (w_next w) | None => mkworld (w_lent w) (w_heap w) true (w_next w) end
                        else w                                       (* no release callback: the application keeps it *)
      | Some (Heap _) => mkworld (w_lent w) (w_heap w) true (w_next w)  (* release_table() of a heap buffer *)
      end in
  (w', mktvar None (t_comp t)).

(* what the table bytes make the constructor do *)
Inductive content :=
| CAbsent                        (* get_table returns NULL *)
| CBadCheck                      (* CheckTable fails *)
| CPlain                         (* version below the compression threshold, or scheme NONE, or too short to decompress *)
| CLz4 (ok : bool).              (* scheme LZ4: decompression succeeds / fails (bad data, size < 4, out of memory, version mismatch) *)

(* Table(face, tag, version) *)
Definition construct (has_rel : bool) (w : world) (c : content) : world * tvar :=
  match c with
  | CAbsent => (w, mktvar None false)           (* CheckTable(NULL) fails; release() of a null pointer does nothing *)
  | _ =>
    let h := w_next w in
    let w1 := mkworld (h :: w_lent w) (w_heap w) (w_bad w) (h + 1) in
    let t1 := mktvar (Some (App h)) false in
    match c with
    | CBadCheck => release has_rel w1 t1
    | CPlain => (w1, t1)
    | CLz4 ok =>
        let b := w_next w1 in
        let w2 := mkworld (w_lent w1) (b :: w_heap w1) (w_bad w1) (b + 1) in          (* gralloc *)
        let '(w3, _) := release has_rel w2 t1 in                                      (* release(): the compressed form goes back *)
        if ok then (w3, mktvar (Some (Heap b)) true)
        else (match remove_first b (w_heap w3) with Some hp => mkworld (w_lent w3) hp (w_bad w3) (w_next w3) | None => mkworld (w_lent w3) (w_heap w3) true (w_next w3) end,
              mktvar None true)                                                       (* free(uncompressed_table); _p = 0; _compressed = true *)
    | CAbsent => (w, tnull)
    end
  end.

(* programs over a store of table variables *)
Inductive top :=
| TNew (dst : nat) (c : content)        (* dst = Face::Table(face, tag): construct a temporary, move-assign, destroy the temporary *)
| TMove (dst src : nat)                 (* dst = std::move(src) *)
| TClear (dst : nat).                   (* dst = Face::Table()  /  the destructor *)

Fixpoint set_nth (n : nat) (v : tvar) (l : list tvar) : list tvar :=
  match n, l with
  | _, [] => []
  | O, _ :: r => v :: r
  | S k, x :: r => x :: set_nth k v r
  end.

(* operator=(Table && rhs): if (this == &rhs) return; release(); new (this) Table(move(rhs))  — rhs._p = 0, its flag stays *)
Definition assign (has_rel : bool) (w : world) (vars : list tvar) (dst : nat) (src : tvar) : world * list tvar * tvar :=
  let '(w1, _) := release has_rel w (nth dst vars tnull) in
  (w1, set_nth dst (mktvar (t_p src) (t_comp src)) vars, mktvar None (t_comp src)).

Definition tstep (has_rel : bool) (st : world * list tvar) (o : top) : world * list tvar :=
  let '(w, vars) := st in
  match o with
  | TNew dst c =>
      if Nat.ltb dst (length vars) then
        let '(w1, tmp) := construct has_rel w c in
        let '(w2, vars2, tmp2) := assign has_rel w1 vars dst tmp in
        let '(w3, _) := release has_rel w2 tmp2 in                                    (* ~Table() of the temporary *)
        (w3, vars2)
      else st
  | TMove dst src =>
      if Nat.ltb dst (length vars) && Nat.ltb src (length vars) && negb (Nat.eqb dst src) then
        let '(w1, vars1, src') := assign has_rel w vars dst (nth src vars tnull) in
        (w1, set_nth src src' vars1)
      else st
  | TClear dst =>
      if Nat.ltb dst (length vars) then
        let '(w1, t') := release has_rel w (nth dst vars tnull) in (w1, set_nth dst t' vars)
      else st
  end.

Definition trun (has_rel : bool) (n : nat) (ops : list top) : world * list tvar :=
  fold_left (tstep has_rel) ops (winit, repeat tnull n).
(* destroy every variable *)
Definition tfinish (has_rel : bool) (st : world * list tvar) : world * list tvar :=
  fold_left (tstep has_rel) (map TClear (seq 0 (length (snd st)))) st.

(* ------------------------------------------------------------------ (2) the application's ledger *)
Inductive ev :=
| EGet (h : N)            (* get_table returned buffer h (fresh id) *)
| ERel (h : N)            (* release_table(h) *)
| EMade                   (* gr_make_face returned a face *)
| EFailed                 (* gr_make_face returned NULL *)
| EDestroyed              (* gr_face_destroy returned *)
| ENull.                  (* get_table was called and returned NULL (table absent) *)

Record lg := mklg { lg_out : list N; lg_seen : list N; lg_made : bool; lg_closed : bool }.
Definition lg0 : lg := mklg [] [] false false.

Fixpoint mem (x : N) (l : list N) : bool := match l with [] => false | y :: r => (x =? y) || mem x r end.

(* one event; None = the discipline is broken *)
Definition lstep (preload : bool) (s : lg) (e : ev) : option lg :=
  if lg_closed s then None                                                            (* nothing may happen after destroy / failed creation *)
  else match e with
  | EGet h => if mem h (lg_seen s) then None
              else if preload && lg_made s then None                                  (* preloadAll: no get_table after gr_make_face returned *)
              else Some (mklg (h :: lg_out s) (h :: lg_seen s) (lg_made s) false)
  | ERel h => match remove_first h (lg_out s) with Some o => Some (mklg o (lg_seen s) (lg_made s) false) | None => None end
  | EMade => if lg_made s then None else Some (mklg (lg_out s) (lg_seen s) true false)
  | EFailed => if lg_made s then None else match lg_out s with [] => Some (mklg [] (lg_seen s) false true) | _ => None end
  | EDestroyed => if lg_made s then match lg_out s with [] => Some (mklg [] (lg_seen s) true true) | _ => None end else None
  | ENull => if preload && lg_made s then None else Some s                            (* a call is a call, even when nothing is handed out *)
  end.

Fixpoint lrun (preload : bool) (s : lg) (tr : list ev) : option lg :=
  match tr with [] => Some s | e :: r => match lstep preload s e with None => None | Some s' => lrun preload s' r end end.
Fixpoint lbad_at (preload : bool) (s : lg) (tr : list ev) (i : N) : option N :=
  match tr with [] => None | e :: r => match lstep preload s e with None => Some i | Some s' => lbad_at preload s' r (i + 1) end end.
Definition ledger_ok (preload : bool) (tr : list ev) : bool :=
  match lrun preload lg0 tr with Some s => lg_closed s | None => false end.
