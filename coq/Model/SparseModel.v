(* Model/SparseModel.v — graphite2::sparse (src/inc/Sparse.h, src/Sparse.cpp): the glyph-attribute store.  A table of chunks
   (a 48-bit presence mask and the index of the chunk's first value) in front of the packed non-zero values, all in one array
   of 16-bit words.  The mask is a list of booleans, most significant bit first, so that bit j stands for key 48*c + j.
   No proofs here. *)
From GR Require Import Base.Bytes.
From Coq Require Import NArith Bool.
Local Open Scope N_scope.

Definition CHUNK : N := 48.                       (* SIZEOF_CHUNK = (sizeof(unsigned long) - sizeof(uint16)) * 8; tied by Gen/GenLoop.v *)
Definition WORDS_PER_CHUNK : N := 4.              (* sizeof(chunk) / sizeof(uint16) *)

Record chunk := mkchunk { c_mask : list bool; c_off : N }.
Record sparse := mksparse { sp_n : N; sp_chunks : list chunk; sp_vals : list N }.      (* m_nchunks; the chunk table; the values after the table *)
Definition header (s : sparse) : N := N.max 1 (sp_n s) * WORDS_PER_CHUNK.     (* with no chunk at all the map is the static empty chunk *)

Definition zero_mask : list bool := repeat false 48.
Fixpoint set_bit (l : list bool) (j : nat) : list bool :=
  match l, j with
  | [], _ => []
  | _ :: r, O => true :: r
  | b :: r, S k => b :: set_bit r k
  end.
Fixpoint upd_chunk (l : list chunk) (i : nat) (f : chunk -> chunk) : list chunk :=
  match l, i with
  | [], _ => []
  | c :: r, O => f c :: r
  | c :: r, S k => c :: upd_chunk r k f
  end.
Fixpoint count_true (l : list bool) : N := match l with [] => 0 | b :: r => (if b then 1 else 0) + count_true r end.

(* the constructor's first loop: strictly increasing keys among the non-zero entries, and the number of chunks *)
Fixpoint scan (ps : list (N * N)) (last : option N) (nch nvals : N) : option (N * N) :=
  match ps with
  | [] => Some (nch, nvals)
  | (k, v) :: r =>
      if v =? 0 then scan r last nch nvals
      else if match last with Some l => k <=? l | None => false end then None      (* v.first <= lastkey: the map stays null *)
      else scan r (Some k) (N.max nch (k / CHUNK + 1)) (nvals + 1)
  end.

(* the second loop: [ci] is the chunk being filled, [vi] the index (in the word array) of the next value *)
Fixpoint fill (ps : list (N * N)) (chunks : list chunk) (ci : N) (vi : N) (vals : list N) : list chunk * list N :=
  match ps with
  | [] => (chunks, vals)
  | (k, v) :: r =>
      if v =? 0 then fill r chunks ci vi vals
      else
        let c := k / CHUNK in
        let chunks1 := if c =? ci then chunks else upd_chunk chunks (N.to_nat c) (fun ch => mkchunk (c_mask ch) vi) in
        let chunks2 := upd_chunk chunks1 (N.to_nat c) (fun ch => mkchunk (set_bit (c_mask ch) (N.to_nat (k mod CHUNK))) (c_off ch)) in
        fill r chunks2 c (vi + 1) (vals ++ [v])
  end.

Definition build (ps : list (N * N)) : option sparse :=
  match scan ps None 0 0 with
  | None => None
  | Some (nch, _) =>
      if nch =? 0 then Some (mksparse 0 [mkchunk zero_mask 0] [])                  (* &empty_chunk *)
      else
        let h := nch * WORDS_PER_CHUNK in
        let chunks0 := upd_chunk (repeat (mkchunk zero_mask 0) (N.to_nat nch)) 0 (fun ch => mkchunk (c_mask ch) h) in
        let '(chunks, vals) := fill ps chunks0 0 h [] in
        Some (mksparse nch chunks vals)
  end.

(* operator[]: the index of the word it reads, and the value it returns.  The word array is the table (header s words) followed by
   the values; reading word 0 stands for the branch-free g = 0 path (values[0], multiplied by 0). *)
Definition lookup_index (s : sparse) (k : N) : N :=
  let g := if k / CHUNK <? sp_n s then 1 else 0 in
  let c := nth (N.to_nat (g * k / CHUNK)) (sp_chunks s) (mkchunk zero_mask 0) in
  let j := N.to_nat (k mod CHUNK) in
  let bit := nth j (c_mask c) false in
  let g2 := if bit then g else 0 in
  g2 * (c_off c + count_true (firstn j (c_mask c))).
Definition word (s : sparse) (i : N) : option N :=
  if i <? header s then Some 0 (* a word of the chunk table: its content is irrelevant, it is multiplied by 0 *)
  else nth_error (sp_vals s) (N.to_nat (i - header s)).
Definition lookup (s : sparse) (k : N) : option N :=
  let i := lookup_index s k in
  match word s i with
  | None => None                                            (* a read outside the array *)
  | Some w => Some (if i =? 0 then 0 else w)
  end.

(* what the store means *)
Fixpoint spec (ps : list (N * N)) (k : N) : N :=
  match ps with [] => 0 | (k', v) :: r => if (k' =? k) && negb (v =? 0) then v else spec r k end.
Definition capacity (s : sparse) : N := fold_right (fun c a => count_true (c_mask c) + a) 0 (sp_chunks s).
