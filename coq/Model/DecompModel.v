(* Model/DecompModel.v — Face::Table::decompress (src/Face.cpp): what the loader does with a table whose version asks for the
   compressed form.  The header announces a scheme (top 5 bits of the second word) and the size of the data (low 27 bits); for LZ4 a
   block of exactly that size is allocated, its first four bytes are cleared, the decoder of Model/Lz4Model.v runs into it, and the
   result is accepted when the decoder produced exactly the announced size and the data starts with the table's version word.
   [heap] is what the freshly allocated block holds (anything); reads and writes are the checked [read_at] / [write_at] of
   Lz4Model: one outside the block is TTrap.  No proofs here. *)
From GR Require Import Base.Bytes Model.Lz4Model.
From Coq Require Import NArith List Arith Bool.
Import ListNotations.

Inductive terr := E_BADSIZE | E_OUTOFMEM | E_BADSCHEME | E_SHRINKERFAILED.
Inductive tres :=
| TPlain                     (* scheme 0: the table is used as it is *)
| TReject (e : terr)         (* the table is dropped (the face does without it or is refused) *)
| TOk (out : list N)         (* the table is replaced by the decoded data *)
| TTrap.                     (* a read or a write outside a buffer *)

Definition be32l (l : list N) (i : nat) : N :=
  (nth i l 0 * 16777216 + nth (i + 1) l 0 * 65536 + nth (i + 2) l 0 * 256 + nth (i + 3) l 0)%N.
Definition announced (t : list N) : nat := N.to_nat (be32l t 4 mod 134217728).        (* hdr & 0x07ffffff *)
Definition scheme (t : list N) : N := (be32l t 4 / 134217728)%N.                      (* hdr >> 27 *)

Definition table_decompress (t : list N) (heap : list N) : tres :=
  if length t <? 20 then TPlain else        (* decompress returns E_BADSIZE here; the constructor ignores the error and the table stays as it is *)
  if (scheme t =? 0)%N then TPlain else
  if negb (scheme t =? 1)%N then TReject E_BADSCHEME else
  let osz := announced t in
  if osz <? 4 then TReject E_OUTOFMEM                      (* refused BEFORE the block is touched *)
  else
    match write_at heap 0 [0; 0; 0; 0]%N with              (* memset(uncompressed_table, 0, 4) *)
    | None => TTrap
    | Some out0 =>
        match decompress (skipn 8 t) osz out0 with
        | Trap | OutOfFuel => TTrap
        | Fail => TReject E_SHRINKERFAILED
        | Ok n out => if negb (n =? osz) then TReject E_SHRINKERFAILED
                      else if (be32l out 0 =? be32l t 0)%N then TOk out else TReject E_SHRINKERFAILED
        end
    end.

(* Face::Table::Table(face, tag, version): a table shorter than four bytes is dropped by the generic table check; one whose version
   word is below [vmin] (the first version of that table that may be compressed) is used as it is; anything else goes through
   decompress *)
Definition table_open (t : list N) (vmin : N) (heap : list N) : tres :=
  if length t <? 4 then TReject E_BADSIZE else
  if (be32l t 0 <? vmin)%N then TPlain else table_decompress t heap.
