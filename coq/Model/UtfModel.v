(* Model/UtfModel.v — executable model of src/inc/UtfCodec.h (_utf_codec<8|16|32>::get/put/validate),
   count_unicode_chars (src/gr_segment.cpp) and the text reading loop process_utf_data (src/Segment.cpp).
   Memory is a list of code units; a decoder sees the suffix starting at its cursor; reading beyond the
   end of the list is the trap [None].  No proofs in this file. *)
From GR Require Import Base.Bytes.
Local Open Scope N_scope.

Definition units := list N.

(* ---------------------------------------------------------------- UTF-8 *)
Definition sz_lut : list N := [1;1;1;1;1;1;1;1; 0;0;0;0; 2;2; 3; 4].
Definition mask_lut : list N := [0x7f; 0xff; 0x3f; 0x1f; 0x0f].
Definition limit : N := 0x110000.
Definition is_surrogate (u : N) : bool := (0xD800 <=? u) && (u <? 0xE000).

Definition is_cont (b : N) : bool := N.shiftr b 6 =? 2.
Definition seq_sz (b : N) : N := nth (N.to_nat (N.shiftr b 4)) sz_lut 0.
Definition lead_mask (sz : N) : N := nth (N.to_nat sz) mask_lut 0.

(* the fall-through switch of get(): one entry per continuation byte still expected; each is the
   over-long threshold tested after that byte has been merged *)
Definition thresholds (sz : N) : list N :=
  if sz =? 4 then [0x10; 0x20; 0x80] else if sz =? 3 then [0x20; 0x80] else if sz =? 2 then [0x80] else [].

(* result of one get(): scalar, number of units the iterator will step over (|l|), error flag (l < 0) *)
Record got := mkgot { g_usv : N; g_len : nat; g_ok : bool }.

Fixpoint cont_steps (ths : list N) (u : N) (r : units) (l : nat) (toolong : bool) : option (N * nat * bool) :=
  match ths with
  | [] => Some (u, l, toolong)
  | th :: ths' =>
      match r with
      | [] => None                                       (* *++cp outside the region *)
      | b :: r' =>
          let u' := N.lor (N.shiftl u 6) (N.land b 0x3F) in
          if is_cont b then cont_steps ths' u' r' (S l) (toolong || (u' <? th))
          else Some (u', l, toolong)                      (* break *)
      end
  end.

Definition get8 (m : units) : option got :=
  match m with
  | [] => None
  | b0 :: r =>
      let sz := seq_sz b0 in
      if sz =? 0 then Some (mkgot 0xFFFD 1 false)
      else
        match cont_steps (thresholds sz) (N.land b0 (lead_mask sz)) r 1 false with
        | None => None
        | Some (u, l, toolong) =>
            if negb (N.of_nat l =? sz) || toolong || (limit <=? u) || is_surrogate u then Some (mkgot 0xFFFD l false)
            else Some (mkgot u l true)
        end
  end.

(* validate(s,e) on the whole region [s,e): looks at the last one to three units *)
Definition validate8 (m : units) : bool :=
  match rev m with
  | [] => true
  | z :: r1 =>
      if z <? 0x80 then true else if 0xC0 <=? z then false else
      match r1 with
      | [] => true                                        (* n == 1 *)
      | y :: r2 =>
          if y <? 0x80 then true else if 0xE0 <=? y then false else
          match r2 with
          | [] => true                                    (* n == 2 *)
          | x :: _ => if 0xC0 <=? y then true else
                      if x <? 0x80 then true else if 0xF0 <=? x then false else true
          end
      end
  end.

Definition put8 (u : N) : units :=
  if u <? 0x80 then [u]
  else if u <? 0x800 then [0xC0 + N.shiftr u 6; 0x80 + N.land u 0x3F]
  else if u <? 0x10000 then [0xE0 + N.shiftr u 12; 0x80 + N.land (N.shiftr u 6) 0x3F; 0x80 + N.land u 0x3F]
  else [0xF0 + N.shiftr u 18; 0x80 + N.land (N.shiftr u 12) 0x3F; 0x80 + N.land (N.shiftr u 6) 0x3F; 0x80 + N.land u 0x3F].

(* ---------------------------------------------------------------- UTF-16 *)
Definition get16 (m : units) : option got :=
  match m with
  | [] => None
  | uh :: r =>
      if (uh <? 0xD800) || (0xDFFF <? uh) then Some (mkgot uh 1 true)
      else if 0xDBFF <? uh then Some (mkgot 0xFFFD 1 false)
      else match r with
           | [] => None
           | ul :: _ =>
               if (ul <? 0xDC00) || (0xDFFF <? ul) then Some (mkgot 0xFFFD 1 false)
               else (* (uh<<10) + ul + surrogate_offset on uint32; surrogate_offset = 0x10000 - (0xD800<<10) - 0xDC00 *)
                 Some (mkgot ((N.shiftl uh 10 + ul + (0x100000000 + 0x10000 - N.shiftl 0xD800 10 - 0xDC00)) mod 0x100000000) 2 true)
           end
  end.

Definition validate16 (m : units) : bool :=
  match rev m with
  | [] => true
  | u :: _ => (u <? 0xD800) || (0xDBFF <? u)
  end.

Definition put16 (u : N) : units :=
  if u <? 0x10000 then [u]
  else [(0xD800 - 0x40 + N.shiftr u 10) mod 0x10000; 0xDC00 + N.land u 0x3FF].

(* ---------------------------------------------------------------- UTF-32 *)
Definition get32 (m : units) : option got :=
  match m with
  | [] => None
  | c :: _ => if (c <? limit) && negb (is_surrogate c) then Some (mkgot c 1 true) else Some (mkgot 0xFFFD 1 false)
  end.
Definition validate32 (m : units) : bool := true.        (* s <= e *)
Definition put32 (u : N) : units := [u].

(* ---------------------------------------------------------------- count_unicode_chars *)
Section Count.
  Variable get : units -> option got.
  Variable validate : units -> bool.

  (* result: number of characters, error position (index of the unit *pError points at) *)
  Definition cres := (nat * option nat)%type.

  (* loop of the bounded form: for (; first != last; ++first, ++n) if ((usv = *first) == 0 || first.error()) break; *)
  Fixpoint count_loop (fuel : nat) (m : units) (pos n : nat) : option cres :=
    match fuel with
    | O => Some (n, None)      (* unreachable when fuel >= length m; callers supply length m + 1 *)
    | S fuel' =>
        match m with
        | [] => Some (n, None)                              (* first == last; the last get (if any) succeeded *)
        | _ =>
            match get m with
            | None => None
            | Some g =>
                if negb (g_ok g) then Some (n, Some pos)
                else if g_usv g =? 0 then Some (n, None)
                else count_loop fuel' (skipn (g_len g) m) (pos + g_len g) (S n)
            end
        end
    end.

  Definition count_end (m : units) : option cres :=
    if negb (validate m) then Some (0%nat, Some (length m - 1)%nat)
    else count_loop (S (length m)) m 0 0.

  (* the unbounded form (buffer_end == NULL): stops at the first NUL or error; [m] is all the memory there is *)
  Fixpoint count_nul_loop (fuel : nat) (m : units) (pos n : nat) : option cres :=
    match fuel with
    | O => None
    | S fuel' =>
        match get m with
        | None => None
        | Some g =>
            if negb (g_ok g) then Some (n, Some pos)
            else if g_usv g =? 0 then Some (n, None)
            else count_nul_loop fuel' (skipn (g_len g) m) (pos + g_len g) (S n)
        end
    end.
  Definition count_nul (m : units) : option cres := count_nul_loop (S (length m)) m 0 0.

  (* process_utf_data: decode at most n characters, stopping at a NUL scalar; yields (char, base offset) per
     character consumed.  Errors do not stop it (U+FFFD is produced and the iterator resynchronises). *)
  Fixpoint read_text (n : nat) (m : units) (pos : nat) : option (list (N * nat)) :=
    match n with
    | O => Some []
    | S n' =>
        match get m with
        | None => None
        | Some g =>
            if g_usv g =? 0 then Some []                 (* if (usv == 0) break; *)
            else match read_text n' (skipn (g_len g) m) (pos + g_len g) with
                 | None => None
                 | Some l => Some ((g_usv g, pos) :: l)
                 end
        end
    end.
End Count.

(* reference: the scalars of a canonical encoding *)
Definition enc_all (put : N -> units) (us : list N) : units := concat (map put us).
