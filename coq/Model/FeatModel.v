(* Model/FeatModel.v — executable model of the feature machinery:
     FeatureRef constructor (bit-field allocation), applyValToFeature / getFeatureVal, FeatureMap::readFeats,
     SillMap::readSill / cloneFeatures (src/FeatureMap.cpp, src/inc/FeatureMap.h, src/inc/FeatureVal.h, src/inc/bits.h).
   Fixed-width members are written out: bits_offset is an unsigned short, m_index and m_bits are bytes, masks and
   words are uint32.  No proofs here. *)
From GR Require Export Base.Mem.
Local Open Scope N_scope.

Definition W32 : N := 0x100000000.
Definition CHUNK : N := 32.

(* mask_over_val: smear the highest set bit downwards = 2^(bit length) - 1;  bit_set_count of such a mask = bit length *)
Definition mask_over_val (v : N) : N := N.ones (N.size v).
Definition need_bits (mask : N) : N := N.size mask.

Record fref := { f_mask : N; f_max : N; f_bits : N; f_index : N;
                 f_id : N; f_nameid : N; f_flags : N; f_settings : list (N * N) (* (value as uint16, label) *) }.

(* FeatureRef::FeatureRef: allocates the field for a feature with largest value max_val at bits_offset (in/out) *)
Definition ctor (bits_offset max_val id nameid flags : N) (settings : list (N * N)) : fref * N :=
  let mask := mask_over_val max_val in
  let need := need_bits mask in
  let index := (bits_offset + need) / CHUNK in                              (* uint16 m_index: no truncation below 2048 *)
  let bo1 := if bits_offset / CHUNK <? index then (index * CHUNK) mod 65536 else bits_offset in
  let bits := bo1 mod CHUNK in
  let bo2 := (bo1 + need) mod 65536 in                                      (* unsigned short bits_offset *)
  ({| f_mask := (N.shiftl mask bits) mod W32; f_max := max_val; f_bits := bits; f_index := index;
      f_id := id; f_nameid := nameid; f_flags := flags; f_settings := settings |}, bo2).

(* a feature value vector: Vector<uint32> *)
Definition fvec := list N.
Fixpoint upd (l : fvec) (i : nat) (f : N -> N) : fvec :=
  match l, i with
  | [], _ => []
  | w :: r, O => f w :: r
  | w :: r, S i' => w :: upd r i' f
  end.
Definition resize (l : fvec) (n : nat) : fvec := l ++ repeat 0 (n - length l).

(* applyValToFeature (the face / map compatibility test is outside this model: one face) *)
Definition set_val (f : fref) (v : N) (fv : fvec) : option fvec :=
  if f_max f <? v then None
  else
    let i := N.to_nat (f_index f) in
    let fv1 := if Nat.leb (length fv) i then resize fv (S i) else fv in
    Some (upd fv1 i (fun w => N.lor (N.ldiff w (f_mask f)) ((N.shiftl v (f_bits f)) mod W32))).

Definition get_val (f : fref) (fv : fvec) : N :=
  match nth_error fv (N.to_nat (f_index f)) with
  | Some w => N.shiftr (N.land w (f_mask f)) (f_bits f)
  | None => 0
  end.

(* A Features object: the words and the feature map (one per face) they belong to; None = not yet bound, which is what
   gr_featureval_clone(NULL) hands out.  applyValToFeature / getFeatureVal of a feature of face [face]: the range test comes first,
   an unbound object is bound by the first SUCCESSFUL write, an object of another face refuses the write and reads as 0. *)
Record fval := { fv_map : option N; fv_words : fvec }.
Definition blank : fval := {| fv_map := None; fv_words := [] |}.
Definition set_val_on (face : N) (f : fref) (v : N) (x : fval) : option fval :=
  match set_val f v (fv_words x) with
  | None => None
  | Some w =>
      match fv_map x with
      | None => Some {| fv_map := Some face; fv_words := w |}
      | Some m => if m =? face then Some {| fv_map := Some m; fv_words := w |} else None
      end
  end.
Definition get_val_on (face : N) (f : fref) (x : fval) : N :=
  match fv_map x with
  | Some m => if m =? face then get_val f (fv_words x) else 0
  | None => 0
  end.

(* ---------------------------------------------------------------- FeatureMap::readFeats *)
Record featmap := { fm_feats : list fref; fm_defaults : fvec }.
Inductive loadres (A : Type) := LTrap | LReject | LOk (a : A).
Arguments LTrap {A}. Arguments LReject {A}. Arguments LOk {A} a.

Fixpoint read_settings (t : mem) (p : N) (n : nat) : option (list (N * N)) :=
  match n with
  | O => Some []
  | S n' => v <- r16 t p ;; l <- r16 t (p + 2) ;; r <- read_settings t (p + 4) n' ;; Some ((v, l) :: r)
  end.
Definition settings_max (s : list (N * N)) : N := fold_left (fun m vl => if m <? fst vl then fst vl else m) s 0.

(* storage limit enforced by readFeats: bits_offset (an unsigned short) must not come close to wrapping *)
Definition MAX_BITS : N := 0xFF00.

Fixpoint read_feat_loop (t : mem) (v2 : bool) (n : nat) (p bits : N) (acc : list (fref * N)) : loadres (list (fref * N) * N) :=
  match n with
  | O => LOk (rev acc, bits)
  | S n' =>
      match (label <- (if v2 then r32 t p else r16 t p) ;;
             let p1 := if v2 then p + 4 else p + 2 in
             ns <- r16 t p1 ;;
             let p2 := if v2 then p1 + 4 else p1 + 2 in
             so <- r32 t p2 ;;
             fl <- r16 t (p2 + 4) ;;
             ui <- r16 t (p2 + 6) ;;
             Some (label, ns, so, fl, ui, p2 + 8)) with
      | None => LTrap
      | Some (label, ns, so, fl, ui, pnext) =>
          if (tlen t <? so) || (tlen t <? so + ns * 4) then LReject
          else
            match (if ns =? 0 then Some [] else read_settings t so (N.to_nat ns)) with
            | None => LTrap
            | Some sets =>
                let maxv := if ns =? 0 then 0xffffffff else settings_max sets in
                let defv := match sets with [] => 0 | (v, _) :: _ => v end in
                let '(fr, bits') := ctor bits maxv label ui fl sets in
                if MAX_BITS <? bits' then LReject
                else read_feat_loop t v2 n' pnext bits' ((fr, defv) :: acc)
            end
      end
  end.

Definition read_feats (t : mem) : loadres featmap :=
  if tlen t =? 0 then LOk {| fm_feats := []; fm_defaults := [] |}                (* no Feat table *)
  else if tlen t <? 12 then LReject
  else
    match (v <- r32 t 0 ;; n <- r16 t 4 ;; Some (v, n)) with
    | None => LTrap
    | Some (version, n) =>
        if n =? 0 then LOk {| fm_feats := []; fm_defaults := [] |}
        else if (version <? 0x00010000) || (tlen t <? 12 + n * 16) then LReject
        else
          match read_feat_loop t (0x00020000 <=? version) (N.to_nat n) 12 0 [] with
          | LTrap => LTrap
          | LReject => LReject
          | LOk (fds, bits) =>
              let d0 := repeat 0 (N.to_nat (bits / 32 + 1)) in
              let defaults := fold_left (fun fv fd => match set_val (fst fd) (snd fd) fv with Some fv' => fv' | None => fv end) fds d0 in
              LOk {| fm_feats := map fst fds; fm_defaults := defaults |}
          end
    end.

Definition find_fref (fm : featmap) (id : N) : option fref :=
  (* m_pNamedFeats is sorted by id with qsort (not stable); lookups return an entry with that id: the first after sorting.
     For distinct ids this is the feature; duplicate ids are outside the model's determinism and are not generated. *)
  find (fun f => f_id f =? id) (fm_feats fm).

(* ---------------------------------------------------------------- SillMap::readSill *)
Fixpoint apply_lang_settings (t : mem) (fm : featmap) (p : N) (n : nat) (fv : fvec) : option fvec :=
  match n with
  | O => Some fv
  | S n' =>
      name <- r32 t p ;; val <- r16 t (p + 4) ;;
      let fv' := match find_fref fm name with
                 | Some f => match set_val f val fv with Some x => x | None => fv end
                 | None => fv end in
      apply_lang_settings t fm (p + 8) n' fv'
  end.

Fixpoint read_sill_loop (t : mem) (fm : featmap) (n : nat) (p : N) (acc : list (N * fvec)) : loadres (list (N * fvec)) :=
  match n with
  | O => LOk (rev acc)
  | S n' =>
      match (lang <- r32 t p ;; ns <- r16 t (p + 4) ;; off <- r16 t (p + 6) ;; Some (lang, ns, off)) with
      | None => LTrap
      | Some (lang, ns, off) =>
          if (tlen t <? off + 8 * ns) && (0 <? ns) then LReject
          else match apply_lang_settings t fm off (N.to_nat ns) (fm_defaults fm) with
               | None => LTrap
               | Some fv =>
                   let fv' := match find_fref fm 1 with
                              | Some f => match set_val f lang fv with Some x => x | None => fv end
                              | None => fv end in
                   read_sill_loop t fm n' (p + 8) ((lang, fv') :: acc)
               end
      end
  end.

Definition read_sill (t : mem) (fm : featmap) : loadres (list (N * fvec)) :=
  if tlen t =? 0 then LOk []
  else if tlen t <? 12 then LReject
  else match (v <- r32 t 0 ;; n <- r16 t 4 ;; Some (v, n)) with
       | None => LTrap
       | Some (v, n) =>
           if negb (v =? 0x00010000) then LReject
           else if Nat.eqb (length (fm_feats fm)) 0 then LOk []
           else if tlen t <? n * 8 + 12 then LReject
           else read_sill_loop t fm (N.to_nat n) 12 []
       end.

Definition clone_for_lang (fm : featmap) (langs : list (N * fvec)) (lang : N) : fvec :=
  if lang =? 0 then fm_defaults fm
  else match find (fun lf => fst lf =? lang) langs with
       | Some lf => snd lf
       | None => fm_defaults fm
       end.
