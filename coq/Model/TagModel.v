(* Model/TagModel.v — executable model of gr_str_to_tag, gr_tag_to_str (src/gr_face.cpp),
   zeropad (src/gr_face.cpp) and the script-tag strip in makeAndInitialize (src/gr_segment.cpp).
   No proofs here: the model still runs when a proof breaks. *)
From GR Require Import Base.Bytes.
Local Open Scope N_scope.

(* strlen: scans from index 0 for the first zero byte; every inspected index is a checked read.
   [None] = ran off the end of the region (out-of-bounds read). *)
Fixpoint strlen_from (m : bytes) (acc : nat) : option nat :=
  match m with
  | [] => None
  | b :: m' => if b =? 0 then Some acc else strlen_from m' (S acc)
  end.
Definition strlen (m : bytes) : option nat := strlen_from m 0.

(* gr_str_to_tag:  switch (min(strlen(str), 4)) { case 4: res |= uint8(str[3]); case 3: res |= uint8(str[2]) << 8;
                                                 case 2: res |= uint8(str[1]) << 16; case 1: res |= uint8(str[0]) << 24; }
   The reads happen in the order of the fall-through. *)
Definition str_to_tag (m : bytes) : option N :=
  len <- strlen m ;;
  let k := Nat.min len 4 in
  b3 <- (if Nat.leb 4 k then rd8 m 3 else Some 0) ;;
  b2 <- (if Nat.leb 3 k then rd8 m 2 else Some 0) ;;
  b1 <- (if Nat.leb 2 k then rd8 m 1 else Some 0) ;;
  b0 <- (if Nat.leb 1 k then rd8 m 0 else Some 0) ;;
  Some (N.lor (N.lor (N.lor b3 (N.shiftl b2 8)) (N.shiftl b1 16)) (N.shiftl b0 24)).

(* gr_tag_to_str: the list of (offset, byte) stores made through the caller's pointer, in program order *)
Definition tag_to_str (t : N) : list (nat * N) :=
  [ (0%nat, N.land (N.shiftr t 24) 255); (1%nat, N.land (N.shiftr t 16) 255);
    (2%nat, N.land (N.shiftr t 8) 255);  (3%nat, N.land t 255) ].

Fixpoint store (buf : bytes) (i : nat) (v : N) : option bytes :=
  match buf, i with
  | [], _ => None                               (* write outside the caller's buffer *)
  | _ :: r, O => Some (v :: r)
  | b :: r, S i' => r' <- store r i' v ;; Some (b :: r')
  end.
Fixpoint apply_writes (buf : bytes) (ws : list (nat * N)) : option bytes :=
  match ws with
  | [] => Some buf
  | (i, v) :: ws' => b' <- store buf i v ;; apply_writes b' ws'
  end.

(* zeropad, as in gr_face.cpp (on uint32) *)
Definition zeropad (x : N) : N :=
  if x =? 0x20202020 then 0
  else if N.land x 0x00FFFFFF =? 0x00202020 then N.land x 0xFF000000
  else if N.land x 0x0000FFFF =? 0x00002020 then N.land x 0xFFFF0000
  else if N.land x 0x000000FF =? 0x00000020 then N.land x 0xFFFFFF00
  else x.

(* helpers for statements: pad a short tag string to 4 bytes *)
Definition pad_to4 (p : N) (s : bytes) : bytes := s ++ repeat p (4 - length s).
Definition be32_of (l : bytes) : N := be32 (nth0 l 0) (nth0 l 1) (nth0 l 2) (nth0 l 3).
