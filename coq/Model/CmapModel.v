(* Model/CmapModel.v — executable model of the cmap handling:
     TtfUtil::FindCmapSubtable, CheckCmapSubtable4/12, CmapSubtable4/12Lookup, CmapSubtable4/12NextCodepoint (src/TtfUtil.cpp),
     bmp_subtable / smp_subtable / cache_subtable / CachedCmap / DirectCmap (src/CmapCache.cpp).
   The cmap table is a byte list; every read is checked ([None] = read outside the table = trap).  No proofs here. *)
From GR Require Export Base.Mem.
From Coq Require Import FMapPositive.
Local Open Scope N_scope.

(* Face::Table's constructor runs TtfUtil::CheckTable on what the application returned: a cmap shorter than
   sizeof(CharacterCodeMap) = 12 bytes, or whose version is not 0, is released at once and the table is empty. *)
Definition cmap_view (t : mem) : option mem :=
  if tlen t <? 4 then Some mem_empty else
  if tlen t <? 12 then Some mem_empty else
  v <- r16 t 0 ;; Some (if v =? 0 then t else mem_empty).

(* ---------------------------------------------------------------- FindCmapSubtable (length = table size, non-zero) *)
(* result: Some None = NULL, Some (Some off) = pointer to the subtable, None = trap *)
Fixpoint find_loop (t : mem) (plat : N) (enc : option N) (n : N) (fuel : nat) (i : N) : option (option N) :=
  match fuel with
  | O => Some None
  | S fuel' =>
      if n <=? i then Some None else
      pid <- r16 t (4 + 8 * i) ;;
      eid <- r16 t (4 + 8 * i + 2) ;;
      if (pid =? plat) && (match enc with None => true | Some e => eid =? e end) then
        off <- r32 t (4 + 8 * i + 4) ;;
        let len := tlen t in
        if sub64 len 2 <? off then Some None else
        fmt <- r16 t off ;;
        chk4 <- (if fmt =? 4 then
                   if sub64 len 4 <? off then Some false else
                   stl <- r16 t (off + 2) ;;
                   Some (negb (sub64 len off <? stl))            (* the subtable must fit between its offset and the end of the table *)
                 else Some true) ;;
        if negb chk4 then Some None else
        chk12 <- (if fmt =? 12 then
                    if sub64 len 6 <? off then Some false else
                    stl <- r32 t (off + 2) ;;
                    Some (negb (sub64 len off <? stl))
                  else Some true) ;;
        if negb chk12 then Some None else Some (Some off)
      else find_loop t plat enc n fuel' (i + 1)
  end.

Definition find_subtable (t : mem) (plat : N) (enc : option N) : option (option N) :=
  n <- r16 t 2 ;;
  (* sizeof(CharacterCodeMap) + 8 * (n - 1) > length, the product computed in int and converted to size_t *)
  if tlen t <? (12 + S64 - 8 + 8 * n) mod S64 then Some None
  else find_loop t plat enc n (S (N.to_nat n)) 0.

(* ---------------------------------------------------------------- format 4 *)
Definition check4 (t : mem) (st : option N) : option bool :=
  match st with
  | None => Some false
  | Some o =>
      let table_len := sub64 (tlen t) o in
      if table_len <? 6 then Some false else
      fmt <- r16 t o ;;
      if negb (fmt =? 4) then Some false else
      if table_len <? 16 then Some false else
      len <- r16 t (o + 2) ;;
      if table_len <? len then Some false else
      if len <? 16 then Some false else
      sc <- r16 t (o + 6) ;;
      let n := sc / 2 in
      if (n =? 0) || (len <? 16 + 8 * n) then Some false else
      chEnd <- r16 t (o + 14 + 2 * (n - 1)) ;;
      Some (chEnd =? 0xFFFF)
  end.

(* word k of the subtable at o *)
Definition w4 (t : mem) (o k : N) : option N := r16 t (o + 2 * k).

(* binary search of end_code[]: returns the word index of the end_code element (pMid) or none *)
Fixpoint bsearch4 (t : mem) (o c : N) (fuel : nat) (left n : N) : option (option (N * N)) :=
  match fuel with
  | O => Some None
  | S fuel' =>
      if n =? 0 then Some None else
      let cmid := n / 2 in
      let mid := left + cmid in
      chEnd <- w4 t o mid ;;
      if c <=? chEnd then
        if cmid =? 0 then Some (Some (mid, chEnd))
        else prev <- w4 t o (mid - 1) ;;
             if prev <? c then Some (Some (mid, chEnd)) else bsearch4 t o c fuel' left cmid
      else bsearch4 t o c fuel' (mid + 1) (n - (cmid + 1))
  end.

Definition lookup4 (t : mem) (o c key : N) : option N :=
  sc <- w4 t o 3 ;;
  let nseg := sc / 2 in
  found <- (if negb (key =? 0) then chEnd <- w4 t o (7 + key) ;; Some (Some (7 + key, chEnd))
            else bsearch4 t o c (S (N.to_nat (N.log2 nseg + 2))) 7 nseg) ;;
  match found with
  | None => Some 0
  | Some (mid, chEnd) =>
      let ms := mid + nseg + 1 in
      chStart <- w4 t o ms ;;
      if (c <=? chEnd) && (chStart <=? c) then
        delta <- w4 t o (ms + nseg) ;;
        ro <- w4 t o (ms + nseg + nseg) ;;
        if ro =? 0 then Some ((delta + c) mod 65536)
        else
          let off := (c - chStart) + ro / 2 + (ms + nseg + nseg) in
          len <- w4 t o 1 ;;
          if len <=? off * 2 + 1 then Some 0 else
          g <- w4 t o off ;;
          Some (if g =? 0 then 0 else (g + delta) mod 65536)
      else Some 0
  end.

Fixpoint dec_while (fuel : nat) (f : N -> option bool) (i : N) : option N :=      (* while (i > 0 && f i) i-- *)
  match fuel with
  | O => Some i
  | S fuel' => if i =? 0 then Some i else b <- f i ;; if b then dec_while fuel' f (i - 1) else Some i
  end.
Fixpoint inc_while (fuel : nat) (f : N -> option bool) (hi i : N) : option N :=   (* while (i < hi && f i) i++ *)
  match fuel with
  | O => Some i
  | S fuel' => if hi <=? i then Some i else b <- f i ;; if b then inc_while fuel' f hi (i + 1) else Some i
  end.

(* CmapSubtable4NextCodepoint: returns (next code point, new range key) *)
Definition next4 (t : mem) (o c key : N) : option (N * N) :=
  sc <- w4 t o 3 ;;
  let n := sc / 2 in
  let startw := 7 + n + 1 in
  if c =? 0 then s0 <- w4 t o startw ;; Some (s0, 0)
  else if 0xFFFF <=? c then Some (0xFFFF, (n + 0x100000000 - 1) mod 0x100000000)
  else
    i1 <- dec_while (S (N.to_nat key)) (fun i => s <- w4 t o (startw + i) ;; Some (c <? s)) key ;;
    i2 <- inc_while (S (N.to_nat n)) (fun i => e <- w4 t o (7 + i) ;; Some (e <? c)) (n - 1) i1 ;;
    s <- w4 t o (startw + i2) ;;
    e <- w4 t o (7 + i2) ;;
    let c' := if c <? s then s - 1 else c in
    if c' <? e then Some (c' + 1, i2)
    else if n <=? i2 + 1 then Some (0xFFFF, i2 + 1)
    else s' <- w4 t o (startw + i2 + 1) ;; Some (s', i2 + 1).

(* ---------------------------------------------------------------- format 12 *)
Definition check12 (t : mem) (st : option N) : option bool :=
  match st with
  | None => Some false
  | Some o =>
      let table_len := sub64 (tlen t) o in
      if table_len <? 6 then Some false else
      fmt <- r16 t o ;;
      if negb (fmt =? 12) then Some false else
      if table_len <? 28 then Some false else
      len <- r32 t (o + 4) ;;
      if table_len <? len then Some false else
      if len <? 28 then Some false else
      ng <- r32 t (o + 12) ;;
      (* length != sizeof + (num_groups - 1) * 12, in 32/64-bit unsigned arithmetic: (ng - 1) is uint32, the product size_t *)
      if (0x10000000 <? ng) || negb (len =? (28 + ((ng + 0x100000000 - 1) mod 0x100000000) * 12) mod S64) then Some false
      else Some true
  end.

Definition grp (t : mem) (o i k : N) : option N := r32 t (o + 16 + 12 * i + 4 * k).

Fixpoint lookup12_loop (t : mem) (o c : N) (fuel : nat) (i n : N) : option N :=
  match fuel with
  | O => Some 0
  | S fuel' =>
      if n <=? i then Some 0 else
      s <- grp t o i 0 ;; e <- grp t o i 1 ;;
      if (s <=? c) && (c <=? e) then g <- grp t o i 2 ;; Some ((g + (c - s)) mod 65536)
      else lookup12_loop t o c fuel' (i + 1) n
  end.
Definition lookup12 (t : mem) (o c key : N) : option N :=
  n <- r32 t (o + 12) ;; lookup12_loop t o c (S (N.to_nat n)) key n.

Definition next12 (t : mem) (o c key : N) : option (N * N) :=
  n <- r32 t (o + 12) ;;
  if c =? 0 then s0 <- grp t o 0 0 ;; Some (s0, 0)
  else if 0x10FFFF <=? c then Some (0x10FFFF, n)
  else
    i1 <- dec_while (S (N.to_nat key)) (fun i => s <- grp t o i 0 ;; Some (c <? s)) key ;;
    i2 <- inc_while (S (N.to_nat n)) (fun i => e <- grp t o i 1 ;; Some (e <? c)) (n - 1) i1 ;;
    s <- grp t o i2 0 ;;
    e <- grp t o i2 1 ;;
    let c' := if c <? s then (s + 0x100000000 - 1) mod 0x100000000 else c in
    if c' <? e then Some (c' + 1, i2)
    else if n <=? i2 + 1 then Some (0x10FFFF, i2 + 1)
    else s' <- grp t o (i2 + 1) 0 ;; Some (s', i2 + 1).

(* ---------------------------------------------------------------- subtable choice *)
Fixpoint first_valid (t : mem) (chk : mem -> option N -> option bool) (cands : list (N * N)) : option (option N) :=
  match cands with
  | [] => Some None
  | (p, e) :: rest =>
      st <- find_subtable t p (Some e) ;;
      ok <- chk t st ;;
      if ok then Some st else first_valid t chk rest
  end.
Definition bmp_subtable (t : mem) : option (option N) :=
  if tlen t =? 0 then Some None else first_valid t check4 [(3, 1); (0, 3); (0, 2); (0, 1); (0, 0)].
Definition smp_subtable (t : mem) : option (option N) :=
  if tlen t =? 0 then Some None else first_valid t check12 [(3, 10); (0, 4)].

(* DirectCmap::operator[] (face creation already required _bmp to be non-null) *)
Definition direct (t : mem) (bmp smp : option N) (c : N) : option N :=
  if 0xFFFF <? c then match smp with Some o => lookup12 t o c 0 | None => Some 0 end
  else match bmp with Some o => lookup4 t o c 0 | None => None end.

(* ---------------------------------------------------------------- the cache *)
Definition cmap := PositiveMap.t N.
Definition cset (m : cmap) (c g : N) : cmap := PositiveMap.add (N.succ_pos c) g m.
Definition cget (m : cmap) (c : N) : N := match PositiveMap.find (N.succ_pos c) m with Some g => g | None => 0 end.

Section Cache.
  Variable nextf : N -> N -> option (N * N).        (* code point -> key -> (next, key') *)
  Variable lookf : N -> N -> option N.              (* code point -> key -> gid *)
  Variable limit : N.
  (* while (codePoint <= limit) { store; if (cp == limit) break; next = cp ? Next(cp,&key) : 0;
                                  if (next <= cp) { next = cp + 1; key = 0; }  cp = next; }
     The loop is iterated with a binary (positive) fuel so that no unary number of the size of the code space is built. *)
  Inductive cstate := CRun (m : cmap) (cp key : N) | CDone (m : cmap) | CTrap.
  Definition cache_step (s : cstate) : cstate :=
    match s with
    | CRun m cp key =>
        if limit <? cp then CDone m else
        match lookf cp key with
        | None => CTrap
        | Some g =>
            let m' := cset m cp g in
            if cp =? limit then CDone m' else
            match (if cp =? 0 then Some (0, key) else nextf cp key) with
            | None => CTrap
            | Some (nx, key') => if nx <=? cp then CRun m' (cp + 1) 0 else CRun m' nx key'
            end
        end
    | _ => s
    end.
  Definition cache_fuel : positive := 0x200000.
  Definition cache_run (s : cstate) : cstate := Pos.iter cache_step s cache_fuel.
  Definition cache_result (s : cstate) : option (option cmap) :=
    match s with
    | CDone m' => Some (Some m')
    | CRun _ _ _ => Some None          (* out of fuel: excluded by the termination theorem *)
    | CTrap => None
    end.
  Definition cache_subtable (m : cmap) : option (option cmap) :=
    match nextf 0 0 with
    | None => None
    | Some (c0, k0) => cache_result (cache_run (CRun m c0 k0))
    end.
End Cache.

(* CachedCmap: the supplementary planes are filled from the format-12 subtable; the BMP blocks are then emptied and filled from the
   format-4 subtable alone; without a format-4 subtable there is no cache (and no face), as with DirectCmap. *)
Record ccache := { cc_smp : cmap; cc_bmp : option cmap }.
Definition cached_build (t : mem) (bmp smp : option N) : option (option ccache) :=
  m1 <- (match smp with
         | Some o => cache_subtable (next12 t o) (lookup12 t o) 0x10FFFF (PositiveMap.empty N)
         | None => Some (Some (PositiveMap.empty N)) end) ;;
  match m1 with
  | None => Some None
  | Some ms => match bmp with
               | Some o => mb <- cache_subtable (next4 t o) (lookup4 t o) 0xFFFF (PositiveMap.empty N) ;;
                           Some (match mb with Some b => Some {| cc_smp := ms; cc_bmp := Some b |} | None => None end)
               | None => Some None                                  (* as DirectCmap: no face without a BMP subtable *)
               end
  end.
Definition cached (m : ccache) (bmp_only : bool) (c : N) : N :=
  if (bmp_only && (0xFFFF <? c)) || (0x10FFFF <? c) then 0
  else if c <=? 0xFFFF then match cc_bmp m with Some b => cget b c | None => cget (cc_smp m) c end
  else cget (cc_smp m) c.
