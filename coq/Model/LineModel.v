(* Model/LineModel.v — list-level model of what line breaking and justification do to the glyph stream:
   gr_slot_linebreak_before (src/gr_slot.cpp), Segment::reverseSlots as Segment::justify and positionSlots use it — it is
   segment-global: it follows next from m_first to the first NULL and rewrites m_first / m_last — and the temporary first /
   last that Segment::justify installs and restores (src/Justifier.cpp).  Lines are the maximal next-chains; line heads are
   remembered by the application.  No proofs here. *)
From GR Require Import Base.Bytes Model.StreamModel.
From Coq Require Import ZArith.

Record lstate := mkl { l_lines : list (list sid); l_first : option sid; l_last : option sid }.

Inductive lop :=
| LBreak (p : sid)                         (* gr_slot_linebreak_before(p) *)
| LReverse (marks : list bool)             (* reverseSlots(): marks of the chain starting at m_first, in chain order *)
| LSetEnds (f l : option sid).             (* m_first = f; m_last = l *)

Inductive lerr := LNoSuchSlot | LBreakAtHead | LStaleLast | LNoChain | LMarks.
Inductive lres := LOk (s : lstate) | LErr (e : lerr).

Fixpoint split_at (p : sid) (l : list sid) : option (list sid * list sid) :=
  match l with
  | [] => None
  | x :: r => if (x =? p)%N then Some ([], x :: r)
              else match split_at p r with Some (a, b) => Some (x :: a, b) | None => None end
  end.
Fixpoint break_lines (p : sid) (ls : list (list sid)) : option (list (list sid)) :=
  match ls with
  | [] => None
  | l :: rest =>
      match split_at p l with
      | Some ([], _) => None                                  (* p is a line head: prev is NULL in the real call *)
      | Some (a, b) => Some (a :: b :: rest)
      | None => match break_lines p rest with Some r => Some (l :: r) | None => None end
      end
  end.

Definition head_is (f : option sid) (l : list sid) : bool :=
  match f, l with Some s, x :: _ => (x =? s)%N | _, _ => false end.
Definition last_is (f : option sid) (l : list sid) : bool :=
  match f, last (map Some l) None with Some s, Some x => (x =? s)%N | _, _ => false end.

(* reverse the chain that starts at m_first; sound only when m_last is really the end of that chain *)
Fixpoint reverse_chain (f lst : option sid) (marks : list bool) (ls : list (list sid)) : option (option (list (list sid) * list sid)) :=
  match ls with
  | [] => None                                                (* m_first heads no recorded line *)
  | l :: rest =>
      if head_is f l then
        if negb (last_is lst l) then Some None                (* stale m_last *)
        else if negb (Nat.eqb (length marks) (length l)) then None
        else let l' := match l with [] | [_] => l | _ => rev_keep_marks l marks end in Some (Some (l' :: rest, l'))
      else match reverse_chain f lst marks rest with
           | Some (Some (r, l')) => Some (Some (l :: r, l'))
           | Some None => Some None
           | None => None
           end
  end.

Definition lapply (s : lstate) (o : lop) : lres :=
  match o with
  | LBreak p => match break_lines p (l_lines s) with
                | Some ls => LOk (mkl ls (l_first s) (l_last s))
                | None => LErr LBreakAtHead
                end
  | LReverse marks =>
      if match l_first s, l_last s with Some a, Some b => (a =? b)%N | None, None => true | _, _ => false end
      then LOk s                                              (* if (m_first == m_last) return; *)
      else
      match reverse_chain (l_first s) (l_last s) marks (l_lines s) with
      | Some (Some (ls, l')) => LOk (mkl ls (hd_error l') (last (map Some l') None))
      | Some None => LErr LStaleLast
      | None => LErr LNoChain
      end
  | LSetEnds f l => LOk (mkl (l_lines s) f l)
  end.

Fixpoint lrun (s : lstate) (ops : list lop) : lres :=
  match ops with
  | [] => LOk s
  | o :: r => match lapply s o with LOk s' => lrun s' r | LErr e => LErr e end
  end.

Definition linit (l : list sid) : lstate := mkl [l] (hd_error l) (last (map Some l) None).
