(* Model/RuleModel.v — reference semantics of a pass of rules in the GDL-lite subset (doc/GTF.adoc; src/Pass.cpp findNDoRule /
   runFSM / testConstraint / doAction, src/inc/opcodes.h for the action opcodes), over a glyph stream as a list.
   A rule has a pattern of glyph sets with [pre] items of pre-context, actions per item from the pre-context on, and leaves the
   cursor after its window.  Precedence: longest pattern (sort key) first, then earliest rule.  No proofs here. *)
From GR Require Import Base.Bytes Model.PosModel Model.LoopModel.
From Coq Require Import NArith ZArith Bool.
Local Open Scope N_scope.

(* a slot: glyph, advance.x, shift; and for positioning passes the attachment: parent and children as stream indices (the
   stream has a fixed length there: positioning passes may neither insert nor delete), attach point and with point *)
Record slot := mkslot0 { s_gid : N; s_adv : Z; s_shx : Z; s_shy : Z; s_par : option nat; s_kids : list nat; s_atx : Z; s_aty : Z; s_wx : Z; s_wy : Z; s_user : list Z }.
(* s_user: the user-defined slot attributes (Silf numUser of them; two in the compiled fonts) *)
Definition mkslot (g : N) (a sx : Z) : slot := mkslot0 g a sx 0 None [] 0 0 0 0 [0; 0]%Z.
Definition set_gid_adv (s : slot) (g : N) (a : Z) : slot := mkslot0 g a (s_shx s) (s_shy s) (s_par s) (s_kids s) (s_atx s) (s_aty s) (s_wx s) (s_wy s) (s_user s).
Definition set_adv (s : slot) (a : Z) : slot := set_gid_adv s (s_gid s) a.
Definition set_shx (s : slot) (v : Z) : slot := mkslot0 (s_gid s) (s_adv s) v (s_shy s) (s_par s) (s_kids s) (s_atx s) (s_aty s) (s_wx s) (s_wy s) (s_user s).
Definition set_shy (s : slot) (v : Z) : slot := mkslot0 (s_gid s) (s_adv s) (s_shx s) v (s_par s) (s_kids s) (s_atx s) (s_aty s) (s_wx s) (s_wy s) (s_user s).
Definition set_att (s : slot) (x y : Z) : slot := mkslot0 (s_gid s) (s_adv s) (s_shx s) (s_shy s) (s_par s) (s_kids s) x y (s_wx s) (s_wy s) (s_user s).
Definition set_with (s : slot) (x y : Z) : slot := mkslot0 (s_gid s) (s_adv s) (s_shx s) (s_shy s) (s_par s) (s_kids s) (s_atx s) (s_aty s) x y (s_user s).
Definition set_par (s : slot) (p : option nat) : slot := mkslot0 (s_gid s) (s_adv s) (s_shx s) (s_shy s) p (s_kids s) (s_atx s) (s_aty s) (s_wx s) (s_wy s) (s_user s).
Fixpoint set_nthz (l : list Z) (k : nat) (v : Z) : list Z := match l, k with [], _ => [] | _ :: r, O => v :: r | x :: r, S j => x :: set_nthz r j v end.
Definition set_user (s : slot) (k : nat) (v : Z) : slot := mkslot0 (s_gid s) (s_adv s) (s_shx s) (s_shy s) (s_par s) (s_kids s) (s_atx s) (s_aty s) (s_wx s) (s_wy s) (set_nthz (s_user s) k v).
(* put_copy: everything of the source slot except its place in the stream and its attachment links *)
Definition copy_of (src cur : slot) : slot := mkslot0 (s_gid src) (s_adv src) (s_shx src) (s_shy src) (s_par cur) (s_kids cur) (s_atx src) (s_aty src) (s_wx src) (s_wy src) (s_user src).
Definition set_kids (s : slot) (k : list nat) : slot := mkslot0 (s_gid s) (s_adv s) (s_shx s) (s_shy s) (s_par s) k (s_atx s) (s_aty s) (s_wx s) (s_wy s) (s_user s).

Inductive act :=
| APutGlyph (g : N)                                   (* put_glyph: the glyph becomes g, the advance that of g *)
| APutSubs (ref : Z) (incls outcls : list N)          (* put_subs: index of the glyph of item (this + ref) in incls selects from outcls *)
| ADelete                                             (* delete this item *)
| AInsert (g : N)                                     (* insert a slot with glyph g before this item *)
| ASetAdv (v : Z)                                     (* attr_set advance.x *)
| ASetShift (v : Z)                                   (* attr_set shift.x *)
| ASetShiftY (v : Z)                                  (* attr_set shift.y *)
| AAttach (ref : Z)                                   (* attr_set_slot att_to: attach this item to item (this + ref) — positioning passes *)
| AAttPt (x y : Z)                                    (* attr_set att_x / att_y *)
| AWithPt (x y : Z)                                   (* attr_set with_x / with_y *)
| APutCopy (ref : Z)                                  (* put_copy: this item becomes a copy of item (this + ref) as it was when the rule fired *)
| ASetUser (k : nat) (v : Z)                          (* iattr_set user attribute k *)
| AAssoc (refs : list Z).                             (* assoc: the character association of this item becomes that of the referenced items (no effect on glyphs
                                                         or positions, but the loader counts the item as changed) *)

(* an optional rule constraint: the advance of window item [c_item] compared with a constant (cntxt_item + push_slot_attr) *)
Inductive cmp := CLt | CGt | CEq.
Record con := mkcon0 { c_item : nat; c_cmp : cmp; c_val : Z; c_user : option nat; c_gattr : option (list (N * Z)); c_const : option Z }.
(* c_user = Some k: the test is on user attribute k instead of the advance; c_gattr = Some column: on a glyph attribute of the item's glyph, given as
   the column (glyph, value) of that attribute in the font's Glat table (0 where absent); c_const = Some v: on a value that does not depend on the
   stream (a feature value of the segment) *)
Definition mkcon (i : nat) (c : cmp) (v : Z) : con := mkcon0 i c v None None None.
Record rule := mkrule0 { r_pre : nat; r_pat : list (list N); r_acts : list (list act); r_con : option con; r_ret : Z }.
(* r_ret: the value the action returns: the cursor moves that many slots from the end of the window (0 = stay there) *)
Definition mkrule (pre : nat) (pat : list (list N)) (acts : list (list act)) (c : option con) : rule := mkrule0 pre pat acts c 0.
Definition r_sort (r : rule) : nat := length (r_pat r).

Section Pass.
  Variable adv : N -> Z.                              (* the design advance of a glyph (hmtx), an oracle *)

  Fixpoint mem (x : N) (l : list N) : bool := match l with [] => false | y :: r => (x =? y) || mem x r end.
  Fixpoint index_of (x : N) (l : list N) (i : nat) : option nat := match l with [] => None | y :: r => if x =? y then Some i else index_of x r (S i) end.

  (* does the pattern match the stream from position 0 of [l] *)
  Fixpoint matches_from (pat : list (list N)) (l : list slot) : bool :=
    match pat, l with
    | [], _ => true
    | _ :: _, [] => false
    | c :: pr, s :: lr => mem (s_gid s) c && matches_from pr lr
    end.

  Fixpoint lookup_col (g : N) (col : list (N * Z)) : Z := match col with [] => 0%Z | (g', v) :: r => if g =? g' then v else lookup_col g r end.
  (* rule r matches with the cursor at index i of l: its window starts r_pre r slots before the cursor *)
  Definition con_holds (c : option con) (window : list slot) : bool :=
    match c with
    | None => true
    | Some k => match nth_error window (c_item k) with
                | None => true                                    (* an item outside the rule: the test is never reached *)
                | Some s => let x := match c_const k, c_gattr k, c_user k with
                                     | Some v, _, _ => v
                                     | None, Some col, _ => lookup_col (s_gid s) col
                                     | None, None, Some u => nth u (s_user s) 0%Z
                                     | None, None, None => s_adv s
                                     end in
                            match c_cmp k with CLt => (x <? c_val k)%Z | CGt => (c_val k <? x)%Z | CEq => (x =? c_val k)%Z end
                end
    end.
  Definition rule_matches (r : rule) (l : list slot) (i : nat) : bool :=
    Nat.leb (r_pre r) i && Nat.ltb (r_pre r) (r_sort r) && matches_from (r_pat r) (skipn (i - r_pre r) l)
    && con_holds (r_con r) (firstn (r_sort r) (skipn (i - r_pre r) l)).

  (* best rule: longest sort key, then lowest index *)
  Fixpoint select (rules : list rule) (l : list slot) (i : nat) (k : nat) (best : option (nat * rule)) : option (nat * rule) :=
    match rules with
    | [] => best
    | r :: rest =>
        let best' := if rule_matches r l i then
                       match best with
                       | Some (_, b) => if Nat.ltb (r_sort b) (r_sort r) then Some (k, r) else best
                       | None => Some (k, r)
                       end
                     else best in
        select rest l i (S k) best'
    end.

  (* ---- what a reference inside an action reads.  The loader inserts a TEMP_COPY at the start of an item's code when the item is both
     changed by a put operation (put_glyph, put_subs, put_copy from elsewhere; also the put_glyph of a slot inserted in front of the
     NEXT item, an artefact of the loader's bookkeeping) and referenced from its own or a later item: such an item is read as it was
     when the rule fired.  Every other item is read live: with the attribute changes its own actions have already made. *)
  Fixpoint has_put (acts : list act) : bool :=
    match acts with [] => false | APutGlyph _ :: _ => true | APutSubs _ _ _ :: _ => true | AAssoc _ :: _ => true | APutCopy ref :: r => negb (ref =? 0)%Z || has_put r | _ :: r => has_put r end.
  Fixpoint has_ins (acts : list act) : bool := match acts with [] => false | AInsert _ :: _ => true | _ :: r => has_ins r end.
  Fixpoint refs_of (acts : list act) : list Z :=
    match acts with [] => [] | APutSubs ref _ _ :: r => ref :: refs_of r | APutCopy ref :: r => ref :: refs_of r | _ :: r => refs_of r end.
  Fixpoint refd_from (acts : list (list act)) (j : nat) (q : nat) : bool :=      (* some item j, j+1, ... refers to window item q *)
    match acts with
    | [] => false
    | al :: rest => existsb (fun ref => (Z.of_nat j + ref =? Z.of_nat q)%Z) (refs_of al) || refd_from rest (S j) q
    end.
  Definition tempc (r : rule) (q : nat) : bool :=
    if Nat.ltb q (r_pre r) then false else
    let qi := (q - r_pre r)%nat in
    (has_put (nth qi (r_acts r) []) || has_ins (nth (S qi) (r_acts r) [])) && refd_from (skipn qi (r_acts r)) q q.
  Definition read_src (r : rule) (orig : list slot) (live : nat -> option slot) (j : nat) (ref : Z) : option slot :=
    let q := (Z.of_nat j + ref)%Z in
    if (q <? 0)%Z then None else
    let qn := Z.to_nat q in
    if negb (Nat.ltb qn (r_sort r)) then None
    else if tempc r qn then nth_error orig qn else live qn.

  (* ---- positioning passes: the stream keeps its length; actions update slots in place and may attach them *)
  Fixpoint upd (l : list slot) (k : nat) (f : slot -> slot) : list slot :=
    match l, k with
    | [], _ => []
    | s :: r, O => f s :: r
    | s :: r, S k' => s :: upd r k' f
    end.
  Fixpoint chain_up (fuel : nat) (l : list slot) (k : nat) : list nat :=          (* k, parent k, ... *)
    match fuel with
    | O => []
    | S f => k :: match nth_error l k with Some s => match s_par s with Some p => chain_up f l p | None => [] end | None => [] end
    end.
  Fixpoint first_child_depth (fuel : nat) (l : list slot) (k : nat) : nat :=
    match fuel with
    | O => O
    | S f => match nth_error l k with Some s => match s_kids s with c :: _ => S (first_child_depth f l c) | [] => O end | None => O end
    end.
  Fixpoint memn (x : nat) (l : list nat) : bool := match l with [] => false | y :: r => Nat.eqb x y || memn x r end.
  Fixpoint removen (x : nat) (l : list nat) : list nat := match l with [] => [] | y :: r => if Nat.eqb x y then r else y :: removen x r end.

  (* Slot::setAttr(gr_slatAttTo): attach slot c to slot t *)
  Definition attach (l : list slot) (c t : nat) : list slot :=
    match nth_error l c, nth_error l t with
    | Some sc, Some st_ =>
        if Nat.eqb c t || match s_par sc with Some p => Nat.eqb p t | None => false end then l
        else
          let l1 := match s_par sc with
                    | Some p => upd (upd l p (fun s => set_kids s (removen c (s_kids s)))) c (fun s => set_par s None)
                    | None => l end in
          let up := chain_up 200 l1 t in
          let count := (length up + first_child_depth 200 l1 c)%nat in
          if Nat.ltb count 100 && negb (memn c up) then
            let l2 := upd l1 t (fun s => set_kids s (s_kids s ++ [c])) in
            upd l2 c (fun s => let s1 := set_par s (Some t) in
                               if Nat.ltb c t then set_with s1 (s_adv s) 0                   (* idx > subindex: the target follows *)
                               else set_att s1 (match nth_error l1 t with Some ts => s_adv ts | None => 0%Z end) 0)
          else l1
    | _, _ => l
    end.

  Fixpoint apply_acts_pos (r : rule) (orig : list slot) (st j : nat) (acts : list act) (l : list slot) : list slot :=
    match acts with
    | [] => l
    | a :: rest =>
        let k := (st + j)%nat in
        let l' := match a with
                  | APutGlyph g => upd l k (fun s => set_gid_adv s g (adv g))
                  | APutSubs ref incls outcls =>
                      match read_src r orig (fun q => nth_error l (st + q)) j ref with
                      | None => l
                      | Some s0 => let g := match index_of (s_gid s0) incls 0 with Some ix => nth ix outcls 0 | None => 0 end in
                                   upd l k (fun s => set_gid_adv s g (adv g))
                      end
                  | ASetAdv v => upd l k (fun s => set_adv s v)
                  | ASetShift v => upd l k (fun s => set_shx s v)
                  | ASetShiftY v => upd l k (fun s => set_shy s v)
                  | AAttPt x y => upd l k (fun s => set_att s x y)
                  | AWithPt x y => upd l k (fun s => set_with s x y)
                  | AAttach ref => let q := (Z.of_nat k + ref)%Z in if (q <? 0)%Z then l else attach l k (Z.to_nat q)
                  | ASetUser u v => upd l k (fun s => set_user s u v)
                  | APutCopy ref =>
                      match read_src r orig (fun q => nth_error l (st + q)) j ref with
                      | Some s0 => if (ref =? 0)%Z then l else upd l k (fun s => copy_of s0 s)
                      | None => l
                      end
                  | ADelete | AInsert _ | AAssoc _ => l                                      (* the loader refuses insert / delete in positioning passes *)
                  end in
        apply_acts_pos r orig st j rest l'
    end.
  Fixpoint apply_items_pos (r : rule) (orig : list slot) (st j : nat) (n : nat) (acts : list (list act)) (l : list slot) : list slot :=
    match n with
    | O => l
    | S n' => let al := match acts with a :: _ => a | [] => [] end in
              apply_items_pos r orig st (S j) n' (match acts with _ :: ar => ar | [] => [] end) (apply_acts_pos r orig st j al l)
    end.
  Definition fire_pos (r : rule) (l : list slot) (i : nat) : list slot * nat :=
    let st := (i - r_pre r)%nat in
    let window := firstn (r_sort r) (skipn st l) in
    (apply_items_pos r window st (r_pre r) (r_sort r - r_pre r) (r_acts r) l, (st + r_sort r)%nat).

  (* ---- the rule loop of Pass::runGraphite in full: cursor adjustment (r_ret), the high-water mark, highpassed, the loop counter.
     Slots are addressed by their index in the stream; None is the null pointer. *)
  (* the resources an INSERT draws on: the insert budget (SlotMap::m_maxSize) and the segment's pool of free slots (Segment::newSlot:
     slots come in blocks of a_bs; when the pool is empty a new block is refused once the stream holds more than a_cap slots) *)
  Record alloc := mkalloc { a_bud : nat; a_free : nat; a_bs : nat; a_cap : nat }.
  Definition set_bud (a : alloc) (n : nat) : alloc := mkalloc n (a_free a) (a_bs a) (a_cap a).
  Definition set_free (a : alloc) (f : nat) : alloc := mkalloc (a_bud a) f (a_bs a) (a_cap a).
  Definition newslot (a : alloc) (len : nat) : option alloc :=
    match a_free a with
    | O => if Nat.ltb (a_cap a) len then None else Some (set_free a (a_bs a - 1))
    | S f => Some (set_free a f)
    end.
  Record lstate := mkls0 { ls_l : list slot; ls_s : option nat; ls_hw : option nat; ls_hp : bool; ls_lc : nat; ls_b : option alloc; ls_dead : bool }.
  (* ls_b: the remaining insert budget and the slot pool (None = not tracked); ls_dead: an INSERT found it exhausted (the machine DIEs and gr_make_seg fails) *)
  Definition mkls (l : list slot) (s hw : option nat) (hp : bool) (lc : nat) : lstate := mkls0 l s hw hp lc None false.
  Definition nxt (l : list slot) (k : nat) : option nat := if Nat.ltb (S k) (length l) then Some (S k) else None.
  Definition prv (k : nat) : option nat := match k with O => None | S j => Some j end.
  Definition oeq (a : option nat) (k : nat) : bool := match a with Some x => Nat.eqb x k | None => false end.
  Fixpoint insert_at (l : list slot) (k : nat) (x : slot) : list slot :=
    match k, l with
    | O, _ => x :: l
    | S j, [] => [x]
    | S j, y :: r => y :: insert_at r j x
    end.
  Fixpoint remove_at (l : list slot) (k : nat) : list slot :=
    match l, k with
    | [], _ => []
    | _ :: r, O => r
    | y :: r, S j => y :: remove_at r j
    end.

  (* one item of a substitution rule executed at absolute index pos (the slot `is`): inserts, the item's own actions, delete, NEXT.
     Returns the stream, the index of `is` after NEXT, the high-water index and highpassed. *)
  Fixpoint do_inserts (acts : list act) (l : list slot) (pos : nat) (hw : option nat) (hp : bool) (b : option alloc) : list slot * nat * option nat * bool * option alloc * bool :=
    match acts with
    | [] => (l, pos, hw, hp, b, false)
    | AInsert g :: rest =>
        (* INSERT: if (smap.decMax() <= 0) DIE; newSlot = seg.newSlot(); if (!newSlot) DIE; if (is == highwater) highpassed = false;
           the new slot goes in front of `is`; then PUT_GLYPH; NEXT (the new slot is not the high-water slot) *)
        let b1 := match b with Some a => Some (set_bud a (a_bud a - 1)%nat) | None => None end in
        if match b with Some a => Nat.leb (a_bud a) 1 | None => false end then (l, pos, hw, hp, b1, true) else
        match (match b1 with Some a => match newslot a (length l) with Some a' => Some (Some a') | None => None end | None => Some None end) with
        | None => (l, pos, hw, hp, b1, true)
        | Some b2 =>
            let hp1 := if oeq hw pos then false else hp in
            let hw1 := match hw with Some h => if Nat.leb pos h then Some (S h) else Some h | None => None end in
            do_inserts rest (insert_at l pos (mkslot g (adv g) 0)) (S pos) hw1 hp1 b2
        end
    | _ :: rest => do_inserts rest l pos hw hp b
    end.
  Fixpoint has_delete (acts : list act) : bool := match acts with [] => false | ADelete :: _ => true | _ :: r => has_delete r end.
  Fixpoint own_acts (rd : slot -> Z -> option slot) (acts : list act) (cur : slot) : slot :=
    match acts with
    | [] => cur
    | a :: rest =>
        let cur' := match a with
                    | APutGlyph g => set_gid_adv cur g (adv g)
                    | APutSubs ref incls outcls =>
                        match rd cur ref with
                        | None => cur
                        | Some s0 => let g := match index_of (s_gid s0) incls 0 with Some ix => nth ix outcls 0 | None => 0 end in set_gid_adv cur g (adv g)
                        end
                    | ASetAdv v => set_adv cur v
                    | ASetShift v => set_shx cur v
                    | ASetShiftY v => set_shy cur v
                    | AAttPt x y => set_att cur x y
                    | AWithPt x y => set_with cur x y
                    | ASetUser u v => set_user cur u v
                    | APutCopy ref => match rd cur ref with Some s0 => if (ref =? 0)%Z then cur else copy_of s0 cur | None => cur end
                    | _ => cur
                    end in
        own_acts rd rest cur'
    end.
  Definition do_item (r : rule) (orig done : list slot) (j : nat) (acts : list act) (l : list slot) (pos : nat) (hw : option nat) (hp : bool) (b : option alloc)
    : list slot * nat * option nat * bool * list slot * option alloc * bool :=
    let '(l1, pos1, hw1, hp1, b0, dead) := do_inserts acts l pos hw hp b in
    if dead then (l1, pos1, hw1, hp1, done, b0, true) else
    (* TEMP_COPY (a slot that this rule both changes and refers to): newSlot = seg.newSlot(); if (!newSlot) DIE *)
    match (if tempc r j then match b0 with Some a => match newslot a (length l1) with Some a' => Some (Some a') | None => None end | None => Some None end else Some b0) with
    | None => (l1, pos1, hw1, hp1, done, b0, true)
    | Some b1 =>
    let cur0 := match nth_error l1 pos1 with Some s => s | None => mkslot 0 0 0 end in
    let live := fun (c : slot) (q : nat) => if Nat.ltb q j then nth_error done q else if Nat.eqb q j then Some c else nth_error orig q in
    let cur1 := own_acts (fun c ref => read_src r orig (live c) j ref) acts cur0 in
    let l2 := upd l1 pos1 (fun _ => cur1) in
    let done' := done ++ [cur1] in
    if has_delete acts then
      (* DELETE: if (is == highwater) highwater = is->next; unlink; is = is->prev (if any).  NEXT: if (is == highwater) highpassed = true; is = is->next *)
      let hw2 := if oeq hw1 pos1 then (if Nat.ltb (S pos1) (length l2) then Some (S pos1) else None) else hw1 in
      let l3 := remove_at l2 pos1 in
      let hw3 := match hw2 with Some h => if Nat.ltb pos1 h then Some (h - 1)%nat else Some h | None => None end in
      let hp3 := match prv pos1 with Some p => if oeq hw3 p then true else hp1 | None => hp1 end in
      (l3, pos1, hw3, hp3, done', b1, false)
    else
      (l2, S pos1, hw1, (if oeq hw1 pos1 then true else hp1), done', b1, false)
    end.
  Fixpoint do_items (r : rule) (orig done : list slot) (j n : nat) (acts : list (list act)) (l : list slot) (pos : nat) (hw : option nat) (hp : bool) (b : option alloc)
    : list slot * nat * option nat * bool * option alloc * bool :=
    match n with
    | O => (l, pos, hw, hp, b, false)
    | S n' => let al := match acts with a :: _ => a | [] => [] end in
              let '(l1, pos1, hw1, hp1, done1, b1, dead) := do_item r orig done j al l pos hw hp b in
              if dead then (l1, pos1, hw1, hp1, b1, true)
              else do_items r orig done1 (S j) n' (match acts with _ :: ar => ar | [] => [] end) l1 pos1 hw1 hp1 b1
    end.
  (* a positioning item: actions in place (attachment included), then NEXT *)
  Fixpoint do_items_pos (r : rule) (orig : list slot) (st j n : nat) (acts : list (list act)) (l : list slot) (hw : option nat) (hp : bool) : list slot * option nat * bool :=
    match n with
    | O => (l, hw, hp)
    | S n' => let al := match acts with a :: _ => a | [] => [] end in
              let l1 := apply_acts_pos r orig st j al l in
              do_items_pos r orig st (S j) n' (match acts with _ :: ar => ar | [] => [] end) l1 hw (if oeq hw (st + j) then true else hp)
    end.

  (* firing a substitution rule with the cursor at i: the stream afterwards and the new cursor (just after the rewritten window) *)
  Definition fire (r : rule) (l : list slot) (i : nat) : list slot * nat :=
    let stw := (i - r_pre r)%nat in
    let window := firstn (r_sort r) (skipn stw l) in
    let '(l', pos', _, _, _, _) := do_items r window (firstn (r_pre r) window) (r_pre r) (r_sort r - r_pre r) (r_acts r) l i None false None in
    (l', pos').

  (* the pass: scan left to right; [fuel] bounds the number of steps *)
  Fixpoint run_pass (positioning : bool) (fuel : nat) (rules : list rule) (l : list slot) (i : nat) : list slot :=
    match fuel with
    | O => l
    | S f =>
        if Nat.leb (length l) i then l
        else match select rules l i 0 None with
             | Some (_, r) => let '(l', i') := if positioning then fire_pos r l i else fire r l i in run_pass positioning f rules l' i'
             | None => run_pass positioning f rules l (S i)
             end
    end.

  Definition pass_fuel (l : list slot) : nat := S (length l).

  (* passes in font order; the first [nsubst] are substitution passes, the rest positioning passes *)
  Fixpoint run_passes_from (k nsubst : nat) (passes : list (list rule)) (l : list slot) : list slot :=
    match passes with
    | [] => l
    | p :: rest => run_passes_from (S k) nsubst rest (run_pass (Nat.leb nsubst k) (pass_fuel l) p l 0)
    end.
  Definition run_passes (nsubst : nat) (passes : list (list rule)) (l : list slot) : list slot := run_passes_from 0 nsubst passes l.

  (* Pass::adjustSlot *)
  Fixpoint back (n : nat) (s : option nat) (hw : option nat) (hp : bool) : option nat * bool :=
    match n with
    | O => (s, hp)
    | S n' => match s with
              | None => (None, hp)
              | Some k => let s' := prv k in back n' s' hw (if hp && (match s', hw with Some a, Some b => Nat.eqb a b | None, None => true | _, _ => false end) then false else hp)
              end
    end.
  Fixpoint fwd (n : nat) (l : list slot) (s : option nat) (hw : option nat) (hp : bool) : option nat * bool :=
    match n with
    | O => (s, hp)
    | S n' => match s with
              | None => (None, hp)
              | Some k => fwd n' l (nxt l k) hw (if oeq hw k then true else hp)
              end
    end.
  Definition adjust (l : list slot) (delta : Z) (s : option nat) (hw : option nat) (hp : bool) : option nat * bool :=
    let '(s1, d1, hp1) :=
      match s with
      | Some _ => (s, delta, hp)
      | None =>
          if hp || (match hw with None => true | Some _ => false end) then
            let last := match length l with O => None | S m => Some m end in
            (last, (delta + 1)%Z, if (match hw with None => true | Some h => oeq last h end) then false else hp)
          else ((match l with [] => None | _ => Some O end), (delta - 1)%Z, hp)
      end in
    if (d1 <? 0)%Z then back (Z.to_nat (- d1)) s1 hw hp1
    else if (0 <? d1)%Z then fwd (Z.to_nat d1) l s1 hw hp1
    else (s1, hp1).

  (* SlotMap::collectGarbage at the end of a rule returns to the pool the temp copies and the deleted slots the slot map still names
     (a slot that was temp-copied and then deleted is not among them: its map entry names the copy) *)
  Fixpoint nfree (r : rule) (j : nat) (acts : list (list act)) : nat :=
    match acts with
    | [] => O
    | al :: rest => ((if tempc r j then 1 else if has_delete al then 1 else 0) + nfree r (S j) rest)%nat
    end.
  Definition give_back (r : rule) (b : option alloc) : option alloc :=
    match b with Some a => Some (set_free a (a_free a + nfree r (r_pre r) (firstn (r_sort r - r_pre r) (r_acts r)))%nat) | None => None end.
  Definition loop_step (positioning : bool) (maxloop : nat) (rules : list rule) (st : lstate) : lstate :=
    match ls_s st with
    | None => st
    | Some i =>
        let l := ls_l st in
        let '(l1, s1, hw1, hp1, b1, dead) :=
          match select rules l i 0 None with
          | None => (l, nxt l i, ls_hw st, ls_hp st, ls_b st, false)
          | Some (_, r) =>
              let stw := (i - r_pre r)%nat in
              let window := firstn (r_sort r) (skipn stw l) in
              let n := (r_sort r - r_pre r)%nat in
              if positioning then
                let '(l', hw', hp') := do_items_pos r window stw (r_pre r) n (r_acts r) l (ls_hw st) false in
                let out := if Nat.ltb (stw + r_sort r) (length l') then Some (stw + r_sort r)%nat else None in
                let '(s', hp'') := adjust l' (r_ret r) out hw' hp' in (l', s', hw', hp'', ls_b st, false)
              else
                let '(l', pos', hw', hp', b', dead) := do_items r window (firstn (r_pre r) window) (r_pre r) n (r_acts r) l i (ls_hw st) false (ls_b st) in
                if dead then (l', None, hw', hp', b', true) else
                let out := if Nat.ltb pos' (length l') then Some pos' else None in
                let '(s', hp'') := adjust l' (r_ret r) out hw' hp' in (l', s', hw', hp'', give_back r b', false)
          end in
        if dead then mkls0 l1 None hw1 hp1 (ls_lc st) b1 true else
        (* if (s && (s == highwater || highpassed || --lc == 0)) { if (!lc) s = highwater; lc = maxloop; if (s) highwater(s->next) } *)
        match s1 with
        | None => mkls0 l1 None hw1 hp1 (ls_lc st) b1 false
        | Some k =>
            if oeq hw1 k || hp1 then mkls0 l1 s1 (nxt l1 k) false maxloop b1 false
            else if Nat.eqb (ls_lc st - 1) 0 then
              match hw1 with
              | Some h => mkls0 l1 hw1 (nxt l1 h) false maxloop b1 false
              | None => mkls0 l1 None hw1 hp1 maxloop b1 false
              end
            else mkls0 l1 s1 hw1 hp1 (ls_lc st - 1) b1 false
        end
    end.
  Fixpoint loop_run (positioning : bool) (maxloop : nat) (rules : list rule) (fuel : nat) (st : lstate) : lstate :=
    match fuel with
    | O => st
    | S f => match ls_s st with None => st | Some _ => loop_run positioning maxloop rules f (loop_step positioning maxloop rules st) end
    end.
  (* ---- what the C02 acceptor (Model/LoopModel.v) observes of an iteration: the measure
         mu = (slots from the high-water slot to the end) + (remaining insert budget),
     the loop counter, whether the counter was reset, whether the cursor is still live *)
  Definition hwp (l : list slot) (hw : option nat) : nat := match hw with Some h => h | None => length l end.
  Definition sfh (l : list slot) (hw : option nat) : nat := (length l - hwp l hw)%nat.
  Definition bud (b : option alloc) : nat := match b with Some a => a_bud a | None => O end.
  Definition mu (st : lstate) : N := N.of_nat (sfh (ls_l st) (ls_hw st) + bud (ls_b st)).
  Definition live (st : lstate) : bool := match ls_s st with Some _ => true | None => false end.
  Definition step_obs (st st' : lstate) : obs :=
    mkobs (mu st') (N.of_nat (ls_lc st')) (negb (Nat.eqb (S (ls_lc st')) (ls_lc st))) (live st').
  Fixpoint loop_obs (positioning : bool) (maxloop : nat) (rules : list rule) (fuel : nat) (st : lstate) : list obs :=
    match fuel with
    | O => []
    | S f => match ls_s st with
             | None => []
             | Some _ => let st' := loop_step positioning maxloop rules st in step_obs st st' :: loop_obs positioning maxloop rules f st'
             end
    end.
  Definition st_init (maxloop : nat) (l : list slot) (b : option alloc) : lstate := mkls0 l (Some O) (nxt l O) false maxloop b false.

  (* enough fuel for every run (Proofs/LoopBridge.v: the loop makes at most maxloop * (slots after the high-water mark + budget + 1) iterations);
     without a budget (None) inserts are unbounded and the fuel is a guess *)
  Definition pass_fuel_b (maxloop : nat) (l : list slot) (b : option alloc) : nat :=
    (maxloop * (length l + match b with Some a => a_bud a | None => 65 * length l end + 1) + 1)%nat.
  (* one pass with the insert budget: the stream and budget afterwards, or None when an INSERT found the budget exhausted *)
  Definition run_pass_b (positioning : bool) (maxloop : nat) (rules : list rule) (l : list slot) (b : option alloc) : option (list slot * option alloc) :=
    match l with
    | [] => Some (l, b)
    | _ => let st := loop_run positioning maxloop rules (pass_fuel_b maxloop l b) (st_init maxloop l b) in
           if ls_dead st then None else Some (ls_l st, ls_b st)
    end.
  Definition run_pass_adj (positioning : bool) (maxloop : nat) (rules : list rule) (l : list slot) : list slot :=
    match run_pass_b positioning maxloop rules l None with Some (l', _) => l' | None => l end.
  (* Silf::runGraphite: the substitution passes share one budget of 64 inserts per initial slot and each must end with at most that many
     slots; the positioning passes cannot insert *)
  Fixpoint run_passes_b (k nsubst : nat) (maxsize : nat) (passes : list (nat * list rule)) (l : list slot) (b : option alloc) : option (list slot) :=
    match passes with
    | [] => Some l
    | (ml, p) :: rest =>
        (* the positioning passes are a second Silf::runGraphite call with a slot map of its own: a fresh budget (the pool is the segment's) *)
        let b0 := if Nat.eqb k nsubst then match b with Some a => Some (set_bud a (64 * length l)%nat) | None => None end else b in
        match run_pass_b (Nat.leb nsubst k) (Nat.max 1 ml) p l b0 with
        | None => None
        | Some (l', b') => if Nat.ltb k nsubst && Nat.ltb maxsize (length l') then None else run_passes_b (S k) nsubst maxsize rest l' b'
        end
    end.
  (* gr_make_seg on n characters: budget 64 n; the Segment constructor leaves 10 slots in the pool after the n initial slots, further
     blocks hold floor(log2 n) + 1 slots and are refused once the stream holds more than 64 n slots *)
  Definition alloc0 (n : nat) : alloc := mkalloc (64 * n) 10 (Nat.log2 n + 1) (64 * n).
  Definition run_passes_adj (nsubst : nat) (passes : list (nat * list rule)) (l : list slot) : option (list slot) :=
    run_passes_b 0 nsubst (64 * length l) passes l (Some (alloc0 (length l))).

  (* the same run, reporting per executed pass what the acceptor sees: (maxloop, mu at the start, the observations, died) *)
  Fixpoint run_passes_trace (k nsubst : nat) (maxsize : nat) (passes : list (nat * list rule)) (l : list slot) (b : option alloc) : list (nat * N * list obs * bool) :=
    match passes with
    | [] => []
    | (ml, p) :: rest =>
        let b0 := if Nat.eqb k nsubst then match b with Some a => Some (set_bud a (64 * length l)%nat) | None => None end else b in
        let maxloop := Nat.max 1 ml in
        let positioning := Nat.leb nsubst k in
        let here := match l with
                    | [] => []
                    | _ => let st0 := st_init maxloop l b0 in
                           [(maxloop, mu st0, loop_obs positioning maxloop p (pass_fuel_b maxloop l b0) st0,
                             ls_dead (loop_run positioning maxloop p (pass_fuel_b maxloop l b0) st0))]
                    end in
        here ++ match run_pass_b positioning maxloop p l b0 with
                | None => []
                | Some (l', b') => if Nat.ltb k nsubst && Nat.ltb maxsize (length l') then [] else run_passes_trace (S k) nsubst maxsize rest l' b'
                end
    end.
  Definition run_trace (nsubst : nat) (passes : list (nat * list rule)) (l : list slot) : list (nat * N * list obs * bool) :=
    run_passes_trace 0 nsubst (64 * length l) passes l (Some (alloc0 (length l))).

  (* final positioning of an unattached stream, left to right: origin = running advance + shift *)
  Fixpoint origins (l : list slot) (cur : Z) : list Z :=
    match l with [] => [] | s :: r => (cur + s_shx s)%Z :: origins r (cur + s_adv s)%Z end.

  (* final positioning in general: the attachment forest handed to the positioning model of C15 (Model/PosModel.v) *)
  Definition sp_of (k : nat) (s : slot) : sp :=
    mksp (N.of_nat k) (s_shx s) (s_shy s) (s_adv s) 0 (s_atx s - s_wx s)%Z (s_aty s - s_wy s)%Z (0 <? s_adv s)%Z.
  Fixpoint build_chain (fuel : nat) (l : list slot) (kids : list nat) : bt :=
    match fuel with
    | O => Leaf
    | S f => match kids with
             | [] => Leaf
             | k :: rest => match nth_error l k with
                            | Some s => BNode (sp_of k s) (build_chain f l (s_kids s)) (build_chain f l rest)
                            | None => Leaf
                            end
             end
    end.
  Fixpoint bases_from (l all : list slot) (k : nat) : list bt :=
    match l with
    | [] => []
    | s :: r => match s_par s with
                | None => BNode (sp_of k s) (build_chain 300 all (s_kids s)) Leaf :: bases_from r all (S k)
                | Some _ => bases_from r all (S k)
                end
    end.
  Definition positions (l : list slot) : V * plist := position_bases 1 (bases_from l l 0) (0, 0)%Z.
End Pass.
