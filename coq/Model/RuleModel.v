(* Model/RuleModel.v — reference semantics of a pass of rules in the GDL-lite subset (doc/GTF.adoc; src/Pass.cpp findNDoRule /
   runFSM / testConstraint / doAction, src/inc/opcodes.h for the action opcodes), over a glyph stream as a list.
   A rule has a pattern of glyph sets with [pre] items of pre-context, actions per item from the pre-context on, and leaves the
   cursor after its window.  Precedence: longest pattern (sort key) first, then earliest rule.  No proofs here. *)
From GR Require Import Base.Bytes.
From Coq Require Import NArith ZArith Bool.
Local Open Scope N_scope.

Record slot := mkslot { s_gid : N; s_adv : Z; s_shx : Z }.

Inductive act :=
| APutGlyph (g : N)                                   (* put_glyph: the glyph becomes g, the advance that of g *)
| APutSubs (ref : Z) (incls outcls : list N)          (* put_subs: index of the glyph of item (this + ref) in incls selects from outcls *)
| ADelete                                             (* delete this item *)
| AInsert (g : N)                                     (* insert a slot with glyph g before this item *)
| ASetAdv (v : Z)                                     (* attr_set advance.x *)
| ASetShift (v : Z).                                  (* attr_set shift.x *)

(* an optional rule constraint: the advance of window item [c_item] compared with a constant (cntxt_item + push_slot_attr) *)
Inductive cmp := CLt | CGt | CEq.
Record con := mkcon { c_item : nat; c_cmp : cmp; c_val : Z }.
Record rule := mkrule { r_pre : nat; r_pat : list (list N); r_acts : list (list act); r_con : option con }.
Definition r_sort (r : rule) : nat := length (r_pat r).

Section Pass.
  Variable adv : N -> Z.                              (* the design advance of a glyph (hmtx), an oracle *)

  Fixpoint mem (x : N) (l : list N) : bool := match l with [] => false | y :: r => (x =? y) || mem x r end.
  Fixpoint index_of (x : N) (l : list N) (i : nat) : option nat := match l with [] => None | y :: r => if x =? y then Some i else index_of x r (S i) end.

  (* does the pattern match the stream from position 0 of [l] *)
  Fixpoint matches_from (pat : list (list N)) (l : list slot) : bool :=
    match pat, l with
    | [], _ => true
    | _ :: _, [] => false
    | c :: pr, s :: lr => mem (s_gid s) c && matches_from pr lr
    end.

  (* rule r matches with the cursor at index i of l: its window starts r_pre r slots before the cursor *)
  Definition con_holds (c : option con) (window : list slot) : bool :=
    match c with
    | None => true
    | Some k => match nth_error window (c_item k) with
                | None => true                                    (* an item outside the rule: the test is never reached *)
                | Some s => match c_cmp k with CLt => (s_adv s <? c_val k)%Z | CGt => (c_val k <? s_adv s)%Z | CEq => (s_adv s =? c_val k)%Z end
                end
    end.
  Definition rule_matches (r : rule) (l : list slot) (i : nat) : bool :=
    Nat.leb (r_pre r) i && Nat.ltb (r_pre r) (r_sort r) && matches_from (r_pat r) (skipn (i - r_pre r) l)
    && con_holds (r_con r) (firstn (r_sort r) (skipn (i - r_pre r) l)).

  (* best rule: longest sort key, then lowest index *)
  Fixpoint select (rules : list rule) (l : list slot) (i : nat) (k : nat) (best : option (nat * rule)) : option (nat * rule) :=
    match rules with
    | [] => best
    | r :: rest =>
        let best' := if rule_matches r l i then
                       match best with
                       | Some (_, b) => if Nat.ltb (r_sort b) (r_sort r) then Some (k, r) else best
                       | None => Some (k, r)
                       end
                     else best in
        select rest l i (S k) best'
    end.

  (* one item of the window: [orig] is the window as it was when the rule fired (every read goes there) *)
  Fixpoint apply_acts (orig : list slot) (j : nat) (acts : list act) (cur : slot) (ins : list slot) (deleted : bool) : list slot * slot * bool :=
    match acts with
    | [] => (ins, cur, deleted)
    | a :: rest =>
        match a with
        | APutGlyph g => apply_acts orig j rest (mkslot g (adv g) (s_shx cur)) ins deleted
        | APutSubs ref incls outcls =>
            let k := (Z.of_nat j + ref)%Z in
            let src := if (k <? 0)%Z then None else nth_error orig (Z.to_nat k) in
            match src with
            | None => apply_acts orig j rest cur ins deleted                       (* slotat() yields no slot: nothing happens *)
            | Some s =>
                let g := match index_of (s_gid s) incls 0 with Some ix => nth ix outcls 0 | None => 0 end in
                apply_acts orig j rest (mkslot g (adv g) (s_shx cur)) ins deleted
            end
        | ADelete => apply_acts orig j rest cur ins true
        | AInsert g => apply_acts orig j rest cur (ins ++ [mkslot g (adv g) 0]) deleted
        | ASetAdv v => apply_acts orig j rest (mkslot (s_gid cur) v (s_shx cur)) ins deleted
        | ASetShift v => apply_acts orig j rest (mkslot (s_gid cur) (s_adv cur) v) ins deleted
        end
    end.

  (* the items of the window from index j on; items without an action list pass through *)
  Fixpoint apply_items (orig : list slot) (j : nat) (items : list slot) (acts : list (list act)) : list slot :=
    match items with
    | [] => []
    | s :: ir =>
        let al := match acts with a :: _ => a | [] => [] end in
        let '(ins, s', del) := apply_acts orig j al s [] false in
        ins ++ (if del then [] else [s']) ++ apply_items orig (S j) ir (match acts with _ :: ar => ar | [] => [] end)
    end.

  (* fire rule r with the cursor at i: the stream afterwards and the new cursor (just after the rewritten window) *)
  Definition fire (r : rule) (l : list slot) (i : nat) : list slot * nat :=
    let st := (i - r_pre r)%nat in
    let window := firstn (r_sort r) (skipn st l) in
    let pre := firstn (r_pre r) window in
    let body := apply_items window (r_pre r) (skipn (r_pre r) window) (r_acts r) in
    (firstn st l ++ pre ++ body ++ skipn (st + r_sort r) l, (st + r_pre r + length body)%nat).

  (* the pass: scan left to right; [fuel] bounds the number of steps *)
  Fixpoint run_pass (fuel : nat) (rules : list rule) (l : list slot) (i : nat) : list slot :=
    match fuel with
    | O => l
    | S f =>
        if Nat.leb (length l) i then l
        else match select rules l i 0 None with
             | Some (_, r) => let '(l', i') := fire r l i in run_pass f rules l' i'
             | None => run_pass f rules l (S i)
             end
    end.

  Definition pass_fuel (l : list slot) : nat := S (length l).

  Fixpoint run_passes (passes : list (list rule)) (l : list slot) : list slot :=
    match passes with
    | [] => l
    | p :: rest => run_passes rest (run_pass (pass_fuel l) p l 0)
    end.

  (* final positioning of an unattached stream, left to right: origin = running advance + shift *)
  Fixpoint origins (l : list slot) (cur : Z) : list Z :=
    match l with [] => [] | s :: r => (cur + s_shx s)%Z :: origins r (cur + s_adv s)%Z end.
End Pass.
