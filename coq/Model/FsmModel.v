(* Model/FsmModel.v — the finite state machine of a pass: the tables Pass::readPass builds from the pass bytes (readRanges: glyph ->
   column; readStates: start states, transitions, the rules of each success state; the rule map of readRules) and Pass::runFSM /
   FiniteStateMachine::Rules::accumulate_rules over them (src/Pass.cpp, src/inc/Rule.h).  Array reads are [nth_error]: an index outside
   an array is the trap (None).  The offsets are those of Model/PassModel.v (this model is run on a pass read_pass accepted).
   No proofs here. *)
From GR Require Import Base.Bytes Base.Mem.
From Coq Require Import NArith List Bool.
Import ListNotations.
Local Open Scope N_scope.

Definition NOCOL : N := 0xFFFF.
Definition MAX_RULES : nat := 128.
Definition MAX_SLOTS : nat := 64.
Definition take_rules (l : list N) : list N := firstn MAX_RULES l.

Record fsm := mkfsm {
  f_nglyphs : N; f_nrules : N; f_nstates : N; f_ntrans : N; f_nsucc : N; f_ncols : N; f_minpre : N; f_maxpre : N;
  f_cols : list N;                 (* m_cols: one column (or NOCOL) per glyph below m_numGlyphs *)
  f_starts : list N;               (* m_startStates *)
  f_trans : list N;                (* m_transitions, row-major: numTransition rows of numColumns *)
  f_sort : list N;                 (* each rule's sort key *)
  f_rules : list (list N)          (* per state: its rules in precedence order, at most MAX_RULES of them *)
}.

Inductive fres := FTrap | FReject (code : N) | FOk (f : fsm).
Definition E_BADSTATE := 49. Definition E_BADRULEMAPPING := 50. Definition E_BADRANGE := 51. Definition E_BADRULENUM := 52.

Fixpoint read16s (t : mem) (p : N) (k : nat) : option (list N) :=
  match k with
  | O => Some []
  | S k' => match r16 t p with None => None | Some v => match read16s t (p + 2) k' with None => None | Some r => Some (v :: r) end end
  end.
Fixpoint read8s (t : mem) (p : N) (k : nat) : option (list N) :=
  match k with
  | O => Some []
  | S k' => match rdb t p with None => None | Some v => match read8s t (p + 1) k' with None => None | Some r => Some (v :: r) end end
  end.

(* readRanges: glyphs first..last get column col, once *)
Fixpoint upd_range (l : list N) (i n : nat) (col : N) : option (list N) :=
  match n with
  | O => Some l
  | S n' =>
      match l with
      | [] => None
      | x :: r =>
          match i with
          | S i' => match upd_range r i' n col with Some r' => Some (x :: r') | None => None end
          | O => if x =? NOCOL then match upd_range r O n' col with Some r' => Some (col :: r') | None => None end else None
          end
      end
  end.
Fixpoint read_ranges (t : mem) (p : N) (k : nat) (ng ncols : N) (cols : list N) : option (option (list N)) :=
  match k with
  | O => Some (Some cols)
  | S k' =>
      match r16 t p, r16 t (p + 2), r16 t (p + 4) with
      | Some first, Some last, Some col =>
          if (last <? first) || (ng <? last + 1) || (ncols <=? col) then Some None else
          match upd_range cols (N.to_nat first) (N.to_nat (last - first + 1)) col with
          | None => Some None
          | Some cols' => read_ranges t (p + 6) k' ng ncols cols'
          end
      | _, _, _ => None
      end
  end.

(* precedence: higher sort key first, then the lower rule number (RuleEntry::operator <) *)
Definition rule_lt (srt : list N) (a b : N) : bool :=
  let sa := nth (N.to_nat a) srt 0 in let sb := nth (N.to_nat b) srt 0 in
  (sb <? sa) || ((sa =? sb) && (a <? b)).
Fixpoint insert_rule (srt : list N) (a : N) (l : list N) : list N :=
  match l with
  | [] => [a]
  | b :: r => if rule_lt srt b a then b :: insert_rule srt a r else a :: l
  end.
Definition sort_rules (srt : list N) (l : list N) : list N := fold_right (insert_rule srt) [] l.

(* the rules of each state (readStates' third loop): states below success_begin have none *)
Fixpoint state_rules (srt : list N) (omap : list N) (rmap : list N) (nentries : N) (nstates nsucc : N) (k : nat) (s : N) : option (list (list N)) :=
  match k with
  | O => Some []
  | S k' =>
      if s <? nstates - nsucc then
        match state_rules srt omap rmap nentries nstates nsucc k' (s + 1) with Some r => Some ([] :: r) | None => None end
      else
        let j := N.to_nat (s - (nstates - nsucc)) in
        let b := nth j omap 0 in let e := nth (S j) omap 0 in
        if (nentries <=? b) || (nentries <? e) || (e <? b) then None else
        let mine := firstn (N.to_nat (e - b)) (skipn (N.to_nat b) rmap) in
        match state_rules srt omap rmap nentries nstates nsucc k' (s + 1) with
        | Some r => Some (take_rules (sort_rules srt mine) :: r)
        | None => None
        end
  end.

(* the tables of a pass whose header Model/PassModel.v accepted; [t] is the pass slice *)
Definition read_fsm (t : mem) : fres :=
  match r16 t 4, r16 t 24, r16 t 26, r16 t 28, r16 t 30, r16 t 32 with
  | Some nrules, Some nstates, Some ntrans, Some nsucc, Some ncols, Some nranges =>
    if nrules =? 0 then FOk (mkfsm 0 nrules nstates ntrans nsucc ncols 0 0 [] [] [] [] (repeat [] (N.to_nat nstates))) else   (* a pass without rules: no tables are built and no machine is run *)
    match r16 t (40 + 6 * nranges - 4) with None => FTrap | Some lastg =>
    let ng := (lastg + 1) mod 65536 in                                            (* uint16 m_numGlyphs *)
    let o_rule_map := 40 + 6 * nranges in
    match read16s t o_rule_map (S (N.to_nat nsucc)) with None => FTrap | Some omap =>
    let nentries := nth (N.to_nat nsucc) omap 0 in
    let rule_map := o_rule_map + 2 * (nsucc + 1) in
    match read16s t rule_map (N.to_nat nentries) with None => FTrap | Some rmap =>
    let p := rule_map + 2 * nentries in
    match rdb t p, rdb t (p + 1) with
    | Some minpre, Some maxpre =>
      let nstart := maxpre - minpre + 1 in
      let start_states := p + 2 in
      let sort_keys := start_states + 2 * nstart in
      let states := sort_keys + 2 * nrules + nrules + 3 + 2 * (nrules + 1) + 2 * (nrules + 1) in
      match read16s t sort_keys (N.to_nat nrules), read16s t start_states (N.to_nat nstart), read16s t states (N.to_nat (ntrans * ncols)) with
      | Some srt, Some starts, Some trans =>
        (* in the loader's order: readRanges, the rule map of readRules, then readStates *)
        match read_ranges t 40 (N.to_nat nranges) ng ncols (repeat NOCOL (N.to_nat ng)) with
        | None => FTrap
        | Some None => FReject E_BADRANGE
        | Some (Some cols) =>
            if existsb (fun rn => nrules <=? rn) rmap then FReject E_BADRULENUM else
            if existsb (fun s => nstates <=? s) starts then FReject E_BADSTATE else
            if existsb (fun s => nstates <=? s) trans then FReject E_BADSTATE else
            match state_rules srt omap rmap nentries nstates nsucc (N.to_nat nstates) 0 with
            | None => FReject E_BADRULEMAPPING
            | Some rules => FOk (mkfsm ng nrules nstates ntrans nsucc ncols minpre maxpre cols starts trans srt rules)
            end
        end
      | _, _, _ => FTrap
      end
    | _, _ => FTrap
    end end end end
  | _, _, _, _, _, _ => FTrap
  end.

(* FiniteStateMachine::Rules::accumulate_rules: merge two precedence-ordered lists, one copy of a rule in both, at most MAX_RULES *)
Fixpoint merge_rules (srt : list N) (l : list N) : list N -> list N :=
  fix inner (r : list N) : list N :=
    match l, r with
    | [], _ => r
    | _, [] => l
    | a :: l', b :: r' =>
        if rule_lt srt a b then a :: merge_rules srt l' r
        else if rule_lt srt b a then b :: inner r'
        else a :: merge_rules srt l' r'
    end.
Definition accumulate (srt : list N) (cur st : list N) : list N :=
  match st with [] => cur | _ => take_rules (merge_rules srt cur st) end.

(* Pass::runFSM from the slot the map starts at: [gids] are the glyphs from there on, [ctx] the context fsm.reset found.
   Result: None = an index outside a table; Some (ok, pushed, rules): runFSM's return value, the number of slots in the map
   (pushSlot calls, the trailing one included) and the accumulated rules. *)
Fixpoint fsm_loop (f : fsm) (fuel : nat) (state : N) (gids : list N) (free : nat) (pushed : nat) (rules : list N)
  : option (bool * nat * list N) :=
  match fuel with
  | O => None
  | S fuel' =>
      match gids with
      | [] => Some (true, pushed, rules)                              (* not reached: the loop is entered with a slot *)
      | g :: rest =>
          let pushed := S pushed in
          if f_nglyphs f <=? g then Some (negb (Nat.eqb free 0), pushed, rules) else
          match nth_error (f_cols f) (N.to_nat g) with
          | None => None
          | Some col =>
              if col =? NOCOL then Some (negb (Nat.eqb free 0), pushed, rules) else
              let free := (free - 1)%nat in
              if Nat.eqb free 0 then Some (false, pushed, rules) else
              if f_ntrans f <=? state then Some (true, pushed, rules) else
              match nth_error (f_trans f) (N.to_nat (state * f_ncols f + col)) with
              | None => None
              | Some state' =>
                  match (if f_nstates f - f_nsucc f <=? state'
                         then match nth_error (f_rules f) (N.to_nat state') with Some sr => Some (accumulate (f_sort f) rules sr) | None => None end
                         else Some rules) with
                  | None => None
                  | Some rules' =>
                      match rest with
                      | [] => Some (true, S pushed, rules')             (* slot == NULL: the trailing pushSlot(NULL) *)
                      | _ => if state' =? 0 then Some (true, S pushed, rules') else fsm_loop f fuel' state' rest free pushed rules'
                      end
                  end
              end
          end
      end
  end.

Definition run_fsm (f : fsm) (ctx : N) (gids : list N) : option (bool * nat * list N) :=
  if ctx <? f_minpre f then Some (false, O, []) else
  match nth_error (f_starts f) (N.to_nat (f_maxpre f - ctx)) with
  | None => None
  | Some state => fsm_loop f (S MAX_SLOTS) state gids MAX_SLOTS O []
  end.
