(* Model/VmModel.v — executable model of the graphite stack machine restricted to the arithmetic / logical / bit /
   return opcodes (0x00-0x18, 0x30-0x32, 0x3E-0x41):  the bytecode loader Machine::Code::decoder (src/Code.cpp) with
   its stack-depth analysis, and the interpreter loop of Machine::run with the opcode bodies of src/inc/opcodes.h
   (shared by call_machine.cpp and direct_machine.cpp).  Values are int32 (Machine::stack_t), modelled in Z with
   explicit wrap-around.  No proofs here. *)
From GR Require Import Base.Bytes.
From Coq Require Import ZArith.
Local Open Scope Z_scope.

Definition wrap32 (z : Z) : Z := ((z + 2147483648) mod 4294967296) - 2147483648.
Definition INT_MIN : Z := -2147483648.
Definition STACK_MAX : nat := 1024.
Definition MAX_OPCODE : N := 0x43.

Inductive binop := Add | Sub | Mul | Div | Min | Max | And | Or | Equal | NotEq | Less | Gtr | LessEq | GtrEq | BitOr | BitAnd.
Inductive unop := Neg | Trunc8 | Trunc16 | Not | BitNot.
Inductive instr :=
| INop | IPush (z : Z) | IBin (o : binop) | IUn (o : unop) | ICond | ISetBits (m v : Z)
| IPopRet | IRetZero | IRetTrue.

(* ---------------------------------------------------------------- opcode numbering (enum opcode, Machine.h) *)
Definition binop_of (opc : N) : option binop :=
  match opc with
  | 0x06 => Some Add | 0x07 => Some Sub | 0x08 => Some Mul | 0x09 => Some Div | 0x0A => Some Min | 0x0B => Some Max
  | 0x10 => Some And | 0x11 => Some Or | 0x13 => Some Equal | 0x14 => Some NotEq
  | 0x15 => Some Less | 0x16 => Some Gtr | 0x17 => Some LessEq | 0x18 => Some GtrEq
  | 0x3E => Some BitOr | 0x3F => Some BitAnd
  | _ => None
  end%N.
Definition unop_of (opc : N) : option unop :=
  match opc with
  | 0x0C => Some Neg | 0x0D => Some Trunc8 | 0x0E => Some Trunc16 | 0x12 => Some Not | 0x40 => Some BitNot
  | _ => None
  end%N.

(* parameter bytes per opcode in this subset (opcode_table.h) *)
Definition param_sz (opc : N) : option nat :=
  match opc with
  | 0x00%N => Some 0%nat | 0x01%N => Some 1%nat | 0x02%N => Some 1%nat | 0x03%N => Some 2%nat | 0x04%N => Some 2%nat | 0x05%N => Some 4%nat
  | 0x0F%N => Some 0%nat | 0x30%N => Some 0%nat | 0x31%N => Some 0%nat | 0x32%N => Some 0%nat | 0x41%N => Some 4%nat
  | _ => match binop_of opc, unop_of opc with Some _, _ => Some 0%nat | _, Some _ => Some 0%nat | _, _ => None end
  end.

(* Code::status_t *)
Inductive lstatus := loaded | alloc_failed | invalid_opcode | unimplemented_opcode_used | out_of_range_data | jump_past_end
                   | arguments_exhausted | missing_return | nested_context_item | underfull_stack.
Inductive lres := LLoaded (code : list instr) | LEmpty | LFailed (s : lstatus) | LUnsupported (opc : N).

Definition sbyte (b : N) : Z := let z := Z.of_N b in if z <? 128 then z else z - 256.
Definition is_return (i : instr) : bool := match i with IPopRet | IRetZero | IRetTrue => true | _ => false end.

(* decoder::load / fetch_opcode / emit_opcode for the subset: [depth] is _stack_depth *)
Fixpoint load_loop (fuel : nat) (bc : list N) (depth : Z) (acc : list instr) : lres :=
  match fuel with
  | O => LFailed alloc_failed
  | S fuel' =>
      match bc with
      | [] => match acc with
              | [] => LEmpty
              | last :: _ => if is_return last then LLoaded (rev acc) else LFailed missing_return
              end
      | opc :: rest =>
          if (MAX_OPCODE <=? opc)%N then LFailed invalid_opcode else
          match param_sz opc with
          | None => LUnsupported opc
          | Some psz =>
              (* validate_opcode: bc - 1 + param_sz >= end  <=> the parameters do not fit *)
              if (length rest <? psz)%nat then LFailed arguments_exhausted else
              let params := firstn psz rest in
              let rest' := skipn psz rest in
              let p k := nth k params 0%N in
              match binop_of opc, unop_of opc with
              | Some o, _ => if depth - 1 <=? 0 then LFailed underfull_stack else load_loop fuel' rest' (depth - 1) (IBin o :: acc)
              | _, Some o => if depth <=? 0 then LFailed underfull_stack else load_loop fuel' rest' depth (IUn o :: acc)
              | None, None =>
                  match opc with
                  | 0x00%N => load_loop fuel' rest' depth (INop :: acc)
                  | 0x01%N => load_loop fuel' rest' (depth + 1) (IPush (sbyte (p 0%nat)) :: acc)
                  | 0x02%N => load_loop fuel' rest' (depth + 1) (IPush (Z.of_N (p 0%nat)) :: acc)
                  | 0x03%N => let u := Z.of_N (p 0%nat * 256 + p 1%nat) in
                            load_loop fuel' rest' (depth + 1) (IPush (if u <? 32768 then u else u - 65536) :: acc)
                  | 0x04%N => load_loop fuel' rest' (depth + 1) (IPush (Z.of_N (p 0%nat * 256 + p 1%nat)) :: acc)
                  | 0x05%N => let u := Z.of_N (((p 0%nat * 256 + p 1%nat) * 256 + p 2%nat) * 256 + p 3%nat) in
                            load_loop fuel' rest' (depth + 1) (IPush (wrap32 u) :: acc)
                  | 0x0F%N => if depth - 2 <=? 0 then LFailed underfull_stack else load_loop fuel' rest' (depth - 2) (ICond :: acc)
                  | 0x41%N => if depth <=? 0 then LFailed underfull_stack
                            else load_loop fuel' rest' depth (ISetBits (Z.of_N (p 0%nat * 256 + p 1%nat)) (Z.of_N (p 2%nat * 256 + p 3%nat)) :: acc)
                  | 0x30%N => if depth - 1 <? 0 then LFailed underfull_stack else load_loop fuel' rest' (depth - 1) (IPopRet :: acc)
                  | 0x31%N => load_loop fuel' rest' depth (IRetZero :: acc)
                  | 0x32%N => load_loop fuel' rest' depth (IRetTrue :: acc)
                  | _ => LUnsupported opc
                  end
              end
          end
      end
  end.
Definition load (bc : list N) : lres := load_loop (S (length bc)) bc 0 [].

(* ---------------------------------------------------------------- the interpreter *)
(* Machine::status_t *)
Inductive mstatus := finished | stack_underflow | stack_not_empty | stack_overflow | slot_offset_out_bounds | died_early.
Definition b2z (b : bool) : Z := if b then 1 else 0.

Definition do_bin (o : binop) (a b : Z) : option Z :=      (* b was on top (popped first), a underneath *)
  match o with
  | Add => Some (wrap32 (a + b)) | Sub => Some (wrap32 (a - b)) | Mul => Some (wrap32 (a * b))
  | Div => if (b =? 0) || ((a =? INT_MIN) && (b =? -1)) then None else Some (Z.quot a b)
  | Min => Some (if b <? a then b else a) | Max => Some (if a <? b then b else a)
  | And => Some (b2z (negb (a =? 0) && negb (b =? 0))) | Or => Some (b2z (negb (a =? 0) || negb (b =? 0)))
  | Equal => Some (b2z (a =? b)) | NotEq => Some (b2z (negb (a =? b)))
  | Less => Some (b2z (a <? b)) | Gtr => Some (b2z (b <? a)) | LessEq => Some (b2z (a <=? b)) | GtrEq => Some (b2z (b <=? a))
  | BitOr => Some (Z.lor a b) | BitAnd => Some (Z.land a b)
  end.
Definition do_un (o : unop) (a : Z) : Z :=
  match o with
  | Neg => wrap32 (- a) | Trunc8 => a mod 256 | Trunc16 => a mod 65536 | Not => b2z (a =? 0) | BitNot => Z.lnot a
  end.

(* result of a run: (status, return value) — what Machine::status() and Code::run report *)
Definition finish (stack : list Z) : mstatus * Z :=        (* after EXIT pushed its value: ret = (sp == base+1) ? *sp-- : 0 *)
  match stack with
  | [v] => (finished, v)
  | [] => (finished, 0)                    (* unreachable: EXIT always pushes *)
  | _ => if (STACK_MAX <=? length stack)%nat then (stack_overflow, 0) else (stack_not_empty, 0)
  end.

Inductive step_res := Cont (stack : list Z) | Stop (r : mstatus * Z) | Underflow.

Definition step (i : instr) (st : list Z) : step_res :=
  match i, st with
  | INop, _ => Cont st
  | IPush z, _ => Cont (z :: st)
  | IBin o, b :: a :: r => match do_bin o a b with
                           | Some v => Cont (v :: r)
                           | None => Stop (died_early, 0)          (* DIE: status set, EXIT(1) — status is not finished *)
                           end
  | IUn o, a :: r => Cont (do_un o a :: r)
  | ICond, f :: t :: c :: r => Cont ((if c =? 0 then f else t) :: r)
  | ISetBits m v, a :: r => Cont (Z.lor (Z.land a (Z.lnot m)) v :: r)
  | IPopRet, v :: r => Stop (finish (v :: r))
  | IRetZero, _ => Stop (finish (0 :: st))
  | IRetTrue, _ => Stop (finish (1 :: st))
  | _, _ => Underflow
  end.

Inductive rres := RDone (r : mstatus * Z) | RUnderflow | RRanOff.
Fixpoint run (code : list instr) (st : list Z) : rres :=
  match code with
  | [] => RRanOff                         (* the emitted trailing RET_ZERO is not modelled: loaded code ends in a return *)
  | i :: rest =>
      match step i st with
      | Underflow => RUnderflow
      | Stop r => RDone r
      | Cont st' =>
          (* ENDOP: continue only while (sp - sb) / STACK_MAX == 0 *)
          if (STACK_MAX <=? length st')%nat then RDone (stack_overflow, 0) else run rest st'
      end
  end.

(* ---------------------------------------------------------------- the opcode specification, on expression trees *)
Inductive expr :=
| EConst (z : Z) | EBin (o : binop) (a b : expr) | EUn (o : unop) (a : expr) | ECond (c t f : expr) | ESetBits (m v : Z) (a : expr).

Fixpoint eval (e : expr) : option Z :=
  match e with
  | EConst z => Some z
  | EBin o a b => match eval a, eval b with Some x, Some y => do_bin o x y | _, _ => None end
  | EUn o a => match eval a with Some x => Some (do_un o x) | None => None end
  | ECond c t f => match eval c, eval t, eval f with Some x, Some y, Some z => Some (if x =? 0 then z else y) | _, _, _ => None end
  | ESetBits m v a => match eval a with Some x => Some (Z.lor (Z.land x (Z.lnot m)) v) | None => None end
  end.

(* postfix bytecode of an expression *)
Definition byte_of (z : Z) : N := Z.to_N (z mod 256).
Definition push_code (z : Z) : list N :=
  if (-128 <=? z) && (z <? 128) then [0x01%N; byte_of z]
  else if (0 <=? z) && (z <? 256) then [0x02%N; byte_of z]
  else if (-32768 <=? z) && (z <? 32768) then [0x03%N; byte_of (z / 256); byte_of z]
  else if (0 <=? z) && (z <? 65536) then [0x04%N; byte_of (z / 256); byte_of z]
  else [0x05%N; byte_of (z / 16777216); byte_of (z / 65536); byte_of (z / 256); byte_of z].
Definition binop_code (o : binop) : N :=
  match o with Add => 0x06 | Sub => 0x07 | Mul => 0x08 | Div => 0x09 | Min => 0x0A | Max => 0x0B | And => 0x10 | Or => 0x11
             | Equal => 0x13 | NotEq => 0x14 | Less => 0x15 | Gtr => 0x16 | LessEq => 0x17 | GtrEq => 0x18 | BitOr => 0x3E | BitAnd => 0x3F end%N.
Definition unop_code (o : unop) : N := match o with Neg => 0x0C | Trunc8 => 0x0D | Trunc16 => 0x0E | Not => 0x12 | BitNot => 0x40 end%N.
Fixpoint code (e : expr) : list N :=
  match e with
  | EConst z => push_code z
  | EBin o a b => code a ++ code b ++ [binop_code o]
  | EUn o a => code a ++ [unop_code o]
  | ECond c t f => code c ++ code t ++ code f ++ [0x0F%N]
  | ESetBits m v a => code a ++ [0x41%N; byte_of (m / 256); byte_of m; byte_of (v / 256); byte_of v]
  end.
