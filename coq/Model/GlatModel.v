(* Model/GlatModel.v — reading glyph attributes: GlyphCache::Loader::Loader (the Gloc / Glat header checks), the Gloc lookup of
   GlyphCache::Loader::read_glyph and the run iterators _glat_iterator<uint8> / <uint16> (src/GlyphCache.cpp) that feed the sparse
   attribute store.  A read outside a table is the trap (None).  No proofs here. *)
From GR Require Import Base.Bytes Base.Mem.
From Coq Require Import NArith List.
Import ListNotations.
Local Open Scope N_scope.

Record gloader := mkgl { gl_long : bool; gl_nattrs : N; gl_nglyphs : N; gl_ver : N }.

(* Some None: the face is refused; Some (Some l): accepted *)
Definition glat_loader (gloc glat : mem) (ngraphics : N) : option (option gloader) :=
  if tlen gloc <? 8 then Some None else
  ver <- r32 gloc 0 ;; flags <- r16 gloc 4 ;; na <- r16 gloc 6 ;;
  let long := N.testbit flags 0 in
  let ids := if N.testbit flags 1 then 2 * na else 0 in
  let w := if long then 4 else 2 in
  (* tmpnumgattrs = (size - 8 - ids) / w - 1, computed in size_t: a negative difference wraps to a huge value and is refused below *)
  if tlen gloc - 8 <? ids then Some None else
  let q := (tlen gloc - 8 - ids) / w in
  if (0x20000 <=? ver) || (q =? 0) || (65535 <? q - 1) || (na =? 0) || (0x3000 <? na) || (q - 1 <? ngraphics) || (tlen glat <? 4) then Some None else
  gv <- r32 glat 0 ;;
  if (0x40000 <=? gv) || ((0x30000 <=? gv) && (tlen glat <? 8)) then Some None
  else Some (Some (mkgl long na (q - 1) gv)).

Inductive gres := GTrap | GReject | GAttrs (ps : list (N * N)).

Definition rdw (wide : bool) (t : mem) (i : N) : option N := if wide then r16 t i else rdb t i.
Definition wsz (wide : bool) : N := if wide then 2 else 1.

(* the iterator: entry header at e (first key, run length), current value at v, n values of the entry consumed;
   stops when v >= end - 1 (operator== is "a >= test"); every *it reads the key byte(s) at e and two bytes at v *)
Fixpoint glat_iter (fuel : nat) (wide : bool) (t : mem) (e v n fin : N) (acc : list (N * N)) : gres :=
  match fuel with
  | O => GTrap                                              (* never reached: every step moves v by at least 2 (Proofs/GlatProofs.v) *)
  | S f =>
      if fin <=? v + 1 then GAttrs (rev acc)
      else match rdw wide t e, r16 t v, rdw wide t (e + wsz wide) with
           | Some k, Some x, Some run =>
               let acc' := ((k + n) mod 65536, x) :: acc in
               if n + 1 =? run then glat_iter f wide t (v + 2) (v + 2 + 2 * wsz wide) 0 fin acc'
               else glat_iter f wide t e (v + 2) (n + 1) fin acc'
           | _, _, _ => GTrap
           end
  end.

Fixpoint popcount16 (k : nat) (x : N) : N := match k with O => 0 | S j => (if N.testbit x (N.of_nat j) then 1 else 0) + popcount16 j x end.

(* read_glyph, the attribute part, for a glyph id below gl_nglyphs *)
Definition read_attrs (l : gloader) (gloc glat : mem) (gid : N) : gres :=
  let w := if gl_long l then 4 else 2 in
  if tlen gloc <? 8 + gid * w then GReject else
  match (if gl_long l then r32 gloc (8 + 4 * gid) else r16 gloc (8 + 2 * gid)),
        (if gl_long l then r32 gloc (8 + 4 * gid + 4) else r16 gloc (8 + 2 * gid + 2)) with
  | Some glocs, Some gloce =>
      if (tlen glat - 1 <=? glocs) || (tlen glat <? gloce) then GReject else
      let adj :=
        if 0x30000 <=? gl_ver l then
          if gloce <=? glocs then Some None
          else match r16 glat glocs with
               | None => None
               | Some bmap => let g' := glocs + 6 + 8 * popcount16 16 bmap in if gloce <? g' then Some None else Some (Some g')
               end
        else Some (Some glocs) in
      match adj with
      | None => GTrap
      | Some None => GReject
      | Some (Some gs) =>
          if gl_ver l <? 0x20000 then
            if (gloce <? gs) || (gloce - gs <? 4) || (gl_nattrs l * 4 <? gloce - gs) then GReject
            else glat_iter (S (N.to_nat (tlen glat))) false glat gs (gs + 2) 0 gloce []
          else
            if (gloce <? gs) || (gloce - gs <? 6) || (gl_nattrs l * 6 <? gloce - gs) || (tlen glat - 4 <? gs) then GReject
            else glat_iter (S (N.to_nat (tlen glat))) true glat gs (gs + 4) 0 gloce []
      end
  | _, _ => GTrap
  end.
