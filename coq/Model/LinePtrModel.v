(* Model/LinePtrModel.v — pointer-level model of what line breaking and justification do to the slot links, faithful to the code as it
   is (including where it misbehaves): gr_slot_linebreak_before (src/gr_slot.cpp), Segment::reverseSlots (src/Segment.cpp) transcribed
   statement by statement over the next / prev fields, and the temporary m_first / m_last of Segment::justify (src/Justifier.cpp).
   Slots are numbered; None is the null pointer.  The list-level model (Model/LineModel.v) carries the theorems; this one exists so
   that the recorded defects of justify (a reversal started with a stale m_last, or on the wrong chain) are PREDICTED link by link:
   damage that the prediction does not reproduce is a different defect.  No proofs here. *)
From GR Require Import Base.Bytes.
From Coq Require Import List Arith Bool.
Import ListNotations.

Definition ptr := option nat.
Record pstate := mkp { p_next : list ptr; p_prev : list ptr; p_first : ptr; p_last : ptr }.
Definition getp (l : list ptr) (i : nat) : ptr := nth i l None.
Fixpoint setp (l : list ptr) (i : nat) (v : ptr) : list ptr :=
  match l, i with [], _ => [] | _ :: r, O => v :: r | x :: r, S j => x :: setp r j v end.
Definition peq (a b : ptr) : bool := match a, b with Some x, Some y => Nat.eqb x y | None, None => true | _, _ => false end.

Inductive pop := PBreak (p : nat) | PSetEnds (f l : ptr) | PReverse
  | PAddEnd (e : nat) (n : ptr) (atend : bool)      (* Segment::addLineEnd: the new slot e goes before n, or (atend) after m_last *)
  | PDelEnd (e : nat).                              (* Segment::delLineEnd(e), freeSlot(e) included *)
(* a slot number the link arrays have not seen yet: a fresh slot has null links *)
Definition grow (l : list ptr) (i : nat) : list ptr := l ++ repeat None (S i - length l).
Inductive pres := POk (s : pstate) | PNull | PHang.     (* PNull: the code would dereference a null pointer; PHang: a loop that does not end *)

Definition is_mark (marks : list bool) (i : nat) : bool := nth i marks false.

(* while (curr && bidi(curr) == 16) curr = curr->next(); *)
Fixpoint skip_marks (fuel : nat) (marks : list bool) (nx : list ptr) (c : ptr) : option ptr :=
  match fuel with
  | O => None
  | S f => match c with
           | Some i => if is_mark marks i then skip_marks f marks nx (getp nx i) else Some c
           | None => Some None
           end
  end.

(* the main loop of reverseSlots: state (next, prev, curr, out, tlast) *)
Fixpoint rev_loop (fuel : nat) (marks : list bool) (last : ptr) (nx pv : list ptr) (curr out tlast : ptr) : option (option (list ptr * list ptr * ptr * ptr)) :=
  match fuel with
  | O => Some None                                               (* does not end *)
  | S f =>
      match curr with
      | None => Some (Some (nx, pv, out, tlast))
      | Some c =>
          if is_mark marks c then
            (* d = curr->next(); while (d && mark(d)) d = d->next(); d = d ? d->prev() : m_last; *)
            match skip_marks (S (length nx)) marks nx (getp nx c) with
            | None => Some None
            | Some d0 =>
                let d := match d0 with Some x => getp pv x | None => last end in
                match out, d with
                | Some o, Some dd =>
                    let p := getp nx o in                         (* p = out->next() *)
                    let pv1 := match p with Some pp => setp pv pp (Some dd) | None => pv end in
                    let tlast1 := match p with Some _ => tlast | None => Some dd end in
                    let t := getp nx dd in                        (* t = d->next() *)
                    let nx1 := setp nx dd p in                    (* d->next(p) *)
                    let pv2 := setp pv1 c out in                  (* curr->prev(out) *)
                    let nx2 := setp nx1 o (Some c) in             (* out->next(curr) *)
                    rev_loop f marks last nx2 pv2 t out tlast1
                | _, _ => None                                   (* out or d is null: null dereference *)
                end
            end
          else
            let pv1 := match out with Some o => setp pv o (Some c) | None => pv end in     (* if (out) out->prev(curr) *)
            let t := getp nx c in
            let nx1 := setp nx c out in                                                    (* curr->next(out) *)
            rev_loop f marks last nx1 pv1 t (Some c) tlast
      end
  end.

Definition preverse (marks : list bool) (s : pstate) : pres :=
  if peq (p_first s) (p_last s) then POk s else
  match skip_marks (S (length (p_next s))) marks (p_next s) (p_first s) with
  | None => PHang
  | Some None => POk s                                             (* if (!curr) return *)
  | Some (Some c) =>
      let tfirst := getp (p_prev s) c in
      match rev_loop (2 * length (p_next s) + 4) marks (p_last s) (p_next s) (p_prev s) (Some c) None (Some c) with
      | None => PNull
      | Some None => PHang
      | Some (Some (nx, pv, out, tlast)) =>
          match out with
          | None => PNull
          | Some o =>
              let pv1 := setp pv o tfirst in                       (* out->prev(tfirst) *)
              match tfirst with
              | Some tf => POk (mkp (setp nx tf out) pv1 (p_first s) tlast)
              | None => POk (mkp nx pv1 out tlast)
              end
          end
      end
  end.

Definition papply (marks : list bool) (s : pstate) (o : pop) : pres :=
  match o with
  | PBreak p => match getp (p_prev s) p with
                | Some q => POk (mkp (setp (p_next s) q None) (setp (p_prev s) p None) (p_first s) (p_last s))
                | None => PNull
                end
  | PSetEnds f l => POk (mkp (p_next s) (p_prev s) f l)
  | PReverse => preverse marks s
  | PAddEnd e n atend =>
      let nx := setp (grow (p_next s) e) e None in               (* newSlot(): next and prev are null *)
      let pv := setp (grow (p_prev s) e) e None in
      if atend then
        match p_last s with                                      (* nSlot = m_last; eSlot->prev(nSlot); nSlot->next(eSlot) *)
        | Some l => POk (mkp (setp nx l (Some e)) (setp pv e (Some l)) (p_first s) (p_last s))
        | None => PNull
        end
      else
        match n with                                             (* eSlot->next(nSlot); eSlot->prev(nSlot->prev()); nSlot->prev(eSlot) *)
        | Some nn => POk (mkp (setp nx e (Some nn)) (setp (setp pv e (getp pv nn)) nn (Some e)) (p_first s) (p_last s))
        | None => PNull
        end
  | PDelEnd e =>
      let nxt := getp (p_next s) e in let prv := getp (p_prev s) e in
      let linked :=
        match nxt with
        | Some n =>                                              (* nSlot->prev(s->prev()); if (s->prev()) s->prev()->next(nSlot) *)
            Some (match prv with Some q => setp (p_next s) q (Some n) | None => p_next s end, setp (p_prev s) n prv)
        | None =>                                                (* s->prev()->next(NULL) *)
            match prv with Some q => Some (setp (p_next s) q None, p_prev s) | None => None end
        end in
      match linked with
      | None => PNull
      | Some (nx, pv) =>
          (* freeSlot: m_last / m_first step off the slot (reading its own links, which delLineEnd left alone), then the slot is reset *)
          let l' := if peq (p_last s) (Some e) then prv else p_last s in
          let f' := if peq (p_first s) (Some e) then nxt else p_first s in
          POk (mkp (setp nx e None) (setp pv e None) f' l')
      end
  end.

(* ---- the control of Segment::justify over the direction word m_dir (the flags given to gr_make_seg; bit 6 is toggled by every
   reverseSlots call), as recorded: the call reverses first when the text direction differs from the font's and the font has a bidi
   pass setting (outer), positionSlots reverses around its work when currdir() differs from its isRtl argument — which justify passes
   as the whole word m_dir converted to bool (inner) — and the outer reversal is undone at the end.
   The skeleton of a call that does not return early, true = reverseSlots, false = the m_first / m_last bracket:  r? se (r r)? se r?
   (in a font with line-end contextuals two addLineEnd calls precede the first bracket and two delLineEnd calls the second; they are
   replayed as PAddEnd / PDelEnd and are not part of the skeleton) *)
From Coq Require Import NArith.
Definition currdir (d : N) : bool := xorb (N.testbit d 6) (N.testbit d 0).
Definition toggle_dir (d : N) : N := N.lxor d 64.
Definition outer_rev (d : N) (fdir bidi : bool) : bool := negb (Bool.eqb (N.testbit d 0) fdir) && bidi.
Definition inner_rev (d : N) : bool := negb (Bool.eqb (currdir d) (negb (N.eqb d 0))).
Definition just_skeleton (d : N) (fdir bidi : bool) : list bool :=
  let o := outer_rev d fdir bidi in
  let d1 := if o then toggle_dir d else d in
  (if o then [true] else []) ++ [false] ++ (if inner_rev d1 then [true; true] else []) ++ [false] ++ (if o then [true] else []).
