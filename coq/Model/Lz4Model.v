(* Model/Lz4Model.v — executable model of lz4::decompress (src/Decompressor.cpp, src/inc/Compression.h).
   The input is a list of bytes; the cursor is represented by the suffix still to be read, so running off
   the end of the input is visible as a pattern-match on [] (trap).  The output is an array (list of fixed
   length = the announced output size) written through checked block writes; a write or read outside it is a
   trap.  overrun_copy is modelled faithfully: whole words of WS bytes, at least one.  No proofs here. *)
From GR Require Import Base.Bytes.
Local Open Scope nat_scope.

Definition WS : nat := 8.              (* sizeof(unsigned long) on the build platform, tied by Gen/GenLz4.v *)
Definition MINMATCH : nat := 4.
Definition LASTLITERALS : nat := 5.
Definition MINCODA : nat := 6.
Definition MINSRCSIZE : nat := 13.
Definition U32 : N := 0x100000000%N.

Inductive res := Trap | OutOfFuel | Fail | Ok (n : nat) (out : list N).

Definition align (p : nat) : nat := (p + (WS - 1)) / WS * WS.
Definition words (n : nat) : nat := Nat.max 1 ((n + (WS - 1)) / WS).     (* do { } while (s < e) *)

Definition read_at (buf : list N) (i n : nat) : option (list N) :=
  if i + n <=? length buf then Some (firstn n (skipn i buf)) else None.
Definition write_at (buf : list N) (i : nat) (bs : list N) : option (list N) :=
  if i + length bs <=? length buf then Some (firstn i buf ++ bs ++ skipn (i + length bs) buf) else None.

(* do { l += b = *s++; if (l < b) l = u32(-1); } while (b == 0xff && s != e);  on u32 l: the sum saturates instead of wrapping *)
Fixpoint read_ext (s : list N) (l : N) : N * list N :=
  match s with
  | [] => (l, [])
  | b :: r => let l' := (if l + b <? U32 then l + b else U32 - 1)%N in
              if (b =? 255)%N then match r with [] => (l', r) | _ => read_ext r l' end else (l', r)
  end.
Definition read_literal (s : list N) (l : N) : N * list N :=
  match s with
  | [] => (l, s)
  | _ => if (l =? 15)%N then read_ext s l else (l, s)
  end.

(* result of read_sequence *)
Inductive seqres :=
| SeqTrap                                                        (* token read outside the input *)
| SeqEnd (lit : list N) (ll : N)                                  (* returned false before reading a match *)
| SeqMatch (more : bool) (lit : list N) (ll ml md : N) (rest : list N).   (* match fields read; [more] is the return value *)

Definition read_sequence (s : list N) : seqres :=
  match s with
  | [] => SeqTrap
  | tok :: r1 =>
      let '(ll, lit) := read_literal r1 (tok / 16)%N in
      (* src = literal + ll;  if (src > end - 2 || src < literal) return false *)
      if (N.of_nat (length lit) <? ll + 2)%N then SeqEnd lit ll
      else
        match skipn (N.to_nat ll) lit with
        | d0 :: d1 :: r4 =>
            let md := (d0 + 256 * d1)%N in
            let '(ml0, r5) := read_literal r4 (tok mod 16)%N in
            let ml := ((ml0 + N.of_nat MINMATCH) mod U32)%N in
            SeqMatch (MINCODA <=? length r5) lit ll ml md r5
        | _ => SeqTrap                                              (* unreachable: two bytes were checked to remain *)
        end
  end.

(* overrun_copy(d, s, n) with s in the input (suffix [s]) *)
Fixpoint overrun_in (k : nat) (out : list N) (d : nat) (s : list N) : option (list N) :=
  match k with
  | O => Some out
  | S k' => w <- read_at s 0 WS ;; out' <- write_at out d w ;; overrun_in k' out' (d + WS) (skipn WS s)
  end.
(* overrun_copy(d, s, n) with s inside the output array *)
Fixpoint overrun_out (k : nat) (out : list N) (d s : nat) : option (list N) :=
  match k with
  | O => Some out
  | S k' => w <- read_at out s WS ;; out' <- write_at out d w ;; overrun_out k' out' (d + WS) (s + WS)
  end.
(* safe_copy inside the output array *)
Fixpoint safe_out (n : nat) (out : list N) (d s : nat) : option (list N) :=
  match n with
  | O => Some out
  | S n' => w <- read_at out s 1 ;; out' <- write_at out d w ;; safe_out n' out' (S d) (S s)
  end.

Definition u32_of_size_minus (orem k : nat) : N :=        (* unsigned(out_size - k) with out_size a 64-bit size_t *)
  (((N.of_nat orem + 0x10000000000000000 - N.of_nat k) mod 0x10000000000000000) mod U32)%N.

Fixpoint loop (fuel : nat) (s : list N) (out : list N) (d orem : nat) : res :=
  match fuel with
  | O => OutOfFuel
  | S fuel' =>
      match read_sequence s with
      | SeqTrap => Trap
      | SeqEnd lit ll | SeqMatch false lit ll _ _ _ =>
          (* if (literal_len != size_t(src_end - literal) || literal_len > out_size) return -1; fast_copy *)
          if negb (N.of_nat (length lit) =? ll)%N || (N.of_nat orem <? ll)%N then Fail
          else match write_at out d (firstn (N.to_nat ll) lit) with
               | None => Trap
               | Some out' => Ok (d + N.to_nat ll) out'
               end
      | SeqMatch true lit ll ml md rest =>
          let lln := N.to_nat ll in
          (* literal *)
          let step1 :=
            if (ll =? 0)%N then Some (Some (out, d, orem))
            else if (N.of_nat orem <? N.of_nat (align lln))%N then Some None            (* return -1 *)
            else match overrun_in (words lln) out d lit with
                 | None => None                                                          (* trap *)
                 | Some out' => Some (Some (out', d + lln, orem - lln))
                 end in
          match step1 with
          | None => Trap
          | Some None => Fail
          | Some (Some (out1, d1, orem1)) =>
              let mln := N.to_nat ml in let mdn := N.to_nat md in
              if (d1 <? mdn) || (u32_of_size_minus orem1 LASTLITERALS <? ml)%N || (orem1 <? LASTLITERALS) || (mdn =? 0)
                 || (ml <? N.of_nat MINMATCH)%N then Fail
              else
                let r := if (WS <? mdn) && (align mln <=? orem1) then overrun_out (words mln) out1 d1 (d1 - mdn)
                         else safe_out mln out1 d1 (d1 - mdn) in
                match r with
                | None => Trap
                | Some out2 => loop fuel' rest out2 (d1 + mln) (orem1 - mln)
                end
          end
      end
  end.

Definition decompress (src : list N) (osz : nat) (out0 : list N) : res :=
  if (osz <=? length src) || (length src <? MINSRCSIZE) then Fail
  else loop (S (length src)) src out0 0 osz.

(* ---------------------------------------------------------------- reference: LZ4 block format, sequence semantics *)
(* byte-wise match copy onto a reversed output *)
Fixpoint ref_match (n dist : nat) (outr : list N) : option (list N) :=
  match n with
  | O => Some outr
  | S n' => match nth_error outr (dist - 1) with
            | None => None
            | Some b => ref_match n' dist (b :: outr)
            end
  end.
Fixpoint ref_len (s : list N) (l : nat) : option (nat * list N) :=      (* length extension bytes, unbounded *)
  match s with
  | [] => None
  | b :: r => if (b =? 255)%N then ref_len r (l + 255) else Some (l + N.to_nat b, r)
  end.
Definition ref_length (nib : N) (s : list N) : option (nat * list N) :=
  if (nib =? 15)%N then ref_len s 15 else Some (N.to_nat nib, s).

Fixpoint ref_decode (fuel : nat) (s : list N) (outr : list N) : option (list N) :=
  match fuel with
  | O => None
  | S fuel' =>
      match s with
      | [] => None
      | tok :: r1 =>
          match ref_length (tok / 16)%N r1 with
          | None => None
          | Some (ll, lit) =>
              if length lit <? ll then None
              else let outr1 := rev (firstn ll lit) ++ outr in
                   match skipn ll lit with
                   | [] => Some outr1                                   (* last sequence: literals only, ends the block *)
                   | d0 :: d1 :: r4 =>
                       match ref_length (tok mod 16)%N r4 with
                       | None => None
                       | Some (ml0, r5) =>
                           let dist := N.to_nat (d0 + 256 * d1)%N in
                           if dist =? 0 then None else
                           match ref_match (ml0 + MINMATCH) dist outr1 with
                           | None => None
                           | Some outr2 => ref_decode fuel' r5 outr2
                           end
                       end
                   | _ => None
                   end
          end
      end
  end.
Definition lz4_ref (src : list N) : option (list N) :=
  match ref_decode (S (length src)) src [] with Some outr => Some (rev outr) | None => None end.
