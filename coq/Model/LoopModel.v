(* Model/LoopModel.v — the control skeleton of the rule loop of Pass::runGraphite (src/Pass.cpp) and the insert budget of
   Silf::runGraphite (src/Silf.cpp, src/inc/opcodes.h INSERT, src/Segment.cpp), as acceptors of observation sequences.
   What a rule does to the stream is abstracted to its effect on a measure:
       mu = (number of slots from the high-water mark to the end of the stream) + (remaining insert budget).
   The acceptor encodes exactly the control decisions of the C++ loop: the counter lc, the reset rule and the exit.  No proofs here. *)
From GR Require Import Base.Bytes.
From Coq Require Import NArith ZArith.
Local Open Scope N_scope.

(* one observation per iteration of   do { findNDoRule(s); if (s && (s == hw || highpassed || --lc == 0)) {...reset...} } while (s);
   taken at the end of the iteration *)
Record obs := mkobs { o_mu : N; o_lc : N; o_reset : bool; o_live : bool }.      (* live: the cursor s is non-null *)
Record lst := mklst { l_mu : N; l_lc : N }.

Definition lstep (maxloop : N) (st : lst) (o : obs) : option lst :=
  if negb (o_mu o <=? l_mu st) then None                                         (* the measure never increases *)
  else if o_live o then
    if o_reset o then
      (* s == hw, or hw passed, or lc ran out (then s := hw): hw := s->next, lc := maxloop.  The high-water mark moved forward *)
      if (o_mu o <? l_mu st) && (o_lc o =? maxloop) then Some (mklst (o_mu o) maxloop) else None
    else
      (* --lc was evaluated and did not reach 0 *)
      if (o_lc o + 1 =? l_lc st) && (1 <=? o_lc o) then Some (mklst (o_mu o) (o_lc o)) else None
  else Some (mklst (o_mu o) (l_lc st)).                                           (* cursor ran off the stream: the loop exits *)

(* the whole loop: every observation but the last has a live cursor *)
Fixpoint laccept (maxloop : N) (st : lst) (os : list obs) : bool :=
  match os with
  | [] => true
  | o :: r => match lstep maxloop st o with
              | None => false
              | Some st' => if o_live o then laccept maxloop st' r else match r with [] => true | _ => false end
              end
  end.

(* index of the first rejected observation, for diagnostics *)
Fixpoint lreject_at (maxloop : N) (st : lst) (os : list obs) (i : N) : option N :=
  match os with
  | [] => None
  | o :: r => match lstep maxloop st o with
              | None => Some i
              | Some st' => if o_live o then lreject_at maxloop st' r (i + 1) else match r with [] => None | _ => Some (i + 1) end
              end
  end.

(* ---- the growth cap: slot count and insert budget over all passes of one Silf::runGraphite call *)
Inductive gop := GInsert | GDelete | GPassEnd.
Record gst := mkgst { g_n : N; g_b : Z }.            (* Segment::m_numGlyphs, SlotMap::m_maxSize *)

Definition gstep (maxsize : N) (st : gst) (o : gop) : option gst :=
  match o with
  | GInsert => if (g_b st - 1 <=? 0)%Z then None else Some (mkgst (g_n st + 1) (g_b st - 1))     (* if (smap.decMax() <= 0) DIE *)
  | GDelete => if g_n st =? 0 then None else Some (mkgst (g_n st - 1) (g_b st))
  | GPassEnd => if maxsize <? g_n st then None else Some st                                     (* slotCount() > maxSize : fail *)
  end.

Fixpoint grun (maxsize : N) (st : gst) (os : list gop) : option gst :=
  match os with
  | [] => Some st
  | o :: r => match gstep maxsize st o with None => None | Some st' => grun maxsize st' r end
  end.

Definition is_insert (o : gop) : bool := match o with GInsert => true | _ => false end.
Definition growth_factor : N := 64.                                              (* MAX_SEG_GROWTH_FACTOR; tied by Gen/GenLoop.v *)
Definition ginit (nslots : N) : gst := mkgst nslots (Z.of_N (nslots * growth_factor)).
