(* Model/SilfModel.v — Face::readGraphite (src/Face.cpp) and Silf::readGraphite (src/Silf.cpp): the Silf table directory and the
   header of each subtable, read from arbitrary bytes.  Offsets are kept relative to the start of the subtable as the code keeps
   pointers; a read outside the *table* is the trap (None): the code tests its cursor against the end of the subtable (lSilf)
   only where it says so, and those tests are written here in the same order, with the loader's error code for each.  The class
   map is Model/ClassMapModel.v, each pass is handed to Model/PassModel.v as the slice [pass_start, pass_end) of the subtable.
   Heap objects (m_justs, m_pseudos, m_passes) are the lists in the result.  No proofs here. *)
From GR Require Import Base.Bytes Base.Mem Model.ClassMapModel Model.PassModel.
From Coq Require Import NArith ZArith List Bool.
Import ListNotations.
Local Open Scope N_scope.

(* [k] consecutive bytes at [p]: the header fields are decoded from such blocks *)
Fixpoint rdblock (t : mem) (p : N) (k : nat) : option (list N) :=
  match k with
  | O => Some []
  | S k' => match rdb t p with None => None | Some b => match rdblock t (p + 1) k' with None => None | Some r => Some (b :: r) end end
  end.
Definition b8 (l : list N) (i : nat) : N := nth i l 0.
Definition b16 (l : list N) (i : nat) : N := b8 l i * 256 + b8 l (S i).
Definition b32 (l : list N) (i : nat) : N := b16 l i * 65536 + b16 l (S (S i)).

(* the slice [off, off + len) of a table as a table of its own *)
Definition msub (t : mem) (off len : N) : mem := {| m_len := len; m_rd := fun i => if i <? len then m_rd t (off + i) else None |}.

Record shdr := mkshdr {
  h_npass : N; h_spass : N; h_ppass : N; h_jpass : N; h_bpass : N; h_flags : N;
  h_apseudo : N; h_abreak : N; h_abidi : N; h_amirror : N; h_apassbits : N;
  h_justs : list (N * N * N * N); h_alig : N; h_auser : N; h_maxcomp : N; h_dir : N; h_acoll : N; h_gendline : N;
  h_pseudos : list (N * N); h_nclass : N; h_nlinear : N;
  h_passes : list (N * N * N)          (* (start, end, type) relative to the subtable; types 0 linebreak, 1 substitute, 2 positioning, 3 justification *)
}.

Inductive sres :=
  | STrap                                  (* a read outside the table *)
  | SRej (code : N)                        (* refused by a test of the directory / subtable header, with the loader's error code *)
  | SRejCM                                 (* refused by readClassMap *)
  | SRejPass (i : N)                       (* pass i refused by one of the tests Model/PassModel.v covers *)
  | SOk (h : shdr).

(* error codes (src/inc/Error.h) *)
Definition E_NOSILF := 5. Definition E_TOOOLD := 6. Definition E_BADSIZE := 7. Definition E_BADMAXGLYPH := 8.
Definition E_BADNUMJUSTS := 9. Definition E_BADENDJUSTS := 10. Definition E_BADCRITFEATURES := 11. Definition E_BADSCRIPTTAGS := 12.
Definition E_BADAPSEUDO := 13. Definition E_BADABREAK := 14. Definition E_BADABIDI := 15. Definition E_BADAMIRROR := 16.
Definition E_BADNUMPASSES := 17. Definition E_BADPASSESSTART := 18. Definition E_BADPASSBOUND := 19. Definition E_BADPPASS := 20.
Definition E_BADSPASS := 21. Definition E_BADJPASSBOUND := 22. Definition E_BADJPASS := 23. Definition E_BADALIG := 24.
Definition E_BADBPASS := 25. Definition E_BADNUMPSEUDO := 26. Definition E_BADPASSSTART := 34. Definition E_BADPASSEND := 35.
Definition E_BADACOLLISION := 53. Definition E_BADSILFVERSION := 55.

Fixpoint read_justs (t : mem) (p : N) (k : nat) : option (list (N * N * N * N)) :=
  match k with
  | O => Some []
  | S k' => match rdblock t p 4 with
            | Some [a; b; c; d] => match read_justs t (p + 8) k' with Some r => Some ((a, b, c, d) :: r) | None => None end
            | _ => None
            end
  end.
Fixpoint read_pseudos (t : mem) (p : N) (k : nat) : option (list (N * N)) :=
  match k with
  | O => Some []
  | S k' => match r32 t p, r16 t (p + 4) with
            | Some u, Some g => match read_pseudos t (p + 6) k' with Some r => Some ((u, g) :: r) | None => None end
            | _, _ => None
            end
  end.

(* the first failing test of a short-circuit chain e.test(c1, E1) || e.test(c2, E2) || ... *)
Fixpoint first_err (l : list (bool * N)) : option N :=
  match l with [] => None | (c, e) :: r => if c then Some e else first_err r end.

Definition pass_type (i jp pp sp : N) : N := if jp <=? i then 3 else if pp <=? i then 2 else if sp <=? i then 1 else 0.

(* the pass loop: [o] is the offset of the pass-offset array (relative to the subtable at [s]) *)
Fixpoint read_passes (t : mem) (s l o passes_start : N) (k : nat) (i : N) (jp pp sp acoll flags : N) (boxes : bool)
                     (acc : list (N * N * N)) : sres + list (N * N * N) :=
  match k with
  | O => inr (rev acc)
  | S k' =>
      match r32 t (s + o + 4 * i), r32 t (s + o + 4 * i + 4) with
      | Some ps, Some pe =>
          if pe <? ps then inl (SRej E_BADPASSSTART) else
          if ps <? passes_start then inl (SRej E_BADPASSSTART) else
          if l <? pe then inl (SRej E_BADPASSEND) else
          let pt := pass_type i jp pp sp in
          let body := msub t (s + ps) (pe - ps) in
          (* the collision-flag test of readPass: (flags & 0x1f) only in a positioning or later pass of a font with boxes, a collision attribute and Silf flag 0x20 *)
          let coll_ok := match rdb body 0 with
                         | Some pf => (pf mod 32 =? 0) || ((2 <=? pt) && negb (acoll =? 0) && boxes && negb ((flags / 32) mod 2 =? 0))
                         | None => true end in
          match read_pass body (Z.of_N ps) coll_ok with
          | PTrap => inl STrap
          | PReject => inl (SRejPass i)
          | PAccept _ => read_passes t s l o passes_start k' (i + 1) jp pp sp acoll flags boxes ((ps, pe, pt) :: acc)
          end
      | _, _ => inl STrap
      end
  end.

(* Silf::readGraphite(silf_start = table + s, lSilf = l, face, version); ng / na / boxes: the glyph cache's numGlyphs, numAttrs, hasBoxes *)
Definition read_silf_sub (t : mem) (s l version ng na : N) (boxes : bool) : sres :=
  if 0x00060000 <=? version then SRej E_BADSILFVERSION else
  let v3 := 0x00030000 <=? version in
  if (if v3 then l <? 28 else l <? 20) then SRej E_BADSIZE else
  let p := if v3 then 8 else 0 in
  match rdblock t (s + p) 20 with None => STrap | Some h =>
  let maxglyph := b16 h 0 in
  let npass := b8 h 6 in let spass := b8 h 7 in let ppass := b8 h 8 in let jpass := b8 h 9 in let bpass := b8 h 10 in
  let flags := b8 h 11 in
  let apseudo := b8 h 14 in let abreak := b8 h 15 in let abidi := b8 h 16 in let amirror := b8 h 17 in let apassbits := b8 h 18 in
  let njust := b8 h 19 in
  let p := p + 20 in
  match first_err [(ng <=? maxglyph, E_BADMAXGLYPH); (l <=? p + njust * 8, E_BADNUMJUSTS)] with Some e => SRej e | None =>
  match read_justs t (s + p) (N.to_nat njust) with None => STrap | Some justs =>
  let p := p + 8 * njust in
  if l <=? p + 10 then SRej E_BADENDJUSTS else
  match rdblock t (s + p) 10 with None => STrap | Some g =>
  let alig := b16 g 0 in let auser := b8 g 2 in let maxcomp := b8 g 3 in
  let dir := (b8 g 4 + 255) mod 256 in                                        (* uint8 m_dir = read<uint8> - 1 *)
  let acoll := b8 g 5 in
  let ncrit := b8 g 9 in
  let p := p + 10 + 2 * ncrit + 1 in
  if l <=? p then SRej E_BADCRITFEATURES else
  match rdb t (s + p) with None => STrap | Some nscript =>
  let p := p + 1 + 4 * nscript in
  if l <=? p + 6 then SRej E_BADSCRIPTTAGS else
  match r16 t (s + p), r32 t (s + p + 2) with
  | Some gendline, Some passes_start =>
  let o_passes := p + 2 in
  let p := p + 6 in
  match first_err [(na <=? apseudo, E_BADAPSEUDO); (na <=? abreak, E_BADABREAK); (na <=? abidi, E_BADABIDI); (na <=? amirror, E_BADAMIRROR);
                   (negb (acoll =? 0) && (sub64 na 5 <=? acoll), E_BADACOLLISION);          (* size_t num_attrs - 5 *)
                   (128 <? npass, E_BADNUMPASSES); (l <=? passes_start, E_BADPASSESSTART);
                   (ppass <? spass, E_BADPASSBOUND); (npass <? ppass, E_BADPPASS); (npass <? spass, E_BADSPASS);
                   (jpass <? ppass, E_BADJPASSBOUND); (npass <? jpass, E_BADJPASS);
                   (negb (bpass =? 255) && ((bpass <? jpass) || (npass <? bpass)), E_BADBPASS);
                   (127 <? alig, E_BADALIG)] with Some e => SRej e | None =>
  let p := p + 4 * npass in
  if passes_start <=? p + 2 then SRej E_BADPASSESSTART else
  match r16 t (s + p) with None => STrap | Some npseudo =>
  let p := p + 8 in
  if passes_start <=? p + npseudo * 6 then SRej E_BADNUMPSEUDO else
  match read_pseudos t (s + p) (N.to_nat npseudo) with None => STrap | Some pseudos =>
  let p := p + 6 * npseudo in
  match read_class_map t (s + p) (passes_start - p) version with
  | CTrap => STrap
  | CReject => SRejCM
  | COk nclass nlinear _ data =>
      if passes_start - p <? N.of_nat (length data) then SRej E_BADPASSESSTART else
      match read_passes t s l o_passes passes_start (N.to_nat npass) 0 jpass ppass spass acoll flags boxes [] with
      | inl r => r
      | inr passes =>
          SOk (mkshdr npass spass ppass jpass bpass flags apseudo abreak abidi amirror apassbits justs alig auser maxcomp dir acoll
                      gendline pseudos nclass nlinear passes)
      end
  end end end end
  | _, _ => STrap
  end end end end end end.

(* Face::readGraphite: the directory.  Result: the subtables read so far and how the loop ended (None = all read). *)
Fixpoint read_silf_dir (t : mem) (version ng na : N) (boxes : bool) (nsilf : N) (k : nat) (i p : N) (acc : list shdr) : list shdr * option (N * sres) :=
  match k with
  | O => (rev acc, None)
  | S k' =>
      match r32 t p, (if i =? nsilf - 1 then Some (tlen t) else r32 t (p + 4)) with
      | Some offset, Some next =>
          if (tlen t <? next) || (next <=? offset) then (rev acc, Some (i, SRej E_BADSIZE)) else
          match read_silf_sub t offset (next - offset) version ng na boxes with
          | SOk h => read_silf_dir t version ng na boxes nsilf k' (i + 1) (p + 4) (h :: acc)
          | r => (rev acc, Some (i, r))
          end
      | _, _ => (rev acc, Some (i, STrap))
      end
  end.

Definition read_silf_table (t : mem) (ng na : N) (boxes : bool) : list shdr * option (N * sres) :=
  if tlen t =? 0 then ([], Some (0, SRej E_NOSILF)) else
  if tlen t <? 20 then ([], Some (0, SRej E_BADSIZE)) else
  match r32 t 0 with None => ([], Some (0, STrap)) | Some version =>
  if version <? 0x00020000 then ([], Some (0, SRej E_TOOOLD)) else
  let p := if 0x00030000 <=? version then 8 else 4 in
  match r16 t p with None => ([], Some (0, STrap)) | Some nsilf =>
  read_silf_dir t version ng na boxes nsilf (N.to_nat nsilf) 0 (p + 4) []
  end end.

Definition have_passes (hs : list shdr) : bool := existsb (fun h => negb (h_npass h =? 0)) hs.
