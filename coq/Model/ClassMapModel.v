(* Model/ClassMapModel.v — Silf::readClassMap / readClassOffsets (src/Silf.cpp): the class map of a Silf subtable, read from the data_len
   bytes that start at [start] of the table.  A read outside the table is the trap (None).  C unsigned arithmetic is written out:
   differences of offsets are taken modulo 2^32 as the code does.  No proofs here. *)
From GR Require Import Base.Bytes Base.Mem.
From Coq Require Import NArith List.
Import ListNotations.
Local Open Scope N_scope.

Inductive cres := CTrap | CReject | COk (nclass nlinear : N) (offs data : list N).

Definition rdT (wide : bool) (t : mem) (i : N) : option N := if wide then r32 t i else r16 t i.
Definition sub32 (a b : N) : N := (a + 0x100000000 - b mod 0x100000000) mod 0x100000000.

(* offsets o_0 .. o_n, each (raw - cls_off) / 2 in 32-bit arithmetic, refused when above max_off *)
Fixpoint read_offs (k : nat) (wide : bool) (t : mem) (p cls_off max_off : N) (acc : list N) : option (option (list N)) :=
  match k with
  | O => Some (Some (rev acc))
  | S k' => match rdT wide t p with
            | None => None
            | Some raw => let o := sub32 raw cls_off / 2 in
                          if max_off <? o then Some None else read_offs k' wide t (p + (if wide then 4 else 2)) cls_off max_off (o :: acc)
            end
  end.
Fixpoint read_words (k : nat) (t : mem) (p : N) (acc : list N) : option (list N) :=
  match k with
  | O => Some (rev acc)
  | S k' => match r16 t p with None => None | Some v => read_words k' t (p + 2) (v :: acc) end
  end.
Fixpoint monotone (l : list N) : bool := match l with a :: ((b :: _) as r) => (a <=? b) && monotone r | _ => true end.

(* the invariants of each non-linear (lookup) class: header inside the data, numIDs pairs inside, searchRange + rangeShift = numIDs, even length *)
Fixpoint lookups_ok (offs : list N) (data : list N) (max_off : N) : bool :=
  match offs with
  | o :: ((o1 :: _) as r) =>
      let w i := nth (N.to_nat (o + i)) data 0 in
      negb (max_off <? o + 4) && negb (w 0 =? 0) && negb (max_off <? w 0 * 2 + o + 4) && (w 3 + w 1 =? w 0) && N.even (sub32 o1 o) && lookups_ok r data max_off
  | _ => true
  end.

Definition read_class_map (t : mem) (start dlen version : N) : cres :=
  if dlen <? 4 then CReject else
  match r16 t start, r16 t (start + 2) with
  | Some ncls, Some nlin =>
      let wide := 0x40000 <=? version in
      let w := if wide then 4 else 2 in
      if (ncls <? nlin) || (dlen - 4 <? (ncls + 1) * w) then CReject else
      let cls_off := 4 + w * (ncls + 1) in                                  (* kept in 32 bits *)
      match rdT wide t (start + 4), rdT wide t (start + 4 + w * ncls) with
      | Some first, Some lst =>
          let max_off := sub32 lst cls_off / 2 in
          if negb (first =? cls_off) || ((dlen - cls_off) / 2 <? max_off) then CReject else
          match read_offs (S (N.to_nat ncls)) wide t (start + 4) cls_off max_off [] with
          | None => CTrap
          | Some None => CReject
          | Some (Some offs) =>
              if max_off <? nlin + (ncls - nlin) * 6 then CReject else
              if negb (monotone (firstn (S (N.to_nat nlin)) offs)) then CReject else
              match read_words (N.to_nat max_off) t (start + cls_off) [] with
              | None => CTrap
              | Some data => if lookups_ok (skipn (N.to_nat nlin) offs) data max_off then COk ncls nlin offs data else CReject
              end
          end
      | _, _ => CTrap
      end
  | _, _ => CTrap
  end.
