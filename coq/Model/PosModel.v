(* Model/PosModel.v — executable model of final positioning: Slot::finalise (with its depth-100 cut-off, cluster minimum,
   attachment offsets and the flood shift of a base whose cluster starts left of it) and the loop of Segment::positionSlots
   over the bases (src/Slot.cpp, src/Segment.cpp), in exact integer arithmetic.  The scale factor k multiplies every design-unit
   quantity exactly where the C++ multiplies by font->scale().  No proofs here. *)
From GR Require Import Base.Bytes.
From Coq Require Import ZArith.
Local Open Scope Z_scope.

(* per-slot design-unit inputs of finalise *)
Record sp := mksp {
  p_id : N;
  p_shx : Z; p_shy : Z;        (* m_shift.x * (rtl ? -1 : 1) + m_just [+ collision offset],  m_shift.y [+ collision offset] *)
  p_tadv : Z;                  (* m_advance.x + m_just *)
  p_advy : Z;                  (* m_advance.y *)
  p_atx : Z; p_aty : Z;        (* m_attach - m_with *)
  p_advpos : bool }.           (* m_advance.x >= 0.5f : independent of the scale *)

(* the attachment structure as first-child / next-sibling tree *)
Inductive bt := Leaf | BNode (p : sp) (child sib : bt).

Definition V := (Z * Z)%type.
Definition vadd (a b : V) : V := (fst a + fst b, snd a + snd b).
Definition vscale (k : Z) (v : V) : V := (k * fst v, k * snd v).

(* positions assigned so far: (slot id, position) *)
Definition plist := list (N * V).
Definition shift_all (adj : Z) (ps : plist) : plist := map (fun e => (fst e, (fst (snd e) + adj, snd (snd e)))) ps.

(* Slot::finalise(seg, font, base, bbox, attrLevel = 0, clusterMin, rtl, isFinal, depth): [fuel] = 101 - depth *)
Fixpoint finalise (fuel : nat) (k : Z) (t : bt) (isroot : bool) (base : V) (cmin : Z) : V * Z * plist :=
  match fuel, t with
  | _, Leaf => ((0, 0), cmin, [])
  | O, BNode p _ _ => ((0, 0), cmin, [(p_id p, (0, 0))])            (* depth > 100: return Position(0, 0); the slot keeps its initial
                                                                       position (0,0) but Slot::floodShift still reaches this depth *)
  | S f, BNode p child sib =>
      let shift := vscale k (p_shx p, p_shy p) in
      let tadv := k * p_tadv p in
      let pos0 := vadd base shift in
      let '(pos, res, cmin1) :=
        if isroot then (pos0, vadd base (vscale k (p_tadv p, p_advy p)), fst pos0)
        else
          let pos := vadd pos0 (vscale k (p_atx p, p_aty p)) in
          let tadvv := if p_advpos p then fst pos + tadv - fst shift else 0 in
          (pos, (tadvv, 0), if (p_advpos p || (fst pos <? 0)) && (fst pos <? cmin) then fst pos else cmin) in
      let '(res2, cmin2, ps1) :=
        match child with
        | Leaf => (res, cmin1, [])
        | _ => let '(tres, c, ps) := finalise f k child false pos cmin1 in
               ((if (isroot || p_advpos p) && (fst res <? fst tres) then tres else res), c, ps)
        end in
      let '(res3, cmin3, ps2) :=
        match sib with
        | Leaf => (res2, cmin2, [])
        | _ => if isroot then (res2, cmin2, [])
               else let '(tres, c, ps) := finalise f k sib false base cmin2 in
                    ((if fst res2 <? fst tres then tres else res2), c, ps)
        end in
      if isroot && (cmin3 <? fst base) then
        let adj := fst pos - cmin3 in
        ((fst res3 + adj, snd res3), cmin3, (p_id p, (fst pos + adj, snd pos)) :: shift_all adj ps1 ++ ps2)
      else (res3, cmin3, (p_id p, pos) :: ps1 ++ ps2)
  end.

(* Segment::positionSlots over the bases in visiting order (already reversed for right-to-left) *)
Fixpoint position_bases (k : Z) (bases : list bt) (cur : V) : V * plist :=
  match bases with
  | [] => (cur, [])
  | b :: rest =>
      let '(res, _, ps) := finalise 101 k b true cur (fst cur) in
      let '(fin, ps') := position_bases k rest res in
      (fin, ps ++ ps')
  end.

Definition pscale (k : Z) (ps : plist) : plist := map (fun e => (fst e, vscale k (snd e))) ps.

(* ---- exact ties: does the computation of [finalise] compare two equal quantities anywhere?  In exact arithmetic the comparisons of
   finalise are homogeneous in the scale (Proofs/PosProofs.v), so with a font they can only come out differently from the design-unit
   run where single-precision rounding of the scaled operands decides between EQUAL design-unit values.  Same recursion as finalise,
   at scale 1; returns the positions' bookkeeping values it needs plus the tie flag. *)
Fixpoint finalise_tie (fuel : nat) (t : bt) (isroot : bool) (base : V) (cmin : Z) : V * Z * bool :=
  match fuel, t with
  | _, Leaf => ((0, 0), cmin, false)
  | O, BNode p _ _ => ((0, 0), cmin, false)
  | S f, BNode p child sib =>
      let shift := (p_shx p, p_shy p) in
      let tadv := p_tadv p in
      let pos0 := vadd base shift in
      let '(pos, res, cmin1, tie1) :=
        if isroot then (pos0, vadd base (p_tadv p, p_advy p), fst pos0, false)
        else
          let pos := vadd pos0 (p_atx p, p_aty p) in
          let tadvv := if p_advpos p then fst pos + tadv - fst shift else 0 in
          (pos, (tadvv, 0), (if (p_advpos p || (fst pos <? 0)) && (fst pos <? cmin) then fst pos else cmin),
           (negb (p_advpos p) && (fst pos =? 0)) || ((p_advpos p || (fst pos <? 0)) && (fst pos =? cmin))) in
      let '(res2, cmin2, tie2) :=
        match child with
        | Leaf => (res, cmin1, false)
        | _ => let '(tres, c, tq) := finalise_tie f child false pos cmin1 in
               ((if (isroot || p_advpos p) && (fst res <? fst tres) then tres else res), c, tq || ((isroot || p_advpos p) && (fst res =? fst tres)))
        end in
      let '(res3, cmin3, tie3) :=
        match sib with
        | Leaf => (res2, cmin2, false)
        | _ => if isroot then (res2, cmin2, false)
               else let '(tres, c, tq) := finalise_tie f sib false base cmin2 in
                    ((if fst res2 <? fst tres then tres else res2), c, tq || (fst res2 =? fst tres))
        end in
      let tie4 := isroot && (cmin3 =? fst base) in
      let res4 := if isroot && (cmin3 <? fst base) then (fst res3 + (fst pos - cmin3), snd res3) else res3 in
      (res4, cmin3, tie1 || tie2 || tie3 || tie4)
  end.
Fixpoint bases_tie (bases : list bt) (cur : V) : bool :=
  match bases with
  | [] => false
  | b :: rest => let '(res, _, tie) := finalise_tie 101 b true cur (fst cur) in tie || bases_tie rest res
  end.
