(* Model/ZonesModel.v — the cost-weighted free-interval set of the collision fixer: Zones::{initialise, insert, remove, exclude,
   exclude_with_margins, weighted, closest} and Exclusion::{outcode, split_at, left_trim, +=, track_cost, test_position, cost}
   (src/Intervals.cpp, src/inc/Intervals.h), over exact integers (positions and weights on an integer lattice, where the
   implementation's float arithmetic is exact).  The loops over the vector, with their in-place insertions and erasures, are
   structural recursions over the list.  No proofs here. *)
From GR Require Import Base.Bytes.
From Coq Require Import ZArith Bool.
Local Open Scope Z_scope.

Record excl := mkexcl { ex : Z; exm : Z; ec : Z; esm : Z; esmx : Z; eopen : bool }.

(* uint8 outcode(p) = ((p - xm >= 0) << 1) | (x - p > 0), as the pair (bit 1, bit 0) *)
Definition oc (e : excl) (p : Z) : bool * bool := (exm e <=? p, p <? ex e).
Definition oc_and_nonzero (a b : bool * bool) : bool := (fst a && fst b) || (snd a && snd b).
Definition oc_xor (a b : bool * bool) : bool * bool := (xorb (fst a) (fst b), xorb (snd a) (snd b)).

Definition set_x (e : excl) (p : Z) : excl := mkexcl p (exm e) (ec e) (esm e) (esmx e) (eopen e).      (* left_trim / the part split_at leaves *)
Definition set_xm (e : excl) (p : Z) : excl := mkexcl (ex e) p (ec e) (esm e) (esmx e) (eopen e).     (* the part split_at returns *)
Definition add_w (i e : excl) : excl := mkexcl (ex i) (exm i) (ec i + ec e) (esm i + esm e) (esmx i + esmx e) false.   (* operator += *)
Definition separated (a b : Z) : bool := negb (a =? b).

(* the loop of Zones::insert, after e was clamped to [_pos, _posm] and found non-empty *)
Fixpoint ins (e : excl) (l : list excl) : list excl :=
  match l with
  | [] => []
  | i :: r =>
    if negb (ex e <? exm e) then i :: r                                  (* loop condition e.x < e.xm *)
    else
      let oca := oc e (ex i) in let ocb := oc e (exm i) in
      if oc_and_nonzero oca ocb then i :: ins e r
      else match oc_xor oca ocb with
        | (false, false) =>                                               (* 0: e completely covers i *)
            add_w i e :: ins (set_x e (exm i)) r
        | (false, true) =>                                                (* 1: e overlaps on the rhs of i *)
            if negb (separated (exm i) (ex e)) then i :: ins e r
            else if separated (ex i) (ex e)
                 then set_xm i (ex e) :: add_w (set_x i (ex e)) e :: ins (set_x e (exm i)) r
                 else add_w i e :: ins (set_x e (exm i)) r
        | (true, false) =>                                                (* 2: e overlaps on the lhs of i *)
            if negb (separated (exm e) (ex i)) then i :: r
            else if separated (exm e) (exm i)
                 then add_w (set_xm i (exm e)) e :: set_x i (exm e) :: r
                 else add_w i e :: r
        | (true, true) =>                                                 (* 3: i completely covers e *)
            if separated (exm e) (exm i)
            then set_xm i (ex e) :: add_w (set_x (set_xm i (exm e)) (ex e)) e :: set_x i (exm e) :: r
            else set_xm i (ex e) :: add_w (set_x i (ex e)) e :: r
        end
  end.

Record zones := mkzones { z_pos : Z; z_posm : Z; z_mlen : Z; z_mwt : Z; z_excl : list excl }.

Definition insert (z : zones) (e : excl) : zones :=
  let e1 := mkexcl (Z.max (ex e) (z_pos z)) (Z.min (exm e) (z_posm z)) (ec e) (esm e) (esmx e) (eopen e) in
  if exm e1 <=? ex e1 then z else mkzones (z_pos z) (z_posm z) (z_mlen z) (z_mwt z) (ins e1 (z_excl z)).

(* the loop of Zones::remove *)
Fixpoint rem (x xm : Z) (l : list excl) : list excl :=
  match l with
  | [] => []
  | i :: r =>
    let oca := oc i x in let ocb := oc i xm in
    if oc_and_nonzero oca ocb then i :: rem x xm r
    else match oc_xor oca ocb with
      | (false, false) =>                                                 (* 0: i completely covers the removed range *)
          if separated (ex i) x then set_xm i x :: set_x i xm :: r else set_x i xm :: r
      | (false, true) => set_x i xm :: r                                  (* 1: i overlaps on the rhs *)
      | (true, false) =>                                                  (* 2: i overlaps on the lhs *)
          if separated (ex i) x then set_xm i x :: rem x xm r else rem x xm r
      | (true, true) => rem x xm r                                        (* 3: the range completely covers i *)
      end
  end.

Definition remove (z : zones) (x xm : Z) : zones :=
  let x1 := Z.max x (z_pos z) in let xm1 := Z.min xm (z_posm z) in
  if xm1 <=? x1 then z else mkzones (z_pos z) (z_posm z) (z_mlen z) (z_mwt z) (rem x1 xm1 (z_excl z)).

(* Exclusion::weighted<XY> and <SD>.  The SD variant carries factors 1/4; the model keeps the weights of an SD zone in units of
   one quarter (c, sm, smx are 4 times the C++ values), which is exact and changes no comparison of costs.  A zone is only ever
   fed weights of its own kind (ShiftCollider uses axis i with range i); the correspondence skips mixed sequences. *)
Definition weighted_xy (xmin xmax f a0 m xi c : Z) : excl := mkexcl xmin xmax (m * xi * xi + f * a0 * a0 + c) (m + f) (m * xi) false.
Definition weighted_sd (xmin xmax f a0 m xi ai c : Z) (nega : bool) : excl :=
  let xia := if nega then xi - ai else xi + ai in
  mkexcl xmin xmax (m * xia * xia + 2 * f * a0 * a0 + 4 * c) (m + 2 * f) (m * xia) false.
Definition weighted_axis (axis : Z) (xmin xmax f a0 m xi ai c : Z) (nega : bool) : excl :=
  if axis <? 2 then weighted_xy xmin xmax f a0 m xi c else weighted_sd xmin xmax f a0 m xi ai c nega.

Definition initialise (sd : bool) (xmin xmax mlen mwt a0 : Z) : zones :=
  let e := if sd then weighted_sd xmin xmax 1 a0 0 0 0 0 false else weighted_xy xmin xmax 1 a0 0 0 0 in
  mkzones xmin xmax mlen mwt [mkexcl (ex e) (exm e) (ec e) (esm e) (esmx e) true].

Definition exclude (z : zones) (xmin xmax : Z) : zones := remove z xmin xmax.
Definition exclude_with_margins (z : zones) (xmin xmax axis : Z) : zones :=
  let z1 := remove z xmin xmax in
  let z2 := insert z1 (weighted_axis axis (xmin - z_mlen z) xmin 0 0 (z_mwt z) (xmin - z_mlen z) 0 0 false) in
  insert z2 (weighted_axis axis xmax (xmax + z_mlen z) 0 0 (z_mwt z) (xmax + z_mlen z) 0 0 false).

(* ---- operations as data, for arbitrary sequences *)
Inductive zop :=
| ZExclude (xmin xmax : Z)
| ZExcludeM (xmin xmax axis : Z)
| ZWeighted (axis xmin xmax f a0 m xi ai c : Z) (nega : bool).
Definition zapply (z : zones) (o : zop) : zones :=
  match o with
  | ZExclude a b => exclude z a b
  | ZExcludeM a b ax => exclude_with_margins z a b ax
  | ZWeighted ax a b f a0 m xi ai c ng => insert z (weighted_axis ax a b f a0 m xi ai c ng)
  end.

(* ---- closest: the candidate position of one exclusion.  zerox = smx / sm + origin is a float division in the C++; the model
   takes it from an oracle and clamps it exactly as the C++ does, so that "the answer lies inside a free interval" does not
   depend on how the division rounds. *)
Definition cost (e : excl) (p : Z) : Z := (esm e * p - 2 * esmx e) * p + ec e.
Definition test_position (zerox : excl -> Z -> Z) (e : excl) (origin : Z) : Z :=
  if esm e <? 0 then
    let res0 := ex e in let cl0 := cost e (ex e) in
    let '(res, cl) := if (ex e <? origin) && (origin <? exm e) then
                        (let co := cost e origin in if co <? cl0 then (origin, co) else (res0, cl0)) else (res0, cl0) in
    let cr := cost e (exm e) in
    if cr <? cl then exm e else res
  else
    let zx := zerox e origin in
    if zx <? ex e then ex e else if exm e <? zx then exm e else zx.
