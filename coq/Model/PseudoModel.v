(* Model/PseudoModel.v — the pseudo-glyph fallback of the character-to-glyph mapping: Silf::findPseudo (src/Silf.cpp) and its two callers,
   the text reader of Segment.cpp (the initial glyph of every slot) and gr_face_is_char_supported (src/gr_face.cpp).  The pseudo map is the
   list of (code point, glyph) entries of the first Silf subtable in table order; [cmap_gid] is what the cmap (Model/CmapModel.v) gave for
   the character.  No proofs here. *)
From GR Require Import Base.Bytes.
From Coq Require Import NArith List Bool.
Local Open Scope N_scope.

Fixpoint find_pseudo (pm : list (N * N)) (u : N) : N :=
  match pm with
  | [] => 0
  | (c, g) :: r => if c =? u then g else find_pseudo r u
  end.

Definition initial_glyph (cmap_gid : N) (pm : list (N * N)) (u : N) : N := if cmap_gid =? 0 then find_pseudo pm u else cmap_gid.
Definition char_supported (cmap_gid : N) (pm : list (N * N)) (u : N) : bool := negb (initial_glyph cmap_gid pm u =? 0).

(* the text reader (process_utf_data in src/Segment.cpp) over the decoded characters: one slot per character up to the first NUL, each
   with its initial glyph *)
Fixpoint upto_nul (us : list N) : list N :=
  match us with
  | [] => []
  | u :: r => if u =? 0 then [] else u :: upto_nul r
  end.
Definition text_glyphs (cmapf : N -> N) (pm : list (N * N)) (us : list N) : list N :=
  map (fun u => initial_glyph (cmapf u) pm u) (upto_nul us).
