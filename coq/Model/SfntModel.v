(* Model/SfntModel.v — the sfnt container as the file face reads it: FileFace::FileFace, FileFace::get_table_fn (src/FileFace.cpp),
   TtfUtil::{GetHeaderInfo, CheckHeader, GetTableDirInfo, GetTableInfo} (src/TtfUtil.cpp), over an arbitrary byte string standing
   for the file.  fread of k bytes at offset o succeeds exactly when o + k <= file length.  No proofs here. *)
From GR Require Import Base.Bytes.
From Coq Require Import NArith Bool.
Local Open Scope N_scope.

Definition file := list N.                        (* bytes *)
Definition flen (f : file) : N := N.of_nat (length f).

(* fseek + fread(buf, 1, k) : the k bytes at offset o, or failure *)
Definition fread (f : file) (o k : N) : option (list N) :=
  if o + k <=? flen f then Some (firstn (N.to_nat k) (skipn (N.to_nat o) f)) else None.

Definition be16 (l : list N) (i : nat) : N := nth i l 0 * 256 + nth (S i) l 0.
Definition be32 (l : list N) (i : nat) : N := ((nth i l 0 * 256 + nth (S i) l 0) * 256 + nth (S (S i)) l 0) * 256 + nth (S (S (S i))) l 0.

Definition HEADER_LEN : N := 12.                  (* offsetof(OffsetSubTable, table_directory) *)
Definition ENTRY_LEN : N := 16.                   (* sizeof(OffsetSubTable::Entry) *)
Definition TrueTypeWin : N := 0x00010000.
Definition MAX_TABLES : N := 40.

Record fileface := mkff { ff_header : list N; ff_dir : list N; ff_ntables : N }.

(* FileFace::FileFace: header read and checked, then the directory (num_tables * 16 bytes after the header) *)
Definition open_file (f : file) : option fileface :=
  match fread f 0 HEADER_LEN with
  | None => None
  | Some h =>
      if negb (be32 h 0 =? TrueTypeWin) then None                 (* CheckHeader *)
      else let nt := be16 h 4 in
           match fread f HEADER_LEN (nt * ENTRY_LEN) with
           | None => None                                         (* _table_dir = NULL: operator bool() is false *)
           | Some d => Some (mkff h d nt)
           end
  end.

(* TtfUtil::GetTableInfo: first directory entry with the tag *)
Fixpoint find_entry (d : list N) (k : nat) (i : nat) (tag : N) : option (N * N) :=
  match k with
  | O => None
  | S k' => if be32 d (16 * i) =? tag then Some (be32 d (16 * i + 8), be32 d (16 * i + 12)) else find_entry d k' (S i) tag
  end.
Definition table_info (ff : fileface) (tag : N) : option (N * N) :=
  if MAX_TABLES <? ff_ntables ff then None else find_entry (ff_dir ff) (N.to_nat (ff_ntables ff)) 0 tag.

(* FileFace::get_table_fn: offset / length against the file length, then fread *)
Definition get_table (f : file) (ff : fileface) (tag : N) : option (list N) :=
  match table_info ff tag with
  | None => None
  | Some (off, len) =>
      if (flen f <? off) || (flen f - off <? len) then None
      else fread f off len
  end.

Definition file_table (f : file) (tag : N) : option (list N) :=
  match open_file f with None => None | Some ff => get_table f ff tag end.
