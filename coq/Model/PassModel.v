(* Model/PassModel.v — the offset arithmetic of Pass::readPass (src/Pass.cpp) on arbitrary pass bytes: every header field is read
   through the checked accessor, every array the loader goes on to read (ranges, rule map, start states, sort keys, pre-contexts,
   constraint / action offsets, transition table, the three code blocks and each rule's code) is recorded as a region.  The
   bytecode decoder itself is Model/VmModel.v; readRanges' writes into m_cols and the state / rule-map index checks of readStates
   concern the heap objects, not the table, and are outside this model.  No proofs here. *)
From GR Require Import Base.Bytes Base.Mem.
From Coq Require Import NArith ZArith Bool.
Local Open Scope Z_scope.

Inductive pres := PTrap | PReject | PAccept (regions : list (Z * Z)).     (* regions: (offset, length) the loader reads *)

Definition zr16 (t : mem) (o : Z) : option Z := if o <? 0 then None else match r16 t (Z.to_N o) with Some v => Some (Z.of_N v) | None => None end.
Definition zr32 (t : mem) (o : Z) : option Z := if o <? 0 then None else match r32 t (Z.to_N o) with Some v => Some (Z.of_N v) | None => None end.
Definition zrb (t : mem) (o : Z) : option Z := if o <? 0 then None else match rdb t (Z.to_N o) with Some v => Some (Z.of_N v) | None => None end.

(* per rule (from the last to the first): the action and constraint code regions, with the loader's ordering checks *)
Fixpoint rule_regions (t : mem) (n : nat) (o_con o_act rc_data ac_data rc_data_end ac_data_end rc_end ac_end : Z) (acc : list (Z * Z)) : pres :=
  match n with
  | O => PAccept acc
  | S k =>
      let i := Z.of_nat k in
      match zr16 t (o_act + 2 * i), zr16 t (o_con + 2 * i) with
      | Some oa, Some oc =>
          let ac_begin := ac_data + oa in
          let rc_begin := if oc =? 0 then rc_end else rc_data + oc in
          if (ac_end <? ac_begin) || (ac_data_end <? ac_begin) || (ac_data_end <? ac_end)
             || (rc_end <? rc_begin) || (rc_data_end <? rc_begin) || (rc_data_end <? rc_end) then PReject
          else rule_regions t k o_con o_act rc_data ac_data rc_data_end ac_data_end rc_begin ac_begin
                            ((ac_begin, ac_end - ac_begin) :: (rc_begin, rc_end - rc_begin) :: acc)
      | _, _ => PTrap
      end
  end.

(* readPass(pass_start, pass_length, subtable_base): offsets are relative to pass_start; [coll_ok] stands for the collision-flag test
   that involves the Silf header and the glyph cache *)
Definition read_pass (t : mem) (base : Z) (coll_ok : bool) : pres :=
  let L := Z.of_N (tlen t) in
  if L <? 40 then PReject else
  match zrb t 0, zr16 t 4, zr32 t 8, zr32 t 12, zr32 t 16 with
  | Some flags, Some num_rules, Some pc32, Some rc32, Some ac32 =>
  match zr16 t 24, zr16 t 26, zr16 t 28, zr16 t 30, zr16 t 32 with
  | Some num_states, Some num_trans, Some num_succ, Some num_cols, Some num_ranges =>
    if negb coll_ok then PReject else
    if (num_rules =? 0) && (flags mod 8 =? 0) then PReject else
    if (num_states <? num_trans) || (num_states <? num_succ) || (num_succ + num_trans <? num_states)
       || ((0 <? num_rules) && (num_ranges =? 0)) || (0x7FFF <? num_cols) then PReject else
    let pc := pc32 - base in let rc := rc32 - base in let ac := ac32 - base in
    let p := 40 in
    if L <? p + num_ranges * 6 - 2 then PReject else
    match zr16 t (p + num_ranges * 6 - 4) with None => PTrap | Some last_glyph =>
    let ranges := p in
    let p := p + 6 * num_ranges in
    let o_rule_map := p in
    let p := p + 2 * (num_succ + 1) in
    if (L <? o_rule_map + 2 * num_succ) || (L <? p) then PReject else
    match zr16 t (o_rule_map + 2 * num_succ) with None => PTrap | Some num_entries =>
    let rule_map := p in
    let p := p + 2 * num_entries in
    if L <? p + 2 then PReject else
    match zrb t p, zrb t (p + 1) with
    | Some min_pre, Some max_pre =>
      let p := p + 2 in
      if max_pre <? min_pre then PReject else
      let start_states := p in
      let p := p + 2 * (max_pre - min_pre + 1) in
      let sort_keys := p in
      let p := p + 2 * num_rules in
      let precontext := p in
      let p := p + num_rules in
      if L <? p + 3 then PReject else
      match zr16 t (p + 1) with None => PTrap | Some pcl =>
      let p := p + 3 in
      let o_con := p in
      let p := p + 2 * (num_rules + 1) in
      let o_act := p in
      let p := p + 2 * (num_rules + 1) in
      let states := p in
      (* 2u * numTransition * numColumns >= (unsigned)(pass_end - p)  ||  p >= pass_end *)
      if (L <=? p) || (L - p <=? 2 * num_trans * num_cols) then PReject else
      let p := p + 2 * num_trans * num_cols + 1 in
      if negb (p =? pc) then PReject else
      let p := p + pcl in
      if negb (p =? rc) || negb (rc - pc =? pcl) then PReject else
      match zr16 t (o_con + 2 * num_rules) with None => PTrap | Some con_total =>
      let p := p + con_total in
      if negb (p =? ac) then PReject else
      match zr16 t (o_act + 2 * num_rules) with None => PTrap | Some act_total =>
      let p := p + act_total in
      if L <? p then PReject else
      let fixed := [(0, 40); (ranges, 6 * num_ranges); (o_rule_map, 2 * (num_succ + 1)); (rule_map, 2 * num_entries);
                    (start_states, 2 * (max_pre - min_pre + 1)); (sort_keys, 2 * num_rules); (precontext, num_rules);
                    (o_con, 2 * (num_rules + 1)); (o_act, 2 * (num_rules + 1)); (states, 2 * num_trans * num_cols); (pc, pcl)] in
      (* the pass constraint is loaded with precontext[0] and sort_keys[0] even when there are no rules *)
      let extra := if 0 <? pcl then [(precontext, 1); (sort_keys, 2)] else [] in
      if num_rules =? 0 then PAccept (extra ++ fixed)
      else rule_regions t (Z.to_nat num_rules) o_con o_act rc ac (rc + con_total) (ac + act_total) (rc + con_total) (ac + act_total) (extra ++ fixed)
      end end end
    | _, _ => PTrap
    end end end
  | _, _, _, _, _ => PTrap
  end
  | _, _, _, _, _ => PTrap
  end.
