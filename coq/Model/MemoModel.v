(* Model/MemoModel.v — the only state a face keeps between calls: the glyph cache (GlyphCache::glyph, src/GlyphCache.cpp), filled
   lazily or at construction (gr_face_preloadGlyphs), and the lazily created name table (Face::nameTable).  The table reader
   (Loader::read_glyph) is an oracle [load]: a pure function of the immutable font tables.  No proofs here. *)
From GR Require Import Base.Bytes.
From Coq Require Import NArith Bool.
Local Open Scope N_scope.

Section Memo.
  Variable V : Type.
  Variable load : N -> option V.            (* read_glyph(gid): None = the glyph cannot be read *)
  Variable n : N.                           (* numGlyphs() *)

  Record gcache := mkgc { gc_slots : list (option V); gc_loader : bool }.     (* _glyphs[], _glyph_loader != 0 *)

  Fixpoint set_nth (k : nat) (v : option V) (l : list (option V)) : list (option V) :=
    match k, l with
    | _, [] => []
    | O, _ :: r => v :: r
    | S j, x :: r => x :: set_nth j v r
    end.

  (* GlyphCache::glyph(gid): returns the glyph (None = null pointer) and the cache afterwards *)
  Definition glyph (gid : N) (c : gcache) : option V * gcache :=
    if n <=? gid then (nth 0 (gc_slots c) None, c)
    else match nth (N.to_nat gid) (gc_slots c) None with
         | Some v => (Some v, c)
         | None => if gc_loader c then
                     match load gid with
                     | Some v => (Some v, mkgc (set_nth (N.to_nat gid) (Some v) (gc_slots c)) true)
                     | None => (nth 0 (gc_slots c) None, c)                   (* return *_glyphs: the glyph 0 stands in, nothing is cached *)
                     end
                   else (None, c)
         end.

  (* construction without / with gr_face_preloadGlyphs; both end with glyph(0), whose failure fails the face *)
  Definition init_lazy : option gcache :=
    let c0 := mkgc (repeat None (N.to_nat n)) true in
    if n =? 0 then None else
    match glyph 0 c0 with (Some _, c1) => Some c1 | (None, _) => None end.

  Fixpoint load_all (k : nat) (from : N) : option (list (option V)) :=
    match k with
    | O => Some []
    | S j => match load from with
             | None => None                                                   (* a glyph that cannot be read: the whole cache is dropped *)
             | Some v => match load_all j (from + 1) with Some r => Some (Some v :: r) | None => None end
             end
    end.
  Definition init_preload : option gcache :=
    if n =? 0 then None else
    match load_all (N.to_nat n) 0 with Some l => Some (mkgc l false) | None => None end.

  (* what a lookup means, independent of any cache: *)
  Definition spec (gid : N) : option V :=
    if n <=? gid then load 0 else match load gid with Some v => Some v | None => load 0 end.

  (* a history of lookups *)
  Fixpoint run (c : gcache) (gids : list N) : list (option V) * gcache :=
    match gids with
    | [] => ([], c)
    | g :: r => let '(v, c1) := glyph g c in let '(vs, c2) := run c1 r in (v :: vs, c2)
    end.
End Memo.
