Require Extraction.
Require Import ExtrOcamlBasic.
From GR Require Import Base.Bytes Model.CmapModel Model.PseudoModel.
Extraction "cmap_model.ml" mem_of_list cmap_view bmp_subtable smp_subtable direct cached_build cached lookup4 lookup12 next4 next12 check4 check12 find_subtable find_pseudo initial_glyph char_supported.
