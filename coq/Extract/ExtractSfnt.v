Require Extraction.
Require Import ExtrOcamlBasic.
From GR Require Import Base.Bytes Model.SfntModel.
Extraction "sfnt_model.ml" file_table open_file.
