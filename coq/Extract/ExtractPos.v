Require Extraction.
Require Import ExtrOcamlBasic.
From GR Require Import Base.Bytes Model.PosModel.
Extraction "pos_model.ml" finalise position_bases bases_tie.
