Require Extraction.
Require Import ExtrOcamlBasic.
From GR Require Import Base.Bytes Model.ZonesModel.
Extraction "zones_model.ml" initialise zapply test_position cost.
