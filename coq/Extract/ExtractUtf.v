Require Extraction.
Require Import ExtrOcamlBasic.
From GR Require Import Base.Bytes Model.UtfModel.
Extraction "utf_model.ml" get8 get16 get32 validate8 validate16 validate32 count_end count_nul read_text put8 put16 put32.
