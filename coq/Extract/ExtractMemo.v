Require Extraction.
Require Import ExtrOcamlBasic.
From GR Require Import Base.Bytes Model.MemoModel.
Extraction "memo_model.ml" glyph run init_lazy init_preload spec.
