(* Extraction of the tag model for the correspondence driver: ExtrOcamlBasic directives only. *)
Require Extraction.
Require Import ExtrOcamlBasic.
From GR Require Import Base.Bytes Model.TagModel.
Extraction "tag_model.ml" str_to_tag tag_to_str apply_writes zeropad.
