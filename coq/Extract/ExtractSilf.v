Require Extraction.
Require Import ExtrOcamlBasic.
From GR Require Import Base.Bytes Base.Mem Model.ClassMapModel Model.PassModel Model.SilfModel.
Extraction "silf_model.ml" read_silf_table have_passes.
