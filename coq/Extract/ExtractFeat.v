Require Extraction.
Require Import ExtrOcamlBasic.
From GR Require Import Base.Bytes Base.Mem Model.FeatModel Model.TagModel.
Extraction "feat_model.ml" read_feats read_sill clone_for_lang set_val get_val set_val_on get_val_on blank find_fref zeropad.
