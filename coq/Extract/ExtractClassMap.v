Require Extraction.
Require Import ExtrOcamlBasic.
From GR Require Import Base.Bytes Base.Mem Model.ClassMapModel.
Extraction "classmap_model.ml" read_class_map.
