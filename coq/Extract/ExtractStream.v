Require Extraction.
Require Import ExtrOcamlBasic.
From GR Require Import Base.Bytes Model.StreamModel.
Extraction "stream_model.ml" st0 apply_op run_ops aget.
