Require Extraction.
Require Import ExtrOcamlBasic.
From GR Require Import Base.Bytes Model.TableModel.
Extraction "table_model.ml" tstep winit tnull lrun lbad_at ledger_ok lg0.
