Require Extraction.
Require Import ExtrOcamlBasic.
From GR Require Import Base.Bytes Model.RuleModel.
Extraction "rule_model.ml" run_passes run_passes_adj run_trace origins positions mkslot.
