Require Extraction.
Require Import ExtrOcamlBasic.
From GR Require Import Base.Bytes Model.VmModel.
Extraction "vm_model.ml" load run eval code.
