Require Extraction.
Require Import ExtrOcamlBasic.
From GR Require Import Base.Bytes Base.Mem Model.PassModel.
Extraction "pass_model.ml" read_pass mem_of_list.
