Require Extraction.
Require Import ExtrOcamlBasic.
From GR Require Import Base.Bytes Model.StreamModel Model.LineModel Model.LinePtrModel.
Extraction "line_model.ml" lapply lrun linit papply just_skeleton toggle_dir.
