Require Extraction.
Require Import ExtrOcamlBasic.
From GR Require Import Base.Bytes Model.StreamModel Model.LineModel.
Extraction "line_model.ml" lapply lrun linit.
