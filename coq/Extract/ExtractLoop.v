Require Extraction.
Require Import ExtrOcamlBasic.
From GR Require Import Base.Bytes Model.LoopModel.
Extraction "loop_model.ml" laccept lreject_at grun ginit growth_factor.
