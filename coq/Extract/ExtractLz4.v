Require Extraction.
Require Import ExtrOcamlBasic.
From GR Require Import Base.Bytes Model.Lz4Model Model.DecompModel.
Extraction "lz4_model.ml" decompress lz4_ref table_open announced.
