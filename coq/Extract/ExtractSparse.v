Require Extraction.
Require Import ExtrOcamlBasic.
From GR Require Import Base.Bytes Model.SparseModel.
Extraction "sparse_model.ml" build lookup capacity.
