Require Extraction.
Require Import ExtrOcamlBasic.
From GR Require Import Base.Bytes Base.Mem Model.FsmModel.
Extraction "fsm_model.ml" read_fsm run_fsm.
