Require Extraction.
Require Import ExtrOcamlBasic.
From GR Require Import Base.Bytes Base.Mem Model.GlatModel Model.SparseModel.
Extraction "glat_model.ml" glat_loader read_attrs build lookup capacity.
