(* Base/MemFacts.v — when checked reads succeed *)
From GR Require Import Base.Mem.
From Coq Require Import Lia ZifyN ZifyBool ZifyNat.
Local Open Scope N_scope.

Lemma mem_of_list_wf l : mem_wf (mem_of_list l).
Proof.
  intros i. unfold mem_of_list. cbn [m_rd m_len]. rewrite nth_error_Some. lia.
Qed.

Lemma rdb_some t i : mem_wf t -> i < tlen t -> exists v, rdb t i = Some v.
Proof.
  unfold rdb, tlen. intros W H. destruct (m_rd t i) eqn:E; [eexists; reflexivity|].
  exfalso. apply (proj2 (W i) H). exact E.
Qed.
Lemma rdb_none_ge t i : mem_wf t -> rdb t i <> None -> i < tlen t.
Proof. unfold rdb, tlen. intros W H. apply (proj1 (W i)). exact H. Qed.

Lemma r16_some t i : mem_wf t -> i + 2 <= tlen t -> exists v, r16 t i = Some v.
Proof.
  intros W H. unfold r16. destruct (rdb_some t i W) as [a Ha]; [lia|]. destruct (rdb_some t (i + 1) W) as [b Hb]; [lia|].
  rewrite Ha, Hb. cbn. eexists; reflexivity.
Qed.
Lemma r32_some t i : mem_wf t -> i + 4 <= tlen t -> exists v, r32 t i = Some v.
Proof.
  intros W H. unfold r32. destruct (r16_some t i W) as [a Ha]; [lia|]. destruct (r16_some t (i + 2) W) as [b Hb]; [lia|].
  rewrite Ha, Hb. cbn. eexists; reflexivity.
Qed.
Lemma r16_inside t i v : mem_wf t -> r16 t i = Some v -> i + 2 <= tlen t.
Proof.
  intros W. unfold r16. destruct (rdb t i) eqn:Ea; [|discriminate]. destruct (rdb t (i + 1)) eqn:Eb; [|discriminate].
  intros _. assert (H : rdb t (i + 1) <> None) by congruence. apply (rdb_none_ge t _ W) in H. lia.
Qed.

