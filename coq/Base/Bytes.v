(* Base/Bytes.v — byte strings, checked reads, big-endian words.  Shared by all models.
   A memory region is [list N] (each element < 256 by a separate hypothesis where needed);
   every read is checked: [None] is the out-of-bounds trap. *)
From Coq Require Export List NArith ZArith Lia Bool.
Export ListNotations.
Local Open Scope N_scope.

Definition bytes := list N.

Definition rd8 (m : bytes) (i : nat) : option N := nth_error m i.

Definition bind {A B} (o : option A) (f : A -> option B) : option B :=
  match o with Some a => f a | None => None end.
Notation "x <- e ;; k" := (bind e (fun x => k)) (at level 61, e at next level, right associativity).

Definition rd16 (m : bytes) (i : nat) : option N :=
  a <- rd8 m i ;; b <- rd8 m (S i) ;; Some (a * 256 + b).
Definition rd32 (m : bytes) (i : nat) : option N :=
  a <- rd16 m i ;; b <- rd16 m (S (S i)) ;; Some (a * 65536 + b).

Definition is_byte (b : N) : Prop := b < 256.
Definition all_bytes (l : bytes) : Prop := Forall is_byte l.

(* big-endian value of exactly four bytes *)
Definition be32 (a b c d : N) : N := a * 16777216 + b * 65536 + c * 256 + d.

Definition byte3 (t : N) : N := (t / 16777216) mod 256.   (* most significant *)
Definition byte2 (t : N) : N := (t / 65536) mod 256.
Definition byte1 (t : N) : N := (t / 256) mod 256.
Definition byte0 (t : N) : N := t mod 256.

Definition nth0 (l : bytes) (i : nat) : N := nth i l 0.
