(* Base/Bits.v — characterisations of shift / mask operations by div / mod, used by every codec proof *)
From Coq Require Import NArith Lia ZArith ZifyN ZifyBool.
Local Open Scope N_scope.

Ltac Zify.zify_post_hook ::= Z.to_euclidean_division_equations.

Lemma land_shiftl_disjoint a b n : a < 2 ^ n -> N.land a (N.shiftl b n) = 0.
Proof.
  intros Ha. apply N.bits_inj_0. intros m.
  rewrite N.land_spec.
  destruct (N.lt_ge_cases m n) as [Hlt|Hge].
  - rewrite (N.shiftl_spec_low b n m Hlt). apply Bool.andb_false_r.
  - assert (Ht : N.testbit a m = false).
    { rewrite <- (N.mod_small a (2 ^ n)) by exact Ha. apply N.mod_pow2_bits_high. exact Hge. }
    rewrite Ht. reflexivity.
Qed.

Lemma lor_shiftl_add a b n : a < 2 ^ n -> N.lor a (N.shiftl b n) = a + b * 2 ^ n.
Proof.
  intros Ha.
  rewrite <- N.lxor_lor by (apply land_shiftl_disjoint; exact Ha).
  rewrite <- N.add_nocarry_lxor by (apply land_shiftl_disjoint; exact Ha).
  rewrite N.shiftl_mul_pow2. reflexivity.
Qed.

Lemma land_ones_mod a n : N.land a (N.ones n) = a mod 2 ^ n.
Proof. apply N.land_ones. Qed.

Lemma shiftr_div a n : N.shiftr a n = a / 2 ^ n.
Proof. apply N.shiftr_div_pow2. Qed.

(* masks that clear the low n bits, for values below 2^32 *)
Lemma land_himask x n : n <= 32 -> x < 2 ^ 32 ->
  N.land x (N.shiftl (N.ones (32 - n)) n) = (x / 2 ^ n) * 2 ^ n.
Proof.
  intros Hn Hx. apply N.bits_inj. intros m.
  rewrite N.land_spec, <- N.shiftl_mul_pow2, <- N.shiftr_div_pow2.
  destruct (N.lt_ge_cases m n) as [Hlt|Hge].
  - rewrite !N.shiftl_spec_low by exact Hlt. apply Bool.andb_false_r.
  - rewrite !N.shiftl_spec_high' by exact Hge.
    rewrite N.shiftr_spec'. replace (m - n + n) with m by lia.
    destruct (N.lt_ge_cases m 32) as [H32|H32].
    + rewrite N.ones_spec_low by lia. apply Bool.andb_true_r.
    + rewrite N.ones_spec_high by lia. rewrite Bool.andb_false_r.
      symmetry. rewrite <- (N.mod_small x (2 ^ 32)) by exact Hx.
      apply N.mod_pow2_bits_high. exact H32.
Qed.

Lemma land_himask_w x n w : n <= w -> x < 2 ^ w ->
  N.land x (N.shiftl (N.ones (w - n)) n) = (x / 2 ^ n) * 2 ^ n.
Proof.
  intros Hn Hx. apply N.bits_inj. intros m.
  rewrite N.land_spec, <- N.shiftl_mul_pow2, <- N.shiftr_div_pow2.
  destruct (N.lt_ge_cases m n) as [Hlt|Hge].
  - rewrite !N.shiftl_spec_low by exact Hlt. apply Bool.andb_false_r.
  - rewrite !N.shiftl_spec_high' by exact Hge.
    rewrite N.shiftr_spec'. replace (m - n + n) with m by lia.
    destruct (N.lt_ge_cases m w) as [H32|H32].
    + rewrite N.ones_spec_low by lia. apply Bool.andb_true_r.
    + rewrite N.ones_spec_high by lia. rewrite Bool.andb_false_r.
      symmetry. rewrite <- (N.mod_small x (2 ^ w)) by exact Hx.
      apply N.mod_pow2_bits_high. exact H32.
Qed.
