(* Base/Mem.v — a font table seen through a checked accessor.  Models read through [rdb]/[r16]/[r32]; a read
   outside the table is [None] (the trap).  [mem_of_list] is the list-backed instance the theorems are about;
   the extracted drivers supply an array-backed instance. *)
From GR Require Export Base.Bytes.
Local Open Scope N_scope.

(* A table is seen through an accessor so that the extracted model can run on an array; [mem_of_list] is the
   list-backed instance the theorems are about (reading outside the list gives None). *)
Record mem := { m_len : N; m_rd : N -> option N }.
Definition mem_of_list (l : bytes) : mem := {| m_len := N.of_nat (length l); m_rd := fun i => nth_error l (N.to_nat i) |}.
Definition mem_wf (t : mem) : Prop := forall i, m_rd t i <> None <-> i < m_len t.
Definition mem_empty : mem := {| m_len := 0; m_rd := fun _ => None |}.
Definition rdb (t : mem) (i : N) : option N := m_rd t i.
Definition r16 (t : mem) (i : N) : option N := a <- rdb t i ;; b <- rdb t (i + 1) ;; Some (a * 256 + b).
Definition r32 (t : mem) (i : N) : option N := a <- r16 t i ;; b <- r16 t (i + 2) ;; Some (a * 65536 + b).
Definition tlen (t : mem) : N := m_len t.
Definition S64 : N := 0x10000000000000000.
Definition sub64 (a b : N) : N := (a + S64 - b) mod S64.           (* size_t subtraction *)

