(* Base/Sweep.v — finite sweeps: a boolean check evaluated by vm_compute on every element of a finite range,
   lifted to the universally quantified statement (the bound is part of each statement). *)
From Coq Require Import NArith List Lia Bool.
Local Open Scope N_scope.

Fixpoint all_from (fuel : nat) (i : N) (f : N -> bool) : bool :=
  match fuel with O => true | S k => if f i then all_from k (N.succ i) f else false end.

Lemma all_from_spec fuel : forall i f, all_from fuel i f = true ->
  forall u, i <= u -> u < i + N.of_nat fuel -> f u = true.
Proof.
  induction fuel as [|k IH]; intros i f H u Hlo Hhi.
  - cbn in Hhi. lia.
  - cbn [all_from] in H. destruct (f i) eqn:Ei; [|discriminate].
    destruct (N.eq_dec u i) as [->|Hne]; [exact Ei|].
    apply (IH (N.succ i) f H); lia.
Qed.

Definition all_below (n : N) (f : N -> bool) : bool := all_from (N.to_nat n) 0 f.
Lemma all_below_spec n f : all_below n f = true -> forall u, u < n -> f u = true.
Proof.
  intros H u Hu. apply (all_from_spec _ _ _ H); [lia|]. rewrite N2Nat.id. lia.
Qed.
