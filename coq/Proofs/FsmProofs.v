(* Proofs/FsmProofs.v — the tables Pass::readPass builds are well formed whatever the pass bytes hold, and over well-formed tables
   Pass::runFSM indexes no array outside its bounds for any glyph string, puts at most MAX_SLOTS slots in the map and accumulates at
   most MAX_RULES rules, each of them a rule of the pass. *)
From GR Require Import Base.Bytes Base.Mem Model.FsmModel.
From Coq Require Import NArith List Lia ZifyN ZifyBool ZifyNat Bool.
Import ListNotations.
Local Open Scope N_scope.

Definition rules_ok (f : fsm) (l : list N) : Prop := (length l <= MAX_RULES)%nat /\ Forall (fun r => r < f_nrules f) l.

Definition fsm_wf (f : fsm) : Prop :=
  length (f_cols f) = N.to_nat (f_nglyphs f) /\ Forall (fun c => c = NOCOL \/ c < f_ncols f) (f_cols f) /\
  length (f_starts f) = N.to_nat (f_maxpre f - f_minpre f + 1) /\ Forall (fun s => s < f_nstates f) (f_starts f) /\
  length (f_trans f) = N.to_nat (f_ntrans f * f_ncols f) /\ Forall (fun s => s < f_nstates f) (f_trans f) /\
  length (f_rules f) = N.to_nat (f_nstates f) /\ Forall (rules_ok f) (f_rules f).

(* ---------------------------------------------------------------- loading *)
Lemma read16s_length t : forall k p l, read16s t p k = Some l -> length l = k.
Proof.
  induction k as [|k IH]; intros p l H; cbn [read16s] in H.
  - injection H as <-. reflexivity.
  - destruct (r16 t p) as [v|]; [|discriminate]. destruct (read16s t (p + 2) k) as [r|] eqn:E; [|discriminate].
    injection H as <-. cbn [length]. f_equal. eapply IH. exact E.
Qed.

Lemma existsb_false_forall (n : N) l : existsb (fun s => n <=? s) l = false -> Forall (fun s => s < n) l.
Proof.
  induction l as [|a l IH]; cbn [existsb]; intros H; [constructor|].
  apply orb_false_elim in H. destruct H as [H1 H2]. constructor; [lia | apply IH; exact H2].
Qed.

Lemma upd_range_inv ncols col : col < ncols -> forall l n i l', upd_range l i n col = Some l' ->
  Forall (fun c => c = NOCOL \/ c < ncols) l -> length l' = length l /\ Forall (fun c => c = NOCOL \/ c < ncols) l'.
Proof.
  intros Hc. induction l as [|x r IH]; intros n i l' H F.
  - destruct n; cbn [upd_range] in H; [|discriminate]. injection H as <-. split; [reflexivity | exact F].
  - destruct n as [|n]; cbn [upd_range] in H.
    + injection H as <-. split; [reflexivity | exact F].
    + inversion F as [|? ? Fx Fr]; subst. destruct i as [|i'].
      * destruct (x =? NOCOL); [|discriminate].
        destruct (upd_range r O n col) as [r'|] eqn:E; [|discriminate]. injection H as <-.
        destruct (IH _ _ _ E Fr) as [L F']. split; [cbn [length]; congruence | constructor; [right; exact Hc | exact F']].
      * destruct (upd_range r i' (S n) col) as [r'|] eqn:E; [|discriminate]. injection H as <-.
        destruct (IH _ _ _ E Fr) as [L F']. split; [cbn [length]; congruence | constructor; [exact Fx | exact F']].
Qed.

Lemma read_ranges_inv t ng ncols : forall k p cols cols', read_ranges t p k ng ncols cols = Some (Some cols') ->
  Forall (fun c => c = NOCOL \/ c < ncols) cols -> length cols' = length cols /\ Forall (fun c => c = NOCOL \/ c < ncols) cols'.
Proof.
  induction k as [|k IH]; intros p cols cols' H F; cbn [read_ranges] in H.
  - injection H as <-. split; [reflexivity | exact F].
  - destruct (r16 t p) as [first|]; [|discriminate]. destruct (r16 t (p + 2)) as [last|]; [|discriminate].
    destruct (r16 t (p + 4)) as [col|]; [|discriminate].
    destruct ((last <? first) || (ng <? last + 1) || (ncols <=? col)) eqn:E; [discriminate|].
    destruct (upd_range cols (N.to_nat first) (N.to_nat (last - first + 1)) col) as [c1|] eqn:U; [|discriminate].
    destruct (upd_range_inv ncols col ltac:(lia) _ _ _ _ U F) as [L1 F1].
    destruct (IH _ _ _ H F1) as [L2 F2]. split; [congruence | exact F2].
Qed.

Lemma insert_rule_forall (P : N -> Prop) srt a : P a -> forall l, Forall P l -> Forall P (insert_rule srt a l).
Proof.
  intros Ha. induction l as [|b r IH]; intros F; cbn [insert_rule]; [constructor; [exact Ha | constructor]|].
  inversion F as [|? ? Fb Fr]; subst. destruct (rule_lt srt b a); constructor; auto.
Qed.
Lemma sort_rules_forall (P : N -> Prop) srt l : Forall P l -> Forall P (sort_rules srt l).
Proof.
  unfold sort_rules. induction l as [|a r IH]; intros F; cbn [fold_right]; [constructor|].
  inversion F; subst. apply insert_rule_forall; auto.
Qed.
Lemma forall_firstn {A} (P : A -> Prop) n : forall l, Forall P l -> Forall P (firstn n l).
Proof. induction n as [|n IH]; intros [|a l] F; cbn [firstn]; try constructor; inversion F; subst; auto. Qed.
Lemma forall_skipn {A} (P : A -> Prop) n : forall l, Forall P l -> Forall P (skipn n l).
Proof. induction n as [|n IH]; intros [|a l] F; cbn [skipn]; try assumption; try constructor. inversion F; subst; auto. Qed.

Lemma take_rules_length l : (length (take_rules l) <= MAX_RULES)%nat.
Proof. unfold take_rules. apply firstn_le_length. Qed.
Lemma take_rules_forall (P : N -> Prop) l : Forall P l -> Forall P (take_rules l).
Proof. unfold take_rules. apply forall_firstn. Qed.

Lemma state_rules_inv srt omap rmap nentries nstates nsucc nrules : Forall (fun r => r < nrules) rmap ->
  forall k s rs, state_rules srt omap rmap nentries nstates nsucc k s = Some rs ->
    length rs = k /\ Forall (fun l => (length l <= MAX_RULES)%nat /\ Forall (fun r => r < nrules) l) rs.
Proof.
  intros Fm. induction k as [|k IH]; intros s rs H; cbn [state_rules] in H.
  - injection H as <-. split; [reflexivity | constructor].
  - destruct (s <? nstates - nsucc).
    + destruct (state_rules srt omap rmap nentries nstates nsucc k (s + 1)) as [r|] eqn:E; [|discriminate]. injection H as <-.
      destruct (IH _ _ E) as [L F]. split; [cbn [length]; congruence|]. constructor; [|exact F]. split; [cbn; lia | constructor].
    + match type of H with (if ?c then _ else _) = _ => destruct c; [discriminate|] end.
      destruct (state_rules srt omap rmap nentries nstates nsucc k (s + 1)) as [r|] eqn:E; [|discriminate]. injection H as <-.
      destruct (IH _ _ E) as [L F]. split; [cbn [length]; congruence|]. constructor; [|exact F]. split.
      * apply take_rules_length.
      * apply take_rules_forall. apply sort_rules_forall. apply forall_firstn. apply forall_skipn. exact Fm.
Qed.

Lemma forall_repeat {A} (P : A -> Prop) a n : P a -> Forall P (repeat a n).
Proof. intros H. induction n; cbn [repeat]; constructor; auto. Qed.

Theorem read_fsm_wf t f : read_fsm t = FOk f -> f_nrules f <> 0 -> fsm_wf f.
Proof.
  unfold read_fsm.
  destruct (r16 t 4) as [nrules|]; [|discriminate]. destruct (r16 t 24) as [nstates|]; [|discriminate].
  destruct (r16 t 26) as [ntrans|]; [|discriminate]. destruct (r16 t 28) as [nsucc|]; [|discriminate].
  destruct (r16 t 30) as [ncols|]; [|discriminate]. destruct (r16 t 32) as [nranges|]; [|discriminate].
  destruct (nrules =? 0) eqn:E0.
  { intros H Hn. injection H as <-. cbn [f_nrules] in Hn. lia. }
  destruct (r16 t _) as [lastg|]; [|discriminate]. cbv zeta.
  destruct (read16s t _ (S (N.to_nat nsucc))) as [omap|]; [|discriminate].
  destruct (read16s t _ (N.to_nat (nth (N.to_nat nsucc) omap 0))) as [rmap|]; [|discriminate].
  destruct (rdb t _) as [minpre|]; [|discriminate]. destruct (rdb t _) as [maxpre|]; [|discriminate].
  destruct (read16s t _ (N.to_nat nrules)) as [srt|]; [|discriminate].
  destruct (read16s t _ (N.to_nat (maxpre - minpre + 1))) as [starts|] eqn:Es; [|discriminate].
  destruct (read16s t _ (N.to_nat (ntrans * ncols))) as [trans|] eqn:Et; [|discriminate].
  destruct (read_ranges t 40 _ _ ncols _) as [[cols|]|] eqn:Er; [|discriminate|discriminate].
  destruct (existsb (fun rn => nrules <=? rn) rmap) eqn:X1; [discriminate|].
  destruct (existsb (fun s => nstates <=? s) starts) eqn:X2; [discriminate|].
  destruct (existsb (fun s => nstates <=? s) trans) eqn:X3; [discriminate|].
  destruct (state_rules srt omap rmap _ nstates nsucc (N.to_nat nstates) 0) as [rules|] eqn:Sr; [|discriminate].
  intros H _. injection H as <-. unfold fsm_wf, rules_ok.
  cbn [f_cols f_nglyphs f_ncols f_starts f_maxpre f_minpre f_nstates f_trans f_ntrans f_rules f_nrules].
  destruct (read_ranges_inv _ _ _ _ _ _ _ Er (forall_repeat _ NOCOL _ (or_introl eq_refl))) as [Lc Fc].
  rewrite repeat_length in Lc.
  destruct (state_rules_inv _ _ _ _ _ _ nrules (existsb_false_forall _ _ X1) _ _ _ Sr) as [Lr Fr].
  split; [exact Lc|]. split; [exact Fc|]. split; [eapply read16s_length; exact Es|]. split; [apply existsb_false_forall; exact X2|].
  split; [eapply read16s_length; exact Et|]. split; [apply existsb_false_forall; exact X3|]. split; [exact Lr | exact Fr].
Qed.

(* ---------------------------------------------------------------- running *)
Lemma merge_rules_forall (P : N -> Prop) srt : forall l r, Forall P l -> Forall P r -> Forall P (merge_rules srt l r).
Proof.
  induction l as [|a l IHl]; intros r Fl Fr.
  - destruct r; exact Fr.
  - induction r as [|b r IHr].
    + exact Fl.
    + inversion Fl as [|? ? Pa Fl']; subst. inversion Fr as [|? ? Pb Fr']; subst.
      cbn [merge_rules]. destruct (rule_lt srt a b).
      * constructor; [exact Pa | apply IHl; assumption].
      * destruct (rule_lt srt b a).
        -- constructor; [exact Pb | apply IHr; assumption].
        -- constructor; [exact Pa | apply IHl; assumption].
Qed.

Lemma accumulate_ok f cur st : rules_ok f cur -> rules_ok f st -> rules_ok f (accumulate (f_sort f) cur st).
Proof.
  intros [Lc Fc] [Ls Fs]. unfold accumulate. destruct st as [|b st]; [split; assumption|].
  split; [apply take_rules_length | apply take_rules_forall; apply merge_rules_forall; assumption].
Qed.

Lemma nth_error_some {A} (l : list A) i : (i < length l)%nat -> exists x, nth_error l i = Some x /\ In x l.
Proof.
  intros H. destruct (nth_error l i) as [x|] eqn:E; [exists x; split; [reflexivity | eapply nth_error_In; exact E]|].
  apply nth_error_None in E. lia.
Qed.

Lemma fsm_loop_safe f : fsm_wf f -> forall fuel state gids free pushed rules,
  fuel = S free -> (1 <= free)%nat -> (pushed + free = MAX_SLOTS)%nat -> state < f_nstates f -> rules_ok f rules ->
  exists ok n rs, fsm_loop f fuel state gids free pushed rules = Some (ok, n, rs) /\ (n <= MAX_SLOTS)%nat /\ rules_ok f rs.
Proof.
  intros (Lc & Fc & Ls & Fs & Lt & Ft & Lr & Fr).
  induction fuel as [|fuel IH]; intros state gids free pushed rules Hf H1 Hp Hs Hr; [lia|].
  cbn [fsm_loop]. destruct gids as [|g rest].
  { do 3 eexists. split; [reflexivity|]. split; [lia | exact Hr]. }
  destruct (f_nglyphs f <=? g) eqn:Eg.
  { do 3 eexists. split; [reflexivity|]. split; [lia | exact Hr]. }
  destruct (nth_error_some (f_cols f) (N.to_nat g) ltac:(lia)) as [col [-> Hin]].
  rewrite Forall_forall in Fc. specialize (Fc col Hin).
  destruct (col =? NOCOL) eqn:Ec.
  { do 3 eexists. split; [reflexivity|]. split; [lia | exact Hr]. }
  destruct (Nat.eqb (free - 1) 0) eqn:Ef.
  { do 3 eexists. split; [reflexivity|]. split; [apply Nat.eqb_eq in Ef; lia | exact Hr]. }
  apply Nat.eqb_neq in Ef.
  destruct (f_ntrans f <=? state) eqn:En.
  { do 3 eexists. split; [reflexivity|]. split; [lia | exact Hr]. }
  assert (Hcol : col < f_ncols f) by (destruct Fc as [Fc|Fc]; [apply N.eqb_neq in Ec; contradiction | exact Fc]).
  destruct (nth_error_some (f_trans f) (N.to_nat (state * f_ncols f + col)) ltac:(nia)) as [state' [-> Hin']].
  rewrite Forall_forall in Ft. pose proof (Ft state' Hin') as Hs'.
  assert (Hacc : exists rules', (if f_nstates f - f_nsucc f <=? state'
            then match nth_error (f_rules f) (N.to_nat state') with Some sr => Some (accumulate (f_sort f) rules sr) | None => None end
            else Some rules) = Some rules' /\ rules_ok f rules').
  { destruct (f_nstates f - f_nsucc f <=? state'); [|exists rules; split; [reflexivity | exact Hr]].
    destruct (nth_error_some (f_rules f) (N.to_nat state') ltac:(lia)) as [sr [-> Hinr]].
    rewrite Forall_forall in Fr. exists (accumulate (f_sort f) rules sr). split; [reflexivity | apply accumulate_ok; [exact Hr | apply Fr; exact Hinr]]. }
  destruct Hacc as [rules' [-> Hr']].
  destruct rest as [|g2 rest'].
  { do 3 eexists. split; [reflexivity|]. split; [lia | exact Hr']. }
  destruct (state' =? 0).
  { do 3 eexists. split; [reflexivity|]. split; [lia | exact Hr']. }
  apply IH; try lia; assumption.
Qed.

Theorem run_fsm_safe f ctx gids : fsm_wf f ->
  exists ok n rs, run_fsm f ctx gids = Some (ok, n, rs) /\ (n <= MAX_SLOTS)%nat /\ rules_ok f rs.
Proof.
  intros W. unfold run_fsm. destruct (ctx <? f_minpre f) eqn:Ec.
  { do 3 eexists. split; [reflexivity|]. split; [lia|]. split; [cbn; lia | constructor]. }
  pose proof W as (Lc & Fc & Ls & Fs & _).
  destruct (nth_error_some (f_starts f) (N.to_nat (f_maxpre f - ctx)) ltac:(lia)) as [state [-> Hin]].
  rewrite Forall_forall in Fs.
  apply fsm_loop_safe; try assumption; try reflexivity; try (unfold MAX_SLOTS; lia); try (apply Fs; exact Hin).
  split; [cbn; lia | constructor].
Qed.
